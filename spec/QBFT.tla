------------------------------- MODULE QBFT -------------------------------
(* The node's QBFT for ONE validator / role / height: protocol/v2/qbft/instance (uponProposal, uponPrepare,
   UponCommit, uponRoundChange, UponRoundTimeout, isProposalJustification, validRoundChangeForData) driven
   through protocol/v2/qbft/controller (StartNewInstance, ProcessMsg, UponDecided, OnTimeout).

   st[i] is the projection of honest operator i's specqbft.State; containers are sets of <<signer, round,
   payload>> with first-message-per-signer-and-round wins (AddFirstMsgForSignerAndRound) and are normalised after
   every step like instance.Compact does (Norm).  `sent` is every message an honest operator broadcast.
   Byzantine messages are not stored: any well-formed message signed by a Byzantine operator is receivable at any
   time (RecvByz* actions); honest signatures cannot be forged, so every justification / certificate may only
   contain honest-signed parts that are in `sent`.  Loss, duplication, reordering: delivery is a non-consuming
   choice from `sent`.

   Code quirks modelled as they are:
   - CreateProposal stamps State.Round (not the round of the quorum) on the leader's proposal;
   - the leader proposes a prepared value only if the round-change that completes the quorum carries it
     (valueToPropose = signedRoundChange.FullData);
   - isProposalJustification validates EVERY round-change of the set against the proposed value's hash
     (a prepared round-change for another value invalidates the set);
   - UponCommit keeps returning "decided" for later commit quorums and ProcessMsg overwrites DecidedValue.

   Weaken removes one guard at a time (attack configs).  Macro selects quorum-at-once delivery of prepares /
   commits for the exhaustive configs (see DESIGN.md 2.1).                                                     *)
EXTENDS Integers, FiniteSets, Sequences, TLC

CONSTANTS N, F,
          Byz,            \* set of Byzantine / silent operators, |Byz| <= F
          Values,         \* values that pass the value check
          BadValues,      \* values that fail the value check
          MaxRound,       \* rounds explored (the code's cut-off is 15)
          LeaderOffset,   \* height mod N (leader rotation)
          StartValue,     \* [Ops -> Values]
          Weaken,         \* "none" or the name of a removed guard
          ByzBudget,      \* number of Byzantine receptions explored
          ByzActs,        \* subset of {"proposal","prepare","commit","rc","decided"}
          Macro           \* TRUE: quorum-at-once delivery of prepares/commits

Ops     == 1..N
Honest  == Ops \ Byz
Q       == 2 * F + 1
PQ      == F + 1
Rounds  == 1..MaxRound
None    == "none"
(* acc.value is the accepted proposal's ROOT (what prepares and commits are matched against), acc.data the FullData
   stored with it (what a local decision reports); isValidProposal makes them equal *)
NoProp  == [round |-> 0, value |-> None, from |-> 0, data |-> None]
AllVals == Values \cup BadValues
Leader(r) == ((LeaderOffset + r - 1) % N) + 1
ValueOK(v) == v \in Values \/ Weaken = "noValueCheck"
(* The value check is the OPERATOR'S OWN (ValueCheckF, e.g. its slashing protection): a value may pass at some correct
   operators and fail at others.  LocalBad[i] = values of `Values` that fail at operator i only; the default is
   "nobody differs" and configs override it (LocalBad <- ...).  `prep` says whether the proposal re-proposes a
   prepared value; Weaken = "noValueCheckOnReproposal" checks only freely chosen values. *)
LocalBad == [i \in Ops |-> {}]
LocalOK(i, r, v, prep) ==
    \/ v \notin LocalBad[i]
    \/ Weaken = "noValueCheck"
    \/ (Weaken = "noValueCheckOnReproposal" /\ r # 1 /\ prep)

VARIABLES st, sent, byzUsed, act
vars == <<st, sent, byzUsed, act>>
view == <<st, sent, byzUsed>>

Card(S) == Cardinality(S)
Signers(S) == {m.signer : m \in S}
AtRound(C, r) == {m \in C : m.round = r}
Has(C, s, r) == \E x \in C : x.signer = s /\ x.round = r

PrepSent(s, r, v) == [type |-> "prepare", signer |-> s, round |-> r, value |-> v] \in sent
CommSent(s, r, v) == [type |-> "commit",  signer |-> s, round |-> r, value |-> v] \in sent
(* with "noSigCheck" the adversary may speak for honest signers *)
Forgeable(s) == s \in Byz \/ Weaken = "noSigCheck"

(* a quorum of prepares for (pr, pv): honest members must really have sent theirs *)
ValidJust(js, pr, pv) == Card(js) >= Q /\ \A s \in js : Forgeable(s) \/ PrepSent(s, pr, pv)
PrepQuorumPossible(pr, pv) == Card({s \in Ops : Forgeable(s) \/ PrepSent(s, pr, pv)}) >= Q

(* validRoundChangeForData(rc, height, round, fullData = v) *)
ValidRCFor(rc, r, v) ==
    /\ (rc.round = r \/ Weaken = "noRCRoundCheck")
    /\ rc.pr # 0 => (rc.pv = v /\ ValidJust(rc.js, rc.pr, rc.pv) /\ rc.pr <= r)
(* validRoundChangeForData(rc, height, rc.round, rc.FullData): what BaseMsgValidation checks on reception *)
ValidRC(rc) == rc.pr # 0 => (ValidJust(rc.js, rc.pr, rc.pv) /\ rc.pr <= rc.round)

MaxPr(rcs) == CHOOSE p \in {rc.pr : rc \in rcs} : \A rc \in rcs : rc.pr <= p

(* isProposalJustification(roundChanges = rcs, prepares = pj for (pjpr,pjpv), round r, fullData v) *)
(* Weaken = "skipForeignLocks": round-changes prepared on ANOTHER value are skipped instead of invalidating the
   proposal, but still count towards the quorum (a "liveness fix" for the wedge of C07 that forgets the lock rule). *)
KeptRCs(rcs, v) == IF Weaken = "skipForeignLocks" THEN {rc \in rcs : rc.pr = 0 \/ rc.pv = v} ELSE rcs
Justified(rcs, pj, pjpr, pjpv, r, v) ==
    /\ ValueOK(v)
    /\ (r # 1 /\ Weaken # "noJustificationCheck") =>
            /\ \A rc \in KeptRCs(rcs, v) : ValidRCFor(rc, r, v)
            /\ Card(Signers(rcs)) >= Q
            /\ (\E rc \in KeptRCs(rcs, v) : rc.pr # 0) =>
                /\ Card(pj) >= Q
                /\ (Weaken # "noHighestPrepared") => (pjpr = MaxPr(KeptRCs(rcs, v)))
                /\ pjpv = v
                /\ \A s \in pj : Forgeable(s) \/ PrepSent(s, pjpr, pjpv)

(* can the adversary assemble a justification for <<r, v>> from honest round-changes in `sent` plus its own? *)
ByzJustifiable(r, v) ==
    /\ ValueOK(v)
    /\ (r # 1 /\ Weaken # "noJustificationCheck") =>
          LET usable == {rc \in sent : /\ rc.type = "rc" /\ (rc.round = r \/ Weaken = "noRCRoundCheck")
                                       /\ (rc.pr = 0 \/ (rc.pv = v /\ ValidJust(rc.js, rc.pr, rc.pv) /\ rc.pr <= r)
                                               \/ Weaken = "skipForeignLocks")}
          IN Card(Signers(usable) \cup {s \in Ops : Forgeable(s)}) >= Q

(* CreateRoundChange: prepared data + the prepare quorum held for it (none if the container lacks a quorum) *)
RCMsg(n, i, r) ==
    LET js == IF n.lpr = 0 THEN {}
              ELSE LET ss == Signers({m \in n.prep : m.round = n.lpr /\ m.value = n.lpv})
                   IN IF Card(ss) >= Q THEN ss ELSE {}
    IN [type |-> "rc", signer |-> i, round |-> r, pr |-> n.lpr, pv |-> n.lpv, js |-> js]
(* `cur` = State.Round at the moment the message is built: the round being left on the timeout path (the message is
   built before the bump), the NEW round on the f+1 pull path (built after it).  The faithful code reads the lock and
   its prepares by LastPreparedRound, so `cur` does not matter; Weaken = "rcDropsStaleLock" reads the prepares of
   `cur` instead and falls back to an unprepared round-change when they do not back the lock. *)
RCMsgAt(n, i, r, cur) ==
    IF Weaken = "rcDropsStaleLock" /\ n.lpr # 0 /\ n.lpr # cur
    THEN [type |-> "rc", signer |-> i, round |-> r, pr |-> 0, pv |-> None, js |-> {}]
    ELSE RCMsg(n, i, r)

PQuorum == IF Weaken = "prepareQuorum-1" THEN Q - 1 ELSE Q
CQuorum == IF Weaken = "commitQuorum-1" THEN Q - 1 ELSE Q

(* instance.Compact: previous rounds are dropped (prepares of the last prepared round are kept) *)
Norm(n) == [n EXCEPT !.prep = {x \in @ : x.round = n.round \/ x.round = n.lpr},
                     !.comm = {x \in @ : x.round = n.round},
                     !.rc   = {x \in @ : x.round >= n.round}]

Apply(i, n, out) == /\ st' = [st EXCEPT ![i] = Norm(n)]
                    /\ sent' = sent \cup out

UseByz(kind) == /\ byzUsed < ByzBudget /\ kind \in ByzActs
                /\ byzUsed' = byzUsed + 1
NoByz  == UNCHANGED byzUsed

FreshNode == [started |-> FALSE, round |-> 1, acc |-> NoProp, lpr |-> 0, lpv |-> None,
              decided |-> FALSE, dval |-> None, dround |-> 0, cround |-> 0, cval |-> None, dsigners |-> {}, dlocal |-> FALSE, dfrom |-> 0,
              prep |-> {}, comm |-> {}, rc |-> {}]
---------------------------------------------------------------------------
Init ==
    /\ st = [i \in Honest |-> FreshNode]
    /\ sent = {}
    /\ byzUsed = 0
    /\ act = [name |-> "init"]

(* Controller.StartNewInstance -> Instance.Start: the round-1 leader proposes its start value.
   Refused ("instance already running") if a decided message already created the instance. *)
Start(i) ==
    LET n == st[i] IN
    /\ ~n.started /\ ~n.decided
    /\ Apply(i, [n EXCEPT !.started = TRUE],
             IF Leader(1) = i
             THEN {[type |-> "proposal", signer |-> i, round |-> 1, value |-> StartValue[i],
                    rcj |-> {}, pj |-> {}, pjpr |-> 0, pjpv |-> None]}
             ELSE {})
    /\ NoByz
    /\ act' = [name |-> "Start", to |-> i, value |-> StartValue[i]]

(* uponProposal (+ isValidProposal's state clause) *)
DoProposalD(i, signer, r, v, d) ==
    LET n == st[i] IN
    /\ n.started
    /\ r >= n.round
    /\ (Weaken # "noLeaderCheck") => signer = Leader(IF Weaken = "leaderOfCurrentRound" THEN n.round ELSE r)
    /\ \/ (n.acc = NoProp /\ r = n.round) \/ r > n.round
       \/ (Weaken = "secondProposalSameRound" /\ r = n.round /\ n.acc.value # v)
    /\ Apply(i, [n EXCEPT !.acc = [round |-> r, value |-> v, from |-> signer, data |-> d], !.round = r],
             {[type |-> "prepare", signer |-> i, round |-> r, value |-> d]})   \* uponProposal hashes FullData for its prepare
DoProposal(i, signer, r, v) == DoProposalD(i, signer, r, v, v)

RecvProposal(i) ==
    \E m \in sent :
        /\ m.type = "proposal"
        /\ Justified(m.rcj, m.pj, m.pjpr, m.pjpv, m.round, m.value)
        /\ LocalOK(i, m.round, m.value, \E rc \in m.rcj : rc.pr # 0)
        /\ DoProposal(i, m.signer, m.round, m.value) /\ NoByz
        /\ act' = [name |-> "RecvProposal", to |-> i, from |-> m.signer, round |-> m.round, value |-> m.value]

(* FullData is not covered by the proposal's signature: anybody relaying a proposal (leader included) can substitute it.
   isValidProposal refuses when H(FullData) # Root - a stuttering step of the faithful spec.  Weaken =
   "noRootCheckLaterRounds" hashes the data only for round-1 proposals: a later-round proposal whose substituted data is
   itself justified and passes the value check is accepted with root v and data d (round-3 seed C02-seed5). *)
RecvSubstProposal(i) ==
    \E m \in sent, d \in AllVals :
        /\ m.type = "proposal" /\ d # m.value
        /\ UseByz("subst")
        /\ IF /\ Weaken = "noRootCheckLaterRounds" /\ m.round > 1
              /\ Justified(m.rcj, m.pj, m.pjpr, m.pjpv, m.round, d)
              /\ LocalOK(i, m.round, d, \E rc \in m.rcj : rc.pr # 0)
              /\ ENABLED DoProposalD(i, m.signer, m.round, m.value, d)
           THEN DoProposalD(i, m.signer, m.round, m.value, d)
           ELSE UNCHANGED <<st, sent>>
        /\ act' = [name |-> "RecvSubstProposal", to |-> i, from |-> m.signer, round |-> m.round, value |-> m.value, data |-> d]

RecvByzProposal(i) ==
    \E s \in Byz, r \in Rounds, v \in AllVals :
        /\ ByzJustifiable(r, v)
        /\ LocalOK(i, r, v, r # 1)
        /\ DoProposal(i, s, r, v) /\ UseByz("proposal")
        /\ act' = [name |-> "RecvByzProposal", to |-> i, from |-> s, round |-> r, value |-> v]

(* uponPrepare *)
DoPrepare(i, s, r, v) ==
    LET n == st[i] IN
    /\ n.started /\ n.acc # NoProp /\ r = n.round /\ v = n.acc.value
    /\ ~Has(n.prep, s, r) \/ Weaken = "countDuplicates"
    /\ LET before == Card(Signers(AtRound(n.prep, r))) >= PQuorum
           newC   == n.prep \cup {[signer |-> s, round |-> r, value |-> v]}
           after  == Card(Signers(AtRound(newC, r))) >= PQuorum
       IN IF ~before /\ after
          THEN Apply(i, IF Weaken = "noLockOnPrepareQuorum" THEN [n EXCEPT !.prep = newC]
                        ELSE [n EXCEPT !.prep = newC, !.lpr = r, !.lpv = n.acc.data],
                     {[type |-> "commit", signer |-> i, round |-> r, value |-> v]})
          ELSE Apply(i, [n EXCEPT !.prep = newC], {})

RecvPrepare(i) ==
    \E m \in sent : /\ m.type = "prepare"
                    /\ DoPrepare(i, m.signer, m.round, m.value) /\ NoByz
                    /\ act' = [name |-> "RecvPrepare", to |-> i, from |-> m.signer, round |-> m.round, value |-> m.value]
RecvByzPrepare(i) ==
    \E s \in Byz : /\ st[i].acc # NoProp
                   /\ DoPrepare(i, s, st[i].round, st[i].acc.value) /\ UseByz("prepare")
                   /\ act' = [name |-> "RecvByzPrepare", to |-> i, from |-> s, round |-> st[i].round, value |-> st[i].acc.value]

(* UponCommit: a quorum of commits for the accepted proposal's root in the current round decides (again and
   again: later quorums overwrite the decided value) *)
DoCommit(i, s, r, v) ==
    LET n == st[i] IN
    /\ n.started /\ n.acc # NoProp
    /\ (r = n.round \/ Weaken = "commitAcrossRounds")
    /\ (v = n.acc.value \/ Weaken = "commitAnyRoot")
    /\ ~Has(n.comm, s, r)
    /\ LET newC == n.comm \cup {[signer |-> s, round |-> r, value |-> v]}
           cs   == Signers({x \in newC : (x.round = r \/ Weaken = "commitAcrossRounds") /\ x.value = v})
       IN IF Card(cs) >= CQuorum
          THEN Apply(i, [n EXCEPT !.comm = newC, !.decided = TRUE, !.dval = n.acc.data, !.dround = n.round, !.cround = n.round, !.cval = n.acc.value,
                                  !.dsigners = cs, !.dlocal = TRUE, !.dfrom = n.acc.from], {})
          ELSE Apply(i, [n EXCEPT !.comm = newC], {})

RecvCommit(i) ==
    \E m \in sent : /\ m.type = "commit"
                    /\ DoCommit(i, m.signer, m.round, m.value) /\ NoByz
                    /\ act' = [name |-> "RecvCommit", to |-> i, from |-> m.signer, round |-> m.round, value |-> m.value]
RecvByzCommit(i) ==
    \E s \in Byz : /\ st[i].acc # NoProp
                   /\ DoCommit(i, s, st[i].round, st[i].acc.value) /\ UseByz("commit")
                   /\ act' = [name |-> "RecvByzCommit", to |-> i, from |-> s, round |-> st[i].round, value |-> st[i].acc.value]

(* Controller.UponDecided: an aggregated commit of >= quorum signers; creates the instance if needed.
   A VALID certificate: distinct committee members, quorum size, honest members really sent that commit. *)
CertOK(S, r, v) == /\ S \subseteq Ops /\ Card(S) >= Q
                   /\ \A s \in S : Forgeable(s) \/ CommSent(s, r, v)
RecvDecided(i) ==
    \E r \in Rounds, v \in AllVals, S \in SUBSET Ops :
        LET n == st[i] IN
        /\ CertOK(S, r, v)
        /\ IF S \subseteq Honest THEN NoByz ELSE UseByz("decided")
        /\ ~n.decided \/ Card(S) > Card(n.dsigners)       \* otherwise nothing changes (not saved, no report)
        /\ IF ~n.decided
           THEN Apply(i, [n EXCEPT !.decided = TRUE, !.dval = v, !.round = r, !.dround = r, !.cround = r, !.cval = v, !.dsigners = S,
                                   !.comm = @ \cup {[signer |-> s, round |-> r, value |-> v] : s \in S}], {})
           ELSE Apply(i, [n EXCEPT !.dsigners = S, !.cround = r, !.cval = v,
                                   !.comm = @ \cup {[signer |-> s, round |-> r, value |-> v] : s \in S}], {})
        /\ act' = [name |-> "RecvDecided", to |-> i, round |-> r, value |-> v, signers |-> S, kind |-> "valid"]

(* forged certificates: every kind is refused by ValidateDecided / IsDecidedMsg / signature verification.
   Weaken = "decided:<kind>" lets that kind through (attack configs). *)
ForgeKinds == {"subQuorum", "dupSigner", "zeroSigner", "foreignSigner", "badAggregate", "valueNotRoot",
               "wrongIdentifier", "notCommitType"}
RecvForgedDecided(i) ==
    \E k \in ForgeKinds, r \in Rounds, v \in AllVals :
        LET n == st[i] IN
        /\ UseByz("decided")
        /\ IF Weaken = "decided:" \o k /\ ~n.decided
           THEN Apply(i, [n EXCEPT !.decided = TRUE, !.dval = v, !.round = r, !.dround = r, !.cround = r, !.cval = v, !.dsigners = Byz], {})
           ELSE IF /\ Weaken = "decidedLate:valueNotRoot" /\ k = "valueNotRoot"
                   \* the data-vs-root check is made only for the FIRST certificate of a height: a larger genuine
                   \* certificate for the decided round and value, with its full data replaced, is stored and reported
                   /\ n.decided /\ v = n.dval /\ r = n.cround
                   /\ Card(n.dsigners) < Card(Byz \cup {s \in Honest : CommSent(s, r, v)})
           THEN Apply(i, [n EXCEPT !.cval = CHOOSE b \in BadValues : TRUE,
                                   !.dsigners = Byz \cup {s \in Honest : CommSent(s, r, v)}], {})
           ELSE UNCHANGED <<st, sent>>
        /\ act' = [name |-> "RecvForgedDecided", to |-> i, round |-> r, value |-> v, kind |-> k]

(* a signature is only valid for the message it was made over: prepares that operator i holds, re-labelled as
   commits (same signer, same signature bytes), are refused.  Weaken = "sigCache" (verification results cached by
   signers + signature bytes, ignoring the message) lets them count as commits of their signers. *)
RecvRelabeled(i) ==
    LET n == st[i]
        S == Signers({x \in n.prep : x.round = n.round /\ x.value = n.acc.value}) \cap Honest
    IN /\ n.started /\ n.acc # NoProp /\ S # {}
       /\ UseByz("relabel")
       /\ IF Weaken = "sigCache"
          THEN LET newC == n.comm \cup {[signer |-> s, round |-> n.round, value |-> n.acc.value] : s \in S}
                   cs == Signers({x \in newC : x.round = n.round /\ x.value = n.acc.value})
               IN IF Card(cs) >= CQuorum
                  THEN Apply(i, [n EXCEPT !.comm = newC, !.decided = TRUE, !.dval = n.acc.data, !.dround = n.round, !.cround = n.round, !.cval = n.acc.value,
                                          !.dsigners = cs, !.dlocal = TRUE, !.dfrom = n.acc.from], {})
                  ELSE Apply(i, [n EXCEPT !.comm = newC], {})
          ELSE UNCHANGED <<st, sent>>
       /\ act' = [name |-> "RecvRelabeled", to |-> i, signers |-> S, round |-> n.round, value |-> n.acc.value]

(* uponRoundChange: three outcomes - leader proposes / f+1 pull to a higher round / nothing *)
DoRC(i, m) ==
    LET n == st[i] IN
    /\ n.started
    /\ m.round >= n.round
    /\ ValidRC(m)
    /\ ~Has(n.rc, m.signer, m.round)
    /\ LET r       == m.round
           before  == Card(Signers(AtRound(n.rc, r))) >= Q
           newC    == n.rc \cup {m}
           rcs     == AtRound(newC, r)
           quorum  == Card(Signers(rcs)) >= Q
           roundOK == (n.acc = NoProp /\ n.round = r) \/ r > n.round
           valFor(x) == IF x.pr # 0 THEN m.pv ELSE StartValue[i]
           cands   == {x \in rcs : /\ valFor(x) # None
                                   /\ Justified(rcs, x.js, x.pr, x.pv, r, valFor(x))
                                   /\ LocalOK(i, r, valFor(x), x.pr # 0)
                                   /\ (Leader(r) = i \/ Weaken = "noLeaderCheckOnPropose") /\ roundOK}
           higher  == {x \in newC : x.round > n.round}
           n1      == [n EXCEPT !.rc = newC]
       IN IF before THEN Apply(i, n1, {})
          ELSE IF quorum /\ cands # {} /\ Weaken # "leaderSilentOnRCQuorum"
          THEN LET c == CHOOSE x \in cands : \A y \in cands : x.signer <= y.signer
               IN Apply(i, n1, {[type |-> "proposal", signer |-> i, round |-> n.round, value |-> valFor(c),
                                 rcj |-> AtRound(newC, n.round), pj |-> c.js, pjpr |-> c.pr, pjpv |-> c.pv]})
          ELSE IF Card(Signers(higher)) >= PQ /\ Weaken # "noPartialQuorumPull"
          THEN LET nr == CHOOSE p \in {x.round : x \in higher} : \A x \in higher : p <= x.round
               IN IF nr > n.round
                  THEN Apply(i, [n1 EXCEPT !.round = nr, !.acc = NoProp], {RCMsgAt(n, i, nr, nr)})
                  ELSE Apply(i, n1, {})
          ELSE Apply(i, n1, {})

RecvRC(i) ==
    \E m \in sent : /\ m.type = "rc"
                    /\ DoRC(i, m) /\ NoByz
                    /\ act' = [name |-> "RecvRC", to |-> i, from |-> m.signer, round |-> m.round, pr |-> m.pr, pv |-> m.pv]
RecvByzRC(i) ==
    \E s \in Byz, r \in Rounds :
        \/ /\ DoRC(i, [type |-> "rc", signer |-> s, round |-> r, pr |-> 0, pv |-> None, js |-> {}]) /\ UseByz("rc")
           /\ act' = [name |-> "RecvByzRC", to |-> i, from |-> s, round |-> r, pr |-> 0, pv |-> None]
        \/ \E pr \in Rounds, pv \in Values :
              /\ pr <= r
              /\ PrepQuorumPossible(pr, pv)
              /\ DoRC(i, [type |-> "rc", signer |-> s, round |-> r, pr |-> pr, pv |-> pv,
                          js |-> {h \in Ops : Forgeable(h) \/ PrepSent(h, pr, pv)}]) /\ UseByz("rc")
              /\ act' = [name |-> "RecvByzRC", to |-> i, from |-> s, round |-> r, pr |-> pr, pv |-> pv]

(* Controller.OnTimeout -> UponRoundTimeout (not for decided instances) *)
Timeout(i) ==
    LET n == st[i] IN
    /\ n.started /\ ~n.decided
    /\ n.round < MaxRound
    /\ Apply(i, [n EXCEPT !.round = @ + 1,
                          !.acc = IF Weaken = "timeoutKeepsProposal" THEN @ ELSE NoProp],
             IF Weaken = "noRCBroadcast" THEN {} ELSE {RCMsgAt(n, i, n.round + 1, n.round)}) /\ NoByz
    /\ act' = [name |-> "Timeout", to |-> i, round |-> n.round]

(* ---- macro steps (exhaustive configs): a node receives a whole set S of prepares / commits back-to-back.
   Sub-quorum container contents are unobservable (any round bump discards them), so this is a schedule
   restriction that preserves quorum-level reachability (cross-checked on small constants, DESIGN.md 2.1). *)
AvailPrep(i) == {s \in Honest : PrepSent(s, st[i].round, st[i].acc.value)}
AvailComm(i) == {s \in Honest : CommSent(s, st[i].round, st[i].acc.value)}

PrepareQuorumStep(i) ==
    LET n == st[i] IN
    /\ n.started /\ n.acc # NoProp
    /\ Card(Signers(AtRound(n.prep, n.round))) < PQuorum
    /\ \E S \in SUBSET (AvailPrep(i) \cup Byz) :
          /\ Card(S) >= PQuorum
          /\ IF S \cap Byz # {} THEN UseByz("prepare") ELSE NoByz
          /\ Apply(i, IF Weaken = "noLockOnPrepareQuorum"
                      THEN [n EXCEPT !.prep = {[signer |-> s, round |-> n.round, value |-> n.acc.value] : s \in S}]
                      ELSE [n EXCEPT !.prep = {[signer |-> s, round |-> n.round, value |-> n.acc.value] : s \in S},
                                     !.lpr = n.round, !.lpv = n.acc.data],
                   {[type |-> "commit", signer |-> i, round |-> n.round, value |-> n.acc.value]})
          /\ act' = [name |-> "PrepareQuorum", to |-> i, signers |-> S, round |-> n.round, value |-> n.acc.value]

CommitQuorumStep(i) ==
    LET n == st[i] IN
    /\ n.started /\ n.acc # NoProp
    /\ \E S \in SUBSET (AvailComm(i) \cup Byz) :
          /\ Card(S) >= CQuorum
          /\ IF S \cap Byz # {} THEN UseByz("commit") ELSE NoByz
          /\ ~(n.decided /\ n.dval = n.acc.value)
          /\ Apply(i, [n EXCEPT !.comm = {[signer |-> s, round |-> n.round, value |-> n.acc.value] : s \in S},
                               !.decided = TRUE, !.dval = n.acc.data, !.dround = n.round, !.cround = n.round, !.cval = n.acc.value, !.dsigners = S,
                               !.dlocal = TRUE, !.dfrom = n.acc.from], {})
          /\ act' = [name |-> "CommitQuorum", to |-> i, signers |-> S, round |-> n.round, value |-> n.acc.value]

Next == \E i \in Honest :
          \/ Start(i) \/ RecvProposal(i) \/ RecvRC(i) \/ Timeout(i) \/ RecvDecided(i)
          \/ RecvByzProposal(i) \/ RecvByzRC(i) \/ RecvForgedDecided(i) \/ RecvRelabeled(i) \/ RecvSubstProposal(i)
          \/ (Macro /\ (PrepareQuorumStep(i) \/ CommitQuorumStep(i)))
          \/ (~Macro /\ (RecvPrepare(i) \/ RecvCommit(i) \/ RecvByzPrepare(i) \/ RecvByzCommit(i)))
Spec == Init /\ [][Next]_vars
---------------------------------------------------------------------------
(* C01 *)
Agreement == \A i, j \in Honest : st[i].decided /\ st[j].decided => st[i].dval = st[j].dval
DecidedStable == [][\A i \in Honest : st[i].decided => (st'[i].decided /\ st'[i].dval = st[i].dval)]_vars
(* C02: every decision an operator holds is backed by a quorum certificate whose honest members really
   committed to that (round, value); the value passed the value check when decided locally *)
CertValid == \A i \in Honest : st[i].decided =>
                /\ Card(st[i].dsigners) >= Q /\ st[i].dsigners \subseteq Ops
                /\ \A s \in st[i].dsigners \cap Honest : CommSent(s, st[i].cround, st[i].cval)
(* ... the value a local decision reports is the value its certificate is over ("the value hashes to that hash") *)
LocalDecisionMatchesCert == \A i \in Honest : (st[i].decided /\ st[i].dlocal) => st[i].dval = st[i].cval
(* ... and, when decided locally, the decided proposal came from the legitimate leader of its round *)
LocalDecisionFromLeader == \A i \in Honest : (st[i].decided /\ st[i].dlocal) => st[i].dfrom = Leader(st[i].dround)
(* an honest operator only ever commits to a value that passed its value check *)
CommittedValuesChecked == \A m \in sent : m.type \in {"prepare", "commit"} => (m.value \in Values /\ m.value \notin LocalBad[m.signer])
(* ... and a locally reached decision is on a value that passed the operator's OWN check *)
LocalDecisionChecked == \A i \in Honest : (st[i].decided /\ st[i].dlocal) => (st[i].dval \in Values /\ st[i].dval \notin LocalBad[i])
(* C07 (3): the timeout step *)
TimeoutStep == [][\A i \in Honest : (act'.name = "Timeout" /\ act'.to = i) =>
                     /\ st'[i].round = st[i].round + 1 /\ st'[i].acc = NoProp
                     /\ \E m \in sent' : m.type = "rc" /\ m.signer = i /\ m.round = st'[i].round]_vars
(* the premise of the known C07 wedge *)
NoConflictingLocks == ~ \E i, j \in Honest : st[i].lpr # 0 /\ st[j].lpr # 0 /\ st[i].lpv # st[j].lpv
(* ... and the wedge itself: conflicting prepared values while every correct operator has already left the rounds
   in which they were prepared (all in the last explored round, nothing accepted, nobody decided) *)
NoWedgeState == ~ (/\ ~NoConflictingLocks
                   /\ \A i \in Honest : st[i].started /\ ~st[i].decided /\ st[i].round = MaxRound /\ st[i].acc = NoProp)
TypeOK == \A i \in Honest : st[i].round \in Rounds /\ st[i].lpr \in 0..MaxRound
=============================================================================
