SPECIFICATION Spec
CONSTANTS
  MaxHead = 8
  Head0 = 6
  Start = 3
  Batches = {2}
  Follows = {1}
  Kinds = {"one","none"}
  KindSample = {}
  LowKind = "one"
  MaxFaults = 1
  Algo = "code0"
  Weaken = "none"
  Hist = TRUE
INVARIANT NoGapDelivered
VIEW view
