SPECIFICATION Spec
CONSTANTS
  MaxH = 1
  MaxRestarts = 2
  FullNode = TRUE
  Cap = 2
  Weaken = "none"
  GapFix = FALSE
  CertRounds = {1}
  Direct = FALSE
  MidCrash = FALSE
  Timeouts = FALSE
  MaxWriteFaults = 0
  MaxReadFaults = 1
  ReadKinds = {"err", "empty", "garbage"}
  ReadFix = FALSE
INVARIANT ContainerOK
INVARIANT TopIsHeight
INVARIANT StorageShape
INVARIANT RestartResumes
PROPERTY NoRerunExceptFailedLoad
PROPERTY NoRerunCtl
PROPERTY HeightMonotone
PROPERTY HighestMonotoneExceptFailedLoad
PROPERTY HistMonotoneExceptRerun
PROPERTY RestartCoversLearned
INVARIANT HistBehindHighest
VIEW view
