SPECIFICATION Spec
CONSTANTS
  MaxH = 2
  MaxRestarts = 1
  FullNode = TRUE
  Cap = 2
  Weaken = "none"
  GapFix = FALSE
  CertRounds = {1}
  Direct = FALSE
  MidCrash = FALSE
  Timeouts = FALSE
  MaxWriteFaults = 0
  MaxReadFaults = 1
  ReadKinds = {"err", "garbage"}
  ReadFix = TRUE
INVARIANT ContainerOK
INVARIANT TopIsHeight
INVARIANT StorageShape
INVARIANT RestartResumes
INVARIANT RestartRefuses
PROPERTY NoRerun
PROPERTY NoRerunCtl
PROPERTY HeightMonotone
PROPERTY HighestMonotone
PROPERTY HistMonotoneStrictReads
PROPERTY RestartCoversLearned
INVARIANT HistBehindHighest
VIEW view
