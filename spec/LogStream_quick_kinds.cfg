SPECIFICATION Spec
CONSTANTS
  MaxHead = 6
  Head0 = 5
  Start = 3
  Batches = {2,3}
  Follows = {1}
  Kinds = {"none","one","two","rm","mix"}
  KindSample = {}
  LowKind = "two"
  MaxFaults = 2
  Algo = "fixed"
  Weaken = "none"
  Hist = TRUE
INVARIANT TypeOK
INVARIANT StrictlyIncreasing
INVARIANT ExactlyOnce
INVARIANT NoRewind
INVARIANT PerBlockComplete
INVARIANT NoGapDelivered
INVARIANT NoGapCursor
INVARIANT FollowRespected
INVARIANT CursorAhead
VIEW view
