SPECIFICATION Spec
CONSTANTS
  Owners <- MCOwners
  Validators <- MCValidators
  OpIds <- MCOpIds
  Alphabet <- AlphaCrash
  Setups <- SetupsCrash
  MaxEvents = 4
  MaxBlocks = 2
  MaxFaults = 2
  Grain = "op"
  Weaken = "none"
  Stale = TRUE
  ReadFaults = TRUE
INVARIANT DbMatchesRules
INVARIANT KeysMatchRules
INVARIANT MemMatchesDb
INVARIANT LastBlockRight
INVARIANT OwnStable
INVARIANT TypeOK
VIEW view
