SPECIFICATION Spec
CONSTANTS
  Role = "sync"
  SPE = 4
  EPP = 3
  MaxEpoch = 3
  Validators = {1, 2}
  Actives = {{1}, {1, 2}}
  StartSlots = {0}
  Lags = {0}
  MaxReorgs = 1
  MaxIdx = 1
  MaxFails = 0
  InitDuties = FALSE
  Weaken = "noResetInFetch"
INVARIANT AtMostOnce
INVARIANT AtItsSlot
INVARIANT OnlyIfAssigned
INVARIANT InWindow
INVARIANT ExactlyOnceWhenValid
VIEW view
