------------------------------- MODULE Runner -------------------------------
(* protocol/v2/ssv/runner + protocol/v2/ssv/validator: when does a duty runner of a consensus role sign with the
   validator key share (KeyManager.SignBeaconObject)?

     Validator.ProcessMessage / validateMessage (validator.go)                 -> RecvForeign
     BaseRunner.baseStartNewDuty / ShouldProcessDuty / baseSetupForNewDuty     -> StartDuty
     <Role>Runner.executeDuty (pre-consensus proof or decide)                  -> StartDuty
     BaseRunner.basePreConsensusMsgProcessing + <Role>Runner.ProcessPreConsensus (quorum -> decide) -> RecvPre
     BaseRunner.decide / Controller.StartNewInstance                           -> Decide
     BaseRunner.baseConsensusMsgProcessing, didDecideCorrectly, validateDecidedConsensusData,
       Controller.ProcessMsg / UponDecided / UponExistingInstanceMsg            -> RecvSeq, RecvDecided
     InstanceContainer.addNewInstance / FindInstance (controller/types.go; same transcription as
       spec/Controller.tla AddInst), production capacity InstanceContainerDefaultCapacity = 2 -> AddInst, Idx
     <Role>Runner.ProcessConsensus (signBeaconObject over the objects of the decided value)        -> Report
     BaseRunner.basePostConsensusMsgProcessing / ValidatePostConsensusMsg, Finished                -> RecvPost

   One action = one public call (StartDuty, or ProcessMessage with one message), except the two macro steps that
   deliver a whole quorum at once (the deciding sequence proposal/prepares/commits of one height, the quorum of
   pre- or post-consensus partial signatures): per-message grain of QBFT is spec QBFT's, of the containers spec
   PartialSig's.  Heights = slots 1..MaxSlot (the height-0 special cases of the controller are C15's).

   The controller stores at most Cap instances, sorted by height, highest first; State.RunningInstance is a POINTER
   to the instance the runner started.  While that instance is stored (runIn) the stored record is the running
   instance; once decided messages for Cap higher heights pushed it out, the runner still holds the object
   (runSt/runVal, frozen: no message reaches it any more) while the controller treats its height as unknown:
   UponDecided builds a fresh instance for it (not stored: lowest height, container full) and reports the decided
   message as a new decision EVERY time.

   Values: "valid" = what this operator proposes itself, "alt" = another value that passes the duty's value
   check, "invalid" = a value that fails it.  A value decided at height h is consensus data for slot h.

   PrevDec = "code"  : prevDecided := State.RunningInstance.IsDecided() (the pinned commit).  If the running instance
                       was pushed out BEFORE it decided it never becomes decided, so every delivery of its height's
                       decided message signs again (named deviation; C03 finding signed-twice-evicted-undecided,
                       repaired in the repository by "fix: a decision already used for the running duty must not be
                       signed again"; kept as attack config Runner_attack_code_detached*.cfg).
   PrevDec = "fixed" : ... || State.DecidedValue != nil (the repair).  The check replays the deviation's counterexample
                       first and generates covers from the variant the tree under test implements.
   Weaken "prevDecidedFromContainer": prevDecided read from StoredInstances.FindInstance(msg.Height) instead: a DECIDED
                       running instance that was pushed out is then taken for undecided and signs again on a replay.  *)
EXTENDS Integers, Sequences, FiniteSets, TLC

CONSTANTS HasPre,     \* TRUE: proposer, aggregator, sync-committee contribution (pre-consensus proof when the duty starts)
          MaxSlot,
          MaxSig,     \* bound of sigLog
          Cap,        \* capacity of Controller.StoredInstances (2 in production)
          Vals,       \* values carried by consensus messages, subset of {"valid", "alt", "invalid"}
          Quorums,    \* signer sets of decided messages, subset of {"q1" (operators 1..Q), "q2" (2..Q+1), "all"}
          PrevDec,    \* "code" | "fixed"
          Weaken      \* removed / changed guards: "noHeightCheck","noPrevDecided","noCtrlPrevDecided","noRevalidate",
                      \* "noRouteCheck","prevDecidedFromContainer"

VARIABLES duty,       \* slot of State.StartingDuty, 0 = no State yet
          preDone,    \* pre-consensus quorum was processed (decide was attempted)
          runH,       \* height of State.RunningInstance, 0 = nil
          runIn,      \* the running instance is (still) the stored instance of its height
          runSt,      \* state / decided value of the running instance after it was pushed out of the container
          runVal,
          dval,       \* State.DecidedValue: "none" | "valid" | "alt"
          finished,   \* State.Finished
          ctrlH,      \* Controller.Height
          stored,     \* Controller.StoredInstances: sequence of [h, st: "run"|"stopped"|"dec", val], highest height first
          sigLog,     \* sequence of SignBeaconObject records
          act
vars == <<duty, preDone, runH, runIn, runSt, runVal, dval, finished, ctrlH, stored, sigLog, act>>
view == <<duty, preDone, runH, runIn, runSt, runVal, dval, finished, ctrlH, stored, sigLog>>

Slots == 1..MaxSlot
W(g) == g \in Weaken
Running == duty # 0 /\ ~finished                        \* hasRunningDuty

(* InstanceContainer.FindInstance / addNewInstance *)
Idx(st, h) == IF \E k \in 1..Len(st) : st[k].h = h THEN CHOOSE k \in 1..Len(st) : st[k].h = h ELSE 0
AddInst(st, inst) ==
    LET lower == {k \in 1..Len(st) : st[k].h < inst.h}
        at    == IF lower = {} THEN Len(st) + 1 ELSE CHOOSE k \in lower : \A j \in lower : k <= j
        n2    == IF Len(st) < Cap THEN Len(st) + 1 ELSE Cap
    IN IF at = Len(st) + 1
       THEN (IF Len(st) < Cap THEN Append(st, inst) ELSE st)        \* lowest and no room: not stored at all
       ELSE [k \in 1..n2 |-> IF k < at THEN st[k] ELSE IF k = at THEN inst ELSE st[k - 1]]   \* last one ejected when full
StoredSt(st, h) == IF Idx(st, h) = 0 THEN "none" ELSE st[Idx(st, h)].st
StoredVal(st, h) == IF Idx(st, h) = 0 THEN "none" ELSE st[Idx(st, h)].val

(* the running instance as the runner sees it through its pointer *)
RunSt(st, in, frozen) == IF runH = 0 THEN "none" ELSE IF in THEN StoredSt(st, runH) ELSE frozen
RunVal(st, in, frozen) == IF runH = 0 THEN "none" ELSE IF in THEN StoredVal(st, runH) ELSE frozen
RunDecidedNow == RunSt(stored, runIn, runSt) = "dec"

Init == /\ duty = 0 /\ preDone = FALSE /\ runH = 0 /\ runIn = FALSE /\ runSt = "none" /\ runVal = "none"
        /\ dval = "none" /\ finished = FALSE /\ ctrlH = 0
        /\ stored = <<>> /\ sigLog = <<>>
        /\ act = [name |-> "init"]

(* BaseRunner.decide -> Controller.StartNewInstance(height = duty slot).  Sets stored, ctrlH, runH, runIn, runSt, runVal *)
Decide(s) ==
    IF s < ctrlH \/ Idx(stored, s) # 0
    THEN /\ runH' = 0 /\ runIn' = FALSE /\ runSt' = "none" /\ runVal' = "none"      \* "past height" / "instance already running"
         /\ UNCHANGED <<stored, ctrlH>>
    ELSE LET st2 == AddInst(stored, [h |-> s, st |-> "run", val |-> "none"])
         IN /\ stored' = [k \in 1..Len(st2) |-> IF st2[k].h # s /\ st2[k].st = "run"
                                                 THEN [st2[k] EXCEPT !.st = "stopped"] ELSE st2[k]]   \* forceStopAllInstanceExceptCurrent
            /\ ctrlH' = s /\ runH' = s /\ runIn' = TRUE /\ runSt' = "none" /\ runVal' = "none"

PreSig(s) == [k |-> "pre", slot |-> s, h |-> 0, objH |-> 0, v |-> "none", instDec |-> FALSE, instVal |-> "none",
              foreign |-> FALSE, fin |-> FALSE, detached |-> FALSE]

StartDuty(s) ==
    /\ IF ctrlH >= s /\ ctrlH # 0                            \* ShouldProcessDuty
       THEN /\ UNCHANGED <<duty, preDone, runH, runIn, runSt, runVal, dval, finished, ctrlH, stored, sigLog>>
            /\ act' = [name |-> "StartDuty", s |-> s, ok |-> FALSE]
       ELSE /\ duty' = s /\ preDone' = FALSE /\ dval' = "none" /\ finished' = FALSE     \* baseSetupForNewDuty: new State
            /\ IF HasPre
               THEN /\ runH' = 0 /\ runIn' = FALSE /\ runSt' = "none" /\ runVal' = "none" /\ UNCHANGED <<ctrlH, stored>>
                    \* the proof of a slot is logged once: starting the same slot again (possible while the controller
                    \* height is below it) signs the same proof again, which C03 does not restrict
                    /\ sigLog' = IF Len(sigLog) < MaxSig /\ \A i \in 1..Len(sigLog) : sigLog[i] # PreSig(s)
                                 THEN Append(sigLog, PreSig(s)) ELSE sigLog
               ELSE Decide(s) /\ UNCHANGED sigLog
            /\ act' = [name |-> "StartDuty", s |-> s, ok |-> TRUE]

(* pre-consensus partial signatures (roles with HasPre): c = "quorum" (the correct messages that complete the
   quorum), "one" (a single correct message), "wrongSlot" *)
RecvPre(c) ==
    /\ HasPre
    /\ IF Running /\ c = "quorum" /\ ~preDone
       THEN preDone' = TRUE /\ Decide(duty)
       ELSE UNCHANGED <<preDone, stored, ctrlH, runH, runIn, runSt, runVal>>
    /\ UNCHANGED <<duty, dval, finished, sigLog>>
    /\ act' = [name |-> "RecvPre", c |-> c]

(* the stored sequence after an insertion / update keeps or loses the running instance *)
StillIn(st2) == runIn /\ Idx(st2, runH) # 0

(* what the runner does with the decided message the controller returned (h = its height, v = its value);
   st2 = the container after the controller call *)
Report(h, v, returned, prevDec, st2, foreignMsg) ==
    LET in2 == StillIn(st2)
        frozenSt == IF runIn /\ ~in2 THEN StoredSt(stored, runH) ELSE runSt       \* pushed out by this very call: state before it
        frozenVal == IF runIn /\ ~in2 THEN StoredVal(stored, runH) ELSE runVal
        rs == RunSt(st2, in2, frozenSt)
        rv == RunVal(st2, in2, frozenVal)
        correct == /\ returned
                   /\ runH # 0                                     \* "decided wrong instance"
                   /\ (h = runH \/ W("noHeightCheck"))
                   /\ (~prevDec \/ W("noPrevDecided"))
        ok == Running /\ correct
        valid == v # "invalid" \/ W("noRevalidate")               \* validateDecidedConsensusData
        e == [k |-> "post", slot |-> duty, h |-> runH, objH |-> h, v |-> v,
              instDec |-> (rs = "dec"), instVal |-> rv, foreign |-> foreignMsg, fin |-> finished,
              detached |-> (runH # 0 /\ ~in2 /\ rs # "dec")]
    IN /\ runIn' = in2 /\ runSt' = (IF in2 THEN "none" ELSE frozenSt) /\ runVal' = (IF in2 THEN "none" ELSE frozenVal)
       /\ dval' = IF ok /\ valid THEN v ELSE dval
       /\ sigLog' = IF ok /\ valid /\ Len(sigLog) < MaxSig THEN Append(sigLog, e) ELSE sigLog

(* prevDecided of baseConsensusMsgProcessing, evaluated before the controller call, for a message of height h *)
PrevDecided(h) ==
    IF W("prevDecidedFromContainer") THEN runH # 0 /\ StoredSt(stored, h) = "dec"
    ELSE \/ RunDecidedNow
         \/ PrevDec = "fixed" /\ Running /\ dval # "none"

(* the genuine deciding sequence (proposal of the leader, quorum of prepares, quorum of commits) for height h, value v:
   reaches the STORED instance of h only *)
RecvSeq(h, v) ==
    /\ LET k == Idx(stored, h)
           live == k # 0 /\ stored[k].st = "run" /\ h <= ctrlH /\ v # "invalid"   \* the instance refuses a proposal that fails its value check
           st2 == IF live THEN [stored EXCEPT ![k] = [h |-> h, st |-> "dec", val |-> v]] ELSE stored
       IN /\ stored' = st2
          /\ Report(h, v, live, PrevDecided(h), st2, FALSE)
          /\ act' = [name |-> "RecvSeq", h |-> h, v |-> v, decided |-> live]
    /\ UNCHANGED <<duty, preDone, runH, finished, ctrlH>>

(* a decided message (aggregated commit of the signers q) for height h with value v *)
Decided(h, v, q, foreignMsg) ==
    LET k == Idx(stored, h)
        was == k # 0 /\ stored[k].st = "dec"
        st2 == IF k = 0 THEN AddInst(stored, [h |-> h, st |-> "dec", val |-> v])     \* fresh decided instance (maybe not stored)
               ELSE IF was THEN stored
               ELSE [stored EXCEPT ![k] = [h |-> h, st |-> "dec", val |-> v]]
        returned == ~was \/ (q = "all" /\ W("noCtrlPrevDecided"))
    IN /\ stored' = st2
       /\ ctrlH' = IF h > ctrlH THEN h ELSE ctrlH
       /\ Report(h, v, returned, PrevDecided(h), st2, foreignMsg)

RecvDecided(h, v, q) ==
    /\ Decided(h, v, q, FALSE)
    /\ UNCHANGED <<duty, preDone, runH, finished>>
    /\ act' = [name |-> "RecvDecided", h |-> h, v |-> v, q |-> q]

(* a message whose envelope names another validator (content: a decided message that would be valid for us) or another role *)
RecvForeign(c, h, v) ==
    /\ IF c = "otherValidator" /\ W("noRouteCheck")
       THEN Decided(h, v, "q1", TRUE)
       ELSE UNCHANGED <<stored, ctrlH, dval, sigLog, runIn, runSt, runVal>>
    /\ UNCHANGED <<duty, preDone, runH, finished>>
    /\ act' = [name |-> "RecvForeign", c |-> c, h |-> h, v |-> v]

(* post-consensus partial signatures: c = "quorum" (correct messages completing the quorum for the decided objects), "one".
   ValidatePostConsensusMsg needs DecidedValue AND a decided running instance *)
RecvPost(c) ==
    /\ finished' = IF Running /\ dval # "none" /\ RunDecidedNow /\ c = "quorum" THEN TRUE ELSE finished
    /\ UNCHANGED <<duty, preDone, runH, runIn, runSt, runVal, dval, ctrlH, stored, sigLog>>
    /\ act' = [name |-> "RecvPost", c |-> c]

Next == \/ \E s \in Slots : StartDuty(s)
        \/ \E c \in {"quorum", "one", "wrongSlot"} : RecvPre(c)
        \/ \E h \in Slots, v \in Vals : RecvSeq(h, v)
        \/ \E h \in Slots, v \in Vals, q \in Quorums : RecvDecided(h, v, q)
        \/ \E c \in {"otherValidator", "otherRole"}, h \in Slots : RecvForeign(c, h, "valid")
        \/ \E c \in {"quorum", "one"} : RecvPost(c)
Spec == Init /\ [][Next]_vars

----------------------------------------------------------------------------
Entries == {sigLog[i] : i \in 1..Len(sigLog)}
SamePost(i, j) == /\ sigLog[i].k = "post" /\ sigLog[j].k = "post"
                  /\ <<sigLog[i].objH, sigLog[i].v>> = <<sigLog[j].objH, sigLog[j].v>>
(* every post-consensus signature: over an object of the value decided for the duty's slot by the running instance (or,
   when the controller dropped that instance before it decided, by the decided message of its height), after that value
   passed the value check, caused by a message for this validator, while the duty was running; every other signature is
   the pre-consensus proof of the slot of the duty being started; no decided object is signed again *)
SigWindow ==
    /\ \A e \in Entries : e.k = "post" =>
          /\ e.slot # 0 /\ ~e.fin /\ ~e.foreign
          /\ e.h = e.slot /\ e.objH = e.h /\ e.v # "invalid"
          /\ (e.instDec /\ e.v = e.instVal) \/ e.detached
    /\ \A e \in Entries : e.k = "pre" => HasPre /\ e.slot \in Slots
    /\ \A i, j \in 1..Len(sigLog) : (i < j /\ SamePost(i, j)) => sigLog[j].detached
(* the part of "at most once" that the pinned commit does not keep (finding): a running instance pushed out of the
   container before it decided signs on every delivery of its height's decided message *)
OnceDetached == \A i, j \in 1..Len(sigLog) : (i < j /\ SamePost(i, j)) => ~sigLog[j].detached
TypeOK == /\ duty \in 0..MaxSlot /\ runH \in 0..MaxSlot /\ ctrlH \in 0..MaxSlot
          /\ dval \in {"none", "valid", "alt"}
          /\ Len(stored) <= Cap
          /\ \A k \in 1..(Len(stored) - 1) : stored[k].h > stored[k + 1].h
          /\ runH # 0 => runH = duty
          /\ runIn => (runH # 0 /\ Idx(stored, runH) # 0)
=============================================================================
