------------------------------- MODULE Runner -------------------------------
(* protocol/v2/ssv/runner + protocol/v2/ssv/validator: when does a duty runner of a consensus role sign with the
   validator key share (KeyManager.SignBeaconObject)?

     Validator.ProcessMessage / validateMessage (validator.go)                 -> Foreign
     BaseRunner.baseStartNewDuty / ShouldProcessDuty / baseSetupForNewDuty     -> StartDuty
     <Role>Runner.executeDuty (pre-consensus proof or decide)                  -> StartDuty
     BaseRunner.basePreConsensusMsgProcessing + <Role>Runner.ProcessPreConsensus (quorum -> decide) -> RecvPre
     BaseRunner.decide / Controller.StartNewInstance                           -> Decide
     BaseRunner.baseConsensusMsgProcessing, didDecideCorrectly, validateDecidedConsensusData,
       Controller.ProcessMsg / UponDecided / UponExistingInstanceMsg            -> RecvSeq, RecvDecided
     <Role>Runner.ProcessConsensus (signBeaconObject over the objects of the decided value)        -> Report
     BaseRunner.basePostConsensusMsgProcessing / ValidatePostConsensusMsg, Finished                -> RecvPost

   One action = one public call (StartDuty, or ProcessMessage with one message), except the two macro steps that
   deliver a whole quorum at once (the deciding sequence proposal/prepares/commits of one height, the quorum of
   pre- or post-consensus partial signatures): per-message grain of QBFT is spec QBFT's, of the containers spec
   PartialSig's.  Heights = slots 1..MaxSlot (the height-0 special cases of the controller are C15's).

   Values: "valid" = what this operator proposes itself, "alt" = another value that passes the duty's value
   check, "invalid" = a value that fails it.  A value decided at height h is consensus data for slot h.          *)
EXTENDS Integers, Sequences, FiniteSets, TLC

CONSTANTS HasPre,     \* TRUE: proposer, aggregator, sync-committee contribution (pre-consensus proof when the duty starts)
          MaxSlot,
          MaxSig,     \* bound of sigLog
          Weaken      \* removed guards: "noHeightCheck","noPrevDecided","noCtrlPrevDecided","noRevalidate","noRouteCheck"

VARIABLES duty,       \* slot of State.StartingDuty, 0 = no State yet
          preDone,    \* pre-consensus quorum was processed (decide was attempted)
          runH,       \* height of State.RunningInstance, 0 = nil
          dval,       \* State.DecidedValue: "none" | "valid" | "alt"
          finished,   \* State.Finished
          ctrlH,      \* Controller.Height
          inst,       \* [height -> [st: "none"|"run"|"stopped"|"dec", val]]  Controller.StoredInstances
          sigLog,     \* sequence of SignBeaconObject records
          act
vars == <<duty, preDone, runH, dval, finished, ctrlH, inst, sigLog, act>>
view == <<duty, preDone, runH, dval, finished, ctrlH, inst, sigLog>>

Slots == 1..MaxSlot
Vals == {"valid", "alt", "invalid"}
W(g) == g \in Weaken
Running == duty # 0 /\ ~finished                        \* hasRunningDuty

NoInst == [st |-> "none", val |-> "none"]
Init == /\ duty = 0 /\ preDone = FALSE /\ runH = 0 /\ dval = "none" /\ finished = FALSE /\ ctrlH = 0
        /\ inst = [h \in Slots |-> NoInst] /\ sigLog = <<>>
        /\ act = [name |-> "init"]

(* BaseRunner.decide -> Controller.StartNewInstance(height = duty slot) -> <<inst, ctrlH, runH>> *)
Decide(s, in, ch) ==
    IF s < ch \/ in[s].st # "none" THEN <<in, ch, 0>>        \* "past height" / "instance already running": RunningInstance stays nil
    ELSE <<[h \in Slots |-> IF h = s THEN [st |-> "run", val |-> "none"]
                            ELSE IF in[h].st = "run" THEN [in[h] EXCEPT !.st = "stopped"] ELSE in[h]],   \* forceStopAllInstanceExceptCurrent
           s, s>>

PreSig(s) == [k |-> "pre", slot |-> s, h |-> 0, objH |-> 0, v |-> "none", instDec |-> FALSE, instVal |-> "none", foreign |-> FALSE, fin |-> FALSE]

StartDuty(s) ==
    /\ IF ctrlH >= s /\ ctrlH # 0                            \* ShouldProcessDuty
       THEN /\ UNCHANGED <<duty, preDone, runH, dval, finished, ctrlH, inst, sigLog>>
            /\ act' = [name |-> "StartDuty", s |-> s, ok |-> FALSE]
       ELSE /\ duty' = s /\ preDone' = FALSE /\ dval' = "none" /\ finished' = FALSE     \* baseSetupForNewDuty: new State
            /\ IF HasPre
               THEN /\ runH' = 0 /\ UNCHANGED <<ctrlH, inst>>
                    \* the proof of a slot is logged once: starting the same slot again (possible while the controller
                    \* height is below it) signs the same proof again, which C03 does not restrict
                    /\ sigLog' = IF Len(sigLog) < MaxSig /\ \A i \in 1..Len(sigLog) : sigLog[i] # PreSig(s)
                                 THEN Append(sigLog, PreSig(s)) ELSE sigLog
               ELSE LET d == Decide(s, inst, ctrlH) IN
                    /\ inst' = d[1] /\ ctrlH' = d[2] /\ runH' = d[3] /\ UNCHANGED sigLog
            /\ act' = [name |-> "StartDuty", s |-> s, ok |-> TRUE]

(* pre-consensus partial signatures (roles with HasPre): c = "quorum" (the correct messages that complete the
   quorum), "one" (a single correct message), "wrongSlot" *)
RecvPre(c) ==
    /\ HasPre
    /\ IF Running /\ c = "quorum" /\ ~preDone
       THEN LET d == Decide(duty, inst, ctrlH) IN
            /\ preDone' = TRUE /\ inst' = d[1] /\ ctrlH' = d[2] /\ runH' = d[3]
       ELSE UNCHANGED <<preDone, inst, ctrlH, runH>>
    /\ UNCHANGED <<duty, dval, finished, sigLog>>
    /\ act' = [name |-> "RecvPre", c |-> c]

(* what the runner does with the decided message the controller returned (h = its height, v = its value) *)
Report(h, v, returned, prevDec, in, foreignMsg) ==
    LET correct == /\ returned
                   /\ runH # 0                                     \* "decided wrong instance"
                   /\ (h = runH \/ W("noHeightCheck"))
                   /\ (~prevDec \/ W("noPrevDecided"))
        ok == Running /\ correct
        valid == v # "invalid" \/ W("noRevalidate")               \* validateDecidedConsensusData
        e == [k |-> "post", slot |-> duty, h |-> runH, objH |-> h, v |-> v,
              instDec |-> (runH # 0 /\ in[runH].st = "dec"), instVal |-> (IF runH # 0 THEN in[runH].val ELSE "none"),
              foreign |-> foreignMsg, fin |-> finished]
    IN /\ dval' = IF ok /\ valid THEN v ELSE dval
       /\ sigLog' = IF ok /\ valid /\ Len(sigLog) < MaxSig THEN Append(sigLog, e) ELSE sigLog

(* the genuine deciding sequence (proposal of the leader, quorum of prepares, quorum of commits) for height h, value v *)
RecvSeq(h, v) ==
    /\ LET live == inst[h].st = "run" /\ h <= ctrlH /\ v # "invalid"      \* the instance refuses a proposal that fails its value check
           prevDec == runH # 0 /\ inst[runH].st = "dec"
           in2 == IF live THEN [inst EXCEPT ![h] = [st |-> "dec", val |-> v]] ELSE inst
       IN /\ inst' = in2
          /\ Report(h, v, live, prevDec, in2, FALSE)
          /\ act' = [name |-> "RecvSeq", h |-> h, v |-> v, decided |-> live]
    /\ UNCHANGED <<duty, preDone, runH, finished, ctrlH>>

(* a decided message (aggregated commit of a quorum; more = TRUE: of all operators) for height h with value v *)
Decided(h, v, more, foreignMsg) ==
    LET was == inst[h].st = "dec"
        prevDec == runH # 0 /\ inst[runH].st = "dec"
        in2 == IF was THEN inst ELSE [inst EXCEPT ![h] = [st |-> "dec", val |-> v]]
        returned == ~was \/ (more /\ W("noCtrlPrevDecided"))
    IN /\ inst' = in2
       /\ ctrlH' = IF h > ctrlH THEN h ELSE ctrlH
       /\ Report(h, v, returned, prevDec, in2, foreignMsg)

RecvDecided(h, v, more) ==
    /\ Decided(h, v, more, FALSE)
    /\ UNCHANGED <<duty, preDone, runH, finished>>
    /\ act' = [name |-> "RecvDecided", h |-> h, v |-> v, more |-> more]

(* a message whose envelope names another validator (content: a decided message that would be valid for us) or another role *)
RecvForeign(c, h, v) ==
    /\ IF c = "otherValidator" /\ W("noRouteCheck")
       THEN Decided(h, v, FALSE, TRUE)
       ELSE UNCHANGED <<inst, ctrlH, dval, sigLog>>
    /\ UNCHANGED <<duty, preDone, runH, finished>>
    /\ act' = [name |-> "RecvForeign", c |-> c, h |-> h, v |-> v]

(* post-consensus partial signatures: c = "quorum" (correct messages completing the quorum for the decided objects), "one" *)
RecvPost(c) ==
    /\ finished' = IF Running /\ dval # "none" /\ c = "quorum" THEN TRUE ELSE finished
    /\ UNCHANGED <<duty, preDone, runH, dval, ctrlH, inst, sigLog>>
    /\ act' = [name |-> "RecvPost", c |-> c]

Next == \/ \E s \in Slots : StartDuty(s)
        \/ \E c \in {"quorum", "one", "wrongSlot"} : RecvPre(c)
        \/ \E h \in Slots, v \in Vals : RecvSeq(h, v)
        \/ \E h \in Slots, v \in Vals, m \in BOOLEAN : RecvDecided(h, v, m)
        \/ \E c \in {"otherValidator", "otherRole"}, h \in Slots : RecvForeign(c, h, "valid")
        \/ \E c \in {"quorum", "one"} : RecvPost(c)
Spec == Init /\ [][Next]_vars

----------------------------------------------------------------------------
Entries == {sigLog[i] : i \in 1..Len(sigLog)}
(* every post-consensus signature: over an object of the value the running instance decided for the duty's slot, after
   that value passed the value check, caused by a message for this validator, while the duty was running;
   every other signature is the pre-consensus proof of the slot of the duty being started; nothing signed twice *)
SigWindow ==
    /\ \A e \in Entries : e.k = "post" =>
          /\ e.slot # 0 /\ ~e.fin /\ ~e.foreign
          /\ e.h = e.slot /\ e.objH = e.h
          /\ e.instDec /\ e.v = e.instVal /\ e.v # "invalid"
    /\ \A e \in Entries : e.k = "pre" => HasPre /\ e.slot \in Slots
    /\ \A i, j \in 1..Len(sigLog) : (i < j /\ sigLog[i].k = "post" /\ sigLog[j].k = "post")
          => <<sigLog[i].objH, sigLog[i].v>> # <<sigLog[j].objH, sigLog[j].v>>
TypeOK == /\ duty \in 0..MaxSlot /\ runH \in 0..MaxSlot /\ ctrlH \in 0..MaxSlot
          /\ dval \in {"none", "valid", "alt"}
          /\ runH # 0 => (runH = duty /\ inst[runH].st # "none")
=============================================================================
