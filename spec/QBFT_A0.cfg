SPECIFICATION Spec
CONSTANTS
  N = 4
  F = 1
  Byz = {4}
  Values = {"a", "b"}
  BadValues = {"bad"}
  MaxRound = 2
  LeaderOffset = 0
  StartValue <- SV
  Weaken = "none"
  ByzBudget = 0
  ByzActs <- NoActs
  Macro = TRUE
INVARIANT Agreement
INVARIANT CertValid
INVARIANT CommittedValuesChecked
PROPERTY DecidedStable
PROPERTY TimeoutStep
VIEW view
