SPECIFICATION Spec
CONSTANTS
  Roles <- MCRoles
  PreRoles <- MCPre
  NoQueueRoles <- MCNoQ
  Alphabet <- AlphaFull
  MaxH = 2
  MaxR = 2
  Cap = 2
  MaxPush = 12
  MaxFire = 2
  MaxStop = 1
  MaxExt = 1
  Q = 3
  SeqHarness = TRUE
  FastPop = FALSE
  FineRead = FALSE
  ExternalStart = TRUE
  AdvTimer = TRUE
  PrioDecided = "gt"
INVARIANT TypeOK
