----------------------------- MODULE MCPipeline -----------------------------
EXTENDS Pipeline

MCRoles == {"att", "prop"}
MCRolesAtt == {"att"}
MCRolesProp == {"prop"}
MCPre == {"prop"}
MCNoQ == {"x"}

(* one attester duty with everything that can arrive for it: the instance starts when the ExecuteDuty event is handled *)
AlphaAtt1 == {Exec("att", 1), Cons("att", 1, 1, "proposal"), Cons("att", 1, 1, "prepare"), Cons("att", 1, 1, "dec3"),
              Cons("att", 1, 2, "rc"), Post("att", 1, 2)}
(* two consecutive attester duties: early / late messages of the neighbouring height *)
AlphaAtt2 == {Exec("att", 1), Exec("att", 2), Cons("att", 1, 1, "proposal"), Cons("att", 2, 1, "proposal"),
              Cons("att", 1, 1, "commit"), Cons("att", 1, 1, "dec3"), Cons("att", 2, 1, "dec4")}
(* the proposer: pre-consensus phase, decided message during it *)
AlphaProp1 == {Exec("prop", 1), Pre("prop", 1, 2), Pre("prop", 1, 3), Pre("prop", 1, 4), Cons("prop", 1, 1, "proposal"),
               Cons("prop", 1, 1, "dec3")}
AlphaProp2 == {Exec("prop", 1), Exec("prop", 2), Pre("prop", 2, 2), Cons("prop", 1, 1, "proposal"), Cons("prop", 2, 1, "dec3"),
               Cons("prop", 1, 2, "prepare")}
(* both roles, a foreign role *)
AlphaTwo == {Exec("att", 1), Exec("prop", 1), Cons("att", 1, 1, "proposal"), Cons("att", 1, 1, "prepare"),
             Cons("prop", 1, 1, "dec3"), Pre("prop", 1, 2), Cons("x", 1, 1, "proposal")}
(* a whole attester duty (3 post-consensus signatures), for simulation and cover *)
AlphaFullAtt == {Exec("att", 1), Exec("att", 2)}
    \cup {Cons("att", h, r, ct) : h \in 1..2, r \in 1..2, ct \in {"proposal", "prepare", "commit", "rc"}}
    \cup {Cons("att", h, 1, ct) : h \in 1..2, ct \in {"dec3", "dec4"}}
    \cup {Post("att", s, sg) : s \in 1..2, sg \in 2..4}
AlphaFullProp == {Exec("prop", 1), Exec("prop", 2)}
    \cup {Cons("prop", h, r, ct) : h \in 1..2, r \in 1..2, ct \in {"proposal", "prepare", "commit", "rc"}}
    \cup {Cons("prop", h, 1, ct) : h \in 1..2, ct \in {"dec3", "dec4"}}
    \cup {Pre("prop", s, sg) : s \in 1..2, sg \in 2..4} \cup {Post("prop", s, sg) : s \in 1..2, sg \in 2..4}
AlphaFull == AlphaFullAtt \cup AlphaFullProp \cup {Cons("x", 1, 1, "proposal")}

(* the smallest alphabets that reach the counterexamples of the facts that do not hold *)
AlphaObsPre == {Exec("prop", 1), Cons("prop", 1, 1, "proposal")}
AlphaObsStranded == {Exec("att", 1), Cons("att", 1, 1, "dec3"), Post("att", 1, 2), Post("att", 1, 3), Post("att", 1, 4),
                     Cons("att", 1, 1, "commit")}
AlphaObsEarly == {Exec("att", 1), Exec("att", 2), Cons("att", 2, 1, "proposal")}
AlphaObsBound == {Cons("att", 1, 1, "proposal"), Cons("att", 1, 1, "prepare")}
AlphaObsHeld == {Exec("att", 1), Cons("att", 1, 1, "dec3")}
AlphaObsPrio == {Exec("att", 1), Exec("att", 2), Cons("att", 1, 1, "dec3"), Cons("att", 1, 1, "commit"), Cons("att", 1, 1, "proposal")}
AlphaObsStale == {Exec("prop", 1), Exec("prop", 2), Pre("prop", 1, 2), Pre("prop", 1, 3), Pre("prop", 1, 4)}
AlphaObsExt == {Exec("att", 1), Cons("att", 1, 1, "proposal"), Cons("att", 2, 1, "prepare")}

(* scripted pushes for the two observation traces that need a whole duty: the k-th pushed message is S[k]
   (NilC = a slot left to the round timer).  Used as ACTION_CONSTRAINT: the consumer's steps stay unconstrained. *)
ScriptOK(S) == /\ act'.name = "Handle" => (act'.id <= Len(S) /\ act'.c = S[act'.id])
               /\ act'.name = "TimerFire" => (act'.id <= Len(S) /\ S[act'.id] = NilC)
ScriptStranded == <<Exec("att", 1), Cons("att", 1, 1, "dec3"), Post("att", 1, 2), Post("att", 1, 3), Post("att", 1, 4),
                    Cons("att", 1, 1, "commit")>>
ScriptStale == <<Exec("prop", 1), Pre("prop", 1, 2), Pre("prop", 1, 3), Pre("prop", 1, 4), NilC, Exec("prop", 2)>>
ScriptOK_Stranded == ScriptOK(ScriptStranded)
ScriptOK_Stale == ScriptOK(ScriptStale)
=============================================================================
