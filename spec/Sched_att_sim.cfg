SPECIFICATION Spec
CONSTANTS
  Role = "att"
  SPE = 8
  EPP = 3
  MaxEpoch = 2
  Validators = {1, 2}
  Actives = {{1}, {2}, {1, 2}}
  StartSlots = {0, 3, 6}
  Lags <- LagsAtt
  MaxReorgs = 3
  MaxIdx = 2
  MaxFails = 3
  InitDuties = FALSE
  Weaken = "none"
INVARIANT AtMostOnce
INVARIANT AtItsSlot
INVARIANT OnlyIfAssigned
INVARIANT InWindow
INVARIANT ExactlyOnceWhenValid
