SPECIFICATION TraceSpec
CONSTANTS
  Owners = {"o1", "o2"}
  Validators = {"v1", "v2"}
  OpIds = {1, 2, 3, 4, 5}
  Alphabet = {}
  Setups = {}
  MaxEvents = 100000
  MaxBlocks = 100000
  MaxFaults = 0
  Grain = "event"
  Weaken = "none"
  Stale = FALSE
  ReadFaults = FALSE
INVARIANT DbMatchesRules
INVARIANT KeysMatchRules
INVARIANT MemMatchesDb
INVARIANT LastBlockRight
POSTCONDITION TraceAccepted
