SPECIFICATION Spec
CONSTANTS
  Roles <- MCRolesProp
  PreRoles <- MCPre
  NoQueueRoles <- MCNoQ
  Alphabet <- AlphaProp1
  MaxH = 2
  MaxR = 2
  Cap = 2
  MaxPush = 5
  MaxFire = 1
  MaxStop = 0
  MaxExt = 1
  Q = 3
  SeqHarness = TRUE
  FastPop = FALSE
  FineRead = FALSE
  ExternalStart = FALSE
  AdvTimer = TRUE
  PrioDecided = "gt"
INVARIANT TypeOK
