----------------------------- MODULE TopicsTrace -----------------------------
(* The Topics spec as an executable oracle.  The Go driver (harness/cmd/topics) writes seeded
   inputs to cases.ndjson, one JSON object per line:
     {"id":n,"kind":"key",    "pk":[bytes], "probes":[topic strings]}
     {"id":n,"kind":"hexstr", "s":string}                      commons.ValidatorSubnet on any string
     {"id":n,"kind":"env",    "msg":[bytes], "id_le":[IdSize digits], "sig":[bytes]}
     {"id":n,"kind":"dec",    "enc":[bytes]}
     {"id":n,"kind":"vec",    "v":[0/1 ...]}
     {"id":n,"kind":"substr", "s":string}
     {"id":n,"kind":"topics"}                                  commons.Topics() / SubscribeAll
   TLC walks through the file (one step per line, the spec's own properties are invariants on
   every generated input) and finally writes what the spec says the code must return to
   expected.ndjson; tools/props/C18.py compares that with what the real functions returned. *)
EXTENDS Topics, Json

In == ndJsonDeserialize("cases.ndjson")

VARIABLE l
act == IF l = 0 THEN [kind |-> "init"] ELSE In[l]

SetToSortedSeq(S) ==   \* any fixed order; the consumer sorts
  LET RECURSIVE R(_)
      R(T) == IF T = {} THEN <<>> ELSE LET x == CHOOSE x \in T : TRUE IN <<x>> \o R(T \ {x})
  IN R(S)

EvalKey(c) ==
  [id |-> c.id, kind |-> "key",
   subnet   |-> Subnet(c.pk),
   ids      |-> ValidatorTopicID(c.pk),
   sub      |-> SetToSortedSeq(SubscribeTopics(c.pk)),
   pub      |-> IF WellFormed(c.pk) THEN SetToSortedSeq(PublishTopics(c.pk)) ELSE <<>>,
   accepted |-> IF WellFormed(c.pk) THEN SetToSortedSeq(AcceptedTopics(c.pk)) ELSE <<>>,
   probe_accepts |-> IF WellFormed(c.pk) THEN [k \in 1..Len(c.probes) |-> AcceptsOn(c.probes[k], c.pk)] ELSE <<>>,
   pub_padded |-> SetToSortedSeq(PublishTopics(c.pk)),    \* through the zero-padded message id (documented quirk)
   agree    |-> Agree(c.pk),
   inrange  |-> InRange(c.pk)]

EvalEnv(c) ==
  LET e == Encode(c.msg, c.id_le, c.sig)
      d == Decode(e)
  IN [id |-> c.id, kind |-> "env", enc |-> e, ok |-> DecodeOK(e),
      dec_msg |-> d.msg, dec_id_le |-> d.idLE, dec_sig |-> d.sig,
      roundtrip |-> RoundTrip(c.msg, c.id_le, c.sig)]

EvalDec(c) ==
  IF DecodeOK(c.enc)
  THEN LET d == Decode(c.enc) IN [id |-> c.id, kind |-> "dec", ok |-> TRUE, msg |-> d.msg, id_le |-> d.idLE, sig |-> d.sig]
  ELSE [id |-> c.id, kind |-> "dec", ok |-> FALSE, msg |-> <<>>, id_le |-> <<>>, sig |-> <<>>]

EvalVec(c) ==
  LET s == SubnetsString(c.v)
  IN [id |-> c.id, kind |-> "vec", str |-> s, back |-> SubnetsFromString(s), roundtrip |-> VecRoundTrip(c.v)]

EvalSubStr(c) ==
  IF FromStringOK(c.s)
  THEN LET v == SubnetsFromString(c.s) IN [id |-> c.id, kind |-> "substr", ok |-> TRUE, v |-> v, str |-> SubnetsString(v)]
  ELSE [id |-> c.id, kind |-> "substr", ok |-> FALSE, v |-> <<>>, str |-> ""]

Eval(c) ==
  CASE c.kind = "key"    -> EvalKey(c)
    [] c.kind = "hexstr" -> [id |-> c.id, kind |-> "hexstr", subnet |-> ValidatorSubnet(c.s)]
    [] c.kind = "env"    -> EvalEnv(c)
    [] c.kind = "dec"    -> EvalDec(c)
    [] c.kind = "vec"    -> EvalVec(c)
    [] c.kind = "substr" -> EvalSubStr(c)
    [] c.kind = "topics" -> [id |-> c.id, kind |-> "topics", advertised |-> SetToSortedSeq(AdvertisedTopics), count |-> SubnetsCount]

Init == l = 0
Next == l < Len(In) /\ l' = l + 1
Spec == Init /\ [][Next]_l

\* the spec's own properties, on every generated input
InvAgree     == act.kind = "key" => Agree(act.pk)
InvInRange   == act.kind = "key" => InRange(act.pk)
InvRoundTrip == act.kind = "env" => RoundTrip(act.msg, act.id_le, act.sig)
InvVec       == act.kind = "vec" => VecRoundTrip(act.v)

\* a constant: TLC evaluates it once, when it processes the ASSUME
Written == ndJsonSerialize("expected.ndjson", [k \in 1..Len(In) |-> Eval(In[k])])
ASSUME Written
=============================================================================
