SPECIFICATION Spec
CONSTANTS
  HasPre = FALSE
  MaxSlot = 3
  MaxSig = 3
  Cap = 2
  Vals <- TwoVals
  Quorums <- TwoQuorums
  PrevDec = "code"
  Weaken <- NoWeaken
INVARIANT TypeOK
INVARIANT SigWindow
