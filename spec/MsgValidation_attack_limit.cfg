SPECIFICATION SpecD
CONSTANTS
  N = 4
  Alphabet <- AlphaAttack
  Times <- TimesOne
  MaxAccepts = 2
  ForkEpoch <- ForkNever
  PartialWindow = FALSE
  OverflowGuard = FALSE
  Weaken = "limit"
  KnownGaps = {"partial-sig-outside-slot-window", "slot-time-overflow"}
PROPERTY AcceptSound
VIEW view
