SPECIFICATION Spec
CONSTANTS
  SPE = 2
  MaxSlot = 5
  MaxGen = 2
  MaxFaults = 1
  Variants = 1
  Kinds = {"att", "blk"}
  FaultKinds = {"crash", "crashafter", "fail", "rerr", "rmiss"}
  Weaken = "none"
INVARIANT NoSlashable
