SPECIFICATION Spec
CONSTANTS
  SPE = 2
  MaxSlot = 5
  MaxGen = 2
  MaxFaults = 1
  Variants = 2
  Kinds = {"att", "blk"}
  FaultKinds = {"crash", "crashafter", "fail", "rerr", "rmiss"}
  Weaken = "none"
INVARIANT NoSlashable
