SPECIFICATION TraceSpec
CONSTANTS
  HasPre = TRUE
  MaxSlot = 6
  MaxSig = 60
  Cap = 2
  Vals <- AllVals
  Quorums <- AllQuorums
  PrevDec = "code"
  Weaken <- NoWeaken
INVARIANT TSigPost
INVARIANT TSigPre
INVARIANT TSigOnce
INVARIANT TExplained
POSTCONDITION TraceAccepted
