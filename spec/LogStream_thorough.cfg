SPECIFICATION Spec
CONSTANTS
  MaxHead = 9
  Head0 = 6
  Start = 3
  Batches = {1,2,3}
  Follows = {0,2}
  Kinds = {"none","one","mix"}
  KindSample = {}
  LowKind = "one"
  MaxFaults = 3
  Algo = "fixed"
  Weaken = "none"
  Hist = TRUE
INVARIANT TypeOK
INVARIANT StrictlyIncreasing
INVARIANT ExactlyOnce
INVARIANT NoRewind
INVARIANT PerBlockComplete
INVARIANT NoGapDelivered
INVARIANT NoGapCursor
INVARIANT FollowRespected
INVARIANT CursorAhead
VIEW view
