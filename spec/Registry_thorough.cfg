SPECIFICATION Spec
CONSTANTS
  Owners <- MCOwners
  Validators <- MCValidators
  OpIds <- MCOpIds
  Alphabet <- AlphaMid
  Setups <- SetupsAll
  MaxEvents = 4
  MaxBlocks = 4
  MaxFaults = 1
  Grain = "event"
  Weaken = "none"
  Stale = FALSE
  ReadFaults = FALSE
INVARIANT DbMatchesRules
INVARIANT KeysMatchRules
INVARIANT MemMatchesDb
INVARIANT LastBlockRight
INVARIANT OwnStable
INVARIANT ExitOnlyByOwner
INVARIANT TypeOK
VIEW view
