SPECIFICATION TraceSpec
CONSTANTS
  Owners = {"o1", "o2"}
  Validators = {"v1", "v2", "v3"}
  Comms = {"cA", "cB", "cX"}
  Mine = {"cA", "cB"}
  Alphabet = {}
  MaxEvents = 1000000
  MaxBlock = 1000
  MaxMeta = 1000000
  MaxRestarts = 1000000
  MetaAnywhere = TRUE
  SplitStart = TRUE
INVARIANT L4_FeeIsStored
INVARIANT L6_TasksOnlyInBlock
POSTCONDITION TraceAccepted
