SPECIFICATION Spec
CONSTANTS
  Roles <- MCRoles
  PreRoles <- MCPre
  NoQueueRoles <- MCNoQ
  Alphabet <- AlphaTwo
  MaxH = 2
  MaxR = 2
  Cap = 2
  MaxPush = 4
  MaxFire = 1
  MaxStop = 0
  MaxExt = 1
  Q = 3
  SeqHarness = FALSE
  FineRead = FALSE
  FastPop = TRUE
  ExternalStart = FALSE
  AdvTimer = TRUE
  PrioDecided = "gt"
INVARIANT TypeOK
INVARIANT P1_RoleIsolation
PROPERTY P1_OnlyOwnRunner
INVARIANT P2_FilterAtHandler
INVARIANT P2_FilterAtPop
INVARIANT P3_Conservation
INVARIANT P3_NoSilentLoss
PROPERTY P3_OnlyCountedLoss
PROPERTY P4_PopMaximal
PROPERTY P4_ExecFirst
PROPERTY P5_TimeoutNext
PROPERTY P6a_OldRoundNoop
INVARIANT P7_SnapshotFresh
VIEW view
