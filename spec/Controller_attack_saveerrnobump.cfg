SPECIFICATION Spec
CONSTANTS
  MaxH = 2
  MaxRestarts = 0
  FullNode = TRUE
  Cap = 2
  Weaken = "saveErrNoBump"
  GapFix = FALSE
  CertRounds = {1}
  Direct = FALSE
  MidCrash = FALSE
  Timeouts = FALSE
  MaxWriteFaults = 1
  MaxReadFaults = 0
  ReadKinds = {}
  ReadFix = FALSE
PROPERTY NoRerun
