SPECIFICATION Spec
CONSTANTS
  Owners <- MCOwners
  Validators <- MCValidators
  OpIds <- MCOpIds
  Alphabet <- AlphaCrash
  Setups <- SetupsCrashQuick
  MaxEvents = 3
  MaxBlocks = 2
  MaxFaults = 1
  Grain = "op"
  Weaken = "none"
  Stale = FALSE
  ReadFaults = TRUE
INVARIANT DbMatchesRules
INVARIANT KeysMatchRules
INVARIANT MemMatchesDb
INVARIANT LastBlockRight
INVARIANT OwnStable
INVARIANT ExitOnlyByOwner
INVARIANT TypeOK
VIEW view
