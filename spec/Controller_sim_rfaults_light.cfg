SPECIFICATION Spec
CONSTANTS
  MaxH = 3
  MaxRestarts = 2
  FullNode = FALSE
  Cap = 2
  Weaken = "none"
  GapFix = FALSE
  CertRounds = {1, 2}
  Direct = TRUE
  MidCrash = TRUE
  Timeouts = TRUE
  MaxWriteFaults = 1
  MaxReadFaults = 2
  ReadKinds = {"err", "empty", "garbage"}
  ReadFix = FALSE
INVARIANT ContainerOK
