------------------------------ MODULE Lifecycle ------------------------------
(* Validator LIFECYCLE on one node: what the registry-contract events do to the set of validators RUNNING on
   this node.  Registry.tla describes how the events change the STORED registry; this module describes the other
   half driven by the same events:

     eth/eventhandler        processEvent / handlers.go: which TASK an event emits (StartValidator, StopValidator,
                             LiquidateCluster, ReactivateCluster, UpdateFeeRecipient, ExitValidator) - and which
                             events emit none (foreign owner, share of other operators only, malformed, unchanged
                             fee recipient, no beacon metadata, OperatorAdded/Removed);
                             HandleBlockEventsStream: the tasks of a block are executed AFTER the block transaction
                             was committed, in order, and only when executeTasks (not during the history sync)
     operator/validator      task_executor.go + controller.go: what the controller does with a task (validatorsMap),
                             UpdateValidatorMetadata (the only place a newly added validator is started: the
                             StartValidator task is a no-op), StartValidators (node start)
     cli/operator/node.go    the order at node start: history sync (tasks dropped) -> ongoing sync in the
                             background (tasks executed) -> StartValidators -> metadata loop

   Facts of the code modelled as they are:
     * share OBJECTS are shared by pointer between the in-memory share map, the tasks and the running validators
       (`gen` = identity of an object); a task / the StartValidators snapshot may hold an object that was removed
       from the map meanwhile (it keeps the metadata it had when it was removed);
     * Shares.Save / Delete update the in-memory map immediately and the database at commit (the transaction holds
       the share as encoded at Save time); UpdateValidatorMetadata writes the database OUTSIDE any transaction;
     * the recipient a validator gets when it is created comes from the COMMITTED database (nil reader);
       onShareInit refreshes the recipient of the object it was given even if the validator already runs;
     * ReactivateCluster / UpdateValidatorMetadata / StartValidators start a share only if it has beacon metadata;
       none of them re-checks `Liquidated` or the presence in storage of the object it was handed;
     * handleValidatorExited does not look at `Liquidated`.

   Grain: one step per handled event, per commit, per executed task, per UpdateValidatorMetadata call, per
   restart; StartValidators is one step, or two (list the shares / set them up) when SplitStart.
   MetaAnywhere = FALSE restricts the metadata goroutine to the gaps between blocks (the "sequential" system);
   TRUE lets it run between any two steps of the event goroutine, as the code does.
   The own operator id is fixed (Registry.tla covers OperatorAdded); committees are abstract cluster names,
   Mine = the ones this operator is a member of.  Crashes inside an open block transaction are Registry.tla's
   crash sub-spec (C12) and are not repeated here: Restart is enabled between blocks and between the commit and
   the end of the block's tasks (the remaining tasks are lost).                                              *)
EXTENDS Integers, Sequences, FiniteSets, TLC

CONSTANTS Owners, Validators, Comms, Mine,
          Alphabet,        \* set of event records
          MaxEvents, MaxBlock, MaxMeta, MaxRestarts,
          MetaAnywhere,    \* BOOLEAN
          SplitStart       \* BOOLEAN

VARIABLES mem,      \* [Validators -> share]: the in-memory share map (what every reader of Shares() sees)
          gen,      \* [Validators -> Nat]: identity of the stored object (0 = none)
          cnt,      \* [Validators -> Nat]: identities handed out so far
          db,       \* [shares, rcpt]: committed database
          txw,      \* write set of the open block transaction
          blk,      \* "idle" | "open" (block transaction open) | "exec" (committed, tasks being executed)
          nblk,     \* events of the open block
          tasks,    \* tasks emitted by the current block, not yet executed
          running,  \* [Validators -> [on, gen, owner, fee]]: the controller's validatorsMap
          mode,     \* "sync" (history sync: tasks are not executed) | "live"
          sv,       \* StartValidators: "idle" | "listed" | "done" (done = the metadata loop runs)
          snap,     \* the share objects StartValidators listed
          clean,    \* nothing happened between the listing and now
          nEv, nMeta, nRestart,
          act
vars == <<mem, gen, cnt, db, txw, blk, nblk, tasks, running, mode, sv, snap, clean, nEv, nMeta, nRestart, act>>
view == <<mem, gen, cnt, db, txw, blk, nblk, tasks, running, mode, sv, snap, clean, nEv, nMeta, nRestart>>

NoShare == [on |-> FALSE, owner |-> "", comm |-> "", liq |-> FALSE, meta |-> FALSE]
NoRcpt  == [on |-> FALSE, fee |-> ""]
NoRun   == [on |-> FALSE, gen |-> 0, owner |-> "", fee |-> ""]
NoEnt   == [in |-> FALSE, gen |-> 0, owner |-> "", meta |-> FALSE]
NoEnts  == [v \in Validators |-> NoEnt]
NoTxw   == [shares |-> [v \in Validators |-> [w |-> "none", s |-> NoShare]],
            rcpt   |-> [o \in Owners |-> [w |-> FALSE, r |-> NoRcpt]]]
NilEv   == [k |-> "", o |-> "", v |-> "", c |-> "", q |-> "", f |-> ""]
NoTask  == [t |-> "", o |-> "", v |-> "", f |-> "", ents |-> NoEnts]

VAdd(o, v, c, q) == [NilEv EXCEPT !.k = "VAdd", !.o = o, !.v = v, !.c = c, !.q = q]   \* q: "ok" | "bad" (owner signature)
VRem(o, v)       == [NilEv EXCEPT !.k = "VRem", !.o = o, !.v = v]
VExit(o, v)      == [NilEv EXCEPT !.k = "VExit", !.o = o, !.v = v]
Liq(o, c)        == [NilEv EXCEPT !.k = "Liq", !.o = o, !.c = c]
React(o, c)      == [NilEv EXCEPT !.k = "React", !.o = o, !.c = c]
Fee(o, f)        == [NilEv EXCEPT !.k = "Fee", !.o = o, !.f = f]                      \* f: "own" = the owner's address
OpRem            == [NilEv EXCEPT !.k = "OpRem"]                                      \* an event without any task

IsMine(s)   == s.on /\ s.comm \in Mine
(* the recipient setShareFeeRecipient reads: committed database, owner address when nothing is stored *)
DbFee(d, o) == IF d.rcpt[o].on THEN d.rcpt[o].fee ELSE "own"
TxRcpt(o)   == IF txw.rcpt[o].w THEN txw.rcpt[o].r ELSE db.rcpt[o]
Run         == {v \in Validators : running[v].on}
Eligible(shares) == {v \in Validators : IsMine(shares[v]) /\ ~shares[v].liq /\ shares[v].meta}

----------------------------------------------------------------------------
(* CONTROLLER *)
(* does the object of entry e (for validator v) carry beacon metadata now *)
ObjMeta(e, v) == IF mem[v].on /\ gen[v] = e.gen THEN mem[v].meta ELSE e.meta

(* controller.onShareStart(share) for the object (v, g) of owner o, m = share.HasBeaconMetadata() *)
StartObj(run, v, g, o, m) ==
    IF ~m THEN run[v]                                        \* "skipping validator until it becomes active"
    ELSE IF run[v].on
         THEN IF run[v].gen = g THEN [run[v] EXCEPT !.fee = DbFee(db, o)]   \* share IS v.Share: recipient refreshed
              ELSE run[v]                                                   \* another object: the validator is kept as it is
         ELSE [on |-> TRUE, gen |-> g, owner |-> o, fee |-> DbFee(db, o)]
StartEnts(run, ents) ==
    [v \in Validators |-> IF ents[v].in THEN StartObj(run, v, ents[v].gen, ents[v].owner, ObjMeta(ents[v], v)) ELSE run[v]]

ExecTask(run, t) ==
    CASE t.t = "stop"       -> [run EXCEPT ![t.v] = NoRun]
      [] t.t = "liquidate"  -> [v \in Validators |-> IF t.ents[v].in THEN NoRun ELSE run[v]]
      [] t.t = "reactivate" -> StartEnts(run, t.ents)
      [] t.t = "fee"        -> [v \in Validators |-> IF run[v].on /\ run[v].owner = t.o THEN [run[v] EXCEPT !.fee = t.f] ELSE run[v]]
      [] OTHER              -> run          \* "start" is a no-op in the code; "exit" hands a descriptor to the duty scheduler

(* an object leaves the share map: whoever still holds it sees the metadata it had at that moment *)
Freeze(ents, v) == IF ents[v].in /\ ents[v].gen = gen[v] THEN [ents EXCEPT ![v].meta = mem[v].meta] ELSE ents
FreezeTasks(ts, D) == [k \in 1..Len(ts) |-> [ts[k] EXCEPT !.ents = [v \in Validators |-> IF v \in D THEN Freeze(ts[k].ents, v)[v] ELSE @[v]]]]
FreezeEnts(ents, D) == [v \in Validators |-> IF v \in D THEN Freeze(ents, v)[v] ELSE ents[v]]

----------------------------------------------------------------------------
(* EVENT HANDLER: effect of one event on (mem, gen, cnt, txw), the task it emits, the objects it deletes *)
Same == [mem |-> mem, gen |-> gen, cnt |-> cnt, txw |-> txw, emit |-> <<>>, del |-> {}]
Cluster(o, c) == {v \in Validators : mem[v].on /\ mem[v].owner = o /\ mem[v].comm = c /\ c \in Mine}
T(t, o, v, f) == [NoTask EXCEPT !.t = t, !.o = o, !.v = v, !.f = f]

H(e) ==
    CASE e.k = "VAdd" ->
           LET rc  == TxRcpt(e.o)
               \* the nonce is bumped (recipient record created with the owner address) before any validation
               t1  == [txw EXCEPT !.rcpt[e.o] = [w |-> TRUE, r |-> [on |-> TRUE, fee |-> IF rc.on THEN rc.fee ELSE "own"]]]
               cur == mem[e.v]
               s   == [on |-> TRUE, owner |-> e.o, comm |-> e.c, liq |-> FALSE, meta |-> FALSE]
           IN IF e.q # "ok" THEN [Same EXCEPT !.txw = t1]                                      \* malformed: no task
              ELSE IF ~cur.on
                   THEN [mem |-> [mem EXCEPT ![e.v] = s], gen |-> [gen EXCEPT ![e.v] = cnt[e.v] + 1],
                         cnt |-> [cnt EXCEPT ![e.v] = @ + 1],
                         txw |-> [t1 EXCEPT !.shares[e.v] = [w |-> "set", s |-> s]],
                         emit |-> IF e.c \in Mine THEN << T("start", e.o, e.v, "") >> ELSE <<>>, del |-> {}]
                   ELSE IF cur.owner # e.o THEN [Same EXCEPT !.txw = t1]                       \* malformed: no task
                        ELSE [Same EXCEPT !.txw = t1, !.emit = IF cur.comm \in Mine THEN << T("start", e.o, e.v, "") >> ELSE <<>>]
      [] e.k = "VRem" ->
           LET cur == mem[e.v]
           IN IF cur.on /\ cur.owner = e.o
              THEN [mem |-> [mem EXCEPT ![e.v] = NoShare], gen |-> [gen EXCEPT ![e.v] = 0], cnt |-> cnt,
                    txw |-> [txw EXCEPT !.shares[e.v] = [w |-> "del", s |-> NoShare]],
                    emit |-> IF cur.comm \in Mine THEN << T("stop", e.o, e.v, "") >> ELSE <<>>, del |-> {e.v}]
              ELSE Same
      [] e.k = "VExit" ->
           LET cur == mem[e.v]
           IN IF cur.on /\ cur.owner = e.o /\ cur.comm \in Mine /\ cur.meta
              THEN [Same EXCEPT !.emit = << T("exit", e.o, e.v, "") >>] ELSE Same
      [] e.k \in {"Liq", "React"} ->
           LET S    == Cluster(e.o, e.c)
               flag == (e.k = "Liq")
               m1   == [v \in Validators |-> IF v \in S THEN [mem[v] EXCEPT !.liq = flag] ELSE mem[v]]
               ents == [v \in Validators |-> IF v \in S THEN [in |-> TRUE, gen |-> gen[v], owner |-> e.o, meta |-> FALSE] ELSE NoEnt]
           IN IF S = {} THEN Same
              ELSE [mem |-> m1, gen |-> gen, cnt |-> cnt,
                    txw |-> [txw EXCEPT !.shares = [v \in Validators |-> IF v \in S THEN [w |-> "set", s |-> m1[v]] ELSE @[v]]],
                    emit |-> << [T(IF flag THEN "liquidate" ELSE "reactivate", e.o, "", "") EXCEPT !.ents = ents] >>, del |-> {}]
      [] e.k = "Fee" ->
           LET rc == TxRcpt(e.o)
           IN IF rc.on /\ rc.fee = e.f THEN Same                                               \* unchanged: no task
              ELSE [Same EXCEPT !.txw = [txw EXCEPT !.rcpt[e.o] = [w |-> TRUE, r |-> [on |-> TRUE, fee |-> e.f]]],
                                !.emit = << T("fee", e.o, "", e.f) >>]
      [] OTHER -> Same

(* identities are not observable: renumber them whenever no task is pending (live object 1, the running
   validator's stale object 2, a stale listed object 3) *)
Settle(run, sn) ==   \* run, sn: the new validatorsMap / snapshot before renumbering; mem is unchanged by every caller
    /\ gen' = [v \in Validators |-> IF mem[v].on THEN 1 ELSE 0]
    /\ cnt' = [v \in Validators |-> 3]
    /\ running' = [v \in Validators |-> IF run[v].on
                      THEN [run[v] EXCEPT !.gen = IF mem[v].on /\ run[v].gen = gen[v] THEN 1 ELSE 2] ELSE NoRun]
    /\ snap' = [v \in Validators |-> IF sn[v].in
                      THEN [sn[v] EXCEPT !.gen = IF mem[v].on /\ sn[v].gen = gen[v] THEN 1
                                                 ELSE IF run[v].on /\ sn[v].gen = run[v].gen THEN 2 ELSE 3] ELSE NoEnt]

----------------------------------------------------------------------------
EmptyDb == [shares |-> [v \in Validators |-> NoShare], rcpt |-> [o \in Owners |-> NoRcpt]]

Init == /\ mem = [v \in Validators |-> NoShare] /\ gen = [v \in Validators |-> 0] /\ cnt = [v \in Validators |-> 3]
        /\ db = EmptyDb /\ txw = NoTxw /\ blk = "idle" /\ nblk = 0 /\ tasks = <<>>
        /\ running = [v \in Validators |-> NoRun]
        /\ mode = "live" /\ sv = "done" /\ snap = NoEnts /\ clean = TRUE
        /\ nEv = 0 /\ nMeta = 0 /\ nRestart = 0
        /\ act = [name |-> "Init"]

(* processEvent: one event of the block being processed *)
Event(e) ==
    /\ blk \in {"idle", "open"} /\ nblk < MaxBlock /\ nEv < MaxEvents
    /\ LET h == H(e) IN
       /\ mem' = h.mem /\ gen' = h.gen /\ cnt' = h.cnt /\ txw' = h.txw
       /\ tasks' = IF mode = "sync" THEN <<>> ELSE FreezeTasks(tasks, h.del) \o h.emit
       /\ snap' = FreezeEnts(snap, h.del)
       /\ act' = [name |-> "Event", e |-> e, task |-> IF h.emit = <<>> THEN "none" ELSE h.emit[1].t]
    /\ blk' = "open" /\ nblk' = nblk + 1 /\ nEv' = nEv + 1
    /\ clean' = IF sv = "listed" THEN FALSE ELSE clean
    /\ UNCHANGED <<db, running, mode, sv, nMeta, nRestart>>

(* SaveLastProcessedBlock + txn.Commit; then HandleBlockEventsStream starts on the tasks (or drops them) *)
Commit ==
    /\ blk = "open"
    /\ db' = [shares |-> [v \in Validators |-> CASE txw.shares[v].w = "set" -> txw.shares[v].s
                                                  [] txw.shares[v].w = "del" -> NoShare
                                                  [] OTHER -> db.shares[v]],
              rcpt   |-> [o \in Owners |-> IF txw.rcpt[o].w THEN txw.rcpt[o].r ELSE db.rcpt[o]]]
    /\ txw' = NoTxw /\ nblk' = 0
    /\ UNCHANGED <<mem, mode, sv, clean, nEv, nMeta, nRestart, tasks>>
    /\ IF tasks = <<>>
       THEN blk' = "idle" /\ Settle(running, snap)
       ELSE blk' = "exec" /\ UNCHANGED <<gen, cnt, running, snap>>
    /\ act' = [name |-> "Commit", tasks |-> Len(tasks)]

(* task.Execute() of the next task of the committed block *)
Exec ==
    /\ blk = "exec" /\ tasks # <<>>
    /\ LET t == Head(tasks) run == ExecTask(running, t) IN
       /\ tasks' = Tail(tasks)
       /\ IF Tail(tasks) = <<>>
          THEN blk' = "idle" /\ Settle(run, snap)
          ELSE blk' = "exec" /\ running' = run /\ UNCHANGED <<gen, cnt, snap>>
       /\ act' = [name |-> "Exec", t |-> t.t, o |-> t.o, v |-> t.v, f |-> t.f,
                  vs |-> {v \in Validators : t.ents[v].in}]
    /\ clean' = IF sv = "listed" THEN FALSE ELSE clean
    /\ UNCHANGED <<mem, db, txw, nblk, mode, sv, nEv, nMeta, nRestart>>

(* controller.UpdateValidatorMetadata(pk, metadata): the metadata goroutine (new shares within seconds, known
   shares every MetadataUpdateInterval) *)
MetaUpdate(v) ==
    /\ mode = "live" /\ sv = "done" /\ nMeta < MaxMeta
    /\ (MetaAnywhere \/ blk = "idle")
    /\ mem[v].on
    /\ LET s == [mem[v] EXCEPT !.meta = TRUE] IN
       /\ mem' = [mem EXCEPT ![v] = s]
       /\ db' = [db EXCEPT !.shares[v] = s]                      \* Save(nil, share): outside the block transaction
       /\ running' = [running EXCEPT ![v] = IF IsMine(s) /\ ~s.liq /\ ~running[v].on
                                             THEN [on |-> TRUE, gen |-> gen[v], owner |-> s.owner, fee |-> DbFee(db, s.owner)]
                                             ELSE @]
       /\ act' = [name |-> "MetaUpdate", v |-> v, refresh |-> mem[v].meta]
    /\ nMeta' = nMeta + 1
    /\ UNCHANGED <<gen, cnt, txw, blk, nblk, tasks, mode, sv, snap, clean, nEv, nRestart>>

(* the process dies and a new one starts on the database: history sync first (tasks are not executed) *)
Restart ==
    /\ blk \in {"idle", "exec"} /\ nRestart < MaxRestarts
    /\ mem' = db.shares
    /\ gen' = [v \in Validators |-> IF db.shares[v].on THEN 1 ELSE 0] /\ cnt' = [v \in Validators |-> 3]
    /\ txw' = NoTxw /\ blk' = "idle" /\ nblk' = 0 /\ tasks' = <<>>
    /\ running' = [v \in Validators |-> NoRun]
    /\ mode' = "sync" /\ sv' = "idle" /\ snap' = NoEnts /\ clean' = TRUE
    /\ nRestart' = nRestart + 1
    /\ act' = [name |-> "Restart", lost |-> Len(tasks)]
    /\ UNCHANGED <<db, nEv, nMeta>>

(* SyncHistory returned; SyncOngoing runs in the background from now on *)
SyncDone ==
    /\ mode = "sync" /\ blk = "idle"
    /\ mode' = "live"
    /\ act' = [name |-> "SyncDone"]
    /\ UNCHANGED <<mem, gen, cnt, db, txw, blk, nblk, tasks, running, sv, snap, clean, nEv, nMeta, nRestart>>

Listed == [v \in Validators |-> IF IsMine(mem[v]) /\ ~mem[v].liq
                                THEN [in |-> TRUE, gen |-> gen[v], owner |-> mem[v].owner, meta |-> FALSE] ELSE NoEnt]

(* StartValidators, first half: shares := List(ByNotLiquidated), own shares selected *)
StartList ==
    /\ SplitStart /\ mode = "live" /\ sv = "idle"
    /\ snap' = Listed /\ sv' = "listed" /\ clean' = TRUE
    /\ act' = [name |-> "StartList", vs |-> {v \in Validators : Listed[v].in}]
    /\ UNCHANGED <<mem, gen, cnt, db, txw, blk, nblk, tasks, running, mode, nEv, nMeta, nRestart>>

(* StartValidators, second half: setupValidators + startValidators on the listed objects *)
StartSetup ==
    /\ SplitStart /\ sv = "listed"
    /\ sv' = "done"
    /\ LET run == StartEnts(running, snap) IN
       IF blk = "idle" /\ tasks = <<>>
       THEN Settle(run, NoEnts) /\ UNCHANGED mem
       ELSE running' = run /\ snap' = NoEnts /\ UNCHANGED <<mem, gen, cnt>>
    /\ act' = [name |-> "StartSetup", clean |-> clean]
    /\ UNCHANGED <<db, txw, blk, nblk, tasks, mode, clean, nEv, nMeta, nRestart>>

(* StartValidators as one step *)
StartAll ==
    /\ ~SplitStart /\ mode = "live" /\ sv = "idle"
    /\ sv' = "done"
    /\ LET run == StartEnts(running, Listed) IN
       IF blk = "idle" /\ tasks = <<>>
       THEN Settle(run, NoEnts) /\ UNCHANGED mem
       ELSE running' = run /\ snap' = NoEnts /\ UNCHANGED <<mem, gen, cnt>>
    /\ act' = [name |-> "StartAll", clean |-> TRUE]
    /\ UNCHANGED <<db, txw, blk, nblk, tasks, mode, clean, nEv, nMeta, nRestart>>

Next == \/ \E e \in Alphabet : Event(e)
        \/ Commit \/ Exec
        \/ \E v \in Validators : MetaUpdate(v)
        \/ Restart \/ SyncDone \/ StartList \/ StartSetup \/ StartAll
Spec == Init /\ [][Next]_vars

----------------------------------------------------------------------------
(* SYSTEM-LEVEL FACTS.  Quiescent = no block in progress, no task pending, node start finished.
   What TLC establishes (2 owners, 2-3 validators, committees with and without this operator, <= 1 restart):
     MetaAnywhere = FALSE, SplitStart = FALSE   all of L1 .. L7 hold except L5          (cfgs seq, full)
     MetaAnywhere = TRUE  only                  L1b L2 L2b L4 L6 L7 hold; L1a L3 L3a fail (cfgs meta, obs_L1a, obs_L3)
     SplitStart   = TRUE  only                  L1a L3a L4 L6 hold; L1b L2 L2b L3 L7 fail (cfgs start, obs_L2, obs_L2b)
     both                                       L3b L4 L5a L6 hold                        (cfgs conc, three)
     L5 fails in every config (handleValidatorExited does not look at Liquidated)        (cfg obs_L5)
   Every failing fact's counterexample is replayed on the real code by harness/cmd/lifecycle (all reproduce). *)
Quiescent == blk = "idle" /\ mode = "live" /\ sv = "done"

(* L1  at quiescence the running validators are exactly the stored shares of this operator that are not
       liquidated and have beacon metadata *)
L1_RunningIsEligible == Quiescent => Run = Eligible(mem)
L1a_NoneMissing      == Quiescent => Eligible(mem) \subseteq Run
L1b_NoneExtra        == Quiescent => Run \subseteq Eligible(mem)
(* L2  a validator of a liquidated cluster (or a removed one) is never running at quiescence *)
L2_NoLiquidatedRunning == Quiescent => \A v \in Run : ~(mem[v].on /\ mem[v].liq)
L2b_NoRemovedRunning   == Quiescent => \A v \in Run : mem[v].on
(* L3  restart independence: what a restart would start (from the database) is what runs *)
L3_RestartIndependent == Quiescent => Run = Eligible(db.shares)
L3a_MemIsDb           == Quiescent => mem = db.shares
(*     (facts about a step are action properties: the exhaustive configs hide `act` behind a VIEW) *)
L3b_StartFromStorage  == [][(act'.name \in {"StartSetup", "StartAll"} /\ act'.clean /\ blk' = "idle")
                              => {v \in Validators : running'[v].on} = Eligible(mem')]_vars
(* L4  the recipient a running validator uses is the stored one *)
L4_FeeIsStored == Quiescent => \A v \in Run : running[v].fee = DbFee(db, running[v].owner)
(* L5  an exit is handed to the duty scheduler only for a validator that runs here *)
L5_ExitOnlyRunning == [][(act'.name = "Exec" /\ act'.t = "exit" /\ sv = "done") => running[act'.v].on]_vars
L5a_ExitOnlyOwnStored == [][(act'.name = "Event" /\ act'.task = "exit") =>
                            (IsMine(mem[act'.e.v]) /\ mem[act'.e.v].owner = act'.e.o /\ mem[act'.e.v].meta)]_vars
(* L6  tasks exist only for a block in progress, never during the history sync *)
L6_TasksOnlyInBlock == (tasks # <<>> => blk \in {"open", "exec"} /\ mode = "live") /\ (blk = "exec" => tasks # <<>>)
(* L7  the object a running validator holds is the stored one (no validator runs on a share object that left
       the share map) *)
L7_RunningHoldsStored == Quiescent => \A v \in Run : mem[v].on /\ running[v].gen = gen[v]

TypeOK == /\ nEv \in 0..MaxEvents /\ nMeta \in 0..MaxMeta /\ nRestart \in 0..MaxRestarts /\ nblk \in 0..MaxBlock
          /\ blk \in {"idle", "open", "exec"} /\ mode \in {"sync", "live"} /\ sv \in {"idle", "listed", "done"}
          /\ Len(tasks) <= MaxBlock
          /\ \A v \in Validators : cnt[v] \in 0..(3 + MaxBlock) /\ gen[v] \in 0..(3 + MaxBlock)
          /\ (blk = "idle" => txw = NoTxw)
=============================================================================
