SPECIFICATION Spec
CONSTANTS
  HasPre = FALSE
  MaxSlot = 3
  MaxSig = 4
  Cap = 2
  Vals <- AllVals
  Quorums <- AllQuorums
  PrevDec = "code"
  Weaken <- WNoRoute
INVARIANT SigWindow
