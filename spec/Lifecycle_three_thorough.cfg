SPECIFICATION Spec
CONSTANTS
  Owners <- MCOwners
  Validators <- MCValidators3
  Comms <- MCComms
  Mine <- MCMine
  Alphabet <- Alpha3
  MaxEvents = 4
  MaxBlock = 2
  MaxMeta = 2
  MaxRestarts = 1
  MetaAnywhere = TRUE
  SplitStart = TRUE
INVARIANT TypeOK
PROPERTY L3b_StartFromStorage
INVARIANT L4_FeeIsStored
PROPERTY L5a_ExitOnlyOwnStored
INVARIANT L6_TasksOnlyInBlock
VIEW view
