------------------------------- MODULE Queue -------------------------------
(* protocol/v2/ssv/queue: priorityQueue (Push / TryPush / Pop / TryPop) and standardPrioritizer.

   list[1] is q.head (newest first: readInbox prepends), inbox is the buffered channel.
   Messages are records [id, c] where c is a *priority class*: the attributes of a
   DecodedSSVMessage that standardPrioritizer.Prior looks at, relative to the prioritizer
   State (rel = height/slot relative to State.Height/Slot, rnd = round relative to State.Round).
   A filter is a set of message ids (its extension on the messages that can ever be queued).

   Algo = "code"  : pop() as written at the pinned commit (scan starts with highest = head,
                    unlinks `highest` even when the filter rejects it)  -- named deviation.
   Algo = "fixed" : pop() chooses among admissible items only, unlinks only what it returns.
   Blocking Pop is three actions: PopBegin (optional inbox read, first pop attempt),
   WaitRecv (the wait loop takes one inbox message), PopCancel (ctx.Done).              *)
EXTENDS Integers, Sequences, FiniteSets, TLC

CONSTANTS Classes,      \* set of class records
          MaxMsgs,      \* ids 1..MaxMsgs
          Cap,          \* inbox capacity
          Algo,         \* "code" | "fixed"
          SeqHarness,   \* TRUE: only schedules a single-threaded replay harness can force
          Blocking      \* TRUE: include the blocking Pop actions

VARIABLES inbox, list, pushed, popped, nextId,
          waiting,      \* [on |-> FALSE] or [on |-> TRUE, F |-> filter, hri |-> BOOLEAN]
          act
vars == <<inbox, list, pushed, popped, nextId, waiting, act>>
view == <<inbox, list, pushed, popped, nextId, waiting>>

Ids == 1..MaxMsgs
NotWaiting == [on |-> FALSE, F |-> {}, hri |-> FALSE]
NilM == [id |-> 0]
SetOf(s) == {s[k] : k \in 1..Len(s)}
Rev(s) == [k \in 1..Len(s) |-> s[Len(s) + 1 - k]]
Remove(s, k) == [j \in 1..(Len(s) - 1) |-> IF j < k THEN s[j] ELSE s[j + 1]]
ReadInbox(l, ib) == Rev(ib) \o l      \* every inbox message is prepended, in arrival order

----------------------------------------------------------------------------
(* standardPrioritizer.Prior, transcribed score by score (message_prioritizer.go, messages.go) *)
ScoreType(c) == CASE c.k = "exec" -> 3 [] c.k = "timeout" -> 2 [] OTHER -> 0
RelH(c) == IF c.k \in {"cons", "pre", "post"} THEN c.rel ELSE -1      \* compareHeightOrSlot
ScoreHeight(rel) == CASE rel = 0 -> 2 [] rel = 1 -> 1 [] OTHER -> 0
IsDecided(c) == c.k = "cons" /\ c.ct = "commit" /\ c.dec
ScoreSub(c, rel, hri) ==
    IF rel = 0 THEN
        IF hri THEN (CASE c.k = "cons" -> 3 [] c.k = "pre" -> 2 [] c.k = "post" -> 1 [] OTHER -> 0)
        ELSE (CASE c.k = "pre" -> 3 [] c.k = "post" -> 2 [] c.k = "cons" -> 1 [] OTHER -> 0)
    ELSE IF rel = 1 THEN
        (CASE IsDecided(c) -> 4 [] c.k = "pre" -> 3 [] c.k = "cons" -> 2 [] c.k = "post" -> 1 [] OTHER -> 0)
    ELSE (CASE IsDecided(c) -> 2 [] (c.k = "cons" /\ c.ct = "commit") -> 1 [] OTHER -> 0)
ScoreRound(c) == IF c.k = "cons" THEN (CASE c.rnd = 0 -> 2 [] c.rnd = 1 -> 1 [] OTHER -> -1) ELSE 0
ScoreCT(c) == IF c.k = "cons"
              THEN (CASE c.ct = "proposal" -> 4 [] c.ct = "prepare" -> 3 [] c.ct = "commit" -> 2 [] c.ct = "rc" -> 1 [] OTHER -> 0)
              ELSE 0

Prior(a, b, hri) ==
    IF ScoreType(a) # ScoreType(b) THEN ScoreType(a) > ScoreType(b)
    ELSE IF RelH(a) # RelH(b) THEN ScoreHeight(RelH(a)) > ScoreHeight(RelH(b))
    ELSE IF ScoreSub(a, RelH(a), hri) # ScoreSub(b, RelH(b), hri) THEN ScoreSub(a, RelH(a), hri) > ScoreSub(b, RelH(b), hri)
    ELSE IF ScoreRound(a) # ScoreRound(b) THEN ScoreRound(a) > ScoreRound(b)
    ELSE IF ScoreCT(a) # ScoreCT(b) THEN ScoreCT(a) > ScoreCT(b)
    ELSE TRUE
StrictlyPrior(a, b, hri) == Prior(a, b, hri) /\ ~Prior(b, a, hri)

(* the documented coarse order of the property: duty start > timeout > current-height traffic > other heights *)
Coarse(c) == CASE c.k = "exec" -> 3 [] c.k = "timeout" -> 2
               [] (c.k \in {"cons", "pre", "post"} /\ c.rel = 0) -> 1 [] OTHER -> 0

----------------------------------------------------------------------------
(* pop(): returns <<index of returned item or 0, list after the call>> *)
RECURSIVE Scan(_, _, _, _, _)
Scan(l, F, hri, k, hi) ==
    IF k > Len(l) THEN hi
    ELSE Scan(l, F, hri, k + 1, IF Prior(l[k].c, l[hi].c, hri) /\ l[k].id \in F THEN k ELSE hi)

PopCode(l, F, hri) ==
    IF Len(l) = 1 THEN (IF l[1].id \in F THEN <<l[1], <<>>>> ELSE <<NilM, l>>)
    ELSE LET hi == Scan(l, F, hri, 2, 1)
         IN <<IF l[hi].id \in F THEN l[hi] ELSE NilM, Remove(l, hi)>>

(* repaired pop: same scan restricted to admissible items (ties: the later list position, i.e. the
   older message, wins - exactly what the scan with `Prior` true on ties does) *)
RECURSIVE ScanAdm(_, _, _, _, _)
ScanAdm(l, F, hri, k, hi) ==
    IF k > Len(l) THEN hi
    ELSE ScanAdm(l, F, hri, k + 1,
                 IF l[k].id \in F /\ (hi = 0 \/ Prior(l[k].c, l[hi].c, hri)) THEN k ELSE hi)
PopFixed(l, F, hri) ==
    LET hi == ScanAdm(l, F, hri, 1, 0)
    IN IF hi = 0 THEN <<NilM, l>> ELSE <<l[hi], Remove(l, hi)>>

PopRes(l, F, hri) == IF l = <<>> THEN <<NilM, l>>
                     ELSE IF Algo = "code" THEN PopCode(l, F, hri) ELSE PopFixed(l, F, hri)

----------------------------------------------------------------------------
Init == /\ inbox = <<>> /\ list = <<>> /\ pushed = {} /\ popped = {} /\ nextId = 1
        /\ waiting = NotWaiting /\ act = [name |-> "init"]

HarnessOK == \* a sequential harness cannot push again while the woken consumer has not finished
    SeqHarness => ~(waiting.on /\ inbox # <<>>)      \* the blocked consumer takes every message at once

TryPush(c) ==
    /\ nextId <= MaxMsgs /\ HarnessOK
    /\ LET m == [id |-> nextId, c |-> c] IN
       IF Len(inbox) < Cap
       THEN /\ inbox' = Append(inbox, m) /\ pushed' = pushed \cup {m}
            /\ act' = [name |-> "TryPush", id |-> nextId, c |-> c, ok |-> TRUE]
       ELSE /\ UNCHANGED <<inbox, pushed>>
            /\ act' = [name |-> "TryPush", id |-> nextId, c |-> c, ok |-> FALSE]
    /\ nextId' = nextId + 1
    /\ UNCHANGED <<list, popped, waiting>>

(* Push blocks while the channel is full: enabled only when there is room *)
Push(c) ==
    /\ nextId <= MaxMsgs /\ HarnessOK /\ Len(inbox) < Cap
    /\ LET m == [id |-> nextId, c |-> c] IN
       /\ inbox' = Append(inbox, m) /\ pushed' = pushed \cup {m}
       /\ act' = [name |-> "Push", id |-> nextId, c |-> c, ok |-> TRUE]
    /\ nextId' = nextId + 1
    /\ UNCHANGED <<list, popped, waiting>>

Finish(name, l, F, hri) ==
    LET r == PopRes(l, F, hri) IN
    /\ list' = r[2]
    /\ popped' = IF r[1].id = 0 THEN popped ELSE popped \cup {r[1]}
    /\ act' = [name |-> name, filter |-> F, hri |-> hri, res |-> IF r[1].id = 0 THEN 0 ELSE r[1].id,
               len |-> Len(r[2])]

TryPop(F, hri) ==
    /\ ~waiting.on
    /\ inbox' = <<>>
    /\ Finish("TryPop", ReadInbox(list, inbox), F, hri)
    /\ UNCHANGED <<pushed, nextId, waiting>>

(* Pop, first half: optional readInbox (time.Since(lastRead) > 1ms), one pop attempt *)
PopBegin(F, hri, read) ==
    /\ Blocking /\ ~waiting.on
    /\ (SeqHarness => read)                     \* the harness sleeps 2 ms before Pop
    /\ LET l0 == IF read THEN ReadInbox(list, inbox) ELSE list
           ib == IF read THEN <<>> ELSE inbox
           r  == PopRes(l0, F, hri)
       IN /\ inbox' = ib /\ list' = r[2]
          /\ IF r[1].id # 0
             THEN /\ popped' = popped \cup {r[1]} /\ waiting' = NotWaiting
                  /\ act' = [name |-> "PopBegin", filter |-> F, hri |-> hri, res |-> r[1].id, len |-> Len(r[2]) + Len(ib)]
             ELSE /\ popped' = popped /\ waiting' = [on |-> TRUE, F |-> F, hri |-> hri]
                  /\ act' = [name |-> "PopBegin", filter |-> F, hri |-> hri, res |-> 0, len |-> Len(r[2]) + Len(ib)]
    /\ UNCHANGED <<pushed, nextId>>

(* the wait loop receives one message; an admissible one ends the wait: readInbox, pop *)
WaitRecv ==
    /\ waiting.on /\ inbox # <<>>
    /\ LET m == Head(inbox)  l1 == <<m>> \o list IN
       IF m.id \in waiting.F
       THEN /\ inbox' = <<>>
            /\ Finish("WaitRecvDone", ReadInbox(l1, Tail(inbox)), waiting.F, waiting.hri)
            /\ waiting' = NotWaiting
       ELSE /\ inbox' = Tail(inbox) /\ list' = l1 /\ popped' = popped
            /\ waiting' = waiting /\ act' = [name |-> "WaitRecv", id |-> m.id]
    /\ UNCHANGED <<pushed, nextId>>

PopCancel ==
    /\ waiting.on
    /\ inbox' = <<>>
    /\ Finish("PopCancel", ReadInbox(list, inbox), waiting.F, waiting.hri)
    /\ waiting' = NotWaiting
    /\ UNCHANGED <<pushed, nextId>>

Next == \/ \E c \in Classes : TryPush(c) \/ Push(c)
        \/ \E F \in SUBSET Ids, hri \in BOOLEAN : TryPop(F, hri) \/ \E rd \in BOOLEAN : PopBegin(F, hri, rd)
        \/ WaitRecv \/ PopCancel
Spec == Init /\ [][Next]_vars

----------------------------------------------------------------------------
Queued == SetOf(inbox) \cup SetOf(list)
IsPop == act.name \in {"TryPop", "PopBegin", "WaitRecvDone", "PopCancel"}

(* every successfully pushed message is queued or was returned by exactly one pop *)
Conservation == /\ pushed = popped \cup Queued
                /\ popped \cap Queued = {}
                /\ Len(inbox) + Len(list) = Cardinality(Queued)      \* no duplicates inside the queue
Admitted == IsPop /\ act.res # 0 => act.res \in act.filter
LenOK == IsPop => act.len = Len(inbox) + Len(list)

QueuedIds(ib, l) == {m.id : m \in SetOf(ib) \cup SetOf(l)}
ClassOf(id) == (CHOOSE m \in pushed : m.id = id).c

(* a completed pop returns a message whenever an admissible one was queued, and a maximal one *)
PopOutcomeOK(ibBefore, lBefore, F, hri, res) ==
    LET q == {m \in SetOf(ibBefore) \cup SetOf(lBefore) : m.id \in F} IN
    /\ (q # {}) => res # 0
    /\ res # 0 => \A x \in q :
          LET rc == (CHOOSE m \in q : m.id = res).c IN
          /\ Coarse(rc) >= Coarse(x.c)                      \* documented coarse order
          /\ ~StrictlyPrior(x.c, rc, hri)                   \* exact order
Responsive ==
    [][ /\ \A F \in SUBSET Ids, hri \in BOOLEAN :
            TryPop(F, hri) => PopOutcomeOK(inbox, list, F, hri, act'.res)
        /\ (WaitRecv /\ act'.name = "WaitRecvDone") =>
            PopOutcomeOK(inbox, list, waiting.F, waiting.hri, act'.res)
        /\ PopCancel => PopOutcomeOK(inbox, list, waiting.F, waiting.hri, act'.res)
      ]_vars
(* a waiting consumer is only waiting when nothing admissible is in the list *)
WaitingSound == waiting.on => \A k \in 1..Len(list) : list[k].id \notin waiting.F
(* a pop never discards: whatever leaves the queue is the returned message *)
NoDiscard == [][Queued \ Queued' \subseteq (popped' \ popped)]_vars
=============================================================================
