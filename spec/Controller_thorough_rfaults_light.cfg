SPECIFICATION Spec
CONSTANTS
  MaxH = 2
  MaxRestarts = 2
  FullNode = FALSE
  Cap = 2
  Weaken = "none"
  GapFix = FALSE
  CertRounds = {1, 2}
  Direct = FALSE
  MidCrash = TRUE
  Timeouts = FALSE
  MaxWriteFaults = 1
  MaxReadFaults = 2
  ReadKinds = {"err", "empty", "garbage"}
  ReadFix = FALSE
INVARIANT ContainerOK
INVARIANT TopIsHeight
INVARIANT StorageShape
INVARIANT RestartResumes
PROPERTY NoRerunExceptFailedLoad
PROPERTY NoRerunCtl
PROPERTY HeightMonotone
PROPERTY HighestMonotoneExceptFailedLoad
PROPERTY HistMonotoneExceptRerun
PROPERTY RestartCoversLearned
INVARIANT HistBehindHighest
VIEW view
