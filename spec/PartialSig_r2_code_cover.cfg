SPECIFICATION Spec
CONSTANTS
  N = 4
  R = 2
  FaultySets <- TailFaultySets
  MaxHonest = 1
  MaxFaulty = 2
  Foreign = FALSE
  Orders <- OrdersFwdRev
  Algo = "code"
  Weaken <- NoWeaken
INVARIANT SubmittedValid
INVARIANT AtMostOnce
