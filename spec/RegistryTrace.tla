--------------------------- MODULE RegistryTrace ---------------------------
(* Trace validation of executions recorded from the real event handler (harness/cmd/registry -mode record)
   against Registry, event grain.  One line per interaction: Setup (block 1), Proc (an event joins the
   current block), EndBlock (the block was processed: projected real database, in-memory shares, own operator
   id, key store), Reboot (a new node on the same database).  Chains are concatenated; every Setup line
   re-initialises the state. *)
EXTENDS Registry, Json
VARIABLE l
Trace == ndJsonDeserialize("trace.ndjson")
tvars == <<vars, l>>

IsEv(e) == l <= Len(Trace) /\ Trace[l].event = e /\ l' = l + 1
Matches(t) == /\ db' = t.db /\ mem'.shares = t.mem /\ mem'.own = t.own /\ ks' = t.ks

TInit == /\ l = 1
         /\ LET x == EmptyX
                reg == [ops |-> x.ops, shares |-> x.shares, rcpt |-> x.rcpt, last |-> 0]
            IN /\ db = reg /\ tx = reg /\ mem = Load(reg) /\ ks = x.ks /\ exp = x
         /\ blockNo = 1 /\ blk = <<>> /\ pos = 0 /\ pend = <<>> /\ prev = <<>> /\ closed = FALSE /\ nEv = 0 /\ nFault = 0
         /\ act = [name |-> "init"]

TSetup == /\ IsEv("Setup")
          /\ LET s   == Trace[l].events
                 x   == Expected(s)
                 reg == [ops |-> x.ops, shares |-> MetaAll(x.shares), rcpt |-> x.rcpt, last |-> 1]
             IN /\ db' = reg /\ tx' = reg /\ mem' = Load(reg) /\ ks' = x.ks /\ exp' = x
                /\ act' = [name |-> "Setup", events |-> s]
          /\ blockNo' = 2 /\ blk' = <<>> /\ pos' = 0 /\ pend' = <<>> /\ prev' = <<>> /\ closed' = FALSE /\ nEv' = 0 /\ nFault' = 0
          /\ Matches(Trace[l])

TProc == /\ IsEv("Proc") /\ CanStart
         /\ Take(Trace[l].e, TRUE)

TEndBlock == /\ IsEv("EndBlock")
             /\ blockNo = Trace[l].n
             /\ EndBlock
             /\ Matches(Trace[l])

TReboot == /\ IsEv("Reboot") /\ Boundary
           /\ mem' = Load(db)
           /\ act' = [name |-> "Reboot"]
           /\ UNCHANGED <<db, tx, ks, exp, blockNo, blk, pos, pend, prev, closed, nEv, nFault>>
           /\ Matches(Trace[l])

TNext == TSetup \/ TProc \/ TEndBlock \/ TReboot
TraceSpec == TInit /\ [][TNext]_tvars
TraceAccepted == TLCGet("stats").diameter - 1 = Len(Trace)
=============================================================================
