------------------------------ MODULE Slashing ------------------------------
(* ekm.ethKeyManagerSigner (AddShare / RemoveShare / BumpSlashingProtection / SignBeaconObject for
   attestations and blocks) over its signer storage, together with eth2-key-manager v1.4.0
   (NormalProtection, SimpleSigner.SignBeaconAttestation / SignBlock, the ND wallet), for ONE key share.

   Grain.  Every public call is one action.  The call is a sequential program of reads and writes of
   four database items; the program text below follows the code statement by statement:
       att   highest attestation record  (signer_data-highest_att-<pk>)   [f, s, t]
       prop  highest proposal record     (signer_data-highest_prop-<pk>)  [f, v]
       accs  account records             (signer_data-accounts-<uuid>)    set of uuid generations
       db    the persisted wallet's index pk -> uuid (signer_data-wallet) 0 = no entry
   plus one volatile item, mem = the index of the wallet object held by the running process.
   A call carries at most one *fault plan* f = [k, at, n]: the n-th access of item `at` made by this call
       k = "crash"      the process dies immediately before the write (the write is lost)
       k = "crashafter" the process dies immediately after the write
       k = "fail"       the write returns an error (that one write: a second write of the item by the same call succeeds)
       k = "failall"    EVERY write (Set and Delete) of item `at` returns an error, for the whole call and for the
                        n - 1 public calls that follow it (n <= MaxPersist; a full disk, a store that went read-only):
                        the fault PERSISTS, also over a restart; only the two protection records can be hit this way.
                        While it lasts (`broken`) the following calls carry no plan of their own.
       k = "rerr"       the read returns an error
       k = "rmiss"      the read reports "not found"
       k = "rempty"     the read returns an empty value (an undecodable record; named deviation, see Read)
   so that a crash is possible between any two writes of AddShare (att, prop, account, wallet),
   RemoveShare (its three deletes and the wallet save) and Sign (record update, then signature release).
   A crash is followed by a restart: a new signer object on the surviving database (mem := db).
   Only plans that actually fire are taken (no duplicate edges).

   What the code does when the write of a protection record fails (transcribed):
     storage.SaveHighestAttestation / SaveHighestProposal   one db.Set, its error is returned as it is
     NormalProtection.UpdateHighestAttestation / -Proposal    wrap and return the error
     SimpleSigner.SignBeaconAttestation / SignBlock (step 5)  return the error BEFORE the signing root is computed:
                                                              no signature leaves the signer
     ekm.updateHighestAttestation / updateHighestProposal     wrap and return; BumpSlashingProtection returns;
                                                              AddShare returns before saveShare (no account)
     ekm.RemoveShare                                          returns at the first failing delete
   Nothing is retried, so in the code as written "fail" and "failall" with n = 1 hit the same single write; they
   differ as soon as a write is attempted again: by a later call (n > 1), or inside the call by
   Weaken = "saveErrSwallowed" (the Set is tried twice and the error of the last attempt is dropped).

   Signing requests of one share are serialised by SimpleSigner's per-account lock (check, update and
   signature under one lock), AddShare / RemoveShare hold the key manager's wallet lock exclusively, so the
   calls are atomic with respect to each other and "concurrent signing" is: the calls take effect in any order.
   Weaken = "noSignLock" splits Sign into SignCheck / SignCommit (what the code would do without that lock).
   (Observed on the real code, outside C04: SimpleSigner.lock holds its map mutex while waiting for the
   account mutex and unlock needs the map mutex, so two overlapping requests for one account and one duty
   type deadlock instead of queueing; stuck requests never return and therefore release nothing.)

   Environment assumption of the property: attestation targets and block slots are never beyond the clock.

   Weaken removes ONE guard (attack configs); "none" is the code as written.                            *)
EXTENDS Integers, FiniteSets, TLC

CONSTANTS SPE,        \* slots per epoch of the virtual beacon network
          MaxSlot,    \* the clock runs from SPE (first slot of epoch 1) to MaxSlot
          MaxGen,     \* at most MaxGen account records are ever created
          MaxFaults,  \* fault budget of a behaviour
          MaxPersist, \* a persistent write fault ("failall") lasts for 1..MaxPersist consecutive public calls
          Variants,   \* 1..Variants distinguishes different data with equal (source,target) / equal slot
          Kinds,      \* subset of {"att", "blk"}: which duties are signed
          FaultKinds, \* subset of {"crash", "crashafter", "fail", "failall", "rerr", "rmiss", "rempty"}
          Weaken

VARIABLES clock,      \* current slot
          st,         \* storage: [att, prop, accs, db, mem, gen] (the four database items, the volatile index, uuid counter)
          signedAtt,  \* released attestation signatures <<source, target, variant>>  (history, never reset)
          signedBlk,  \* released block signatures <<slot, variant>>                  (history, never reset)
          pend,       \* requests between check and update (only with Weaken = "noSignLock")
          nfaults,
          broken,     \* the persistent write fault in force: [at, left] - writes of `at` fail for `left` more calls
          act         \* the call just made: name, arguments, fault plan, result, and `post` = storage after the call
vars == <<clock, st, signedAtt, signedBlk, pend, nfaults, broken, act>>
view == <<clock, st, signedAtt, signedBlk, pend, nfaults, broken>>

Ep(slot) == slot \div SPE
MaxEpoch == Ep(MaxSlot)
NoAtt == [f |-> FALSE, s |-> 0, t |-> 0]
NoProp == [f |-> FALSE, v |-> 0]
NoFault == [k |-> "none", at |-> "-", n |-> 0]
NoBroken == [at |-> "-", left |-> 0]
Max(a, b) == IF a < b THEN b ELSE a

Usable(s0) == s0.mem # 0 /\ s0.mem \in s0.accs            \* wallet.AccountByPublicKey succeeds

----------------------------------------------------------------------------
(* LET definitions are re-evaluated by TLC at every use; operator parameters are evaluated once.
   Bind(e, LAMBDA x : body) is LET x == e IN body with the second cost model. *)
Bind(v, F(_)) == F(v)

(* one database access under a fault plan: [st, out, hit]; out in "ok" | "err" | "crash".
   nth = how many times this call has written the item, this write included *)
WriteN(s0, f, item, new, nth) ==
    IF f.at = item /\ f.k = "failall" THEN [st |-> s0, out |-> "err", hit |-> TRUE]
    ELSE IF f.at = item /\ f.n = nth /\ f.k \in {"crash", "crashafter", "fail"}
    THEN CASE f.k = "crash"      -> [st |-> s0,  out |-> "crash", hit |-> TRUE]
           [] f.k = "crashafter" -> [st |-> new, out |-> "crash", hit |-> TRUE]
           [] OTHER              -> [st |-> s0,  out |-> "err",   hit |-> TRUE]
    ELSE [st |-> new, out |-> "ok", hit |-> FALSE]
Write(s0, f, item, new) == WriteN(s0, f, item, new, 1)

(* storage.SaveHighestAttestation / SaveHighestProposal: ONE db.Set whose error is the result.
   Weaken = "saveErrSwallowed": the Set is attempted twice and the error of the second attempt is lost (a retry
   loop whose `err :=` shadows the variable that is returned, an errors.Wrap of the wrong variable, a bare log
   line): a write fault that outlasts the retry leaves the record as it was and the caller is told "saved". *)
Save(s0, f, item, new) ==
    IF Weaken # "saveErrSwallowed" THEN Write(s0, f, item, new)
    ELSE Bind(WriteN(s0, f, item, new, 1), LAMBDA w1 :
         IF w1.out # "err" THEN w1
         ELSE Bind(WriteN(s0, f, item, new, 2), LAMBDA w2 :
              IF w2.out = "err" THEN [st |-> s0, out |-> "ok", hit |-> TRUE]
              ELSE [st |-> w2.st, out |-> w2.out, hit |-> TRUE]))

(* "rempty": the stored value is empty.  Named deviation = the code BEFORE fix 25c7aec2a: RetrieveHighestAttestation
   returned (nil, found, nil) and every caller treats nil like a missing record; RetrieveHighestProposal returned
   (slot 0, found, nil) - errors.Wrap(nil, ..) is nil - and the callers took slot 0 at face value.  Since the fix
   both return an error (= "rerr"); Slashing_fault_rempty.cfg stays as the regression trace of that finding. *)
Read(rec, none, empty, f, item, n) ==                       \* [rec, out, hit]
    IF f.at = item /\ f.n = n /\ f.k \in {"rerr", "rmiss", "rempty"}
    THEN CASE f.k = "rerr"  -> [rec |-> none,  out |-> "err", hit |-> TRUE]
           [] f.k = "rmiss" -> [rec |-> none,  out |-> "ok",  hit |-> TRUE]
           [] OTHER         -> [rec |-> empty, out |-> "ok",  hit |-> TRUE]
    ELSE [rec |-> rec, out |-> "ok", hit |-> FALSE]
ReadAtt(s0, f, n)  == Read(s0.att, NoAtt, NoAtt, f, "att", n)
ReadProp(s0, f, n) == Read(s0.prop, NoProp, [f |-> TRUE, v |-> 0], f, "prop", n)

Done(s0, out, hit) == [st |-> s0, out |-> out, hit |-> hit]

(* ekm.updateHighestAttestation(pk, slot) *)
MinAtt(c) == [f |-> TRUE, s |-> Ep(c) - 1, t |-> Ep(c)]     \* computeMinimalAttestationSP
(* the record a bump writes: both marks from the clock.  Weaken = "bumpKeepsSource": only the target is raised,
   the source is carried over from the record read - which is 0 for a share without a record (re-added share) *)
BumpRec(r, c) == IF Weaken = "bumpKeepsSource"
                 THEN [f |-> TRUE, s |-> IF r.f THEN r.s ELSE 0, t |-> Ep(c)]
                 ELSE MinAtt(c)
BumpAtt(s0, f, c) ==
    Bind(ReadAtt(s0, f, 1), LAMBDA rd :
    IF rd.out = "err" THEN Done(s0, "err", TRUE)
    ELSE IF /\ Weaken # "bumpOverwritesDown"
            /\ rd.rec.f /\ (rd.rec.s >= MinAtt(c).s \/ rd.rec.t >= MinAtt(c).t)
         THEN Done(s0, "ok", rd.hit)                          \* the existing record is kept
         ELSE Bind(Save(s0, f, "att", [s0 EXCEPT !.att = BumpRec(rd.rec, c)]), LAMBDA w :
              Done(w.st, w.out, w.hit \/ rd.hit)))

(* ekm.updateHighestProposal(pk, slot) *)
BumpProp(s0, f, c) ==
    Bind(ReadProp(s0, f, 1), LAMBDA rd :
    IF rd.out = "err" THEN Done(s0, "err", TRUE)
    ELSE IF /\ Weaken # "bumpOverwritesDown"
            /\ rd.rec.f /\ rd.rec.v # 0 /\ rd.rec.v >= c
         THEN Done(s0, "ok", rd.hit)
         ELSE Bind(Save(s0, f, "prop", [s0 EXCEPT !.prop = [f |-> TRUE, v |-> c]]), LAMBDA w :
              Done(w.st, w.out, w.hit \/ rd.hit)))

(* ekm.BumpSlashingProtection(pk): attestation record first, proposal record second *)
Bump(s0, f, c) ==
    Bind(BumpAtt(s0, f, c), LAMBDA a :
    IF a.out # "ok" THEN a
    ELSE Bind(BumpProp(a.st, f, c), LAMBDA p : Done(p.st, p.out, a.hit \/ p.hit)))

(* the clock value a bump works from *)
BumpClock == CASE Weaken = "bumpFromStaleClock" /\ clock >= 2 * SPE -> clock - SPE      \* one epoch behind
               [] Weaken = "bumpFromStaleSlot" /\ clock > SPE       -> clock - 1        \* one slot behind
               [] OTHER -> clock

(* ekm.AddShare: no-op if the account exists; bump; saveShare = wallet.AddValidatorAccount
   (index entry in memory, SaveAccount, SaveWallet) *)
AddProg(s0, f) ==
    IF Usable(s0) THEN Done(s0, "ok", FALSE)
    ELSE Bind(IF Weaken = "readdNoBump" THEN Done(s0, "ok", FALSE) ELSE Bump(s0, f, BumpClock), LAMBDA b :
         IF b.out # "ok" THEN b
         ELSE Bind([b.st EXCEPT !.mem = b.st.gen, !.gen = b.st.gen + 1], LAMBDA s3 :   \* index entry before SaveAccount
              Bind(Write(s3, f, "acc", [s3 EXCEPT !.accs = @ \cup {s3.mem}]), LAMBDA w3 :
              IF w3.out # "ok" THEN w3
              ELSE Bind(Write(w3.st, f, "wal", [w3.st EXCEPT !.db = w3.st.mem]), LAMBDA w4 :
                   Done(w4.st, w4.out, b.hit \/ w4.hit)))))

(* ekm.RemoveShare: no-op if the account does not exist; delete att, delete prop,
   wallet.DeleteAccountByPublicKey (DeleteAccount, drop index entry in memory, SaveWallet) *)
RemoveProg(s0, f) ==
    IF ~Usable(s0) THEN Done(s0, "ok", FALSE)
    ELSE Bind(Write(s0, f, "att", [s0 EXCEPT !.att = NoAtt]), LAMBDA w1 :
         IF w1.out # "ok" THEN w1
         ELSE Bind(Write(w1.st, f, "prop", [w1.st EXCEPT !.prop = NoProp]), LAMBDA w2 :
              IF w2.out # "ok" THEN w2
              ELSE Bind(Write(w2.st, f, "acc", [w2.st EXCEPT !.accs = @ \ {w2.st.mem}]), LAMBDA w3 :
                   IF w3.out # "ok" THEN w3
                   ELSE Write([w3.st EXCEPT !.mem = 0], f, "wal", [w3.st EXCEPT !.mem = 0, !.db = 0]))))

(* NormalProtection.IsSlashableAttestation against the record read *)
AttSlashable(r, s, t) ==
    CASE Weaken = "targetLT"         -> s < r.s \/ t < r.t
      [] Weaken = "sourceNotChecked" -> t <= r.t
      [] OTHER                       -> s < r.s \/ t <= r.t

(* SimpleSigner.SignBeaconAttestation step 4: [out, hit], out in "pass" | "refuse" *)
AttCheck(s0, f, s, t) ==
    Bind(ReadAtt(s0, f, 1), LAMBDA r1 :
    IF r1.out = "err" THEN [out |-> "refuse", hit |-> TRUE]
    ELSE IF ~r1.rec.f THEN [out |-> IF Weaken = "signWhenMissing" THEN "pass" ELSE "refuse", hit |-> r1.hit]
    ELSE IF AttSlashable(r1.rec, s, t) THEN [out |-> "refuse", hit |-> r1.hit]
    ELSE [out |-> "pass", hit |-> r1.hit])

(* step 5, NormalProtection.UpdateHighestAttestation *)
AttNew(r, s, t) == IF ~r.f THEN [f |-> TRUE, s |-> s, t |-> t]
                   ELSE [f |-> TRUE, s |-> Max(r.s, s), t |-> Max(r.t, t)]
AttUpdate(s0, f, s, t) ==
    Bind(ReadAtt(s0, f, 2), LAMBDA r2 :
    IF r2.out = "err" THEN Done(s0, "err", TRUE)
    ELSE IF Weaken = "noUpdate" \/ (r2.rec.f /\ AttNew(r2.rec, s, t) = r2.rec) THEN Done(s0, "ok", r2.hit)
    ELSE Bind(Save(s0, f, "att", [s0 EXCEPT !.att = AttNew(r2.rec, s, t)]), LAMBDA w :
         Done(w.st, w.out, w.hit \/ r2.hit)))

(* steps 1, 4, 5, 6: [st, out, hit, rel]; out in "signed" | "refused" | "crash"; rel = signature released *)
Outcome(c, u) ==
    [st |-> u.st, hit |-> c.hit \/ u.hit,
     out |-> CASE u.out = "ok" -> "signed" [] u.out = "err" -> "refused" [] OTHER -> "crash",
     rel |-> u.out = "ok" \/ Weaken = "releaseBeforePersist"]   \* weakened: handed out before the record is durable
Refused(s0, hit) == [st |-> s0, out |-> "refused", hit |-> hit, rel |-> FALSE]

SignAttProg(s0, f, s, t) ==
    IF ~Usable(s0) THEN Refused(s0, FALSE)
    ELSE Bind(AttCheck(s0, f, s, t), LAMBDA c :
         IF c.out = "refuse" THEN Refused(s0, c.hit)
         ELSE Bind(AttUpdate(s0, f, s, t), LAMBDA u : Outcome(c, u)))

(* NormalProtection.IsSlashableProposal / UpdateHighestProposal, SimpleSigner.SignBlock *)
BlkCheck(s0, f, slot) ==
    Bind(ReadProp(s0, f, 1), LAMBDA r1 :
    IF r1.out = "err" THEN [out |-> "refuse", hit |-> TRUE]
    ELSE IF ~r1.rec.f THEN [out |-> IF Weaken = "signWhenMissing" THEN "pass" ELSE "refuse", hit |-> r1.hit]
    ELSE IF (IF Weaken = "blockSlotLT" THEN slot >= r1.rec.v ELSE slot > r1.rec.v)
         THEN [out |-> "pass", hit |-> r1.hit]
         ELSE [out |-> "refuse", hit |-> r1.hit])

BlkUpdate(s0, f, slot) ==
    Bind(ReadProp(s0, f, 2), LAMBDA r2 :
    IF r2.out = "err" THEN Done(s0, "err", TRUE)
    ELSE IF Weaken # "noUpdate" /\ (~r2.rec.f \/ r2.rec.v < slot)
         THEN Bind(Save(s0, f, "prop", [s0 EXCEPT !.prop = [f |-> TRUE, v |-> slot]]), LAMBDA w :
              Done(w.st, w.out, w.hit \/ r2.hit))
         ELSE Done(s0, "ok", r2.hit))

SignBlkProg(s0, f, slot) ==
    IF ~Usable(s0) THEN Refused(s0, FALSE)
    ELSE Bind(BlkCheck(s0, f, slot), LAMBDA c :
         IF c.out = "refuse" THEN Refused(s0, c.hit)
         ELSE Bind(BlkUpdate(s0, f, slot), LAMBDA u : Outcome(c, u)))

----------------------------------------------------------------------------
Faults(items, reads) ==
    {[k |-> k, at |-> i, n |-> 1] : k \in FaultKinds \cap {"crash", "crashafter", "fail"}, i \in items}
    \cup {[k |-> k, at |-> r[1], n |-> r[2]] : k \in FaultKinds \cap {"rerr", "rmiss", "rempty"}, r \in reads}
    \cup {[k |-> k, at |-> i, n |-> n] : k \in FaultKinds \cap {"failall"}, i \in items \cap {"att", "prop"}, n \in 1..MaxPersist}
BumpFaults   == Faults({"att", "prop", "acc", "wal"}, {<<"att", 1>>, <<"prop", 1>>})     \* AddShare, Reactivate
RemoveFaults == Faults({"att", "prop", "acc", "wal"}, {})
AttFaults    == Faults({"att"}, {<<"att", 1>>, <<"att", 2>>})
BlkFaults    == Faults({"prop"}, {<<"prop", 1>>, <<"prop", 2>>})
Plans(F) == IF nfaults < MaxFaults /\ broken.left = 0 THEN F \cup {NoFault} ELSE {NoFault}

(* the plan a call runs under: its own, or the persistent write fault left by an earlier call *)
Eff(f) == IF broken.left > 0 THEN [k |-> "failall", at |-> broken.at, n |-> broken.left] ELSE f
Broken(f) == IF broken.left > 1 THEN [broken EXCEPT !.left = @ - 1]
             ELSE IF broken.left = 0 /\ f.k = "failall" /\ f.n > 1 THEN [at |-> f.at, left |-> f.n - 1]
             ELSE NoBroken

(* `act'` is computed first (the program runs once); the other conjuncts read it.  Only plans that fired are
   taken.  A crash restarts the process: the wallet object is re-read from the database. *)
Post(r) == IF r.out = "crash" THEN [r.st EXCEPT !.mem = r.st.db] ELSE r.st
Call(name, f, r) == [name |-> name, fault |-> f, eff |-> Eff(f), res |-> r.out, hit |-> r.hit, post |-> Post(r)]
Took(f) == /\ (f = NoFault \/ (act'.hit /\ broken.left = 0))
           /\ st' = act'.post
           /\ broken' = Broken(f)
           /\ nfaults' = IF f = NoFault THEN nfaults ELSE nfaults + 1

Init == /\ clock = SPE
        /\ st = [att |-> NoAtt, prop |-> NoProp, accs |-> {}, db |-> 0, mem |-> 0, gen |-> 1]
        /\ signedAtt = {} /\ signedBlk = {} /\ pend = {} /\ nfaults = 0 /\ broken = NoBroken /\ act = [name |-> "init"]

Tick == /\ clock < MaxSlot /\ clock' = clock + 1 /\ act' = [name |-> "Tick", clock |-> clock + 1]
        /\ UNCHANGED <<st, signedAtt, signedBlk, pend, nfaults, broken>>

AddShare(f) ==
    /\ pend = {} /\ (Usable(st) \/ st.gen <= MaxGen)
    /\ act' = Bind(AddProg(st, Eff(f)), LAMBDA r : Call("AddShare", f, r))
    /\ Took(f)
    /\ UNCHANGED <<clock, signedAtt, signedBlk, pend>>

RemoveShare(f) ==
    /\ pend = {}
    /\ act' = Bind(RemoveProg(st, Eff(f)), LAMBDA r : Call("RemoveShare", f, r))
    /\ Took(f)
    /\ UNCHANGED <<clock, signedAtt, signedBlk, pend>>

(* cluster reactivated: eventhandler calls BumpSlashingProtection for every share of the operator *)
Reactivate(f) ==
    /\ pend = {}
    /\ act' = Bind(Bump(st, Eff(f), BumpClock), LAMBDA r : Call("Reactivate", f, r))
    /\ Took(f)
    /\ UNCHANGED <<clock, signedAtt, signedBlk, pend>>

(* the node is stopped and started again (no call in flight); a persistent write fault is a fault of the store,
   not of the process: it is still there afterwards *)
Restart ==
    /\ pend' = {} /\ st' = [st EXCEPT !.mem = st.db] /\ act' = [name |-> "Restart"]
    /\ UNCHANGED <<clock, signedAtt, signedBlk, nfaults, broken>>

SignAtt(s, t, d, f) ==
    /\ act' = Bind(SignAttProg(st, Eff(f), s, t), LAMBDA r :
                  [name |-> "SignAtt", s |-> s, t |-> t, d |-> d, fault |-> f, eff |-> Eff(f), res |-> r.out, rel |-> r.rel,
                   hit |-> r.hit, post |-> Post(r)])
    /\ Took(f)
    /\ signedAtt' = IF act'.rel THEN signedAtt \cup {<<s, t, d>>} ELSE signedAtt
    /\ UNCHANGED <<clock, signedBlk, pend>>

SignBlk(slot, d, f) ==
    /\ act' = Bind(SignBlkProg(st, Eff(f), slot), LAMBDA r :
                  [name |-> "SignBlk", slot |-> slot, d |-> d, fault |-> f, eff |-> Eff(f), res |-> r.out, rel |-> r.rel,
                   hit |-> r.hit, post |-> Post(r)])
    /\ Took(f)
    /\ signedBlk' = IF act'.rel THEN signedBlk \cup {<<slot, d>>} ELSE signedBlk
    /\ UNCHANGED <<clock, signedAtt, pend>>

(* Weaken = "noSignLock": the two halves of SignBeaconAttestation without the per-account lock *)
SignCheck(s, t, d) ==
    /\ Cardinality(pend) < 2 /\ [s |-> s, t |-> t, d |-> d] \notin pend
    /\ act' = [name |-> "SignCheck", s |-> s, t |-> t, d |-> d,
               res |-> IF Usable(st) /\ AttCheck(st, NoFault, s, t).out = "pass" THEN "pass" ELSE "refused"]
    /\ pend' = IF act'.res = "pass" THEN pend \cup {[s |-> s, t |-> t, d |-> d]} ELSE pend
    /\ UNCHANGED <<clock, st, signedAtt, signedBlk, nfaults, broken>>

SignCommit(p) ==
    /\ act' = [name |-> "SignCommit", s |-> p.s, t |-> p.t, d |-> p.d, res |-> "signed",
               post |-> AttUpdate(st, NoFault, p.s, p.t).st]
    /\ st' = act'.post
    /\ signedAtt' = signedAtt \cup {<<p.s, p.t, p.d>>}
    /\ pend' = pend \ {p}
    /\ UNCHANGED <<clock, signedBlk, nfaults, broken>>

(* environment assumption: targets and slots are never beyond the clock (as duties are) *)
Next == \/ Tick \/ Restart
        \/ \E f \in Plans(BumpFaults) : AddShare(f) \/ Reactivate(f)
        \/ \E f \in Plans(RemoveFaults) : RemoveShare(f)
        \/ /\ "att" \in Kinds
           /\ \E t \in 1..Ep(clock) : \E s \in 0..(t - 1) : \E d \in 1..Variants :
                 IF Weaken = "noSignLock" THEN SignCheck(s, t, d)
                 ELSE \E f \in Plans(AttFaults) : SignAtt(s, t, d, f)
        \/ /\ "blk" \in Kinds
           /\ \E slot \in 1..clock, d \in 1..Variants : \E f \in Plans(BlkFaults) : SignBlk(slot, d, f)
        \/ \E p \in pend : SignCommit(p)
Spec == Init /\ [][Next]_vars

----------------------------------------------------------------------------
(* C04, first sentence: the released set, over the whole life of the share *)
Surrounds(a, b) == a[1] < b[1] /\ b[2] < a[2]
NoDoubleVote    == \A a \in signedAtt, b \in signedAtt : a # b => a[2] # b[2]
NoSurround      == \A a \in signedAtt, b \in signedAtt : ~Surrounds(a, b)
NoDoubleBlock   == \A a \in signedBlk, b \in signedBlk : a # b => a[1] # b[1]
NoSlashable     == NoDoubleVote /\ NoSurround /\ NoDoubleBlock

(* C04, second sentence: no signature when the record is missing or its (first) read fails *)
ReadFaultOn(f, item) == f.at = item /\ f.n = 1 /\ f.k \in {"rerr", "rmiss", "rempty"}
RefuseWhenUnknown ==
    [][ /\ (act'.name = "SignAtt" /\ act'.rel) => (st.att.f /\ ~ReadFaultOn(act'.fault, "att"))
        /\ (act'.name = "SignBlk" /\ act'.rel) => (st.prop.f /\ ~ReadFaultOn(act'.fault, "prop")) ]_vars

(* the inductive argument (also discharged for unbounded integers by Apalache on SlashInd.tla) *)
Covered == /\ \A a \in signedAtt : a[1] < a[2] /\ a[2] <= Ep(clock)
           /\ st.att.f => \A a \in signedAtt : a[1] <= st.att.s /\ a[2] <= st.att.t
           /\ \A b \in signedBlk : b[1] <= clock
           /\ st.prop.f => \A b \in signedBlk : b[1] <= st.prop.v

TypeOK == /\ clock \in SPE..MaxSlot
          /\ st \in [att : [f : BOOLEAN, s : 0..MaxEpoch, t : 0..MaxEpoch], prop : [f : BOOLEAN, v : 0..MaxSlot],
                     accs : SUBSET (1..MaxGen), db : 0..MaxGen, mem : 0..MaxGen, gen : 1..(MaxGen + 1)]
          /\ nfaults \in 0..MaxFaults
          /\ broken \in [at : {"-", "att", "prop"}, left : 0..MaxPersist] /\ (broken.left = 0 <=> broken.at = "-")
          /\ (Weaken # "noSignLock" => pend = {})
=============================================================================
