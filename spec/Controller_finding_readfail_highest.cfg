SPECIFICATION Spec
CONSTANTS
  MaxH = 2
  MaxRestarts = 1
  FullNode = FALSE
  Cap = 2
  Weaken = "none"
  GapFix = FALSE
  CertRounds = {1}
  Direct = FALSE
  MidCrash = FALSE
  Timeouts = FALSE
  MaxWriteFaults = 0
  MaxReadFaults = 1
  ReadKinds = {"err"}
  ReadFix = FALSE
PROPERTY HighestMonotone
