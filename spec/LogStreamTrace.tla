--------------------------- MODULE LogStreamTrace ---------------------------
(* Implementation -> specification direction of C13.

   harness/cmd/logstream -mode record lets the REAL ExecutionClient.StreamLogs (behind the real
   EventSyncer.SyncOngoing) run freely against the fake execution node under a seeded random environment that is
   not derived from TLC behaviours, and records one event per happening at the node's RPC boundary and at the
   consumer, ordered by a sequence number taken under one mutex.  Executions are concatenated with "Reset".

     Reset      start, head0, batch, follow, chain    chain[b] = the logs of block b as 0/1 flags (1 = removed)
     Conn       c                                     the node accepted a connection (ids increase)
     Call       from                                  StreamLogs(from) is called (first call / restart)
     Subscribe  c, res ("ok"|"err"), s                eth_subscribe answered on connection c; s numbers the subscriptions
     GetLogs    c, a, b, res, n                       eth_getLogs(a, b) answered on connection c with n logs / an error
     Head       h, s                                  the node's head becomes h; notification sent to subscription s (0: none)
     Cut        upto                                  every connection with id <= upto is closed by the node
     Poison     s                                     an undecodable notification is sent to subscription s (the client's
                                                      subscription error channel fires, the connection stays up)
     Kill                                             the harness closes the client (a node shutdown)
     Deliver    b, ids                                a BlockLogs item reached the consumer (block, log indices)
     StreamEnd  last, fatal                           the stream was closed; the handler returned last
     End        complete, joined                      end of the execution (complete: the final block was delivered)

   Two readings of the same trace (constant Bind):

   Bind = FALSE (LogStreamTrace_obs.cfg): observation only.  env, head, got (the entries the consumer really
     received) and qb follow the events, nothing can be rejected, and the C13 invariants Got* are evaluated on
     what the real code did.  A violated invariant is a violation of C13.

   Bind = TRUE (LogStreamTrace.cfg): conformance.  Every event has to be explained by LogStream's actions with
     the logged arguments bound (from/to of each fetch, the delivered entries, the cursor a restart resumes
     from, Fatal exactly when the spec's failure counter says so).  What the RPC boundary cannot show is
     composed into the step of the next visible event, in a bounded way:
       * head notifications taken by the select that do not start a fetch (Skip) and the one that does
         (GetLogs at pc = "idle" = TakeHead* ; BatchOK/BatchErr);
       * a call that failed inside the client (subscription error channel, request on a dead connection):
         SubErrorPending / BatchErr / SubscribeFail, allowed only if the trace shows a cause (Cut of the
         connection in use, Poison of the current subscription, Kill), taken at the next Conn (the client
         reconnects after every failure) or at the StreamEnd of a Fatal;
       * an answered eth_getLogs whose answer the client never got (the connection was cut / the client closed
         right after): BatchErr, allowed if a Cut of its connection / a Kill is the next thing the node sees;
       * a request answered on a connection that is already cut, or by the client of an earlier call (late
         handler): no step of the running call (Stale).
     The consumer may lag behind the client: `seen` counts how many entries of the spec's `delivered` the
     consumer has confirmed; Deliver events must reproduce `delivered` in order, and a StreamEnd / a complete End
     requires all of them.  A trace that cannot be explained is a conformance divergence, not a verdict.

   Acceptance: one step per line, high-water mark of the consumed line index (diameter), -workers 1, depth-first. *)
EXTENDS LogStream, Json

CONSTANT Bind

VARIABLES l,          \* next line of the trace
          got,        \* entries the consumer received in this execution: [b, logs]
          qb,         \* > 0: the harness declared the stream caught up to this block (End with complete)
          seen,       \* Bind: number of entries of `delivered` confirmed by Deliver events
          running,    \* Bind: a StreamLogs call is running (Call .. StreamEnd)
          base,       \* Bind: Len(delivered) at the Call
          conn,       \* latest connection the node accepted
          oldConn,    \* connections <= oldConn belong to the clients of earlier StreamLogs calls
          cutTo,      \* connections <= cutTo are closed
          subConn,    \* Bind: connection of the current subscription
          rpcConn,    \* Bind: connection of the last request of the current call
          subNo,      \* Bind: number of the current subscription
          poisoned,   \* Bind: the current subscription got an undecodable notification
          killed      \* Bind: the harness closed the client of the running call
tvars == <<vars, l, got, qb, seen, running, base, conn, oldConn, cutTo, subConn, rpcConn, subNo, poisoned, killed>>
bvars == <<seen, running, base, subConn, rpcConn, subNo, poisoned, killed>>

Trace == ndJsonDeserialize("trace.ndjson")
E == Trace[l]
IsEv(e) == l <= Len(Trace) /\ Trace[l].event = e /\ l' = l + 1

(* block logs as 0/1 flags (cfg: Valid <- TValid, AllLogs <- TAllLogs) *)
RECURSIVE ValidFrom(_, _)
ValidFrom(k, i) == IF i > Len(k) THEN <<>> ELSE (IF k[i] = 0 THEN <<i - 1>> ELSE <<>>) \o ValidFrom(k, i + 1)
TValid(k) == ValidFrom(k, 1)
TAllLogs(k) == [i \in 1..Len(k) |-> i - 1]

----------------------------------------------------------------------------
(* observation part, common to both readings *)
Entry == [b |-> E.b, logs |-> E.ids]
ObsReset == /\ env' = [kind |-> E.chain, batch |-> E.batch, follow |-> E.follow, start |-> E.start]
            /\ head' = E.head0 /\ got' = <<>> /\ qb' = 0
ResetRest == /\ pc' = "fatal" /\ from' = E.start /\ cur' = 0 /\ last' = 0 /\ tries' = 0 /\ pend' = <<>>
             /\ fTo' = 0 /\ fNext' = 0 /\ delivered' = <<>> /\ faults' = 0
             /\ act' = [name |-> "init", start |-> E.start, head0 |-> E.head0, hist |-> FALSE]
             /\ seen' = 0 /\ running' = FALSE /\ base' = 0 /\ conn' = 0 /\ oldConn' = 0 /\ cutTo' = 0 /\ subConn' = 0 /\ rpcConn' = 0
             /\ subNo' = 0 /\ poisoned' = FALSE /\ killed' = FALSE

OReset == IsEv("Reset") /\ ObsReset /\ ResetRest
OHead == /\ IsEv("Head") /\ head' = (IF E.h > head THEN E.h ELSE head)
         /\ UNCHANGED <<env, pc, from, cur, last, tries, pend, fTo, fNext, delivered, faults, act, got, qb, bvars, conn, oldConn, cutTo>>
ODeliver == /\ IsEv("Deliver") /\ got' = Append(got, Entry)
            /\ UNCHANGED <<vars, qb, bvars, conn, oldConn, cutTo>>
OEnd == /\ IsEv("End") /\ qb' = (IF E.complete /\ head >= env.follow THEN head - env.follow ELSE 0)
        /\ UNCHANGED <<vars, got, bvars, conn, oldConn, cutTo>>
OOther == /\ l <= Len(Trace) /\ Trace[l].event \in {"Conn", "Call", "Subscribe", "GetLogs", "Cut", "Poison", "Kill", "StreamEnd"}
          /\ l' = l + 1 /\ UNCHANGED <<vars, got, qb, bvars, conn, oldConn, cutTo>>
ObsNext == OReset \/ OHead \/ ODeliver \/ OEnd \/ OOther

----------------------------------------------------------------------------
(* conformance part *)
SubDead == subConn <= cutTo \/ poisoned \/ killed          \* the subscription's error channel has a reason to fire
RpcDead == rpcConn <= cutTo \/ killed                      \* the next request can fail without reaching the node

(* head notifications at the front of the queue that do not start a fetch *)
RECURSIVE Skip(_)
Skip(p) == IF Len(p) = 0 THEN p
           ELSE IF Head(p) >= env.follow /\ Head(p) - env.follow >= cur THEN p ELSE Skip(Tail(p))

(* the first event after line i that the client caused or that ends the connection: is it a cut of connection c / a kill? *)
RECURSIVE LostAhead(_, _)
LostAhead(i, c) == IF i > Len(Trace) THEN FALSE
                   ELSE IF Trace[i].event \in {"Deliver", "Head", "Poison"} THEN LostAhead(i + 1, c)
                   ELSE \/ Trace[i].event = "Kill"
                        \/ Trace[i].event = "Cut" /\ Trace[i].upto >= c

(* a failure inside the client that the node does not see *)
SilentFail == \/ pc = "idle" /\ SubDead /\ SubErrorPending
              \/ pc = "fetch" /\ RpcDead /\ BatchErr
              \/ pc = "outer" /\ (conn <= cutTo \/ killed) /\ SubscribeFail

TReset == IsEv("Reset") /\ ObsReset /\ ResetRest

TConn == /\ IsEv("Conn") /\ conn' = E.c
         /\ \/ UNCHANGED vars
            \/ running /\ SilentFail /\ pc' # "fatal"
         /\ UNCHANGED <<got, qb, bvars, oldConn, cutTo>>

TCall == /\ IsEv("Call") /\ ~running
         /\ Restart /\ from' = E.from
         /\ running' = TRUE /\ base' = Len(delivered) /\ killed' = FALSE /\ poisoned' = FALSE
         /\ subConn' = 0 /\ rpcConn' = conn /\ subNo' = 0
         /\ UNCHANGED <<got, qb, seen, conn, oldConn, cutTo>>

(* a request on a connection that is already closed, or of the client of an earlier call: its answer reaches nobody.
   (If it was the running call's request, the failure is taken at the next Conn / StreamEnd.) *)
Stale == E.c <= cutTo \/ E.c <= oldConn
TStale == /\ l <= Len(Trace) /\ E.event \in {"Subscribe", "GetLogs"} /\ Stale /\ l' = l + 1
          /\ UNCHANGED <<vars, got, qb, bvars, conn, oldConn, cutTo>>

TSubscribe == /\ IsEv("Subscribe") /\ ~Stale /\ running /\ pc = "outer"
              /\ IF E.res = "ok"
                 THEN SubscribeOK /\ subConn' = E.c /\ subNo' = E.s /\ poisoned' = FALSE
                 ELSE SubscribeFail /\ UNCHANGED <<subConn, subNo, poisoned>>
              /\ rpcConn' = E.c
              /\ UNCHANGED <<got, qb, seen, running, base, killed, conn, oldConn, cutTo>>

TGetLogs == /\ IsEv("GetLogs") /\ ~Stale /\ running
            /\ LET lost == E.res # "ok"
                   maybe == killed \/ LostAhead(l + 1, E.c)
                   p == Skip(pend)
               IN \/ /\ pc = "fetch"
                     /\ \/ ~lost /\ BatchOK
                        \/ (lost \/ maybe) /\ BatchErr
                  \/ /\ pc = "idle" /\ Len(p) > 0
                     /\ LET to == Head(p) - env.follow
                        IN \/ /\ ~lost /\ BatchOKFrom(cur, to, cur) /\ pend' = Tail(p)
                              /\ UNCHANGED <<env, head, from, tries, faults>>
                           \/ (lost \/ maybe) /\ BatchErrFrom(cur, to, cur)
            /\ act'.a = E.a /\ act'.b = E.b
            /\ rpcConn' = E.c
            /\ UNCHANGED <<got, qb, seen, running, base, subConn, subNo, poisoned, killed, conn, oldConn, cutTo>>

THead == /\ IsEv("Head") /\ E.h >= head /\ head' = E.h
         /\ pend' = IF Subscribed /\ ~SubDead THEN Append(pend, E.h) ELSE pend
         /\ act' = [name |-> "NewBlock", h |-> E.h, notified |-> Subscribed /\ ~SubDead]
         /\ UNCHANGED <<env, pc, from, cur, last, tries, fTo, fNext, delivered, faults, got, qb, bvars, conn, oldConn, cutTo>>

TCut == /\ IsEv("Cut") /\ cutTo' = (IF E.upto > cutTo THEN E.upto ELSE cutTo)
        /\ UNCHANGED <<vars, got, qb, bvars, conn, oldConn>>
TPoison == /\ IsEv("Poison") /\ poisoned' = (poisoned \/ (Subscribed /\ E.s = subNo))
           /\ UNCHANGED <<vars, got, qb, seen, running, base, subConn, rpcConn, subNo, killed, conn, oldConn, cutTo>>
TKill == /\ IsEv("Kill") /\ killed' = TRUE
         /\ UNCHANGED <<vars, got, qb, seen, running, base, subConn, rpcConn, subNo, poisoned, conn, oldConn, cutTo>>

TDeliver == /\ IsEv("Deliver") /\ got' = Append(got, Entry)
            /\ seen < Len(delivered) /\ delivered[seen + 1] = Entry /\ seen' = seen + 1
            /\ UNCHANGED <<vars, qb, running, base, subConn, rpcConn, subNo, poisoned, killed, conn, oldConn, cutTo>>

TStreamEnd == /\ IsEv("StreamEnd") /\ running /\ running' = FALSE /\ oldConn' = conn
              /\ seen = Len(delivered)
              /\ E.last = (IF Len(delivered) > base THEN delivered[Len(delivered)].b ELSE 0)
              /\ \/ killed /\ UNCHANGED vars
                 \/ ~killed /\ E.fatal /\ pc = "fatal" /\ UNCHANGED vars
                 \/ ~killed /\ E.fatal /\ SilentFail /\ pc' = "fatal"
              /\ UNCHANGED <<got, qb, seen, base, subConn, rpcConn, subNo, poisoned, killed, conn, cutTo>>

TEnd == /\ IsEv("End")
        /\ E.joined => ~running
        /\ E.complete => seen = Len(delivered)
        /\ qb' = (IF E.complete /\ head >= env.follow THEN head - env.follow ELSE 0)
        /\ UNCHANGED <<vars, got, bvars, conn, oldConn, cutTo>>

BindNext == TReset \/ TConn \/ TCall \/ TStale \/ TSubscribe \/ TGetLogs \/ THead \/ TCut \/ TPoison \/ TKill
            \/ TDeliver \/ TStreamEnd \/ TEnd

TInit == /\ l = 1 /\ got = <<>> /\ qb = 0
         /\ env = [kind |-> <<>>, batch |-> 1, follow |-> 0, start |-> 1]
         /\ head = 0 /\ pc = "fatal" /\ from = 1 /\ cur = 0 /\ last = 0 /\ tries = 0 /\ pend = <<>>
         /\ fTo = 0 /\ fNext = 0 /\ delivered = <<>> /\ faults = 0 /\ act = [name |-> "init"]
         /\ seen = 0 /\ running = FALSE /\ base = 0 /\ conn = 0 /\ oldConn = 0 /\ cutTo = 0 /\ subConn = 0 /\ rpcConn = 0
         /\ subNo = 0 /\ poisoned = FALSE /\ killed = FALSE
TNext == IF Bind THEN BindNext ELSE ObsNext
TraceSpec == TInit /\ [][TNext]_tvars
TraceAccepted == TLCGet("stats").diameter - 1 = Len(Trace)

----------------------------------------------------------------------------
(* C13 on what the consumer really received.  got only grows by appending and every state is checked, so the
   quantifiers over earlier blocks are stated for the newest entry. *)
N == Len(got)
Known(b) == b \in 1..Len(env.kind)
GotHasLogs(b) == Known(b) /\ Len(Valid(env.kind[b])) > 0
GotBlocks == {got[i].b : i \in 1..N}
(* strictly increasing block numbers (markers included) *)
GotIncreasing == \A i \in 1..(N - 1) : got[i].b < got[i + 1].b
(* nothing before the requested start: no rewind across failures, reconnects and restarts *)
GotNoRewind == \A i \in 1..N : got[i].b >= env.start
(* an entry carries exactly the block's non-removed logs in order; an entry without logs only for a block without any *)
GotBlockComplete == N > 0 => /\ Known(got[N].b)
                             /\ got[N].logs = Valid(env.kind[got[N].b])
(* when an entry arrives, every earlier block >= start with non-removed logs has arrived before it: no gap *)
GotNoGap == N > 0 => \A b \in env.start..(got[N].b - 1) : GotHasLogs(b) => \E j \in 1..(N - 1) : got[j].b = b
(* nothing beyond head - followDistance *)
GotFollow == N > 0 => got[N].b + env.follow <= head
(* at the quiescent point the harness declares (the final block arrived): every block in [start, head - follow]
   with non-removed logs has exactly one entry *)
GotCaughtUp == qb > 0 => \A b \in env.start..qb : GotHasLogs(b) => Cardinality({i \in 1..N : got[i].b = b}) = 1
=============================================================================
