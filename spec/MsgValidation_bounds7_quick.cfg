SPECIFICATION SpecD
CONSTANTS
  N = 7
  Alphabet <- AlphaBounds
  Times <- TimesOne
  MaxAccepts = 1
  ForkEpoch <- ForkNever
  PartialWindow = FALSE
  OverflowGuard = FALSE
  Weaken = "none"
  KnownGaps = {"partial-sig-outside-slot-window", "slot-time-overflow"}
PROPERTY Total
PROPERTY AcceptSound
INVARIANT StateSound
VIEW view
