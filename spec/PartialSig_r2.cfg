SPECIFICATION Spec
CONSTANTS
  N = 4
  R = 2
  FaultySets <- TailFaultySets
  MaxHonest = 2
  MaxFaulty = 3
  Foreign = FALSE
  Orders <- OrdersFwdRev
  Algo = "perroot"
  Weaken <- NoWeaken
INVARIANT TypeOK
INVARIANT SubmittedValid
INVARIANT AtMostOnce
INVARIANT NotPrevented
VIEW view
