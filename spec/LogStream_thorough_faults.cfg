SPECIFICATION Spec
CONSTANTS
  MaxHead = 8
  Head0 = 5
  Start = 3
  Batches = {2}
  Follows = {1}
  Kinds = {"none","one"}
  KindSample = {}
  LowKind = "one"
  MaxFaults = 6
  Algo = "fixed"
  Weaken = "none"
  Hist = TRUE
INVARIANT TypeOK
INVARIANT StrictlyIncreasing
INVARIANT ExactlyOnce
INVARIANT NoRewind
INVARIANT PerBlockComplete
INVARIANT NoGapDelivered
INVARIANT NoGapCursor
INVARIANT FollowRespected
INVARIANT CursorAhead
VIEW view
