--------------------------- MODULE MCQBFTInstance ---------------------------
EXTENDS QBFTInstance
SV == [i \in 1..N |-> "a"]
InstActs == {"proposal", "prepare", "commit", "rc", "mutant"}
NoMutActs == {"proposal", "prepare", "commit", "rc"}
RCOnly == {"rc"}
RCProp == {"rc", "proposal"}
=============================================================================
