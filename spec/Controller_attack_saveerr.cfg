SPECIFICATION Spec
CONSTANTS
  MaxH = 2
  MaxRestarts = 0
  FullNode = FALSE
  Cap = 2
  Weaken = "saveErrReturns"
  GapFix = FALSE
  CertRounds = {1}
  Direct = FALSE
  MidCrash = FALSE
  Timeouts = FALSE
  MaxWriteFaults = 1
  MaxReadFaults = 0
  ReadKinds = {}
  ReadFix = FALSE
PROPERTY NoRerun
