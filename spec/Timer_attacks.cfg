SPECIFICATION Spec
CONSTANTS
  Params <- ParamsGrid
  MaxRound = 3
  Horizon = 9
  MaxNow = 20
  Sched = "prompt"
  Weakens = {"noRoundCheckOnWake", "deadlineFromNowNotSlotStart", "quickThresholdOffByOne", "cancelIgnored", "tickerNotTimer", "ctlNoRoundCheck", "ctlNoDecidedCheck", "ctlNoStopCheck"}
  Parts = {"timer", "ctl"}
  Heights = {0, 1}
  MaxCRound = 3
  Cutoff = 4
  InstCap = 2
INVARIANT TypeOK
