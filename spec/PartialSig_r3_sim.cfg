SPECIFICATION Spec
CONSTANTS
  N = 7
  R = 3
  FaultySets <- TailFaultySets
  MaxHonest = 2
  MaxFaulty = 3
  Foreign = TRUE
  Orders <- OrdersAll
  Algo = "perroot"
  Weaken <- NoWeaken
INVARIANT TypeOK
INVARIANT SubmittedValid
INVARIANT AtMostOnce
INVARIANT NotPrevented
