SPECIFICATION TraceSpec
CONSTANTS
  SPE = 2
  MaxSlot = 1000
  MaxGen = 1000
  MaxFaults = 100000
  MaxPersist = 1000
  Variants = 2
  Kinds = {"att", "blk"}
  FaultKinds = {"crash", "crashafter", "fail", "rerr", "rmiss"}
  Weaken = "none"
INVARIANT NoSlashable
INVARIANT Covered
PROPERTY RefuseWhenUnknown
POSTCONDITION TraceAccepted
