SPECIFICATION Spec
CONSTANTS
  MaxHead = 8
  Head0 = 5
  Start = 3
  Batches = {2}
  Follows = {0,1}
  Kinds = {"none","mix"}
  KindSample = {}
  LowKind = "one"
  MaxFaults = 3
  Algo = "fixed"
  Weaken = "none"
  Hist = TRUE
INVARIANT NoGapDelivered
