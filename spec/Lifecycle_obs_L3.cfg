SPECIFICATION Spec
CONSTANTS
  Owners <- MCOwners
  Validators <- MCValidators
  Comms <- MCComms
  Mine <- MCMine
  Alphabet <- AlphaObsAdd
  MaxEvents = 1
  MaxBlock = 1
  MaxMeta = 1
  MaxRestarts = 0
  MetaAnywhere = TRUE
  SplitStart = FALSE
INVARIANT L3_RestartIndependent
