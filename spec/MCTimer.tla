------------------------------ MODULE MCTimer ------------------------------
EXTENDS Timer
P(role, slot, quick, slow, thr, start) ==
    [role |-> role, slot |-> slot, quick |-> quick, slow |-> slow, thr |-> thr, start |-> start]

(* unit-grain parameters for the exhaustive runs (Sched = "any"): base 1 or 2, quick 1, slow 2 *)
ParamsUnit == {P("third", 3, 1, 2, 2, 1), P("twothirds", 3, 1, 2, 2, 0), P("flat", 3, 1, 2, 2, 0)}
ParamsUnitWide == ParamsUnit \cup {P("third", 4, 2, 3, 1, 0), P("twothirds", 5, 1, 3, 3, 2), P("flat", 3, 2, 3, 1, 0)}

(* grid parameters for the behaviours replayed in real time (Sched = "prompt"): every deadline is even,
   the environment acts at odd instants.  Slot roles: start, base, quick, slow even.  Flat roles: the
   allowance counts from the (odd) arming instant, so quick and slow are odd. *)
ParamsGrid == {P("third", 6, 2, 4, 2, 2), P("twothirds", 6, 2, 4, 2, 2), P("flat", 6, 3, 5, 2, 2)}
ParamsGridWide == ParamsGrid \cup {P("third", 12, 2, 6, 1, 4), P("twothirds", 6, 2, 4, 3, 0), P("flat", 6, 1, 3, 3, 0)}
GridOK(q) == IF q.role = "flat" THEN q.quick % 2 = 1 /\ q.slow % 2 = 1
             ELSE q.start % 2 = 0 /\ Base(q) % 2 = 0 /\ q.quick % 2 = 0 /\ q.slow % 2 = 0
ASSUME Sched = "prompt" => \A q \in Params : GridOK(q)
NoParams == {P("third", 3, 1, 2, 2, 1)}
=============================================================================
