SPECIFICATION Spec
CONSTANTS
  MaxHead = 8
  Head0 = 5
  Start = 3
  Batches = {2}
  Follows = {1}
  Kinds = {"one","mix","rm"}
  KindSample = {}
  LowKind = "one"
  MaxFaults = 3
  Algo = "fixed"
  Weaken = "keepRemoved"
  Hist = FALSE
INVARIANT PerBlockComplete
VIEW view
