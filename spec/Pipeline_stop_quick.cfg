SPECIFICATION Spec
CONSTANTS
  Roles <- MCRolesAtt
  PreRoles <- MCPre
  NoQueueRoles <- MCNoQ
  Alphabet <- AlphaObsHeld
  MaxH = 2
  MaxR = 2
  Cap = 2
  MaxPush = 3
  MaxFire = 1
  MaxStop = 1
  MaxExt = 1
  Q = 3
  SeqHarness = FALSE
  FineRead = FALSE
  FastPop = TRUE
  ExternalStart = FALSE
  AdvTimer = TRUE
  PrioDecided = "gt"
INVARIANT TypeOK
INVARIANT P1_RoleIsolation
PROPERTY P1_OnlyOwnRunner
INVARIANT P2_FilterAtHandler
INVARIANT P2_FilterAtPop
INVARIANT P3_Conservation
PROPERTY P3_OnlyCountedLoss
PROPERTY P4_PopMaximal
PROPERTY P4_ExecFirst
PROPERTY P5_TimeoutNext
PROPERTY P6a_OldRoundNoop
INVARIANT P7_SnapshotFresh
VIEW view
