SPECIFICATION TraceSpec
CONSTANTS
  Classes = {}
  MaxMsgs = 6
  Cap = 3
  Algo = "fixed"
  SeqHarness = FALSE
  Blocking = FALSE
INVARIANT Conservation
INVARIANT Admitted
POSTCONDITION TraceAccepted
