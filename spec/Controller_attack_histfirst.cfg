SPECIFICATION Spec
CONSTANTS
  MaxH = 1
  MaxRestarts = 2
  FullNode = TRUE
  Cap = 2
  Weaken = "histFirst"
  GapFix = FALSE
  CertRounds = {1}
  Direct = FALSE
  MidCrash = TRUE
  Timeouts = FALSE
  MaxWriteFaults = 0
  MaxReadFaults = 0
  ReadKinds = {}
  ReadFix = FALSE
PROPERTY RestartCoversLearned
