SPECIFICATION Spec
CONSTANTS
  MaxH = 1
  MaxRestarts = 0
  FullNode = TRUE
  Cap = 2
  Weaken = "saveErrUndecides"
  GapFix = FALSE
  CertRounds = {1}
  Direct = FALSE
  MidCrash = FALSE
  Timeouts = FALSE
  MaxWriteFaults = 1
  MaxReadFaults = 0
  ReadKinds = {}
  ReadFix = FALSE
PROPERTY HighestMonotoneCert
