SPECIFICATION FairSpec
CONSTANTS
  Roles <- MCRolesAtt
  PreRoles <- MCPre
  NoQueueRoles <- MCNoQ
  Alphabet <- AlphaAtt2
  MaxH = 2
  MaxR = 2
  Cap = 2
  MaxPush = 4
  MaxFire = 1
  MaxStop = 0
  MaxExt = 1
  Q = 3
  SeqHarness = FALSE
  FastPop = TRUE
  FineRead = TRUE
  ExternalStart = FALSE
  AdvTimer = TRUE
  PrioDecided = "gt"
PROPERTY P3_Live
