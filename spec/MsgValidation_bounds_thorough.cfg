SPECIFICATION SpecD
CONSTANTS
  N = 4
  Alphabet <- AlphaBounds
  Times <- TimesOne
  MaxAccepts = 2
  ForkEpoch <- ForkNever
  PartialWindow = FALSE
  OverflowGuard = FALSE
  Weaken = "none"
  KnownGaps = {"partial-sig-outside-slot-window", "slot-time-overflow"}
PROPERTY Total
PROPERTY AcceptSound
INVARIANT StateSound
VIEW view
