SPECIFICATION TraceSpec
CONSTANTS
  N = 4
  R = 1
  FaultySets <- TFaultySets
  MaxHonest = 1000000
  MaxFaulty = 1000000
  Foreign = TRUE
  Orders <- TOrders
  Algo = "code"
  Weaken = {}
INVARIANT TSubmittedValid
INVARIANT TAtMostOnce
INVARIANT TNotPrevented
POSTCONDITION TraceAccepted
