SPECIFICATION Spec
CONSTANTS
  SPE = 2
  MaxSlot = 5
  MaxGen = 2
  MaxFaults = 1
  MaxPersist = 2
  Variants = 2
  Kinds = {"att", "blk"}
  FaultKinds = {"crash", "crashafter", "fail", "failall", "rerr", "rmiss"}
  Weaken = "none"
INVARIANT TypeOK
INVARIANT NoSlashable
INVARIANT Covered
PROPERTY RefuseWhenUnknown
VIEW view
