SPECIFICATION Spec
CONSTANTS
  N = 4
  R = 1
  FaultySets <- AllFaultySets
  MaxHonest = 2
  MaxFaulty = 3
  Foreign = TRUE
  Orders <- OrdersId
  Algo = "code"
  Weaken <- NoWeaken
INVARIANT TypeOK
INVARIANT SubmittedValid
INVARIANT AtMostOnce
INVARIANT NotPrevented
VIEW view
