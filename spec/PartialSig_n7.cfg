SPECIFICATION Spec
CONSTANTS
  N = 7
  R = 1
  FaultySets <- MixedFaultySets
  MaxHonest = 1
  MaxFaulty = 2
  Foreign = FALSE
  Orders <- OrdersId
  Algo = "code"
  Weaken <- NoWeaken
INVARIANT TypeOK
INVARIANT SubmittedValid
INVARIANT AtMostOnce
INVARIANT NotPrevented
VIEW view
