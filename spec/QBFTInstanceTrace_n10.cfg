SPECIFICATION TraceSpec
CONSTANTS
  N = 10
  F = 3
  Byz = {2,3,4,5,6,7,8,9,10}
  Values = {"v1", "v2", "v3", "v4", "v5", "v6", "v7", "v8"}
  BadValues = {"x1", "x2", "x3"}
  MaxRound = 16
  LeaderOffset = 0
  StartValue <- SVc
  Leader <- TLeader
  Weaken = "noSigCheck"
  ByzBudget = 1000000
  ByzActs <- AllActs
  Macro = FALSE
INVARIANT TraceTypeOK
POSTCONDITION TraceAccepted
