SPECIFICATION Spec
CONSTANTS
  Owners <- MCOwners
  Validators <- MCValidators
  Comms <- MCComms
  Mine <- MCMine
  Alphabet <- AlphaSmall
  MaxEvents = 3
  MaxBlock = 3
  MaxMeta = 2
  MaxRestarts = 1
  MetaAnywhere = TRUE
  SplitStart = FALSE
INVARIANT TypeOK
INVARIANT L1b_NoneExtra
INVARIANT L2_NoLiquidatedRunning
INVARIANT L2b_NoRemovedRunning
PROPERTY L3b_StartFromStorage
INVARIANT L4_FeeIsStored
PROPERTY L5a_ExitOnlyOwnStored
INVARIANT L6_TasksOnlyInBlock
INVARIANT L7_RunningHoldsStored
VIEW view
