SPECIFICATION Spec
CONSTANTS
  N = 4
  R = 1
  FaultySets <- TailFaultySets
  MaxHonest = 1
  MaxFaulty = 2
  Foreign = FALSE
  Orders <- OrdersId
  Algo = "code"
  Weaken <- WNoEvict
INVARIANT NotPrevented
