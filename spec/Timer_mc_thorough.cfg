SPECIFICATION Spec
CONSTANTS
  Params <- ParamsUnitWide
  MaxRound = 5
  Horizon = 9
  MaxNow = 16
  Sched = "any"
  Weakens = {"none"}
  Parts = {"timer", "ctl"}
  Heights = {0, 1, 2}
  MaxCRound = 5
  Cutoff = 4
  InstCap = 2
INVARIANT TypeOK
INVARIANT OncePerArming
INVARIANT OnlyLatest
INVARIANT NeverEarly
INVARIANT Superseded
INVARIANT DeadlineIsRef
INVARIANT StaleNoChange
PROPERTY StaleNoChangeStep
INVARIANT CurrentBumps
PROPERTY CurrentBumpsStep
VIEW view
