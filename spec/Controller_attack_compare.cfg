SPECIFICATION Spec
CONSTANTS
  MaxH = 1
  MaxRestarts = 0
  FullNode = FALSE
  Cap = 2
  Weaken = "compareOwnRoundOnly"
  GapFix = FALSE
  Direct = FALSE
  Timeouts = FALSE
PROPERTY HighestMonotone
