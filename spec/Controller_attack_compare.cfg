SPECIFICATION Spec
CONSTANTS
  MaxH = 1
  MaxRestarts = 0
  FullNode = FALSE
  Cap = 2
  Weaken = "compareOwnRoundOnly"
  GapFix = FALSE
  CertRounds = {1, 2}
  Direct = FALSE
  MidCrash = FALSE
  Timeouts = FALSE
  MaxWriteFaults = 0
  MaxReadFaults = 0
  ReadKinds = {}
  ReadFix = FALSE
PROPERTY HighestMonotone
