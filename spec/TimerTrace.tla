----------------------------- MODULE TimerTrace -----------------------------
(* Trace validation of real-time executions recorded from the real RoundTimer (harness/cmd/timer -mode record)
   against Timer.  One line per call / callback with the interval [lo, hi] (microseconds since the run's origin)
   in which it took effect:
     Arm    [just before TimeoutForRound, just after it returned]      (the atomic store lies in between)
     Cancel [just before cancel(), just after]
     Fire   [start of the arming call of that round, first statement of the callback]
            (the waiter compared the round somewhere before the callback started)
   Lines are sorted by hi.  Events whose intervals overlap may take effect in either order: an event may be taken
   ahead of earlier lines as long as none of the skipped lines ends before it begins.  Each event takes effect at the
   earliest instant its interval and the spec allow (all constraints are lower bounds on the clock, so this loses no
   behaviour).  Runs are concatenated; a "Reset" line carries the run's parameters and cannot be overtaken.       *)
EXTENDS Timer, Json
VARIABLES l,      \* lowest line not yet consumed
          ahead   \* consumed lines above l
Trace == ndJsonDeserialize("trace.ndjson")
N == Len(Trace)
tv == <<vars, l, ahead>>
Window == 6
TraceParams == {[role |-> "third", slot |-> 3, quick |-> 1, slow |-> 1, thr |-> 1, start |-> 0]}
Max2(a, b) == IF a > b THEN a ELSE b

TInit == Init /\ l = 1 /\ ahead = {}

Takeable(i) == /\ i \in l..N /\ i \notin ahead /\ i - l <= Window
               /\ \A j \in l..(i - 1) : j \in ahead \/ Trace[j].hi >= Trace[i].lo
Consume(i) == LET done == ahead \cup {i}
                  nl == CHOOSE k \in l..(N + 1) : k \notin done /\ \A j \in l..(k - 1) : j \in done
              IN l' = nl /\ ahead' = {k \in done : k > nl}

TReset(i) == /\ Trace[i].event = "Reset" /\ i = l /\ ahead = {}
             /\ p' = Trace[i].p
             /\ now' = 0 /\ armed' = 0 /\ pending' = {} /\ cancelled' = FALSE /\ cancelAt' = -1 /\ fired' = <<>>
             /\ act' = [name |-> "init", part |-> part, p |-> Trace[i].p, cutoff |-> Cutoff, weaken |-> wk]
             /\ UNCHANGED <<part, wk, lastAct, cvars, cbad>>
TArm(i) == /\ Trace[i].event = "Arm"
           /\ LET t == Max2(now, Trace[i].lo) IN
              t <= Trace[i].hi /\ ~cancelled /\ DoArm(Trace[i].r, t) /\ now' = t
           /\ UNCHANGED lastAct
TCancel(i) == /\ Trace[i].event = "Cancel"
              /\ LET t == Max2(now, Trace[i].lo) IN
                 t <= Trace[i].hi /\ DoCancel(t) /\ now' = t
              /\ UNCHANGED lastAct
TFire(i) == /\ Trace[i].event = "Fire"
            /\ \E w \in pending :
                  /\ w.round = Trace[i].r
                  /\ LET t == Max2(Max2(now, Trace[i].lo), w.due) IN
                     t <= Trace[i].hi /\ DoExpire(w, t) /\ act'.cb /\ now' = t
            /\ UNCHANGED lastAct
TNext == \E i \in l..(l + Window) :
            Takeable(i) /\ (TReset(i) \/ TArm(i) \/ TCancel(i) \/ TFire(i)) /\ Consume(i)
TraceSpec == TInit /\ [][TNext]_tv
TraceAccepted == TLCGet("stats").diameter - 1 = N
=============================================================================
