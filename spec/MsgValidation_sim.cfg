SPECIFICATION SpecD
CONSTANTS
  N = 4
  Alphabet <- AlphaSim
  Times <- TimesSim
  MaxAccepts = 8
  ForkEpoch <- ForkNever
  PartialWindow = FALSE
  OverflowGuard = FALSE
  Weaken = "none"
  KnownGaps = {"partial-sig-outside-slot-window", "slot-time-overflow"}
