---------------------------- MODULE PartialTimely ----------------------------
(* C10, partial-signature half: what the duty runner of a CORRECT operator (protocol/v2/ssv/runner) broadcasts during
   one duty under the protocol's timing assumptions, composed with the rules of the gossip gate
   (message/validation/partial_validation.go, signer_state.go, message_counts.go) that can classify a
   partial-signature message as `reject`.

   One duty of one validator, committee Ops, role `role`:
     StartDuty(i)     Validator.StartDuty -> executeDuty: roles with a pre-consensus phase broadcast their proofs
                      (randao / selection proof / contribution proofs / validator registration / voluntary exit);
     RecvPre(i, j)    ProcessPreConsensus: on the quorum the consensus instance starts (registration / exit: finished);
     BeginConsensus   the round clock starts: round 1 (round timers are anchored at the slot start, roundtimer);
     FailRound        the current round's deadline passes without a decision (leader silent or late): every correct
                      operator times out, round-changes are exchanged - macro: the QBFT part is QBFTTimely's;
     Decide(i)        ProcessConsensus, the deciding commit quorum: i broadcasts its post-consensus message, stamped
                      with the DECIDED value's duty slot;
     RecvPost(i, j)   ProcessPostConsensus: on the quorum the duty is finished;
     Tick             the clock moves inside the current interval (three positions: start, middle, end).
   The clock <<gr, pos>> is the time at which a message is emitted: gr = 0 is the interval between the slot start and
   round 1, gr >= 1 is consensus round gr; the replay places the gates' virtual clocks there (real timer arithmetic).

   role, silent, off, subnets are chosen in Init (one TLC run covers every role / crash set / leader rotation / duty
   shape); they never change.

   The gate's rules are written on the EMITTER side (any arrival order, any receiving peer):
     reject class : unknown type, type does not match the role, signer not in the committee / zero, no messages,
                    a signing root twice, inner signer differs from the envelope's, more than 13 messages (the
                    encoded message exceeds maxPartialSignatureMsgSize = 1952 bytes), a third duty slot of the signer
                    in one epoch (roles attester / aggregator / registration / exit);
     ignore class : slot below the signer's highest slot, a third pre- / post-consensus message for a slot.
   NoHonestPartialReject: no message a correct operator emits breaks a reject-class rule.
   FaultFreeAccept: nor an ignore-class rule (so in-order timely delivery of a fault-free run is accepted).          *)
EXTENDS Integers, FiniteSets, Sequences, TLC

CONSTANTS N, F,
          RoleChoices,      \* subset of Roles explored
          SilentChoices,    \* set of crash sets (each of size <= F)
          SubnetChoices,    \* duty shapes of the contribution role: sequences of subcommittee ids, one per
                            \* sync-committee position of the validator (goclient: position \div 128)
          InOrder,          \* TRUE: operators start in operator order and receive partial-signature messages in
                            \* signer order (a schedule restriction: what is emitted does not depend on the order)
          Grain,            \* "message": one RecvPre / RecvPost per message; "quorum": an operator receives the
                            \* messages of all correct operators back-to-back (RecvPreAll / RecvPostAll)
          MaxFail,          \* bound on failed rounds explored (the role's maximum round bounds it as well)
          LateDecision      \* TRUE: a schedule restriction for simulation - the decision falls into one of the last
                            \* F+1 rounds the gate admits for the role (rounds up to the role's maximum are reached)

Ops   == 1..N
Q     == 2 * F + 1
Roles == {"attester", "aggregator", "proposer", "sync", "contribution", "registration", "exit"}
ValidTypes == {"post", "randao", "selection", "contribution", "registration", "exit"}

HasPre(r)  == r \in {"aggregator", "proposer", "contribution", "registration", "exit"}
HasCons(r) == r \in {"attester", "aggregator", "proposer", "sync", "contribution"}
(* message/validation: maxRound(role) *)
MaxRoundOf(r) == CASE r \in {"attester", "aggregator"} -> 12
                   [] r \in {"proposer", "sync", "contribution"} -> 6
                   [] OTHER -> 0
(* the runners: the type of the pre-consensus message each executeDuty builds *)
PreTypeOf(r) == CASE r = "proposer" -> "randao"
                  [] r = "aggregator" -> "selection"
                  [] r = "contribution" -> "contribution"
                  [] r = "registration" -> "registration"
                  [] r = "exit" -> "exit"
                  [] OTHER -> "none"
(* the gate: partialSignatureTypeMatchesRole *)
GateTypeMatchesRole(t, r) ==
    CASE r = "attester"     -> t = "post"
      [] r = "aggregator"   -> t \in {"post", "selection"}
      [] r = "proposer"     -> t \in {"post", "randao"}
      [] r = "sync"         -> t = "post"
      [] r = "contribution" -> t \in {"post", "contribution"}
      [] r = "registration" -> t = "registration"
      [] r = "exit"         -> t = "exit"
      [] OTHER -> FALSE
(* roles whose duties per epoch the gate limits (validateDutyCount) *)
DutyLimited(r) == r \in {"attester", "aggregator", "registration", "exit"}

VARIABLES role, silent, off, subnets,     \* the duty (constant after Init)
          ph, gotPre, gotPost,            \* per correct operator
          clock, dr,                      \* <<gr, pos>>, decided round (0: none)
          failed,                         \* rounds failed so far
          psent,                          \* every partial-signature message broadcast by a correct operator
          act
vars == <<role, silent, off, subnets, ph, gotPre, gotPost, clock, dr, failed, psent, act>>
view == <<role, silent, off, subnets, ph, gotPre, gotPost, clock, dr, failed, psent>>

Correct == Ops \ silent
Leader(r) == ((off + r - 1) % N) + 1
Card(S) == Cardinality(S)

(* roots of the pre-consensus message: the contribution runner signs ONE selection proof PER sync-committee position,
   over (slot, subcommittee of the position) - two positions in one subcommittee give the same root twice *)
PreRoots == IF role = "contribution" THEN subnets ELSE <<0>>
(* roots of the post-consensus message: one per contribution of the decided value = one per root that reached its
   pre-consensus quorum edge (a repeated root reaches it once) *)
RECURSIVE Distinct(_)
Distinct(s) == IF s = <<>> THEN <<>>
               ELSE LET t == Distinct(SubSeq(s, 1, Len(s) - 1))
                    IN IF \E k \in 1..Len(t) : t[k] = s[Len(s)] THEN t ELSE Append(t, s[Len(s)])
PostRoots == IF role = "contribution" THEN Distinct(subnets) ELSE <<0>>

Msg(kind, i, type, roots) ==
    [kind |-> kind, signer |-> i, role |-> role, type |-> type, slot |-> 0, roots |-> roots,
     inner |-> [k \in 1..Len(roots) |-> i], gr |-> clock[1]]
Sent(kind, j) == \E m \in psent : m.kind = kind /\ m.signer = j
NextInOrder(got, kind, j) == ~InOrder \/ \A k \in Correct : (k < j /\ Sent(kind, k)) => k \in got

Init ==
    /\ role \in RoleChoices
    /\ silent \in SilentChoices
    /\ off \in (IF silent = {} THEN {0} ELSE 0..(N - 1))      \* the rotation matters only through silent leaders
    /\ subnets \in (IF role = "contribution" THEN SubnetChoices ELSE {<<0>>})
    /\ ph = [i \in Ops \ silent |-> "idle"]
    /\ gotPre = [i \in Ops \ silent |-> {}]
    /\ gotPost = [i \in Ops \ silent |-> {}]
    /\ clock = <<0, 0>>
    /\ dr = 0
    /\ failed = 0
    /\ psent = {}
    /\ act = [name |-> "init"]

StartDuty(i) ==
    /\ ph[i] = "idle" /\ clock[1] = 0
    /\ InOrder => \A k \in Correct : k < i => ph[k] # "idle"
    /\ IF HasPre(role)
       THEN /\ psent' = psent \cup {Msg("pre", i, PreTypeOf(role), PreRoots)}
            /\ ph' = [ph EXCEPT ![i] = "pre"]
       ELSE /\ psent' = psent
            /\ ph' = [ph EXCEPT ![i] = "cons"]
    /\ UNCHANGED <<role, silent, off, subnets, gotPre, gotPost, clock, dr, failed>>
    /\ act' = [name |-> "StartDuty", to |-> i]

RecvPre(i, j) ==
    /\ Grain = "message"
    /\ ph[i] = "pre" /\ j \notin gotPre[i] /\ Sent("pre", j) /\ NextInOrder(gotPre[i], "pre", j)
    /\ clock[1] = 0
    /\ gotPre' = [gotPre EXCEPT ![i] = @ \cup {j}]
    /\ ph' = [ph EXCEPT ![i] = IF Card(gotPre[i]) + 1 >= Q THEN (IF HasCons(role) THEN "cons" ELSE "done") ELSE "pre"]
    /\ UNCHANGED <<role, silent, off, subnets, gotPost, clock, dr, failed, psent>>
    /\ act' = [name |-> "RecvPre", to |-> i, from |-> j]

Tick ==
    /\ clock[2] < 2
    /\ \E i \in Correct : ph[i] \notin {"done"}
    /\ clock' = <<clock[1], clock[2] + 1>>
    /\ UNCHANGED <<role, silent, off, subnets, ph, gotPre, gotPost, dr, failed, psent>>
    /\ act' = [name |-> "Tick"]

(* timely: the pre-consensus phase of every correct operator completes before the round clock starts *)
BeginConsensus ==
    /\ HasCons(role) /\ clock[1] = 0
    /\ \A i \in Correct : ph[i] = "cons"
    /\ clock' = <<1, 0>>
    /\ UNCHANGED <<role, silent, off, subnets, ph, gotPre, gotPost, dr, failed, psent>>
    /\ act' = [name |-> "BeginConsensus"]

FailRound ==
    /\ clock[1] >= 1 /\ dr = 0
    /\ clock[1] < MaxRoundOf(role) /\ failed < MaxFail
    /\ clock' = <<clock[1] + 1, 0>>
    /\ failed' = failed + 1
    /\ UNCHANGED <<role, silent, off, subnets, ph, gotPre, gotPost, dr, psent>>
    /\ act' = [name |-> "FailRound", round |-> clock[1]]

Decide(i) ==
    /\ ph[i] = "cons" /\ clock[1] >= 1
    /\ Leader(clock[1]) \in Correct
    /\ LateDecision => clock[1] >= MaxRoundOf(role) - F
    /\ dr \in {0, clock[1]}
    /\ dr' = clock[1]
    /\ psent' = psent \cup {Msg("post", i, "post", PostRoots)}
    /\ ph' = [ph EXCEPT ![i] = "post"]
    /\ UNCHANGED <<role, silent, off, subnets, gotPre, gotPost, clock, failed>>
    /\ act' = [name |-> "Decide", to |-> i, round |-> clock[1]]

RecvPost(i, j) ==
    /\ Grain = "message"
    /\ ph[i] = "post" /\ j \notin gotPost[i] /\ Sent("post", j) /\ NextInOrder(gotPost[i], "post", j)
    /\ gotPost' = [gotPost EXCEPT ![i] = @ \cup {j}]
    /\ ph' = [ph EXCEPT ![i] = IF Card(gotPost[i]) + 1 >= Q THEN "done" ELSE "post"]
    /\ UNCHANGED <<role, silent, off, subnets, gotPre, clock, dr, failed, psent>>
    /\ act' = [name |-> "RecvPost", to |-> i, from |-> j]

(* quorum grain: the messages of ALL correct operators, in signer order, in one step *)
RecvPreAll(i) ==
    /\ Grain = "quorum"
    /\ ph[i] = "pre" /\ clock[1] = 0
    /\ \A j \in Correct : Sent("pre", j)
    /\ gotPre' = [gotPre EXCEPT ![i] = Correct]
    /\ ph' = [ph EXCEPT ![i] = IF HasCons(role) THEN "cons" ELSE "done"]
    /\ UNCHANGED <<role, silent, off, subnets, gotPost, clock, dr, failed, psent>>
    /\ act' = [name |-> "RecvPreAll", to |-> i]
RecvPostAll(i) ==
    /\ Grain = "quorum"
    /\ ph[i] = "post"
    /\ \A j \in Correct : Sent("post", j)
    /\ gotPost' = [gotPost EXCEPT ![i] = Correct]
    /\ ph' = [ph EXCEPT ![i] = "done"]
    /\ UNCHANGED <<role, silent, off, subnets, gotPre, clock, dr, failed, psent>>
    /\ act' = [name |-> "RecvPostAll", to |-> i]

Next == \/ \E i \in Correct : StartDuty(i) \/ Decide(i) \/ RecvPreAll(i) \/ RecvPostAll(i)
        \/ \E i, j \in Correct : RecvPre(i, j) \/ RecvPost(i, j)
        \/ Tick \/ BeginConsensus \/ FailRound
Spec == Init /\ [][Next]_vars
---------------------------------------------------------------------------
(* ---- the gate's reject-class rules for partial-signature messages, on what correct operators emit ---- *)
GateTypeKnown      == \A m \in psent : m.type \in ValidTypes
GateTypeRole       == \A m \in psent : GateTypeMatchesRole(m.type, m.role)
GateSigner         == \A m \in psent : m.signer \in Ops
GateNonEmpty       == \A m \in psent : Len(m.roots) > 0
NoDuplicateRoots   == \A m \in psent : \A a, b \in 1..Len(m.roots) : a # b => m.roots[a] # m.roots[b]
GateInnerSigner    == \A m \in psent : \A k \in 1..Len(m.inner) : m.inner[k] = m.signer
GateSize           == \A m \in psent : Len(m.roots) <= 13
GateDutyCount      == \A s \in Ops : DutyLimited(role) => Card({m.slot : m \in {x \in psent : x.signer = s}}) <= 2
NoHonestPartialReject == /\ GateTypeKnown /\ GateTypeRole /\ GateSigner /\ GateNonEmpty /\ NoDuplicateRoots
                         /\ GateInnerSigner /\ GateSize /\ GateDutyCount
(* ---- ignore-class rules: one pre- and one post-consensus message per signer and slot, the slot never regresses,
   the post-consensus message leaves in the round of the decision, inside the rounds the gate admits for the role ---- *)
OnePerKind   == \A m1, m2 \in psent : (m1.signer = m2.signer /\ m1.kind = m2.kind) => m1 = m2
SlotOfDuty   == \A m \in psent : m.slot = 0
PostInRound  == \A m \in psent : m.kind = "post" => (m.gr = dr /\ dr >= 1 /\ dr <= MaxRoundOf(role))
PreBeforeConsensus == \A m \in psent : m.kind = "pre" => m.gr = 0
FaultFreeAccept == OnePerKind /\ SlotOfDuty /\ PostInRound /\ PreBeforeConsensus
(* every duty can finish: used only to see that the model is not vacuous (expected to be VIOLATED: a finished duty exists) *)
NeverAllDone == ~ \A i \in Correct : ph[i] = "done"
TypeOK == /\ role \in Roles /\ silent \subseteq Ops /\ Card(silent) <= F
          /\ clock[1] \in 0..12 /\ clock[2] \in 0..2 /\ dr \in 0..12
=============================================================================
