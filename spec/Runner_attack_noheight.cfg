SPECIFICATION Spec
CONSTANTS
  HasPre = FALSE
  MaxSlot = 3
  MaxSig = 4
  Weaken <- WNoHeight
INVARIANT SigWindow
