SPECIFICATION Spec
CONSTANTS
  MaxH = 2
  MaxRestarts = 0
  FullNode = FALSE
  Cap = 2
  Weaken = "noPastGuard"
  GapFix = FALSE
  Direct = TRUE
  Timeouts = FALSE
PROPERTY NoRerunCtl
