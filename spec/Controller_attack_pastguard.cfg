SPECIFICATION Spec
CONSTANTS
  MaxH = 2
  MaxRestarts = 0
  FullNode = FALSE
  Cap = 2
  Weaken = "noPastGuard"
  GapFix = FALSE
  CertRounds = {1}
  Direct = TRUE
  MidCrash = FALSE
  Timeouts = FALSE
  MaxWriteFaults = 0
  MaxReadFaults = 0
  ReadKinds = {}
  ReadFix = FALSE
PROPERTY NoRerunCtl
