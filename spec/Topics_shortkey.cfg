SPECIFICATION Spec
CONSTANTS
  SubnetsCount = 128
  HexDigits = 10
  KeySize = 48
  SigSize = 3
  IdSize = 2
  VecSize = 128
  Weaken = "none"
  Domain = "attack"
INVARIANT InvAgreeThroughMsgID
