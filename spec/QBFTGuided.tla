----------------------------- MODULE QBFTGuided -----------------------------
(* Attack synthesis for weakened variants of QBFT.tla.  Plain BFS over the weakened spec needs minutes to hours to
   reach an Agreement violation (depth ~20 with three honest operators interleaving).  A *guide* restricts the
   search to behaviours whose sequence of action names (and optionally receivers) matches a sketch of the attack;
   TLC still chooses every other argument, checks that each step is enabled in the weakened spec and that the
   invariant is really violated at the end.  With Weaken = "none" the same guide must NOT reach a violation
   (checked by the generator), which shows that the removed guard is what the attack needs.                     *)
EXTENDS QBFT
CONSTANT Guide          \* sequence of [name |-> STRING, to |-> 0..N, from |-> 0..N, round |-> 0..MaxRound]  (0 = any)
VARIABLE pc
gvars == <<st, sent, byzUsed, act, pc>>

GInit == Init /\ pc = 1
GNext == /\ pc <= Len(Guide)
         /\ Next
         /\ act'.name = Guide[pc].name
         /\ IF Guide[pc].to = 0 THEN TRUE ELSE act'.to = Guide[pc].to
         /\ IF Guide[pc].from = 0 THEN TRUE ELSE act'.from = Guide[pc].from
         /\ IF Guide[pc].round = 0 THEN TRUE ELSE act'.round = Guide[pc].round
         /\ pc' = pc + 1
GSpec == GInit /\ [][GNext]_gvars
GuideCompleted == pc = Len(Guide) + 1
NotCompleted == ~GuideCompleted
=============================================================================
