SPECIFICATION Spec
CONSTANTS
  Owners <- MCOwners
  Validators <- MCValidators
  OpIds <- MCOpIds
  Alphabet <- AlphaAttack
  Setups <- SetupsCover
  MaxEvents = 3
  MaxBlocks = 3
  MaxFaults = 0
  Grain = "event"
  Weaken = "reactKeepsLiquidated"
  Stale = FALSE
  ReadFaults = FALSE
INVARIANT DbMatchesRules
