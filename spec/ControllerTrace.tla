--------------------------- MODULE ControllerTrace ---------------------------
(* Trace validation of executions recorded from the real runner + controller + storage
   (harness/cmd/controller -mode record) against Controller.  One event per call, logged at its return together
   with the projection of the real state ("obs"); many executions are concatenated with "Reset" events.
   FullNode is a constant: light-node and full-node executions are recorded and validated separately. *)
EXTENDS Controller, Json
VARIABLE l
Trace == ndJsonDeserialize("trace.ndjson")
tvars == <<vars, l>>

IsEv(e) == l <= Len(Trace) /\ Trace[l].event = e /\ l' = l + 1

(* the recorded projection of the real state equals the spec's successor state *)
ObsOK == LET o == Trace[l].obs IN
    /\ height' = o.height
    /\ Len(stored') = Len(o.stored)
    /\ \A k \in 1..Len(stored') : /\ stored'[k].h = o.stored[k].h
                                  /\ stored'[k].dec = o.stored[k].dec
                                  /\ stored'[k].round = o.stored[k].round
    /\ rs'.has = o.has /\ rs'.run = o.run
    /\ db'.hi.h = o.hi.h /\ db'.hi.cr = o.hi.cr /\ db'.hi.n = o.hi.n
    /\ \A h \in Heights : /\ db'.hist[h].h = o.hist[h + 1].h
                          /\ db'.hist[h].cr = o.hist[h + 1].cr
                          /\ db'.hist[h].n = o.hist[h + 1].n

TInit == Init /\ l = 1
TReset == /\ IsEv("Reset") /\ Trace[l].full = FullNode
          /\ height' = 0 /\ stored' = <<>> /\ rs' = [has |-> FALSE, run |-> -1]
          /\ db' = [hi |-> NoRec, hist |-> [h \in Heights |-> NoRec]]
          /\ restarts' = 0 /\ wf' = 0 /\ rf' = 0 /\ lf' = "ok" /\ top' = -1 /\ lc' = -1
          /\ act' = [name |-> "init", full |-> FullNode]
TStartDuty == IsEv("StartDuty") /\ StartDuty(Trace[l].slot) /\ act'.ok = Trace[l].ok /\ ObsOK
TCtlStart  == IsEv("CtlStart") /\ CtlStart(Trace[l].slot) /\ act'.ok = Trace[l].ok /\ ObsOK
(* "fail": the write attempts of the call (1 = its first db.Set) that the harness made fail, as they were hit *)
Fails == {Trace[l].fail[j] : j \in 1..Len(Trace[l].fail)}
(* "rfail": the outcomes the harness forced on the storage reads of the call, by read attempt (1 = its first db.Get),
   as they were hit; every call of this footprint makes at most one read: <<>> = none forced *)
Rd == IF Len(Trace[l].rfail) = 0 THEN "ok" ELSE Trace[l].rfail[1]
TLocalMsgs == IsEv("LocalMsgs") /\ LocalMsgs(Trace[l].h, Fails) /\ ObsOK
TCommit4   == IsEv("Commit4") /\ Commit4(Trace[l].h) /\ ObsOK
TDecided   == IsEv("Decided") /\ Len(Trace[l].rfail) <= 1
              /\ (\/ Decided(Trace[l].h, Trace[l].r, Trace[l].n, Fails, Rd)
                  \/ Fails = {} /\ DecidedReadErr(Trace[l].h, Trace[l].r, Trace[l].n, Rd)) /\ ObsOK
TOnTimeout == IsEv("OnTimeout") /\ OnTimeout(Trace[l].h, Trace[l].r) /\ ObsOK
TRestart   == IsEv("Restart") /\ Len(Trace[l].rfail) <= 1 /\ Restart(Rd) /\ ObsOK
(* the process died inside the call, k database writes of it are durable; obs is taken after Validator.Start *)
TDecidedCrash   == IsEv("DecidedCrash") /\ Len(Trace[l].rfail) <= 1
                   /\ DecidedCrash(Trace[l].h, Trace[l].r, Trace[l].n, Trace[l].k, Rd) /\ ObsOK
TLocalMsgsCrash == IsEv("LocalMsgsCrash") /\ Len(Trace[l].rfail) <= 1
                   /\ LocalMsgsCrash(Trace[l].h, Trace[l].k, Rd) /\ ObsOK
TNext == TReset \/ TStartDuty \/ TCtlStart \/ TLocalMsgs \/ TCommit4 \/ TDecided \/ TOnTimeout \/ TRestart
         \/ TDecidedCrash \/ TLocalMsgsCrash
TraceSpec == TInit /\ [][TNext]_tvars
TraceAccepted == TLCGet("stats").diameter - 1 = Len(Trace)
=============================================================================
