----------------------------- MODULE RunnerTrace -----------------------------
(* Implementation -> specification direction of C03: executions RECORDED from the real duty runners
   (harness/cmd/runner -mode record: seeded random schedules, not derived from TLC behaviours; one event per public
   call Validator.StartDuty / Validator.ProcessMessage, logged at its return) are validated against Runner.

   Every event is explained by one of Runner's actions.  Runner delivers a whole quorum in one macro step (RecvSeq,
   RecvPre("quorum"), RecvPost("quorum")); the code takes these steps one message at a time, so this module carries
   the per-message progress the macro steps abstract from

     prog[h]  the stored, running instance of height h: accepted round-1 proposal value, signers of accepted commits
              (instance.BaseMsgValidation / uponProposal / UponCommit; prepares leave nothing a commit needs)
     preS     signers in State.PreConsensusContainer   (basePartialSigMsgProcessing)
     postS    signers in State.PostConsensusContainer

   and takes the macro action at the message that COMPLETES it (the commit that reaches the quorum takes RecvSeq, the
   partial signature that reaches the quorum takes RecvPre/RecvPost("quorum")); a message that does not complete one is
   RecvPre/RecvPost("one"|"wrongSlot") or the named stuttering step ConsensusProgress (Runner's variables unchanged:
   RecvSeq is not what happened).  Messages to an already DECIDED stored instance are absorbed (the controller reports
   nothing for them: UponExistingInstanceMsg prevDecided); their error flag is not bound.

   Bound per event: name, arguments, error flag (predicted from the spec state), the projection "obs" of the real
   state after the call (duty slot, running instance height / still stored / decided, State.DecidedValue as value id,
   Finished, controller height, stored heights with decided flags), and a signature Runner predicts must be among the
   recorded ones.  The validator-key signatures the key-manager spy saw during the call ("sigs") are NOT an enabling
   condition: they are appended to tsig together with the (bound) spec state before the call and the recorded
   projection after it, and the C03 invariants are evaluated on tsig.  A call that made signatures yields a state even
   when its error flag / projection is not what Runner predicts (mis = TRUE), so that its signatures are judged first
   (the cfg lists the C03 invariants before TExplained): a real trace on which a C03 invariant fails is a violation of
   C03; a trace that stops because no step explains an event (or with TExplained) is a conformance divergence.

   Executions are concatenated with Reset events; accepted <=> the whole file was consumed (high-water mark). *)
EXTENDS MCRunner, Json
VARIABLES l,        \* next line of the trace
          qn,       \* quorum size of the committee of the execution (3 of 4, 5 of 7)
          prog, preS, postS,
          tsig,     \* observed SignBeaconObject calls of the execution with their context
          mis       \* the last call made signatures and is not what Runner predicts (error flag, projection, missing signature)
Trace == ndJsonDeserialize("trace.ndjson")
tvars == <<vars, l, qn, prog, preS, postS, tsig, mis>>
Ev == Trace[l]
IsEv(e) == l <= Len(Trace) /\ Trace[l].event = e /\ l' = l + 1

NoProg == [prop |-> "none", com |-> {}]
Future(h) == ctrlH = 0 \/ h > ctrlH                         \* Controller.isFutureMessage (no instance of height 0 here)
Live(h) == ~Future(h) /\ StoredSt(stored, h) = "run"        \* InstanceForHeight finds it, not force-stopped, not decided
Absorbed(h) == ~Future(h) /\ StoredSt(stored, h) = "dec"
(* progress lives and dies with the stored instance object of its height *)
Life(p) == [h \in Slots |-> IF Idx(stored, h) # 0 /\ Idx(stored', h) # 0 THEN p[h] ELSE NoProg]

RunStP == IF runH' = 0 THEN "none" ELSE IF runIn' THEN StoredSt(stored', runH') ELSE runSt'
RunValP == IF runH' = 0 THEN "none" ELSE IF runIn' THEN StoredVal(stored', runH') ELSE runVal'

(* the recorded projection of the real state equals the spec's successor state *)
ObsOK == LET o == Ev.obs IN
    /\ duty' = o.duty /\ runH' = o.runH /\ runIn' = o.runIn /\ (RunStP = "dec") = o.dec
    /\ dval' = o.dval /\ finished' = o.fin /\ ctrlH' = o.ctrlH
    /\ Len(stored') = Len(o.stored)
    /\ \A k \in 1..Len(stored') : stored'[k].h = o.stored[k].h /\ (stored'[k].st = "dec") = o.stored[k].dec

(* error of baseConsensusMsgProcessing after the controller returned a decided message (returned) for height h *)
RepErr(h, v, returned, prevDec) == Running /\ returned /\ (runH = 0 \/ h # runH \/ (~prevDec /\ v = "invalid"))

(* the observed signatures of this call: logged facts, the spec state before the call, the recorded projection after it *)
SigRecs == [i \in 1..Len(Ev.sigs) |->
    LET x == Ev.sigs[i]  o == Ev.obs IN
    [k |-> x.k, slot |-> x.slot, v |-> x.v, idx |-> x.idx, inDec |-> x.inDec, inMsg |-> x.inMsg, valOK |-> x.valOK,
     ev |-> Ev.event, line |-> l,
     s |-> IF Ev.event = "StartDuty" THEN Ev.s ELSE 0, startOK |-> (Ev.event = "StartDuty" /\ ~Ev.err),
     msgH |-> IF Ev.event \in {"Commit", "Decided"} THEN Ev.h ELSE 0,
     duty |-> duty, fin |-> finished,
     runH |-> o.runH, instDec |-> o.dec, instVal |-> o.rval, detached |-> (o.runH # 0 /\ ~o.runIn /\ ~o.dec)]]
(* a signature Runner predicts must have been seen *)
PredOK ==
    /\ (Len(sigLog') > Len(sigLog) /\ sigLog'[Len(sigLog')].k = "post") =>
          \E i \in 1..Len(Ev.sigs) : /\ Ev.sigs[i].k = "post" /\ Ev.sigs[i].slot = sigLog'[Len(sigLog')].objH
                                     /\ Ev.sigs[i].v = sigLog'[Len(sigLog')].v
    /\ (Ev.event = "StartDuty" /\ HasPre /\ ~Ev.err) =>
          \E i \in 1..Len(Ev.sigs) : Ev.sigs[i].k = "pre" /\ Ev.sigs[i].slot = Ev.s
(* errOK: the recorded error flag is the predicted one *)
Bind(errOK) ==
    /\ tsig' = tsig \o SigRecs
    /\ IF errOK /\ ObsOK /\ PredOK THEN mis' = FALSE ELSE Len(Ev.sigs) > 0 /\ mis' = TRUE

TInit == Init /\ l = 1 /\ qn = 3 /\ prog = [h \in Slots |-> NoProg] /\ preS = {} /\ postS = {} /\ tsig = <<>> /\ mis = FALSE
TReset == /\ IsEv("Reset") /\ Ev.pre = HasPre
          /\ duty' = 0 /\ preDone' = FALSE /\ runH' = 0 /\ runIn' = FALSE /\ runSt' = "none" /\ runVal' = "none"
          /\ dval' = "none" /\ finished' = FALSE /\ ctrlH' = 0 /\ stored' = <<>> /\ sigLog' = <<>>
          /\ act' = [name |-> "init"]
          /\ qn' = Ev.q /\ prog' = [h \in Slots |-> NoProg] /\ preS' = {} /\ postS' = {} /\ tsig' = <<>> /\ mis' = FALSE

TStartDuty == /\ IsEv("StartDuty")
              /\ StartDuty(Ev.s)
              /\ preS' = (IF act'.ok THEN {} ELSE preS) /\ postS' = (IF act'.ok THEN {} ELSE postS)   \* new State
              /\ prog' = Life(prog) /\ UNCHANGED qn
              /\ Bind(act'.ok = ~Ev.err)

(* one pre-consensus partial-signature message: signer, slot of the message, slot whose proofs it carries *)
TPre == /\ IsEv("Pre") /\ HasPre
        /\ LET i == Ev.signer
               acc == Running /\ Ev.slot = duty /\ Ev.osl = duty            \* ValidatePreConsensusMsg
               completes == acc /\ i \notin preS /\ Cardinality(preS) + 1 = qn   \* "quorum returns true only once"
               decideFails == duty < ctrlH \/ Idx(stored, duty) # 0
           IN /\ RecvPre(IF completes THEN "quorum" ELSE IF acc THEN "one" ELSE "wrongSlot")
              /\ preS' = (IF acc THEN preS \cup {i} ELSE preS)
              /\ Bind(Ev.err = (~acc \/ (completes /\ decideFails)))
        /\ prog' = Life(prog) /\ UNCHANGED <<qn, postS>>
(* reject step: the roles without a pre-consensus phase refuse every pre-consensus message (RecvPre is not enabled) *)
TPreRefused == /\ IsEv("Pre") /\ ~HasPre /\ ~ENABLED RecvPre("one")
               /\ UNCHANGED <<vars, qn, prog, preS, postS>>
               /\ Bind(Ev.err)

(* one post-consensus partial-signature message: signer, slot, the decided value whose object roots it carries *)
TPost == /\ IsEv("Post")
         /\ LET i == Ev.signer
                acc == Running /\ dval # "none" /\ RunDecidedNow /\ Ev.slot = duty /\ Ev.v = dval   \* ValidatePostConsensusMsg
                completes == acc /\ i \notin postS /\ Cardinality(postS) + 1 = qn
            IN /\ RecvPost(IF completes THEN "quorum" ELSE "one")
               /\ postS' = (IF acc THEN postS \cup {i} ELSE postS)
               /\ Bind(Ev.err = ~acc)
         /\ UNCHANGED <<qn, prog, preS>>

(* named stuttering step: a consensus message that does not complete a decision (RecvSeq did not happen) *)
ConsensusProgress == UNCHANGED vars

TProposal == /\ IsEv("Proposal")
             /\ LET h == Ev.h
                    acc == Live(h) /\ prog[h].prop = "none" /\ Ev.v # "invalid"     \* isValidProposal (leader 1, round 1, value check)
                IN /\ ConsensusProgress
                   /\ prog' = (IF acc THEN [prog EXCEPT ![h].prop = Ev.v] ELSE prog)
                   /\ Bind(Absorbed(h) \/ Ev.err = ~acc)
             /\ UNCHANGED <<qn, preS, postS>>
TPrepare == /\ IsEv("Prepare")
            /\ ConsensusProgress
            /\ Bind(Absorbed(Ev.h) \/ Ev.err = ~(Live(Ev.h) /\ prog[Ev.h].prop = Ev.v))
            /\ UNCHANGED <<qn, prog, preS, postS>>
TCommit == /\ IsEv("Commit")
           /\ LET h == Ev.h  v == Ev.v  i == Ev.signer
                  acc == Live(h) /\ prog[h].prop = v                               \* validateCommit: root of the accepted proposal
                  completes == acc /\ i \notin prog[h].com /\ Cardinality(prog[h].com) + 1 >= qn
              IN /\ IF completes THEN RecvSeq(h, v) /\ act'.decided ELSE ConsensusProgress
                 /\ prog' = Life(IF acc THEN [prog EXCEPT ![h].com = @ \cup {i}] ELSE prog)
                 /\ Bind(Absorbed(h) \/ Ev.err = (IF completes THEN RepErr(h, v, TRUE, PrevDecided(h)) ELSE ~acc))
           /\ UNCHANGED <<qn, preS, postS>>
TDecided == /\ IsEv("Decided")
            /\ RecvDecided(Ev.h, Ev.v, Ev.q)
            /\ Bind(Ev.err = RepErr(Ev.h, Ev.v, StoredSt(stored, Ev.h) # "dec", PrevDecided(Ev.h)))
            /\ prog' = Life(prog) /\ UNCHANGED <<qn, preS, postS>>
(* a message whose envelope names another validator or another role, or whose QBFT identifier names another role *)
TForeign == /\ IsEv("Foreign")
            /\ RecvForeign(IF Ev.c = "otherValidator" THEN "otherValidator" ELSE "otherRole", Ev.h, Ev.v)
            /\ Bind(Ev.err = ~(Ev.c = "otherRoleEnv" /\ Ev.kind = "decided"))    \* the other role's runner takes the decided message
            /\ UNCHANGED <<qn, prog, preS, postS>>

TNext == TReset \/ TStartDuty \/ TPre \/ TPreRefused \/ TPost \/ TProposal \/ TPrepare \/ TCommit \/ TDecided \/ TForeign
TraceSpec == TInit /\ [][TNext]_tvars
TraceAccepted == TLCGet("stats").diameter - 1 = Len(Trace)

----------------------------------------------------------------------------
(* C03 on the states of the trace *)
TS == {tsig[i] : i \in 1..Len(tsig)}
(* a duty object is signed only by a consensus message of this validator and role for the height of the running
   instance = the slot of the running, unfinished duty; the object is contained in the value that instance decided
   (real flag inDec and the recorded value id of the instance), the value passed the value check; when the controller dropped the
   running instance before it decided: contained in the value of the decided message of its height *)
TSigPost == \A e \in TS : e.k = "post" =>
    /\ e.ev \in {"Commit", "Decided"}
    /\ e.duty # 0 /\ ~e.fin
    /\ e.runH = e.duty /\ e.msgH = e.runH /\ e.slot = e.duty
    /\ e.v \in {"valid", "alt"} /\ e.valOK
    /\ \/ e.instDec /\ e.v = e.instVal /\ e.inDec
       \/ e.detached /\ e.ev = "Decided" /\ e.inMsg
(* every other validator-key signature is the pre-consensus proof of the slot of the duty being started *)
TSigPre == \A e \in TS : e.k # "post" => (e.k = "pre" /\ HasPre /\ e.ev = "StartDuty" /\ e.startOK /\ e.slot = e.s)
(* at most once per decided object (the detached repetition is the named deviation of PrevDec = "code") *)
SameObj(i, j) == /\ tsig[i].k = "post" /\ tsig[j].k = "post"
                 /\ <<tsig[i].slot, tsig[i].v, tsig[i].idx>> = <<tsig[j].slot, tsig[j].v, tsig[j].idx>>
TSigOnce == \A i, j \in 1..Len(tsig) : (i < j /\ SameObj(i, j)) => tsig[j].detached
TSigOnceDetached == \A i, j \in 1..Len(tsig) : (i < j /\ SameObj(i, j)) => ~tsig[j].detached
(* not a property: the call that made signatures is also what Runner predicts (listed last in the cfg) *)
TExplained == ~mis
=============================================================================
