SPECIFICATION SpecR
CONSTANTS
  MaxHead = 7
  Head0 = 4
  Start = 3
  Batches = {1,2}
  Follows = {0,2}
  Kinds = {"none","one"}
  KindSample = {}
  LowKind = "one"
  MaxFaults = 3
  Algo = "fixed"
  Weaken = "none"
  Hist = FALSE
INVARIANT TypeOK
INVARIANT StrictlyIncreasing
INVARIANT ExactlyOnce
INVARIANT NoRewind
INVARIANT PerBlockComplete
INVARIANT NoGapDelivered
INVARIANT NoGapCursor
INVARIANT FollowRespected
INVARIANT CursorAhead
VIEW view
