SPECIFICATION Spec
CONSTANTS
  SPE = 2
  MaxSlot = 17
  MaxGen = 6
  MaxFaults = 1
  MaxPersist = 1
  Variants = 2
  Kinds = {"att"}
  FaultKinds = {"crash", "crashafter"}
  Weaken = "none"
INVARIANT NoSlashable
INVARIANT Covered
PROPERTY RefuseWhenUnknown
