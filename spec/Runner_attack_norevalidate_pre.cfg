SPECIFICATION Spec
CONSTANTS
  HasPre = TRUE
  MaxSlot = 3
  MaxSig = 4
  Weaken <- WNoRevalidate
INVARIANT SigWindow
