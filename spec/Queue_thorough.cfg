SPECIFICATION Spec
CONSTANTS
  Classes <- ClassesMid
  MaxMsgs = 4
  Cap = 2
  Algo = "fixed"
  SeqHarness = FALSE
  Blocking = TRUE
INVARIANT Conservation
INVARIANT Admitted
INVARIANT LenOK
INVARIANT WaitingSound
PROPERTY Responsive
PROPERTY NoDiscard
VIEW view
