SPECIFICATION Spec
CONSTANTS
  Role = "prop"
  SPE = 4
  EPP = 2
  MaxEpoch = 2
  Validators = {1}
  Actives = {{1}}
  StartSlots = {0}
  Lags = {0}
  MaxReorgs = 1
  MaxIdx = 1
  MaxFails = 2
  InitDuties = FALSE
  Weaken = "none"
INVARIANT TypeOK
INVARIANT AtMostOnce
INVARIANT AtItsSlot
INVARIANT OnlyIfAssigned
INVARIANT InWindow
INVARIANT ExactlyOnceWhenValid
INVARIANT NoStaleInStore
VIEW view
