SPECIFICATION Spec
CONSTANTS
  Role = "prop"
  SPE = 4
  EPP = 2
  MaxEpoch = 1
  Validators = {1, 2}
  Actives = {{1}, {1, 2}}
  StartSlots = {0, 2}
  Lags <- LagsNear
  MaxReorgs = 1
  MaxIdx = 1
  MaxFails = 0
  InitDuties = TRUE
  Weaken = "none"
INVARIANT TypeOK
INVARIANT AtMostOnce
INVARIANT AtItsSlot
INVARIANT OnlyIfAssigned
INVARIANT InWindow
INVARIANT ExactlyOnceWhenValid
INVARIANT NoStaleInStore
VIEW view
