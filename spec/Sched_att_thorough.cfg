SPECIFICATION Spec
CONSTANTS
  Role = "att"
  SPE = 4
  EPP = 2
  MaxEpoch = 2
  Validators = {1}
  Actives = {{1}}
  StartSlots = {0, 2}
  Lags = {0, 1}
  MaxReorgs = 2
  MaxIdx = 2
  MaxFails = 2
  InitDuties = FALSE
  Weaken = "none"
INVARIANT TypeOK
INVARIANT AtMostOnce
INVARIANT AtItsSlot
INVARIANT OnlyIfAssigned
INVARIANT InWindow
INVARIANT ExactlyOnceWhenValid
INVARIANT NoStaleInStore
VIEW view
