SPECIFICATION Spec
CONSTANTS
  MaxHead = 10
  Head0 = 6
  Start = 4
  Batches = {1,2,3,4}
  Follows = {0,1,3}
  Kinds = {"none","one","two","rm","mix"}
  KindSample = {}
  LowKind = "two"
  MaxFaults = 5
  Algo = "fixed"
  Weaken = "none"
  Hist = TRUE
INVARIANT StrictlyIncreasing
INVARIANT NoRewind
INVARIANT PerBlockComplete
INVARIANT NoGapDelivered
INVARIANT NoGapCursor
INVARIANT FollowRespected
