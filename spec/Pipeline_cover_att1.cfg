SPECIFICATION Spec
CONSTANTS
  Roles <- MCRolesAtt
  PreRoles <- MCPre
  NoQueueRoles <- MCNoQ
  Alphabet <- AlphaAtt1
  MaxH = 2
  MaxR = 2
  Cap = 2
  MaxPush = 4
  MaxFire = 1
  MaxStop = 0
  MaxExt = 1
  Q = 3
  SeqHarness = TRUE
  FastPop = FALSE
  FineRead = FALSE
  ExternalStart = FALSE
  AdvTimer = TRUE
  PrioDecided = "gt"
INVARIANT TypeOK
