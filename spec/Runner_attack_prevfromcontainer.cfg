SPECIFICATION Spec
CONSTANTS
  HasPre = FALSE
  MaxSlot = 3
  MaxSig = 4
  Cap = 2
  Vals <- OneVal
  Quorums <- TwoQuorums
  PrevDec = "code"
  Weaken <- WPrevFromContainer
INVARIANT SigWindow
