-------------------------- MODULE SchedulerTrace --------------------------
(* Trace validation of executions recorded from the real duty handlers (harness/cmd/scheduler -mode own)
   against Scheduler.  One event per step the harness applied (the beacon node fixing an assignment, a
   tick, a reorg notice, an indices change) with what the real handler was observed to do in it (fetch
   calls with their outcome, dispatched duties); many executions are concatenated with "Reset" events. *)
EXTENDS MCScheduler, Json
VARIABLE l
Trace == ndJsonDeserialize("trace.ndjson")
tvars == <<vars, l>>

IsEv(e) == l <= Len(Trace) /\ Trace[l].event = e /\ l' = l + 1
SeqToSet(s) == {s[k] : k \in 1..Len(s)}

TInit == Init /\ l = 1
TReset == /\ IsEv("Reset")
          /\ slot' = Trace[l].s0 /\ started' = FALSE
          /\ inited' = (~Trace[l].initd \/ Role = "att")
          /\ truth' = [k \in Keys |-> [v \in Validators |-> IF k = MaxKey THEN 0 ELSE Unset]]
          /\ nextAssign' = 0
          /\ active' = SeqToSet(Trace[l].active)
          /\ store' = {}
          /\ fetchFirst' = TRUE
          /\ fetchCur' = (Role # "prop")
          /\ fetchNext' = (CASE Role = "att" -> TRUE [] Role = "sync" -> ShouldFetchNextPeriod(Trace[l].s0) [] OTHER -> FALSE)
          /\ idxChanged' = FALSE
          /\ lastFetched' = {} /\ mvalid' = {} /\ hiDisp' = -1 /\ viol' = {}
          /\ budget' = [reorg |-> MaxReorgs, idx |-> MaxIdx, fail |-> MaxFails]
          /\ act' = [name |-> "init"]
TAssign == /\ IsEv("Assign")
           /\ Assign
           /\ act'.key = Trace[l].key
           /\ act'.vals = SeqToSet(Trace[l].vals)
TInitial == /\ IsEv("InitialDuties")
            /\ InitialDuties
            /\ act'.fetches = Trace[l].fetches
TTick == /\ IsEv("Tick")
         /\ Tick
         /\ act'.slot = Trace[l].slot
         /\ (act'.lag = Trace[l].lag \/ act'.lag = 0)     \* the spec writes a lag nobody can observe as 0
         /\ act'.fetches = Trace[l].fetches
         /\ act'.disp = SeqToSet(Trace[l].disp)
TReorg == /\ IsEv("Reorg")
          /\ Reorg
          /\ act'.kind = Trace[l].kind
          /\ IF Trace[l].chg
             THEN act'.key = Trace[l].key /\ act'.v = Trace[l].v /\ act'.t = Trace[l].t
             ELSE truth' = truth
TIndices == /\ IsEv("IndicesChange")
            /\ IndicesChange
            /\ act'.active = SeqToSet(Trace[l].active)
TNext == TReset \/ TAssign \/ TInitial \/ TTick \/ TReorg \/ TIndices
TraceSpec == TInit /\ [][TNext]_tvars
TraceAccepted == TLCGet("stats").diameter - 1 = Len(Trace)
=============================================================================
