SPECIFICATION Spec
CONSTANTS
  N = 7
  R = 1
  FaultySets <- TailFaultySets
  MaxHonest = 1
  MaxFaulty = 1
  Foreign = FALSE
  Orders <- OrdersId
  Algo = "code"
  Weaken <- WNoEvict
INVARIANT NotPrevented
