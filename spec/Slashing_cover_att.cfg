SPECIFICATION Spec
CONSTANTS
  SPE = 2
  MaxSlot = 7
  MaxGen = 2
  MaxFaults = 0
  MaxPersist = 1
  Variants = 1
  Kinds = {"att"}
  FaultKinds = {}
  Weaken = "none"
INVARIANT NoSlashable
