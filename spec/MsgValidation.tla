---------------------------- MODULE MsgValidation ----------------------------
(* message/validation: the pubsub gate of one peer (ValidatePubsubMessage -> validateP2PMessage ->
   validateSSVMessage -> validateConsensusMessage | validatePartialSignatureMessage).

   ONE action, Validate(m, t): the peer validates message class m at time point t.  Two definitions live here:

     * the OPERATIONAL verdict  Verdict(m, t, sig): the rules in the order of the code, returning the class
       (accept / ignore / reject) and the text of the first failing rule (validation.Error.Text()), plus the
       per-signer state update on accept (SignerState: slot, round, message counts, proposal data, epoch duties);
     * the DECLARATIVE predicate GossipBreak(m, t, hist) (= "none" iff GossipOK), written from the statement of
       property C09 alone, over the set `hist` of previously accepted messages.

   TLC checks  AcceptSound == accept => GossipOK  and totality on every edge.

   Abstraction of values (the harness concretises them, harness/valkit):
     slots   : an integer k is the real slot Base+k (Base a multiple of 32, 4 and 7); codes for 0, 1, 2^31-1, 2^31,
               2^32-1, 2^32, 2^62+Base, 2^63-1, 2^63, 2^64-1 (codes keep the real order).  height = slot.
     rounds  : a small integer is itself; codes for 2^31-1, 2^31, 2^32-1, 2^32, 2^63-1, 2^63, 2^64-1.
     time    : t = [s |-> current slot, o |-> whole seconds into the slot]; the real clock is set to o + 0.5 s and the call
               returns within 0.3 s, so a time point is >= 0.2 s away from every whole second.  The clock arithmetic is
               in MILLISECONDS with the code's constants (section "clock arithmetic").  The code derives the CURRENT
               SLOT from the reception time truncated to whole seconds: it is t.s for o <= 10 and t.s or t.s + 1 for
               o = 11 (the harness cannot choose); o = 11 is used only where both give the same verdict (ClockRobust).
     signers : 1..N committee members, 0 the zero id, ids > N non-members.
     data    : fd = 0 no full data attached, 1 = value A, 2 = value B; root = 1 hash(A), 2 hash(B).
   Named deviations:  PartialWindow = FALSE is the pinned code (partial-signature messages are not checked against
   the clock at all; known finding accepted:partial-sig-outside-slot-window), TRUE the repaired code.
   OverflowGuard = FALSE is the code before 0a8f91d82 (slot 2^62+s passes every clock check as slot s; finding
   accepted:slot-time-overflow), TRUE the repaired code.  The check asks the real validator which variant it is
   (driver -mode probe).  Weaken removes ONE guard (attack configs); KnownGaps names the declarative rules the
   variant under test is known not to enforce.                                                                   *)
EXTENDS Integers, Sequences, FiniteSets, TLC

CONSTANTS N,             \* committee size (4 or 7)
          Alphabet,      \* set of message classes
          Times,         \* set of time points
          MaxAccepts,    \* accepted messages per behaviour
          ForkEpoch,     \* signed envelopes are active iff Epoch(t.s) > ForkEpoch
          PartialWindow, \* BOOLEAN, see above
          OverflowGuard, \* BOOLEAN: FALSE = pinned code (slot start times are computed in wrapping uint64 seconds, so slot
                         \* 2^62+s aliases slot s for every clock check), TRUE = such slots are refused as early
          Weaken,        \* "none" or the name of one removed guard
          KnownGaps      \* rule names excluded from AcceptSound (recorded genuine defects)

VARIABLES sig,    \* [role -> [1..N -> signer state]]
          hist,   \* set of accepted [m, t]
          now,    \* last time point used (time never goes back)
          done,   \* TRUE after the probe edge that ends a bounded behaviour (an accept beyond MaxAccepts)
          act
vars == <<sig, hist, now, done, act>>
view == <<sig, hist, now, done>>

(* slot codes (real order kept): ZERO = 0, ONE = 1, then the ordinary slots Base+k, then the values around the int
   boundaries, which are all in the future of every modelled time point *)
ZERO == -1000
ONE  == -999
H31M == 801          \* 2^31-1
H31  == 802          \* 2^31
H32M == 803          \* 2^32-1
H32  == 804          \* 2^32
H62  == 900          \* real slot 2^62 + Base: (2^62+s)*12 = 3*2^64 + 12*s, the same start time as slot Base (code 0)
H63M == 999          \* 2^63-1 = MaxInt64: not refused by the proposal guard (height > MaxInt64)
H63  == 1000
HMAX == 1001         \* 2^64-1
(* round codes: small integers are themselves *)
R31M == 990          \* 2^31-1 = MaxInt32: the largest round the proposal guard lets through to the leader computation
R31  == 991
R32M == 992
RBIG == 1000         \* 2^32
R63M == 1001         \* 2^63-1 = MaxInt64
R63  == 1002
RMAX == 1003         \* 2^64-1

F == (N - 1) \div 3
Quorum == 2 * F + 1
Members == 1..N
G(g) == Weaken # g        \* guard g is in force

SignerSet(m) == {m.sg[k] : k \in 1..Len(m.sg)}
Epoch(k) == IF k <= ONE THEN -100000 ELSE IF k >= 800 THEN k * 1000 ELSE k \div 32
(* round-robin leader, committee[(height mod N + round - 1) mod N], over the real numbers behind the codes
   (residues of 2^31-1, 2^31, 2^32-1, 2^32, 2^62, 2^63-1, 2^63, 2^64-1 modulo 4 and 7) *)
HMod(h) == CASE h = ZERO -> 0 [] h = ONE -> 1
             [] h = H31M -> (IF N = 4 THEN 3 ELSE 1) [] h = H31 -> (IF N = 4 THEN 0 ELSE 2)
             [] h = H32M -> (IF N = 4 THEN 3 ELSE 3) [] h = H32 -> (IF N = 4 THEN 0 ELSE 4)
             [] h = H62 -> (IF N = 4 THEN 0 ELSE 4) [] h = H63M -> (IF N = 4 THEN 3 ELSE 0)
             [] h = H63 -> (IF N = 4 THEN 0 ELSE 1) [] h = HMAX -> (IF N = 4 THEN 3 ELSE 1) [] OTHER -> h % N
RMod(r) == CASE r = R31M -> (IF N = 4 THEN 3 ELSE 1) [] r = R31 -> (IF N = 4 THEN 0 ELSE 2)
             [] r = R32M -> (IF N = 4 THEN 3 ELSE 3) [] r = RBIG -> (IF N = 4 THEN 0 ELSE 4)
             [] r = R63M -> (IF N = 4 THEN 3 ELSE 0) [] r = R63 -> (IF N = 4 THEN 0 ELSE 1)
             [] r = RMAX -> (IF N = 4 THEN 3 ELSE 1) [] OTHER -> r % N
Leader(h, r) == ((HMod(h) + RMod(r) + N - 1) % N) + 1
SignedAt(c) == Epoch(c) > ForkEpoch             \* c: the current slot as the code estimates it
Signed(t) == SignedAt(t.s)
TLeq(a, b) == a.s < b.s \/ (a.s = b.s /\ a.o <= b.o)

(* role attributes (spectypes.BeaconRole: 0 attester, 1 aggregator, 2 proposer, 3 sync committee,
   4 sync committee contribution, 5 validator registration, 6 voluntary exit) *)
ValidRole(role) == role \in 0..6
LateSlotAllowance == 2                              \* validation.go: lateSlotAllowance
TTL(role) == CASE role \in {2, 3, 4} -> 1 + LateSlotAllowance [] role \in {0, 1} -> 32 + LateSlotAllowance
               [] OTHER -> -1                       \* lateMessage: ttl by role; -1: no late limit (registration, exit)
MaxRound(role) == CASE role \in {0, 1} -> 12 [] role \in {2, 3, 4} -> 6 [] OTHER -> 0
DutyLimited(role) == role \in {0, 1, 5, 6}
PreTypes == {1, 2, 3, 4, 5}        \* randao, selection proof, contribution proofs, validator registration, voluntary exit
PTypeOK(pt, role) ==
    CASE role = 0 -> pt = 0 [] role = 1 -> pt \in {0, 2} [] role = 2 -> pt \in {0, 1} [] role = 3 -> pt = 0
      [] role = 4 -> pt \in {0, 3} [] role = 5 -> pt = 4 [] role = 6 -> pt = 5 [] OTHER -> FALSE

----------------------------------------------------------------------------
(* clock arithmetic of the code (beacon network, validateSlotTime, earlyMessage, lateMessage, currentEstimatedRound),
   in milliseconds; slot start times relative to the start of slot code 0.  `c` is the current slot as the code
   estimates it, EstimatedSlotAtTime(receivedAt.Unix()); the reception time itself is t.s, t.o with 0.5 s added. *)
SlotDuration == 12000                   \* 12 s slots
QuickTimeout == 2000                    \* roundtimer.QuickTimeout
SlowTimeout == 120000                   \* roundtimer.SlowTimeout
QuickTimeoutThreshold == 8              \* roundtimer.QuickTimeoutThreshold
FirstRound == 1                         \* specqbft.FirstRound
AllowedRoundsInFuture == 1              \* validation.go: allowedRoundsInFuture (allowedRoundsInPast is not enforced by the code)
LateMessageMargin == 3000               \* validation.go: lateMessageMargin
ClockErrorTolerance == 50               \* validation.go: clockErrorTolerance
SlotStart(k) == k * SlotDuration
ReceivedAt(t) == SlotStart(t.s) + 1000 * t.o + 500

Special(k) == k <= ONE \/ k >= H63M              \* start time far in the past: slots 0, 1; 2^63-1, 2^63, 2^64-1 wrap to about genesis
FutureFits(k) == k \in {H31M, H31, H32M, H32}   \* start time computed correctly, far in the future
Alias(k) == IF k = H62 THEN 0 ELSE IF FutureFits(k) THEN 100000 ELSE k      \* the slot whose start time the code computes for k
(* earlyMessage: slotEnd(current) - tolerance is before slotStart(h); 2^63 and 2^64-1 wrap to genesis *)
Early(h, c) == IF h >= H62 /\ OverflowGuard THEN TRUE       \* 2^62+Base, 2^63-1, 2^63, 2^64-1 are beyond MaxInt64/12
               ELSE ~Special(h) /\ SlotStart(c + 1) - ClockErrorTolerance < SlotStart(Alias(h))
(* lateMessage: slotStart(current) - (slotStart(h + ttl) + margin + tolerance) > 0 *)
Late(h, role, c) == TTL(role) >= 0 /\ (Special(h) \/ SlotStart(c) - (SlotStart(Alias(h) + TTL(role)) + LateMessageMargin + ClockErrorTolerance) > 0)
(* currentEstimatedRound(sinceSlotStart) *)
CurrentEstimatedRound(since) ==
    LET currentQuickRound == FirstRound + (since \div QuickTimeout) IN
    IF currentQuickRound <= QuickTimeoutThreshold THEN currentQuickRound
    ELSE LET sinceFirstSlowRound == since - QuickTimeoutThreshold * QuickTimeout
         IN QuickTimeoutThreshold + FirstRound + (sinceFirstSlowRound \div SlowTimeout)
EstRound(h, t) ==        \* estimated round of a message for slot h received at t
    IF Special(h) THEN 100000
    ELSE LET since == ReceivedAt(t) - SlotStart(Alias(h))
         IN IF since <= 0 THEN FirstRound                    \* ~receivedAt.After(slotStartTime)
            ELSE CurrentEstimatedRound(since)

----------------------------------------------------------------------------
ZeroCounts == [pre |-> 0, prop |-> 0, prep |-> 0, comm |-> 0, dec |-> 0, rc |-> 0, post |-> 0]
NoSS == [has |-> FALSE, slot |-> ZERO, round |-> 0, duties |-> 0, pd |-> 0, c |-> ZeroCounts]
MaxDecided == N * (F + 1)

Acc == [v |-> "accept", rule |-> ""]
Ign(x) == [v |-> "ignore", rule |-> x]
Rej(x) == [v |-> "reject", rule |-> x]
Pass == [v |-> "pass", rule |-> ""]
Then(a, b) == IF a.v # "pass" THEN a ELSE b

IsDecided(m) == m.mt = 2 /\ Len(m.sg) > 1
HasFullData(m) == (m.mt \in {0, 3} \/ IsDecided(m)) /\ m.fd # 0

(* what validateP2PMessage sees after the (era dependent) envelope handling *)
Payload(m, c) ==
    IF ~SignedAt(c)
    THEN CASE m.raw = "empty" -> "nodata" [] m.raw = "junk" -> "junk"
           [] OTHER -> IF m.env = "none" THEN "msg" ELSE "junk"
    ELSE CASE m.raw = "empty" -> "short" [] m.raw = "junk" -> "junk"
           [] m.env = "none" -> (IF m.body = "ok" THEN "junk" ELSE "short")
           [] m.env = "short" -> "short" [] m.env = "nomsg" -> "nodata"
           [] OTHER -> "msg"

PubRulesC(m, c) ==
    LET p == Payload(m, c) IN
    CASE p = "short" -> Rej("signed message could not be decoded")
      [] p = "nodata" -> Rej("pub-sub message has no data")
      [] p = "junk" -> Rej("pub-sub message is malformed")
      [] G("topic") /\ m.topic # "ok" -> Rej("topic not found")
      [] OTHER -> Pass

PubRules(m, t) == PubRulesC(m, t.s)

SSVRules(m) ==
    CASE m.body = "empty" -> Ign("empty data")
      [] m.dom # "ok" -> Ign("wrong domain")
      [] ~ValidRole(m.role) -> Rej("invalid role")
      [] m.val = "badpk" -> Rej("deserialize public key")
      [] G("known") /\ m.val = "unknown" -> Ign("unknown validator")
      [] G("liquidated") /\ m.val = "liquidated" -> Ign("validator is liquidated")
      [] m.val = "nometa" -> Ign("share has no metadata")
      [] G("active") /\ m.val \in {"exited", "pending"} -> Ign("validator is not attesting")
      [] m.st \in {"dkg", "unk"} -> Rej("unknown SSV message type")
      [] m.body = "garbage" \/ Len(m.sg) > 13 -> Rej("message could not be decoded")
      [] m.st = "event" -> Rej("event messages are not broadcast")
      [] OTHER -> Pass

(* validConsensusSigners *)
RECURSIVE SignerLoop(_, _, _)
SignerLoop(sg, k, prev) ==
    IF k > Len(sg) THEN Pass
    ELSE IF G("zero-signer") /\ sg[k] = 0 THEN Rej("zero signer ID")
    ELSE IF G("member") /\ sg[k] \notin Members THEN Rej("signer is not in committee")
    ELSE IF G("duplicate") /\ sg[k] = prev THEN Rej("signer is duplicated")
    ELSE SignerLoop(sg, k + 1, sg[k])

SortedSeq(sg) == \A k \in 1..(Len(sg) - 1) : sg[k] <= sg[k + 1]

ConsSigners(m) ==
    LET n == Len(m.sg) IN
    Then(CASE n = 0 -> Rej("no signers")
           [] n = 1 /\ m.mt = 0 ->
                (CASE m.r < 1 -> Ign("message round is too far from estimated")
                   [] m.r >= R31 -> Ign("round is too high for this role")      \* round > MaxInt32
                   [] m.h >= H63 -> Ign("early message")
                   [] G("leader") /\ m.sg[1] # Leader(m.h, m.r) -> Rej("signer is not leader")
                   [] OTHER -> Pass)
           [] n = 1 -> Pass
           [] G("multi-non-commit") /\ m.mt # 2 -> Rej("non-decided with multiple signers")
           [] G("quorum") /\ (n < Quorum \/ n > N) -> Rej("decided signers size is not between quorum and committee size")
           [] OTHER -> Pass,
    Then(IF G("sorted") /\ ~SortedSeq(m.sg) THEN Rej("signers are not sorted") ELSE Pass,
         SignerLoop(m.sg, 1, 0)))

(* validateJustifications *)
JustOK(m) == m.r = 1 \/ m.js = "rcq" \/ (m.js = "rcprep" /\ m.fd = 1)
JustRules(m) ==
    CASE m.js = "pjbad" -> Rej("malformed prepare justifications")
      [] m.js \in {"pj", "rcprep"} /\ m.mt # 0 -> Rej("prepare justifications unexpected for this message type")
      [] m.js = "rcbad" -> Rej("malformed round change justifications")
      [] m.js \in {"rcq", "rcprep"} /\ m.mt \notin {0, 3} -> Rej("round change justifications unexpected for this message type")
      [] m.mt = 0 /\ ~JustOK(m) -> Rej("invalid justifications")
      [] OTHER -> Pass

DutyCount(ss, role, newDutySameEpoch) ==
    IF DutyLimited(role) /\ ss.duties >= (IF newDutySameEpoch THEN 2 ELSE 3)
    THEN Rej("too many duties per epoch") ELSE Pass

CountLimit(m, c) ==
    LET over == CASE m.mt = 0 -> c.prop >= 1 [] m.mt = 1 -> c.prep >= 1 [] m.mt = 3 -> c.rc >= 1
                  [] Len(m.sg) = 1 -> c.comm >= 1 [] OTHER -> c.dec >= MaxDecided
    IN IF G("limit") /\ over THEN Ign("too many messages of same type per round") ELSE Pass

(* validateSignerBehaviorConsensus for one signer *)
BehaviourCons(m, ss) ==
    IF ~ss.has THEN JustRules(m)
    ELSE Then(IF G("slot-regress") /\ m.h < ss.slot THEN Ign("signer has already advanced to a later slot") ELSE Pass,
         Then(IF G("round-regress") /\ m.h = ss.slot /\ m.r < ss.round THEN Ign("signer has already advanced to a later round") ELSE Pass,
         Then(DutyCount(ss, m.role, m.h > ss.slot /\ Epoch(m.h) = Epoch(ss.slot)),
         Then(IF m.h = ss.slot /\ m.r = ss.round
              THEN Then(IF G("dup-proposal") /\ HasFullData(m) /\ ss.pd # 0 /\ ss.pd # m.fd
                        THEN Rej("duplicated proposal with different data") ELSE Pass,
                        CountLimit(m, ss.c))
              ELSE Pass,
              JustRules(m)))))

RECURSIVE BehaviourLoop(_, _, _)
BehaviourLoop(m, S, k) ==
    IF k > Len(m.sg) THEN Pass
    ELSE Then(BehaviourCons(m, IF m.sg[k] \in Members THEN S[m.sg[k]] ELSE NoSS), BehaviourLoop(m, S, k + 1))

EnvRules(m, c) ==
    IF ~SignedAt(c) \/ ~G("signature") THEN Pass
    ELSE CASE m.env = "unkop" -> Rej("operator not found")
           [] m.env \in {"badsig", "badkey1", "badkey2", "badkey3", "badkey4"} -> Rej("signature verification")
           [] OTHER -> Pass

ConsRules(m, t, c, S) ==
    Then(IF m.role \in {5, 6} THEN Rej("unexpected consensus message for this role") ELSE Pass,
    Then(IF m.sf = "zero" THEN Rej("zero signature") ELSE Pass,
    Then(IF m.mt \notin 0..3 THEN Rej("unknown QBFT message type") ELSE Pass,
    Then(ConsSigners(m),
    Then(IF G("early") /\ Early(m.h, c) THEN Ign("early message") ELSE Pass,
    Then(IF G("late") /\ Late(m.h, m.role, c) THEN Ign("late message") ELSE Pass,
    Then(IF G("round-max") /\ m.r > MaxRound(m.role) THEN Ign("round is too high for this role") ELSE Pass,
    Then(IF G("round-est") /\ (m.r < FirstRound \/ m.r > EstRound(m.h, t) + AllowedRoundsInFuture) THEN Ign("message round is too far from estimated") ELSE Pass,
    Then(IF G("hash") /\ HasFullData(m) /\ m.fd # m.root THEN Rej("root doesn't match full data hash") ELSE Pass,
    Then(BehaviourLoop(m, S, 1),
         EnvRules(m, c)))))))))))

(* validatePartialMessages *)
PartialMsgs(m) ==
    CASE G("zero-signer") /\ m.sg[1] = 0 -> Rej("zero signer ID")
      [] G("member") /\ m.sg[1] \notin Members -> Rej("signer is not in committee")
      [] m.pm = "none" -> Rej("no partial messages")
      [] m.pm = "dup" -> Rej("duplicated partial signature message")
      [] m.pm = "wsigner" -> Rej("signer is not expected")
      [] m.pm = "zsig" -> Rej("zero signature")
      [] OTHER -> Pass

BehaviourPartial(m, ss) ==
    IF ~ss.has THEN Pass
    ELSE Then(IF G("slot-regress") /\ m.h < ss.slot THEN Ign("signer has already advanced to a later slot") ELSE Pass,
         Then(DutyCount(ss, m.role, m.h > ss.slot /\ Epoch(m.h) = Epoch(ss.slot)),
              IF m.h <= ss.slot /\ (IF m.pt \in PreTypes THEN ss.c.pre > 1 ELSE ss.c.post > 1)
              THEN Ign("too many messages of same type per round") ELSE Pass))

PartialRules(m, t, c, S) ==
    Then(IF m.pt \notin 0..5 THEN Rej("unknown partial signature message type") ELSE Pass,
    Then(IF ~PTypeOK(m.pt, m.role) THEN Rej("partial signature type and role don't match") ELSE Pass,
    Then(PartialMsgs(m),
    Then(IF PartialWindow /\ Early(m.h, c) THEN Ign("early message") ELSE Pass,
    Then(IF PartialWindow /\ Late(m.h, m.role, c) THEN Ign("late message") ELSE Pass,
    Then(IF m.sg[1] \in Members THEN BehaviourPartial(m, S[m.sg[1]]) ELSE Pass,
    Then(IF m.sf = "zero" THEN Rej("zero signature") ELSE Pass,
         EnvRules(m, c))))))))

(* t: the reception time, c: the current slot the code derives from it (t.s, see the header) *)
VerdictC(m, t, c, sg) ==
    LET res == Then(PubRulesC(m, c),
               Then(SSVRules(m),
                    IF ~ValidRole(m.role) THEN Acc        \* unreachable: SSVRules rejects invalid roles
                    ELSE IF m.st = "cons" THEN ConsRules(m, t, c, sg[m.role]) ELSE PartialRules(m, t, c, sg[m.role])))
    IN IF res.v = "pass" THEN Acc ELSE res
Verdict(m, t, sg) == VerdictC(m, t, t.s, sg)

----------------------------------------------------------------------------
(* state update on accept *)
Bump(c, m) ==
    CASE m.mt = 0 -> [c EXCEPT !.prop = @ + 1] [] m.mt = 1 -> [c EXCEPT !.prep = @ + 1]
      [] m.mt = 3 -> [c EXCEPT !.rc = @ + 1]
      [] Len(m.sg) = 1 -> [c EXCEPT !.comm = @ + 1] [] OTHER -> [c EXCEPT !.dec = @ + 1]

UpdCons(ss, m) ==
    LET s0 == [ss EXCEPT !.has = TRUE]
        s1 == IF m.h > s0.slot
              THEN [s0 EXCEPT !.slot = m.h, !.round = m.r, !.c = ZeroCounts, !.pd = 0,
                              !.duties = IF Epoch(m.h) > Epoch(s0.slot) THEN 1 ELSE @ + 1]
              ELSE IF m.h = s0.slot /\ m.r > s0.round
              THEN [s0 EXCEPT !.round = m.r, !.c = ZeroCounts, !.pd = 0]
              ELSE s0
        s2 == IF HasFullData(m) /\ s1.pd = 0 THEN [s1 EXCEPT !.pd = m.fd] ELSE s1
    IN [s2 EXCEPT !.c = Bump(@, m)]

UpdPartial(ss, m) ==
    LET s0 == [ss EXCEPT !.has = TRUE]
        s1 == IF m.h > s0.slot
              THEN [s0 EXCEPT !.slot = m.h, !.round = 1, !.c = ZeroCounts, !.pd = 0,
                              !.duties = IF Epoch(m.h) > Epoch(s0.slot) THEN 1 ELSE @ + 1]
              ELSE s0
    IN IF m.pt \in PreTypes THEN [s1 EXCEPT !.c.pre = @ + 1] ELSE [s1 EXCEPT !.c.post = @ + 1]

Update(S, m) ==     \* S = sig[m.role]; only members can be in an accepted message unless a guard is weakened
    [i \in Members |-> IF i \in SignerSet(m)
                       THEN (IF m.st = "cons" THEN UpdCons(S[i], m) ELSE UpdPartial(S[i], m))
                       ELSE S[i]]

----------------------------------------------------------------------------
(* DECLARATIVE: the statement of C09.  Returns the name of the first rule the message breaks, "none" if it
   breaks none.  `H` is the set of previously accepted [m, t]. *)
(* the round a correct instance started at the slot start is in (round timer: rounds 1..8 time out after 2 s each, later
   rounds after 2 min each), written independently of the operational arithmetic above; milliseconds *)
ElapsedMs(h, t) == (t.s - h) * 12000 + t.o * 1000 + 500             \* since the start of slot h
DeadlineMs(r) == IF r <= 8 THEN 2000 * r ELSE 16000 + 120000 * (r - 8)   \* end of round r
RoundAt(h, t) == CHOOSE r \in 1..40 : DeadlineMs(r - 1) <= ElapsedMs(h, t) /\ ElapsedMs(h, t) < DeadlineMs(r)

LeaderD(h, r) == Leader(h, r)

SlotWindowOK(m, t) == m.h <= t.s /\ (TTL(m.role) >= 0 => t.s <= m.h + TTL(m.role))

LimitBreak(m, H) ==
    LET P == {e \in H : e.m.st = "cons" /\ e.m.role = m.role /\ SignerSet(e.m) \cap SignerSet(m) # {}} IN
    CASE \E e \in P : e.m.h > m.h -> "slot-regression"
      [] \E e \in P : e.m.h = m.h /\ e.m.r > m.r -> "round-regression"
      [] Len(m.sg) = 1 /\ (\E e \in P : Len(e.m.sg) = 1 /\ e.m.h = m.h /\ e.m.r = m.r /\ e.m.mt = m.mt) ->
            (CASE m.mt = 0 -> (IF \E e \in P : Len(e.m.sg) = 1 /\ e.m.h = m.h /\ e.m.r = m.r /\ e.m.mt = 0 /\ e.m.fd # m.fd
                               THEN "second-proposal" ELSE "too-many-proposals")
               [] m.mt = 1 -> "too-many-prepares" [] m.mt = 2 -> "too-many-commits" [] OTHER -> "too-many-round-changes")
      [] OTHER -> "none"

GossipBreak(m, t, H) ==
    CASE m.raw # "msg" \/ m.body # "ok" \/ m.st \notin {"cons", "psig"} -> "not-a-consensus-or-partial-signature-message"
      [] m.val \in {"unknown", "badpk"} -> "unknown-validator"
      [] m.val = "liquidated" -> "liquidated"
      [] m.val # "active" -> "inactive-validator"
      [] m.topic # "ok" -> "wrong-topic"
      [] Signed(t) /\ m.env \notin {"good", "good5"} -> "bad-signature"
      [] Len(m.sg) = 0 -> "no-signer"
      [] \E k \in 1..Len(m.sg) : m.sg[k] = 0 -> "zero-signer"
      [] \E k \in 1..Len(m.sg) : m.sg[k] \notin Members -> "non-member"
      [] \E j, k \in 1..Len(m.sg) : j < k /\ m.sg[j] = m.sg[k] -> "duplicate-signer"
      [] \E j, k \in 1..Len(m.sg) : j < k /\ m.sg[j] > m.sg[k] -> "unsorted-signers"
      [] Len(m.sg) > 1 /\ ~(m.st = "cons" /\ m.mt = 2) -> "multi-signer-non-commit"
      [] Len(m.sg) > 1 /\ Len(m.sg) < Quorum -> "decided-subquorum"
      [] m.st = "cons" /\ m.mt = 0 /\ (m.r < 1 \/ m.sg[1] # LeaderD(m.h, m.r)) -> "non-leader-proposal"
      [] m.st = "cons" /\ HasFullData(m) /\ m.fd # m.root -> "root-mismatch"
      [] m.st = "psig" /\ ~SlotWindowOK(m, t) -> "partial-sig-outside-slot-window"
      [] m.st = "cons" /\ m.h >= H62 -> "slot-time-overflow"
      [] m.st = "cons" /\ m.h > t.s -> "early-slot"
      [] m.st = "cons" /\ ~SlotWindowOK(m, t) -> "late-slot"
      [] m.st = "cons" /\ (m.r < 1 \/ m.r > MaxRound(m.role)) -> "round-too-high"
      [] m.st = "cons" /\ m.r > RoundAt(m.h, t) + 1 -> "round-too-far"
      [] m.st = "cons" -> LimitBreak(m, H)
      [] OTHER -> "none"
GossipOK(m, t, H) == GossipBreak(m, t, H) = "none"

----------------------------------------------------------------------------
T0 == CHOOSE t \in Times : \A u \in Times : TLeq(t, u)
RolesUsed == {m.role : m \in Alphabet} \cap (0..6)

Init == /\ sig = [r \in RolesUsed |-> [i \in Members |-> NoSS]]
        /\ hist = {}
        /\ now = T0
        /\ done = FALSE
        /\ act = [name |-> "init"]

(* Apply is shared with the trace spec: the verdict is the spec's, `accepted` says whether the state moves *)
Apply(m, t, accepted) ==
    /\ now' = t
    /\ IF accepted /\ ValidRole(m.role) /\ m.st \in {"cons", "psig"}
       THEN /\ sig' = [sig EXCEPT ![m.role] = Update(@, m)]
            /\ hist' = hist \cup {[m |-> m, t |-> t]}
       ELSE UNCHANGED <<sig, hist>>

(* Bounded exploration: MaxAccepts accepted messages move the state; one further accept is still evaluated (and
   checked by AcceptSound) as a terminal probe edge. *)
Validate(m, t) ==
    /\ ~done
    /\ TLeq(now, t)
    /\ LET vd == VerdictC(m, t, t.s, sig)
           room == Cardinality(hist) < MaxAccepts
       IN /\ Apply(m, t, vd.v = "accept" /\ room)
          /\ done' = (vd.v = "accept" /\ ~room)
          /\ act' = [name |-> "Validate", m |-> m, t |-> t, v |-> vd.v, rule |-> vd.rule,
                     g |-> IF vd.v = "accept" THEN GossipBreak(m, t, hist) ELSE "-",
                     rb |-> t.o <= 10 \/ VerdictC(m, t, t.s + 1, sig) = vd]

Next == \E t \in Times, m \in Alphabet : Validate(m, t)
Spec == Init /\ [][Next]_vars

----------------------------------------------------------------------------
(* properties *)
Total == [][act'.v \in {"accept", "ignore", "reject"}]_vars
AcceptSound == [][act'.v = "accept" => act'.g \in ({"none"} \cup KnownGaps)]_vars
(* a time point in the last second of a slot (o = 11) is only used with messages whose verdict does not depend on
   whether the code's truncated clock already shows the next slot *)
ClockRobust == [][act'.rb]_vars
(* the operational state is a function of the history: what the property's limits talk about is what the code tracks *)
StateSound ==
    \A r \in RolesUsed, i \in Members :
        LET P == {e \in hist : e.m.role = r /\ i \in SignerSet(e.m)} IN
        /\ sig[r][i].has = (P # {})
        /\ sig[r][i].has => \A e \in P : e.m.h <= sig[r][i].slot
        /\ sig[r][i].has => \A e \in P : (e.m.st = "cons" /\ e.m.h = sig[r][i].slot) => e.m.r <= sig[r][i].round
=============================================================================
