SPECIFICATION Spec
CONSTANTS
  Role = "att"
  SPE = 6
  EPP = 2
  MaxEpoch = 1
  Validators = {1}
  Actives = {{1}}
  StartSlots = {0}
  Lags = {0}
  MaxReorgs = 1
  MaxIdx = 1
  MaxFails = 1
  InitDuties = FALSE
  Weaken = "none"
INVARIANT TypeOK
INVARIANT AtMostOnce
INVARIANT AtItsSlot
INVARIANT OnlyIfAssigned
INVARIANT InWindow
INVARIANT ExactlyOnceWhenValid
INVARIANT NoStaleInStore
VIEW view
