--------------------------- MODULE SlashingTrace ---------------------------
(* Trace validation of executions recorded from the real key manager (harness/cmd/slashing -mode record)
   against Slashing.  One event per public call, logged at its return: name, arguments, the fault plan that
   FIRED (none otherwise; a persistent write fault "failall" is logged once, with the call that started it and the
   number n of calls it lasts - the calls under its remainder are logged without a plan and the spec's `broken`
   decides that their writes fail), the outcome, and the projection of the database after the call.  Executions are
   concatenated with "Reset" events.  The recorded requests respect the environment assumption (targets and
   slots not beyond the clock), otherwise no action matches and the trace is rejected. *)
EXTENDS Slashing, Json, Sequences
VARIABLE l
Trace == ndJsonDeserialize("trace.ndjson")
tvars == <<vars, l>>

IsEv(e) == l <= Len(Trace) /\ Trace[l].event = e /\ l' = l + 1
Ev == Trace[l]
Plan(p) == [k |-> p.k, at |-> p.at, n |-> p.n]

(* what the harness can see of the storage: the two records, the number of account records, whether the
   persisted wallet maps the key, and whether it maps it to an existing account record *)
Proj(s0) == [att |-> IF s0.att.f THEN s0.att ELSE NoAtt, prop |-> IF s0.prop.f THEN s0.prop ELSE NoProp,
             naccs |-> Cardinality(s0.accs), dbidx |-> s0.db # 0, dbok |-> s0.db \in s0.accs]
PostOK == /\ Proj(st') = [att |-> [f |-> Ev.post.att.f, s |-> Ev.post.att.s, t |-> Ev.post.att.t],
                          prop |-> [f |-> Ev.post.prop.f, v |-> Ev.post.prop.v],
                          naccs |-> Ev.post.naccs, dbidx |-> Ev.post.dbidx, dbok |-> Ev.post.dbok]
          /\ act'.res = Ev.res

TInit == Init /\ l = 1
TReset == /\ IsEv("Reset")
          /\ clock' = SPE
          /\ st' = [att |-> NoAtt, prop |-> NoProp, accs |-> {}, db |-> 0, mem |-> 0, gen |-> 1]
          /\ signedAtt' = {} /\ signedBlk' = {} /\ pend' = {} /\ nfaults' = 0 /\ broken' = NoBroken /\ act' = [name |-> "init"]
TTick    == IsEv("Tick") /\ Tick /\ clock' = Ev.clock
TRestart == IsEv("Restart") /\ Restart
TAdd     == IsEv("AddShare") /\ AddShare(Plan(Ev.fault)) /\ PostOK
TRemove  == IsEv("RemoveShare") /\ RemoveShare(Plan(Ev.fault)) /\ PostOK
TReact   == IsEv("Reactivate") /\ Reactivate(Plan(Ev.fault)) /\ PostOK
TSignAtt == /\ IsEv("SignAtt")
            /\ Ev.s >= 0 /\ Ev.s < Ev.t /\ Ev.t <= Ep(clock)
            /\ SignAtt(Ev.s, Ev.t, Ev.d, Plan(Ev.fault)) /\ PostOK
TSignBlk == /\ IsEv("SignBlk")
            /\ Ev.slot >= 1 /\ Ev.slot <= clock
            /\ SignBlk(Ev.slot, Ev.d, Plan(Ev.fault)) /\ PostOK
TNext == TReset \/ TTick \/ TRestart \/ TAdd \/ TRemove \/ TReact \/ TSignAtt \/ TSignBlk
TraceSpec == TInit /\ [][TNext]_tvars
TraceAccepted == TLCGet("stats").diameter - 1 = Len(Trace)
=============================================================================
