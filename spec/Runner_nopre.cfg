SPECIFICATION Spec
CONSTANTS
  HasPre = FALSE
  MaxSlot = 3
  MaxSig = 4
  Weaken <- NoWeaken
INVARIANT TypeOK
INVARIANT SigWindow
VIEW view
