SPECIFICATION Spec
CONSTANTS
  N = 4
  Alphabet <- AlphaConsTiny
  Times <- TimesOne
  MaxAccepts = 1
  ForkEpoch <- ForkNever
  PartialWindow = FALSE
  Weaken = "none"
  KnownGaps = {"partial-sig-outside-slot-window"}
PROPERTY Total
PROPERTY AcceptSound
INVARIANT StateSound
