----------------------------- MODULE QBFTCont -----------------------------
(* C07 (1): "from every state reachable with <= f silent or Byzantine members there is a continuation with timely
   delivery among the correct operators in which all of them decide within f+3 further rounds".

   Two-phase specification: phase "async" is the bounded asynchronous spec (QBFT!Next); at any state `Switch`
   moves to phase "cont", a DETERMINISTIC timely continuation among the correct operators built from the same
   step operators (DoProposal, DoPrepare, DoCommit, DoRC) - the existential of the property is discharged by this
   witness strategy, and "no wedge" becomes a plain state invariant (CanDecide):
     (i)   operators that were never started are started;
     (ii)  deliverable proposals, prepares and commits first;
     (iii) all timers of a round fire together: lagging undecided operators time out before round-changes are
           delivered;
     (iv)  round-changes reach an operator unprepared first, highest prepared last (the leader proposes a
           prepared value only if the quorum-completing round-change carries it);
     (v)   a decided certificate is delivered once a commit quorum exists;
     (vi)  otherwise the lowest undecided operator times out.
   The Byzantine members are silent during the continuation (worst case for liveness).                      *)
EXTENDS QBFT
VARIABLES phase, r0
allvars == <<st, sent, byzUsed, act, phase, r0>>
view2 == <<st, sent, byzUsed, phase, r0>>

ContRounds == MaxRound + F + 4
MaxOf(S) == CHOOSE x \in S : \A y \in S : y <= x
MinOf(S) == CHOOSE x \in S : \A y \in S : x <= y
CurMax == MaxOf({st[i].round : i \in Honest})
AllDecided == \A i \in Honest : st[i].decided
ConflictingLocks == \E i, j \in Honest : st[i].lpr # 0 /\ st[j].lpr # 0 /\ st[i].lpv # st[j].lpv

CanRecv(i, m) ==
    LET n == st[i] IN
    /\ n.started
    /\ CASE m.type = "proposal" ->
               /\ Justified(m.rcj, m.pj, m.pjpr, m.pjpv, m.round, m.value)
               /\ m.round >= n.round /\ m.signer = Leader(m.round)
               /\ ((n.acc = NoProp /\ m.round = n.round) \/ m.round > n.round)
         [] m.type = "prepare" -> n.acc # NoProp /\ m.round = n.round /\ m.value = n.acc.value /\ ~Has(n.prep, m.signer, m.round)
         [] m.type = "commit"  -> n.acc # NoProp /\ m.round = n.round /\ m.value = n.acc.value /\ ~Has(n.comm, m.signer, m.round)
                                  /\ ~n.decided
         [] m.type = "rc"      -> m.round >= n.round /\ ValidRC(m) /\ ~Has(n.rc, m.signer, m.round) /\ ~n.decided

TypeRank(m) == CASE m.type = "proposal" -> 0 [] m.type = "prepare" -> 1 [] m.type = "commit" -> 2 [] m.type = "rc" -> 3
Key(c) == <<TypeRank(c.m), IF c.m.type = "rc" THEN c.m.pr ELSE 0, c.to, c.m.signer, c.m.round>>
LexLE(a, b) ==
    \/ a[1] < b[1]
    \/ a[1] = b[1] /\ (\/ a[2] < b[2]
                       \/ a[2] = b[2] /\ (\/ a[3] < b[3]
                                          \/ a[3] = b[3] /\ (\/ a[4] < b[4]
                                                             \/ a[4] = b[4] /\ a[5] <= b[5])))
Cands == {c \in [to : Honest, m : sent] : CanRecv(c.to, c.m)}
NonRC == {c \in Cands : c.m.type # "rc"}
Lagging == {j \in Honest : st[j].started /\ ~st[j].decided /\ st[j].round < CurMax}
TimeoutFirst == NonRC = {} /\ Lagging # {}
Unstarted == {j \in Honest : ~st[j].started /\ ~st[j].decided}

DecidedCert(i) == \E r \in 1..ContRounds, v \in Values :
                     ~st[i].decided /\ Card({s \in Honest : CommSent(s, r, v)}) >= Q

ContStart ==
    /\ Unstarted # {}
    /\ LET i == MinOf(Unstarted)  n == st[i] IN
       /\ Apply(i, [n EXCEPT !.started = TRUE],
                IF Leader(1) = i
                THEN {[type |-> "proposal", signer |-> i, round |-> 1, value |-> StartValue[i],
                       rcj |-> {}, pj |-> {}, pjpr |-> 0, pjpv |-> None]}
                ELSE {})
       /\ act' = [name |-> "Start", to |-> i, value |-> StartValue[i]]
    /\ NoByz

ContDeliver ==
    /\ Unstarted = {}
    /\ Cands # {} /\ ~TimeoutFirst
    /\ LET c == CHOOSE a \in Cands : \A b \in Cands : LexLE(Key(a), Key(b))
           i == c.to  m == c.m
       IN /\ CASE m.type = "proposal" -> DoProposal(i, m.signer, m.round, m.value)
               [] m.type = "prepare"  -> DoPrepare(i, m.signer, m.round, m.value)
               [] m.type = "commit"   -> DoCommit(i, m.signer, m.round, m.value)
               [] m.type = "rc"       -> DoRC(i, m)
          /\ act' = [name |-> "ContDeliver", to |-> i, type |-> m.type, from |-> m.signer, round |-> m.round,
                     value |-> IF m.type = "rc" THEN None ELSE m.value,
                     pr |-> IF m.type = "rc" THEN m.pr ELSE 0, pv |-> IF m.type = "rc" THEN m.pv ELSE None]
    /\ NoByz

ContDecided ==
    /\ Unstarted = {}
    /\ Cands = {}
    /\ \E i \in Honest : DecidedCert(i)
    /\ LET i == MinOf({j \in Honest : DecidedCert(j)})
           rv == CHOOSE p \in (1..ContRounds) \X Values : Card({s \in Honest : CommSent(s, p[1], p[2])}) >= Q
           S  == {s \in Honest : CommSent(s, rv[1], rv[2])}
       IN /\ Apply(i, [st[i] EXCEPT !.decided = TRUE, !.dval = rv[2], !.round = rv[1], !.dround = rv[1], !.cround = rv[1], !.cval = rv[2], !.dsigners = S,
                                    !.comm = @ \cup {[signer |-> s, round |-> rv[1], value |-> rv[2]] : s \in S}], {})
          /\ act' = [name |-> "ContDecided", to |-> i, round |-> rv[1], value |-> rv[2], signers |-> S]
    /\ NoByz

ContTimeout ==
    /\ Unstarted = {}
    /\ (Cands = {} \/ TimeoutFirst)
    /\ ~ \E i \in Honest : DecidedCert(i)
    /\ ~AllDecided
    /\ LET und == {j \in Honest : ~st[j].decided}
           rmin == MinOf({st[j].round : j \in und})
           i == MinOf({j \in und : st[j].round = rmin})
           n == st[i]
       IN /\ n.round < ContRounds
          /\ Apply(i, [n EXCEPT !.round = @ + 1, !.acc = NoProp], {RCMsg(n, i, n.round + 1)})
          /\ act' = [name |-> "ContTimeout", to |-> i, round |-> n.round]
    /\ NoByz

(* Switch only in the states selected by SwitchWhen (a constant predicate name): "any" or "quiescent" *)
CONSTANT SwitchWhen
Quiescent == \A i \in Honest : st[i].started /\ \A m \in sent : ~CanRecv(i, m)
Switch == /\ phase = "async"
          /\ (SwitchWhen = "quiescent") => Quiescent
          /\ phase' = "cont" /\ r0' = CurMax
          /\ UNCHANGED <<st, sent, byzUsed>> /\ act' = [name |-> "Switch"]

Init2 == Init /\ phase = "async" /\ r0 = 0
Next2 == \/ (phase = "async" /\ Next /\ UNCHANGED <<phase, r0>>)
         \/ Switch
         \/ (phase = "cont" /\ (ContStart \/ ContDeliver \/ ContDecided \/ ContTimeout) /\ UNCHANGED <<phase, r0>>)
Spec2 == Init2 /\ [][Next2]_allvars

(* from every async-reachable state the witness continuation decides within F+3 further rounds, except in the
   known wedge (conflicting prepared values among the correct operators, see DESIGN.md section 6) *)
CanDecide == phase = "cont" => (AllDecided \/ CurMax <= r0 + F + 3 \/ ConflictingLocks)
CanDecideStrict == phase = "cont" => (AllDecided \/ CurMax <= r0 + F + 3)
(* the continuation never gets stuck before everybody decided *)
ContProgress == (phase = "cont" /\ ~AllDecided /\ CurMax < ContRounds) => ENABLED (ContStart \/ ContDeliver \/ ContDecided \/ ContTimeout)

(* ---- C07 (2): fault-free synchronous run: no timeout while a message is deliverable, no Byzantine action ---- *)
(* macro grain of the synchronous case: in-order timely delivery - an operator receives the prepares (commits) of
   ALL correct operators back-to-back once they have all been sent *)
SyncPrepare(i) ==
    LET n == st[i] IN
    /\ n.started /\ n.acc # NoProp /\ Card(Signers(AtRound(n.prep, n.round))) < PQuorum
    /\ AvailPrep(i) = Honest
    /\ Apply(i, [n EXCEPT !.prep = {[signer |-> s, round |-> n.round, value |-> n.acc.value] : s \in Honest},
                         !.lpr = n.round, !.lpv = n.acc.value],
             {[type |-> "commit", signer |-> i, round |-> n.round, value |-> n.acc.value]})
    /\ NoByz
    /\ act' = [name |-> "PrepareQuorum", to |-> i, signers |-> Honest, round |-> n.round, value |-> n.acc.value]
SyncCommit(i) ==
    LET n == st[i] IN
    /\ n.started /\ n.acc # NoProp /\ ~n.decided
    /\ AvailComm(i) = Honest
    /\ Apply(i, [n EXCEPT !.comm = {[signer |-> s, round |-> n.round, value |-> n.acc.value] : s \in Honest},
                         !.decided = TRUE, !.dval = n.acc.value, !.dround = n.round, !.cround = n.round, !.cval = n.acc.value, !.dsigners = Honest,
                         !.dlocal = TRUE, !.dfrom = n.acc.from], {})
    /\ NoByz
    /\ act' = [name |-> "CommitQuorum", to |-> i, signers |-> Honest, round |-> n.round, value |-> n.acc.value]
SyncNext == /\ \E i \in Honest :
                  \/ Start(i) \/ RecvProposal(i) \/ RecvRC(i)
                  \/ (Macro /\ (SyncPrepare(i) \/ SyncCommit(i)))
                  \/ (~Macro /\ (RecvPrepare(i) \/ RecvCommit(i)))
            /\ UNCHANGED <<phase, r0>>
SyncSpec == Init2 /\ [][SyncNext]_allvars /\ WF_allvars(SyncNext)
FirstRoundDecision == <>(\A i \in Honest : st[i].decided /\ st[i].round = 1 /\ st[i].dval = StartValue[Leader(1)])
=============================================================================
