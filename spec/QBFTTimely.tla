----------------------------- MODULE QBFTTimely -----------------------------
(* C10: executions of QBFT.tla that respect the protocol's timing assumptions, composed with the part of the
   gossip gate (message/validation) that can REJECT a consensus message of a correct operator.

   Timely class.  A global round clock `gr`.  All correct operators start at the slot start.  Within round gr
   every message sent is delivered to every correct operator that can take it, in any order, before the round's
   deadline (EndRound is enabled only when nothing is deliverable).  At the deadline the timers of all undecided
   operators that are still in a round <= gr become due; they fire in any order, interleaved with deliveries of the
   round-changes already emitted (the "deadline window": an operator may see others' round-changes before its own
   timer fires, but nobody lags by a full round: the next deadline waits for every due timer).  Up to f members are
   silent (crashed) from the start; there is no Byzantine action.

   Gate.  Of all rules of validateConsensusMessage only these are in the `reject` class and can concern a
   well-formed, correctly signed message of a committee member:
     - "signer is not leader": a proposal's signer must be the round-robin leader of the round STAMPED on it;
     - "duplicated proposal with different data": per signer, slot and round the first attached full data (proposal
       value, prepared value of a round-change, value of a decided message the signer is part of) is remembered, a
       later different one is rejected;
     - "invalid justifications": IsProposalJustification on the proposal's own justification.
   (round / slot windows, message-count limits and "already advanced" are in the `ignore` class.)
   NoHonestReject says no order of arrival makes a correct peer's gate reject a message in `sent`.             *)
EXTENDS QBFT
CONSTANT Lossy,   \* TRUE: a message may miss its round at some recipients (late or lost); every message is still
                  \* seen by the gates inside its window.  FALSE: the strict timely class of the property.
         LateRounds \* rounds whose leader is LATE: its proposal reaches nobody before the round's deadline (the gates
                  \* still see it inside its window).  {} in the strict class.  With LateRounds = 1..k-1 every execution
                  \* climbs to round k: rounds up to the role's maximum are reached (replay class "high rounds").
VARIABLES gr, due
tvars == <<st, sent, byzUsed, act, gr, due>>
tview == <<st, sent, byzUsed, gr, due>>

CanTake(i, m) ==
    LET n == st[i] IN
    /\ n.started
    /\ CASE m.type = "proposal" ->
               /\ m.round \notin LateRounds
               /\ Justified(m.rcj, m.pj, m.pjpr, m.pjpv, m.round, m.value)
               /\ m.round >= n.round /\ m.signer = Leader(m.round)
               /\ ((n.acc = NoProp /\ m.round = n.round) \/ m.round > n.round)
         [] m.type = "prepare" -> n.acc # NoProp /\ m.round = n.round /\ m.value = n.acc.value /\ ~Has(n.prep, m.signer, m.round)
         [] m.type = "commit"  -> n.acc # NoProp /\ m.round = n.round /\ m.value = n.acc.value /\ ~Has(n.comm, m.signer, m.round)
         [] m.type = "rc"      -> m.round >= n.round /\ ValidRC(m) /\ ~Has(n.rc, m.signer, m.round)
Pending == \E i \in Honest, m \in sent : CanTake(i, m)
AllStarted == \A i \in Honest : st[i].started

TInit == Init /\ gr = 1 /\ due = {}

TStart(i) == Start(i) /\ UNCHANGED <<gr, due>>
TDeliver(i) ==
    /\ AllStarted
    /\ \/ RecvProposal(i) \/ RecvRC(i)
       \/ (Macro /\ (PrepareQuorumStep(i) \/ CommitQuorumStep(i)))
       \/ (~Macro /\ (RecvPrepare(i) \/ RecvCommit(i)))
       \/ RecvDecided(i)
       \* a faulty member inside the timing assumptions (ByzBudget > 0): selective, equivocating, but timely
       \/ RecvByzProposal(i) \/ RecvByzRC(i)
    /\ (act'.name = "RecvProposal") => (act'.round \notin LateRounds)
    /\ UNCHANGED <<gr, due>>
(* the deadline of round gr passes *)
EndRound ==
    /\ AllStarted /\ (Lossy \/ ~Pending) /\ due = {}
    /\ gr < MaxRound
    /\ \E i \in Honest : ~st[i].decided
    /\ gr' = gr + 1
    /\ due' = {i \in Honest : ~st[i].decided /\ st[i].round <= gr}
    /\ UNCHANGED <<st, sent, byzUsed>>
    /\ act' = [name |-> "EndRound", round |-> gr]
TTimeout(i) ==
    /\ i \in due
    /\ IF st[i].decided \/ st[i].round >= gr       \* pulled forward or decided meanwhile: the stale timer is a no-op
       THEN UNCHANGED <<st, sent, byzUsed>> /\ act' = [name |-> "StaleTimer", to |-> i]
       ELSE Timeout(i)
    /\ due' = due \ {i}
    /\ gr' = gr

TNext == \/ \E i \in Honest : TStart(i) \/ TDeliver(i) \/ TTimeout(i)
         \/ EndRound
TSpec == TInit /\ [][TNext]_tvars

(* ---- the gate's reject-class rules, as conditions on what correct operators emit ---- *)
FullDataOf(m) == CASE m.type = "proposal" -> m.value
                   [] m.type = "rc" -> (IF m.pr # 0 THEN m.pv ELSE None)
                   [] OTHER -> None
LeaderStamped == \A m \in sent : m.type = "proposal" => m.signer = Leader(m.round)
(* per signer and round all attached full data agree (any arrival order at a peer) *)
OneDataPerSignerRound ==
    \A m1, m2 \in sent : (m1.signer = m2.signer /\ m1.round = m2.round /\ FullDataOf(m1) # None /\ FullDataOf(m2) # None)
                            => FullDataOf(m1) = FullDataOf(m2)
(* a decided message is validated against the state of EVERY signer in it: a member that attached other full
   data in the certificate's round makes the whole certificate a "duplicated proposal with different data" *)
DecidedDataConsistent ==
    \A r \in Rounds, v \in Values :
        LET S == {s \in Honest : CommSent(s, r, v)} IN
        Card(S) >= Q => \A m \in sent : (m.signer \in S /\ m.round = r /\ FullDataOf(m) # None) => FullDataOf(m) = v
JustifiedAsSent == \A m \in sent : m.type = "proposal" => Justified(m.rcj, m.pj, m.pjpr, m.pjpv, m.round, m.value)
(* the ignore-class window of the gate, for the evidence: nobody is more than one round ahead of the clock *)
RoundWindow == \A m \in sent : m.round <= gr + 1
NoHonestReject == LeaderStamped /\ OneDataPerSignerRound /\ DecidedDataConsistent /\ JustifiedAsSent
=============================================================================
