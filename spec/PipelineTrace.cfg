SPECIFICATION TraceSpec
CONSTANTS
  Roles = {"att", "prop"}
  PreRoles = {"prop"}
  NoQueueRoles = {"x"}
  Alphabet = {}
  MaxH = 2
  MaxR = 30
  Cap = 2
  MaxPush = 64
  MaxFire = 1000000
  MaxStop = 0
  MaxExt = 0
  Q = 3
  SeqHarness = FALSE
  FineRead = TRUE
  FastPop = TRUE
  ExternalStart = FALSE
  AdvTimer = TRUE
  PrioDecided = "gt"
INVARIANT P1_RoleIsolation
INVARIANT P2_FilterAtHandler
INVARIANT P2_FilterAtPop
INVARIANT P3_Conservation
INVARIANT P7_SnapshotFresh
POSTCONDITION TraceAccepted
