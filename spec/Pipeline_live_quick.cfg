SPECIFICATION FairSpec
CONSTANTS
  Roles <- MCRolesAtt
  PreRoles <- MCPre
  NoQueueRoles <- MCNoQ
  Alphabet <- AlphaAtt1
  MaxH = 2
  MaxR = 2
  Cap = 2
  MaxPush = 3
  MaxFire = 1
  MaxStop = 0
  MaxExt = 1
  Q = 3
  SeqHarness = FALSE
  FineRead = FALSE
  FastPop = TRUE
  ExternalStart = FALSE
  AdvTimer = TRUE
  PrioDecided = "gt"
PROPERTY P3_Live
