SPECIFICATION Spec
CONSTANTS
  Owners <- MCOwners
  Validators <- MCValidators
  OpIds <- MCOpIds
  Alphabet <- AlphaSmall
  Setups <- SetupsCover
  MaxEvents = 2
  MaxBlocks = 2
  MaxFaults = 1
  Grain = "event"
  Weaken = "none"
  Stale = FALSE
  ReadFaults = FALSE
INVARIANT DbMatchesRules
INVARIANT KeysMatchRules
INVARIANT MemMatchesDb
INVARIANT LastBlockRight
INVARIANT OwnStable
INVARIANT ExitOnlyByOwner
INVARIANT TypeOK
