SPECIFICATION Spec
CONSTANTS
  Classes <- ClassesSmall
  MaxMsgs = 3
  Cap = 2
  Algo = "code"
  SeqHarness = TRUE
  Blocking = TRUE
PROPERTY Responsive
