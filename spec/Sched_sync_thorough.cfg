SPECIFICATION Spec
CONSTANTS
  Role = "sync"
  SPE = 4
  EPP = 3
  MaxEpoch = 4
  Validators = {1, 2}
  Actives = {{1}, {1, 2}}
  StartSlots = {0, 5}
  Lags <- LagsNear
  MaxReorgs = 2
  MaxIdx = 2
  MaxFails = 2
  InitDuties = FALSE
  Weaken = "none"
INVARIANT TypeOK
INVARIANT AtMostOnce
INVARIANT AtItsSlot
INVARIANT OnlyIfAssigned
INVARIANT InWindow
INVARIANT ExactlyOnceWhenValid
INVARIANT NoStaleInStore
VIEW view
