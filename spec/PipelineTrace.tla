--------------------------- MODULE PipelineTrace ---------------------------
(* Trace validation of executions recorded from the real validator with its consumer goroutines running freely and the
   real round timer firing on its own goroutine (harness/cmd/pipeline -mode record) against Pipeline.

   Recorded under ONE mutex by the wrapper the driver puts around the validator's queues:
     Start                                  before Validator.Start is called
     Push      {ro, id, c, res}             inside every TryPush (HandleMessage, the ExecuteDuty statement, onTimeout called by
                                            the real timer); res = ok | drop | noq (HandleMessage found no queue)
     PopEnter  {ro, snap, rn, done, ok}     the consumer goroutine calls Pop: snap = the queue.State and filter ConsumeQueue
                                            just built (probed), rn = the runner's state read by that goroutine, done / ok =
                                            the message whose handler call just returned and whether it returned an error
     PopReturn {ro, id}                     the real Pop returned message id
   What happens INSIDE the real Pop (read the inbox or not, the wait loop taking one message at a time) and the moment the
   handler's effect takes place are not observable: they are steps of the specification that consume no line
   (HPop, HWait, HProc).  Acceptance: the high-water mark of the consumed line index reaches the end of the file. *)
EXTENDS Pipeline, Json
VARIABLES l,      \* next line
          ret,    \* [Roles -> BOOLEAN]: the PopReturn line of the held message was consumed (its handler may run)
          lok     \* [Roles -> [id, ok]]: the last handler call
Trace == ndJsonDeserialize("trace.ndjson")
tvars == <<vars, l, ret, lok>>

Ret0 == [ro \in Roles |-> FALSE]
Lok0 == [ro \in Roles |-> [id |-> 0, ok |-> TRUE]]
IsEv(e) == l <= Len(Trace) /\ Trace[l].event = e /\ l' = l + 1
Mark == TLCSet(1, IF l' > TLCGet(1) THEN l' ELSE TLCGet(1))
SeqSet(s) == {s[k] : k \in 1..Len(s)}
RnMatches(x, t) ==
    /\ x.duty = t.duty /\ x.fin = t.fin /\ x.preSg = SeqSet(t.preSg) /\ x.postSg = SeqSet(t.postSg)
    /\ x.dval = t.dval /\ x.runH = t.runH /\ x.ch = t.ch
    /\ \A h \in Heights : x.st[h] = t.st[h]

TInit == Init /\ l = 1 /\ ret = Ret0 /\ lok = Lok0 /\ TLCSet(1, 1)

TReset == /\ IsEv("Reset")
          /\ inbox' = [ro \in Roles |-> <<>>] /\ list' = [ro \in Roles |-> <<>>]
          /\ pc' = [ro \in Roles |-> "off"] /\ snap' = [ro \in Roles |-> Snap0] /\ cur' = [ro \in Roles |-> NilM]
          /\ rn' = [ro \in Roles |-> Rn0] /\ started' = FALSE /\ stopped' = FALSE
          /\ nextId' = 1 /\ fate' = [i \in Ids |-> "none"] /\ nFire' = 0 /\ nStop' = 0 /\ nExt' = 0
          /\ act' = [name |-> "init"]
          /\ ret' = Ret0 /\ lok' = Lok0 /\ Mark

TStart == IsEv("Start") /\ Start /\ UNCHANGED <<ret, lok>> /\ Mark

TPush == /\ IsEv("Push")
         /\ LET t == Trace[l] IN
            /\ IF t.c.k = "timeout" THEN TimerFire(t.c.ro, t.c.r) ELSE Handle(t.c)
            /\ act'.id = t.id /\ act'.res = t.res /\ act'.c = t.c
         /\ UNCHANGED <<ret, lok>> /\ Mark

TPopEnter == /\ IsEv("PopEnter")
             /\ LET t == Trace[l] IN
                /\ ConsumerSnapshot(t.ro)
                /\ act'.snap = t.snap
                /\ RnMatches(rn[t.ro], t.rn)
                /\ lok[t.ro].id = t.done
                /\ t.done # 0 => lok[t.ro].ok = t.ok
             /\ UNCHANGED <<ret, lok>> /\ Mark

TPopReturn == /\ IsEv("PopReturn")
              /\ LET t == Trace[l] IN
                 /\ pc[t.ro] = "proc" /\ ~ret[t.ro] /\ cur[t.ro].id = t.id
                 /\ ret' = [ret EXCEPT ![t.ro] = TRUE]
              /\ UNCHANGED <<vars, lok>> /\ Mark

(* steps the recording cannot see *)
HPop(ro) == (\E rd \in BOOLEAN : ConsumerPop(ro, rd)) /\ UNCHANGED <<l, ret, lok>>
HWait(ro) == (ConsumerWaitRecv(ro) \/ ConsumerReadOne(ro)) /\ UNCHANGED <<l, ret, lok>>
HProc(ro) == /\ ret[ro] /\ ConsumerProcess(ro)
             /\ ret' = [ret EXCEPT ![ro] = FALSE]
             /\ lok' = [lok EXCEPT ![ro] = [id |-> cur[ro].id, ok |-> act'.ok]]
             /\ UNCHANGED l

TNext == TReset \/ TStart \/ TPush \/ TPopEnter \/ TPopReturn \/ \E ro \in Roles : HPop(ro) \/ HWait(ro) \/ HProc(ro)
TraceSpec == TInit /\ [][TNext]_tvars
TraceAccepted == /\ PrintT(<<"HWM", TLCGet(1), Len(Trace)>>)
                 /\ TLCGet(1) = Len(Trace) + 1
=============================================================================
