SPECIFICATION Spec
CONSTANTS
  Roles <- MCRolesProp
  PreRoles <- MCPre
  NoQueueRoles <- MCNoQ
  Alphabet <- AlphaObsStale
  MaxH = 2
  MaxR = 2
  Cap = 2
  MaxPush = 6
  MaxFire = 1
  MaxStop = 0
  MaxExt = 1
  Q = 3
  SeqHarness = TRUE
  FineRead = FALSE
  FastPop = FALSE
  ExternalStart = FALSE
  AdvTimer = FALSE
  PrioDecided = "gt"
PROPERTY P6_StaleTimeoutNoop
ACTION_CONSTRAINT ScriptOK_Stale
