------------------------------ MODULE SlashInd ------------------------------
(* Apalache form of the inductive argument behind C04, for UNBOUNDED integer slots and epochs.

   The transition relation over-approximates Slashing.tla: every single database write of the key manager is
   one transition here (so a crash between any two writes of AddShare / RemoveShare / BumpSlashingProtection /
   Sign is covered by construction), the account machinery is dropped (signing is always possible), the bump
   writes its minimal record unconditionally (covers "record kept" - a stutter - as well as the read-miss
   fault), a signature may or may not be released after the record update (crash between update and release).
   Every step of Slashing (Weaken = "none", faults crash / crashafter / fail / failall / rerr / rmiss) projects onto a
   finite sequence of these transitions, therefore IndInv inductive here => NoSlashable invariant there.
   A write that fails - once ("fail") or persistently, for several calls ("failall", variable `broken` there) - is no
   transition at all: the call that meets it stops at that write and releases nothing, so it projects onto the
   (possibly empty) sequence of the writes it completed before.  The persistent fault therefore needs no state here.
   What it would take to break the argument is a release WITHOUT the record update (the error swallowed): NextS.

     apalache-mc check --init=Init    --inv=IndInv --length=0 SlashInd.tla      (Init => IndInv)
     apalache-mc check --init=IndInit --inv=IndInv --length=1 SlashInd.tla      (IndInv /\ Next => IndInv')
     apalache-mc check --init=IndInit --next=NextW --inv=IndInv --length=1 SlashInd.tla   (must FAIL: `<` for `<=`)
     apalache-mc check --init=IndInit --next=NextB --inv=IndInv --length=1 SlashInd.tla   (must FAIL: bump keeps source)
     apalache-mc check --init=IndInit --next=NextS --inv=IndInv --length=1 SlashInd.tla   (must FAIL: save error swallowed) *)
EXTENDS Integers, FiniteSets, Apalache

SPE == 32

VARIABLES
    \* @type: Int;
    clock,
    \* @type: Bool;
    af,
    \* @type: Int;
    rs,
    \* @type: Int;
    rt,
    \* @type: Bool;
    pf,
    \* @type: Int;
    pv,
    \* @type: Set(<<Int, Int, Int>>);
    signedAtt,
    \* @type: Set(<<Int, Int>>);
    signedBlk

Ep(c) == c \div SPE

Tick == clock' = clock + 1 /\ UNCHANGED <<af, rs, rt, pf, pv, signedAtt, signedBlk>>

(* updateHighestAttestation's write / updateHighestProposal's write (AddShare, reactivation) *)
BumpAttWrite  == af' = TRUE /\ rs' = Ep(clock) - 1 /\ rt' = Ep(clock) /\ UNCHANGED <<clock, pf, pv, signedAtt, signedBlk>>
BumpPropWrite == pf' = TRUE /\ pv' = clock /\ UNCHANGED <<clock, af, rs, rt, signedAtt, signedBlk>>
(* RemoveShare's deletes *)
DelAtt  == af' = FALSE /\ rs' = 0 /\ rt' = 0 /\ UNCHANGED <<clock, pf, pv, signedAtt, signedBlk>>
DelProp == pf' = FALSE /\ pv' = 0 /\ UNCHANGED <<clock, af, rs, rt, signedAtt, signedBlk>>

SignAttW(strict) == \E s \in Int, t \in Int, d \in Int, released \in BOOLEAN :
    /\ 0 <= s /\ s < t /\ t <= Ep(clock)                  \* targets are not beyond the clock
    /\ af                                                  \* missing record => refuse
    /\ IF strict THEN ~(s < rs \/ t <= rt) ELSE ~(s < rs \/ t < rt)
    /\ rs' = (IF rs < s THEN s ELSE rs) /\ rt' = (IF rt < t THEN t ELSE rt)
    /\ signedAtt' = (IF released THEN signedAtt \union {<<s, t, d>>} ELSE signedAtt)
    /\ UNCHANGED <<clock, af, pf, pv, signedBlk>>

SignBlk == \E slot \in Int, d \in Int, released \in BOOLEAN :
    /\ 1 <= slot /\ slot <= clock                          \* slots are not beyond the clock
    /\ pf /\ slot > pv
    /\ pv' = slot
    /\ signedBlk' = (IF released THEN signedBlk \union {<<slot, d>>} ELSE signedBlk)
    /\ UNCHANGED <<clock, af, rs, rt, pf, signedAtt>>

(* seeded-change shape "bumpKeepsSource": an outdated record keeps its source and only the target is raised (safe),
   a share WITHOUT a record gets source 0 (not safe after RemoveShare) *)
BumpAttWriteB ==
    /\ IF af THEN rs < Ep(clock) - 1 /\ rt < Ep(clock) /\ rs' = rs ELSE rs' = 0
    /\ af' = TRUE /\ rt' = Ep(clock) /\ UNCHANGED <<clock, pf, pv, signedAtt, signedBlk>>

(* seeded-change shape "saveErrSwallowed": the write of the record failed, the error got lost, the signature is released *)
SignAttS == \E s \in Int, t \in Int, d \in Int :
    /\ 0 <= s /\ s < t /\ t <= Ep(clock) /\ af /\ ~(s < rs \/ t <= rt)
    /\ signedAtt' = signedAtt \union {<<s, t, d>>}
    /\ UNCHANGED <<clock, af, rs, rt, pf, pv, signedBlk>>
SignBlkS == \E slot \in Int, d \in Int :
    /\ 1 <= slot /\ slot <= clock /\ pf /\ slot > pv
    /\ signedBlk' = signedBlk \union {<<slot, d>>}
    /\ UNCHANGED <<clock, af, rs, rt, pf, pv, signedAtt>>

Next  == Tick \/ BumpAttWrite \/ BumpPropWrite \/ DelAtt \/ DelProp \/ SignAttW(TRUE) \/ SignBlk
NextW == Tick \/ BumpAttWrite \/ BumpPropWrite \/ DelAtt \/ DelProp \/ SignAttW(FALSE) \/ SignBlk
NextB == Tick \/ BumpAttWriteB \/ BumpPropWrite \/ DelAtt \/ DelProp \/ SignAttW(TRUE) \/ SignBlk
NextS == Next \/ SignAttS \/ SignBlkS

NoSlashable ==
    /\ \A a \in signedAtt, b \in signedAtt : a # b => (a[2] # b[2] /\ ~(a[1] < b[1] /\ b[2] < a[2]))
    /\ \A a \in signedBlk, b \in signedBlk : a # b => a[1] # b[1]

IndInv == /\ clock >= SPE
          /\ NoSlashable
          /\ \A a \in signedAtt : 0 <= a[1] /\ a[1] < a[2] /\ a[2] <= Ep(clock)
          /\ (af => \A a \in signedAtt : a[1] <= rs /\ a[2] <= rt)
          /\ \A b \in signedBlk : 1 <= b[1] /\ b[1] <= clock
          /\ (pf => \A b \in signedBlk : b[1] <= pv)

Init == /\ clock = SPE /\ af = FALSE /\ rs = 0 /\ rt = 0 /\ pf = FALSE /\ pv = 0
        /\ signedAtt = {} /\ signedBlk = {}
IndInit == /\ clock = Gen(1) /\ af = Gen(1) /\ rs = Gen(1) /\ rt = Gen(1) /\ pf = Gen(1) /\ pv = Gen(1)
           /\ signedAtt = Gen(5) /\ signedBlk = Gen(5)
           /\ IndInv
=============================================================================
