SPECIFICATION Spec
CONSTANTS
  Role = "sync"
  SPE = 8
  EPP = 3
  MaxEpoch = 4
  Validators = {1, 2}
  Actives = {{1}, {2}, {1, 2}}
  StartSlots = {0, 11, 19}
  Lags <- LagsNear
  MaxReorgs = 3
  MaxIdx = 2
  MaxFails = 3
  InitDuties = TRUE
  Weaken = "none"
INVARIANT AtMostOnce
INVARIANT AtItsSlot
INVARIANT OnlyIfAssigned
INVARIANT InWindow
INVARIANT ExactlyOnceWhenValid
