SPECIFICATION Spec
CONSTANTS
  Classes <- ClassesAll
  MaxMsgs = 6
  Cap = 2
  Algo = "fixed"
  SeqHarness = TRUE
  Blocking = TRUE
INVARIANT Conservation
INVARIANT Admitted
INVARIANT LenOK
INVARIANT WaitingSound
PROPERTY Responsive
PROPERTY NoDiscard

