SPECIFICATION Spec
CONSTANTS
  Owners <- MCOwners
  Validators <- MCValidators
  OpIds <- MCOpIds
  Alphabet <- AlphaFull
  Setups <- SetupsAll
  MaxEvents = 6
  MaxBlocks = 3
  MaxFaults = 2
  Grain = "op"
  Weaken = "none"
  Stale = TRUE
  ReadFaults = TRUE
INVARIANT DbMatchesRules
INVARIANT KeysMatchRules
INVARIANT MemMatchesDb
INVARIANT LastBlockRight
INVARIANT OwnStable
INVARIANT ExitOnlyByOwner
