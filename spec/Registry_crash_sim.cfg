SPECIFICATION Spec
CONSTANTS
  Owners <- MCOwners
  Validators <- MCValidators
  OpIds <- MCOpIds
  Alphabet <- AlphaFull
  Setups <- SetupsAll
  MaxEvents = 6
  MaxBlocks = 3
  MaxFaults = 2
  Grain = "op"
  Weaken = "none"
  Stale = TRUE
  ReadFaults = FALSE
INVARIANT DbMatchesRules
INVARIANT KeysMatchRules
INVARIANT MemMatchesDb
INVARIANT LastBlockRight
INVARIANT OwnStable
