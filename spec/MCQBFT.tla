------------------------------ MODULE MCQBFT ------------------------------
EXTENDS QBFT
(* operator 1 (leader of round 1 when LeaderOffset = 0) starts with "a", everybody else with "b" *)
SV == [i \in 1..N |-> IF i = 1 THEN "a" ELSE "b"]
SVsame == [i \in 1..N |-> "a"]
NoActs == {}
AllActs == {"proposal", "prepare", "commit", "rc", "decided", "subst"}
LeaderActs == {"proposal", "prepare", "commit"}
RCActs == {"rc"}
DecidedActs == {"decided"}
RelabelActs == {"relabel", "prepare"}
=============================================================================
