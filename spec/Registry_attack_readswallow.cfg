SPECIFICATION Spec
CONSTANTS
  Owners <- MCOwners
  Validators <- MCValidators
  OpIds <- MCOpIds
  Alphabet <- AlphaCrash
  Setups <- SetupsCrash
  MaxEvents = 2
  MaxBlocks = 2
  MaxFaults = 1
  Grain = "op"
  Weaken = "readErrorSwallowed"
  Stale = FALSE
  ReadFaults = TRUE
INVARIANT DbMatchesRules
