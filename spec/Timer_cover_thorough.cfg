SPECIFICATION Spec
CONSTANTS
  Params <- ParamsGridWide
  MaxRound = 5
  Horizon = 13
  MaxNow = 40
  Sched = "prompt"
  Weakens = {"none"}
  Parts = {"timer", "ctl"}
  Heights = {0, 1, 2}
  MaxCRound = 3
  Cutoff = 3
  InstCap = 2
INVARIANT TypeOK
INVARIANT OncePerArming
INVARIANT OnlyLatest
INVARIANT NeverEarly
INVARIANT Superseded
INVARIANT DeadlineIsRef
INVARIANT StaleNoChange
INVARIANT CurrentBumps
INVARIANT AfterCancelQuiet
