SPECIFICATION SpecD
CONSTANTS
  N = 4
  Alphabet <- AlphaPSig
  Times <- TimesPSig
  MaxAccepts = 1
  ForkEpoch <- ForkNever
  PartialWindow = FALSE
  OverflowGuard = FALSE
  Weaken = "none"
  KnownGaps = {"slot-time-overflow"}
PROPERTY AcceptSound
VIEW view
