SPECIFICATION Spec
CONSTANTS
  Owners <- MCOwners
  Validators <- MCValidators
  OpIds <- MCOpIds
  Alphabet <- AlphaSmall
  Setups <- SetupsAttack
  MaxEvents = 3
  MaxBlocks = 3
  MaxFaults = 0
  Grain = "event"
  Weaken = "operatorReadOutsideTxn"
  Stale = FALSE
  ReadFaults = FALSE
INVARIANT DbMatchesRules
