SPECIFICATION TraceSpec
CONSTANTS
  MaxHead = 1000000
  Head0 = 1
  Start = 1
  Batches = {1}
  Follows = {0}
  Kinds = {"none"}
  KindSample = {}
  LowKind = "none"
  MaxFaults = 1000000
  Algo = "fixed"
  Weaken = "none"
  Hist = FALSE
  Bind = FALSE
  Valid <- TValid
  AllLogs <- TAllLogs
INVARIANT GotIncreasing
INVARIANT GotNoRewind
INVARIANT GotBlockComplete
INVARIANT GotNoGap
INVARIANT GotFollow
INVARIANT GotCaughtUp
POSTCONDITION TraceAccepted
