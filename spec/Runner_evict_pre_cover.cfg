SPECIFICATION Spec
CONSTANTS
  HasPre = TRUE
  MaxSlot = 3
  MaxSig = 2
  Cap = 2
  Vals <- OneVal
  Quorums <- OneQuorum
  PrevDec = "code"
  Weaken <- NoWeaken
INVARIANT TypeOK
INVARIANT SigWindow
