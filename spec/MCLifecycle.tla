---------------------------- MODULE MCLifecycle ----------------------------
EXTENDS Lifecycle

MCOwners == {"o1", "o2"}
MCValidators == {"v1", "v2"}
MCValidators3 == {"v1", "v2", "v3"}
(* cA, cB: two committees this operator is a member of (operator ids 1,2,3,4 / 1,2,3,5); cX: 2,3,4,5 *)
MCComms == {"cA", "cB", "cX"}
MCMine == {"cA", "cB"}

Good(o, v, c) == VAdd(o, v, c, "ok")

(* everything: 2 owners x 2 validators x 3 committees *)
AlphaFull ==
    {Good(o, v, c) : o \in MCOwners, v \in MCValidators, c \in MCComms}
    \cup {VAdd("o1", "v1", "cA", "bad")}
    \cup {VRem(o, v) : o \in MCOwners, v \in MCValidators}
    \cup {VExit(o, v) : o \in MCOwners, v \in MCValidators}
    \cup {Liq(o, c) : o \in MCOwners, c \in MCComms} \cup {React(o, c) : o \in MCOwners, c \in MCComms}
    \cup {Fee(o, f) : o \in MCOwners, f \in {"a", "own"}}
    \cup {OpRem}

(* v1 belongs to o1 in cA; v2 is o1's second validator of the same cluster, or of the other own cluster, or
   o2's in a foreign committee; o2 attacks o1's validator *)
AlphaMid ==
    {Good("o1", "v1", "cA"), Good("o1", "v2", "cA"), Good("o1", "v2", "cB"), Good("o2", "v2", "cX"), Good("o2", "v1", "cA"),
     VAdd("o1", "v1", "cA", "bad")}
    \cup {VRem("o1", "v1"), VRem("o2", "v1"), VRem("o1", "v2")}
    \cup {VExit("o1", "v1"), VExit("o2", "v1")}
    \cup {Liq("o1", "cA"), Liq("o2", "cA"), Liq("o1", "cB"), React("o1", "cA"), React("o2", "cX")}
    \cup {Fee("o1", "a"), Fee("o1", "own"), Fee("o2", "a")}
    \cup {OpRem}

AlphaSmall ==
    {Good("o1", "v1", "cA"), Good("o1", "v2", "cA"), Good("o2", "v2", "cX")}
    \cup {VRem("o1", "v1"), VExit("o1", "v1")}
    \cup {Liq("o1", "cA"), React("o1", "cA"), Liq("o2", "cA")}
    \cup {Fee("o1", "a")}

(* three validators: two in one own cluster, one in the other *)
Alpha3 ==
    {Good("o1", "v1", "cA"), Good("o1", "v2", "cA"), Good("o1", "v3", "cB"), Good("o2", "v3", "cX")}
    \cup {VRem("o1", "v1"), VRem("o1", "v3"), VExit("o1", "v2")}
    \cup {Liq("o1", "cA"), React("o1", "cA"), Liq("o1", "cB")}
    \cup {Fee("o1", "a")}
(* one validator through its whole life: registered, liquidated, reactivated, recipient changed, exited, removed *)
AlphaCycle == {Good("o1", "v1", "cA"), Liq("o1", "cA"), React("o1", "cA"), Fee("o1", "a"), VRem("o1", "v1"), VExit("o1", "v1")}

(* alphabets of the observation configs: the smallest ones that reach the counterexample *)
AlphaObsReadd == {Good("o1", "v1", "cA"), VRem("o1", "v1")}
AlphaObsLiq   == {Good("o1", "v1", "cA"), Liq("o1", "cA")}
AlphaObsAdd   == {Good("o1", "v1", "cA")}
AlphaObsExit  == {Good("o1", "v1", "cA"), Liq("o1", "cA"), VExit("o1", "v1")}
=============================================================================
