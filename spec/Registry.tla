------------------------------ MODULE Registry ------------------------------
(* eth/eventhandler: processing of registry-contract events into the operator's persisted registry
   (operators, shares, recipients/nonces, last processed block), the in-memory share map, the in-memory
   own-operator record and the key manager (C11, C12).

   Two descriptions live side by side:

   RULES      Rule(x, e) / FoldRules: what the registration rules prescribe for an event sequence,
              independent of blocks, transactions, memory and crashes.  `exp` is the fold of Rule over the
              events of the chain (each chain event exactly once).
   MECHANISM  what eth/eventhandler does: one database transaction per block (`tx` = the transaction's
              view, `db` = committed), reads that see / do not see the transaction's own writes exactly as
              the code does (operators and recipients are read through the transaction; shares are read from
              the in-memory map `mem.shares`, which Save/Delete update immediately; the own operator id is the
              in-memory `mem.own`), the nonce bumped before validation, side effects outside the transaction
              (key manager `ks`, decided-history cleanup) immediately durable.

   Eff(m, e) is the sequence of primitive effects (storage writes, key-manager calls) one event causes, in
   the order of the code.  Grain = "event": an event is one step (C11 configs).  Grain = "op": one step per
   primitive effect, with Crash / Fail between any two of them, restart on the surviving db and redelivery
   of the interrupted block (C12 configs).

   Weaken names ONE deviation of the mechanism at a time (attack configs):
     "operatorReadOutsideTxn"  SaveOperatorData looks up the existing operator in the committed db instead
                               of the block transaction (the code before fix 55553ea0e)
     "noOwnerCheckOnRemove"    ValidatorRemoved ignores the owner
     "bumpOnlyWhenValid"       the nonce is bumped only for well-formed adds
     "noNonceCheck"            the owner signature is not bound to the expected nonce
     "memNotUpdatedOnDelete"   Shares.Delete forgets the in-memory map
     "noSigCheck" "noLenCheck" "noKeyCheck" "noDupOpCheck" "noSizeCheck" "noOpExistCheck"
                               one validation of ValidatorAdded dropped
     "overwriteExisting"       a second ValidatorAdded for a stored validator replaces the share
     "secondOwnId"             the own public key is accepted under a second operator id
     "reactKeepsLiquidated"    ClusterReactivated does not clear the flag
     "liqIgnoresOwner"         cluster events match on the operator set only
     "exitNoOwnerCheck"        ValidatorExited of a foreign owner yields an exit task
     "noInferiorGuard"         a block not newer than the last processed one is processed again
     "markerOutsideTxn"        SaveLastProcessedBlock writes outside the block transaction
     "readErrorSwallowed"      a failed OperatorsExist read inside validateOperators is wrapped into a
                               MalformedEventError: the event is skipped, the block goes on (the code before
                               fix 3dbd518c8)
   ReadFaults = TRUE makes that read ("validate" effect) a failure point like every write.              *)
EXTENDS Integers, Sequences, FiniteSets, TLC

CONSTANTS Owners, Validators, OpIds,
          Alphabet,      \* set of event classes
          Setups,        \* set of OperatorAdded sequences: the content of block 1
          MaxEvents, MaxBlocks, MaxFaults,
          Grain,         \* "event" | "op"
          Weaken,
          Stale,         \* BOOLEAN: redelivery of the last committed block is part of the alphabet
          ReadFaults     \* BOOLEAN

VARIABLES db,       \* committed registry: [ops, shares, rcpt, last]
          tx,       \* the open block transaction's view of the same
          mem,      \* [shares, own]: in-memory share map and own operator id
          ks,       \* [Validators -> BOOLEAN]: own key share held by the key manager (durable at once)
          exp,      \* RULES: fold of Rule over the chain's events
          blockNo,  \* number of the block being processed / delivered next
          blk,      \* events of the current block known so far (kept only when Track)
          pos,      \* how many events of the current block this incarnation has begun
          pend,     \* remaining primitive effects of the current event / of the block end
          prev,     \* events of the last committed block (kept only when Stale)
          closed,   \* op grain: EndBlock was taken for the current block - its content is final, also after a crash
          nEv, nFault,
          act
vars == <<db, tx, mem, ks, exp, blockNo, blk, pos, pend, prev, closed, nEv, nFault, act>>
view == <<db, tx, mem, ks, exp, blockNo, blk, pos, pend, prev, closed, nEv, nFault>>

Track == Grain = "op" \/ Stale
SetOf(s) == {s[k] : k \in 1..Len(s)}
Distinct(s) == Cardinality(SetOf(s)) = Len(s)
ValidSize(n) == n \in {4, 7, 10, 13}

NoShare == [on |-> FALSE, owner |-> "", comm |-> <<>>, mine |-> FALSE, liq |-> FALSE, meta |-> FALSE]
NoRcpt  == [on |-> FALSE, nonce |-> 0, fee |-> ""]      \* nonce = number of add attempts = next expected nonce
NilEv   == [k |-> "", id |-> 0, key |-> "", o |-> "", v |-> "", comm |-> <<>>, rel |-> 0, sn |-> 0,
            sig |-> "", len |-> "", enc |-> "", fee |-> ""]
OpAdd(id, key) == [NilEv EXCEPT !.k = "OpAdd", !.id = id, !.key = key]
OpRem(id)      == [NilEv EXCEPT !.k = "OpRem", !.id = id]
VAdd(o, v, comm, rel, sig, len, enc) ==
    [NilEv EXCEPT !.k = "VAdd", !.o = o, !.v = v, !.comm = comm, !.rel = rel, !.sig = sig, !.len = len, !.enc = enc]
VRem(o, v)     == [NilEv EXCEPT !.k = "VRem", !.o = o, !.v = v]
VExit(o, v)    == [NilEv EXCEPT !.k = "VExit", !.o = o, !.v = v]
Liq(o, comm)   == [NilEv EXCEPT !.k = "Liq", !.o = o, !.comm = comm]
React(o, comm) == [NilEv EXCEPT !.k = "React", !.o = o, !.comm = comm]
Fee(o, f)      == [NilEv EXCEPT !.k = "Fee", !.o = o, !.fee = f]

(* the own operator id as a restart derives it: the first stored operator carrying the own public key *)
OwnId(ops) == IF \E i \in OpIds : ops[i] = "self"
              THEN CHOOSE i \in OpIds : ops[i] = "self" /\ \A j \in OpIds : ops[j] = "self" => i <= j
              ELSE 0
(* cluster id = hash(owner, sorted operator ids); c1 is a stored (distinct) committee *)
SameCluster(c1, c2) == Len(c1) = Len(c2) /\ SetOf(c1) = SetOf(c2)

----------------------------------------------------------------------------
(* RULES *)
EmptyX == [ops |-> [i \in OpIds |-> "none"], shares |-> [v \in Validators |-> NoShare],
           rcpt |-> [o \in Owners |-> NoRcpt], ks |-> [v \in Validators |-> FALSE]]

CommitteeOK(ops, comm) == /\ ValidSize(Len(comm)) /\ Distinct(comm)
                          /\ \A i \in SetOf(comm) : i \in OpIds /\ ops[i] # "none"

Rule(x, e) ==
    CASE e.k = "OpAdd" ->
           \* an id is registered once (first registration wins); the own key is accepted under one id only
           IF x.ops[e.id] # "none" \/ (e.key = "self" /\ OwnId(x.ops) # 0) THEN x
           ELSE [x EXCEPT !.ops[e.id] = e.key]
      [] e.k = "VAdd" ->
           LET n    == x.rcpt[e.o].nonce
               x1   == [x EXCEPT !.rcpt[e.o] = [on |-> TRUE, nonce |-> n + 1,
                                                fee |-> IF x.rcpt[e.o].on THEN x.rcpt[e.o].fee ELSE "own"]]
               mine == OwnId(x.ops) # 0 /\ OwnId(x.ops) \in SetOf(e.comm)
               ok   == /\ CommitteeOK(x.ops, e.comm) /\ e.len = "ok"
                       /\ e.sig = "ok" /\ e.sn = n                    \* owner signature over the expected nonce
                       /\ ~x.shares[e.v].on                           \* a validator is added once
                       /\ (mine => e.enc = "ok")                      \* own share decryptable and matching
           IN IF ok THEN [x1 EXCEPT !.shares[e.v] = [on |-> TRUE, owner |-> e.o, comm |-> e.comm, mine |-> mine,
                                                      liq |-> FALSE, meta |-> FALSE],
                                    !.ks[e.v] = IF mine THEN TRUE ELSE @]
              ELSE x1                                                 \* every attempt counts exactly once
      [] e.k = "VRem" ->
           IF x.shares[e.v].on /\ x.shares[e.v].owner = e.o
           THEN [x EXCEPT !.shares[e.v] = NoShare, !.ks[e.v] = FALSE] ELSE x
      [] e.k \in {"Liq", "React"} ->
           [x EXCEPT !.shares = [v \in Validators |->
               IF x.shares[v].on /\ x.shares[v].owner = e.o /\ x.shares[v].mine /\ SameCluster(x.shares[v].comm, e.comm)
               THEN [x.shares[v] EXCEPT !.liq = (e.k = "Liq")] ELSE x.shares[v]]]
      [] e.k = "Fee" ->
           [x EXCEPT !.rcpt[e.o] = [on |-> TRUE, nonce |-> x.rcpt[e.o].nonce, fee |-> e.fee]]
      [] OTHER -> x                                                   \* OpRem, VExit: no persisted effect

RECURSIVE FoldRules(_, _)
FoldRules(x, evs) == IF evs = <<>> THEN x ELSE FoldRules(Rule(x, Head(evs)), Tail(evs))
Expected(evs) == FoldRules(EmptyX, evs)

----------------------------------------------------------------------------
(* MECHANISM *)
NilF == [t |-> "", id |-> 0, key |-> "", o |-> "", v |-> "", vs |-> {}, sh |-> NoShare, rc |-> NoRcpt, flag |-> FALSE]
F(t) == [NilF EXCEPT !.t = t]

RECURSIVE Rep(_, _)
Rep(f, n) == IF n = 0 THEN <<>> ELSE <<f>> \o Rep(f, n - 1)

MechCommitteeOK(ops, comm) ==
    /\ (Weaken = "noSizeCheck" \/ ValidSize(Len(comm))) /\ Len(comm) > 0
    /\ (Weaken = "noDupOpCheck" \/ Distinct(comm))
    /\ (Weaken = "noOpExistCheck" \/ \A i \in SetOf(comm) : i \in OpIds /\ ops[i] # "none")
MechPre(m, e) ==
    /\ MechCommitteeOK(m.tx.ops, e.comm)
    /\ (Weaken = "noLenCheck" \/ e.len = "ok") /\ (Weaken = "noSigCheck" \/ e.sig = "ok")
    /\ (Weaken = "noNonceCheck" \/ e.sn = m.tx.rcpt[e.o].nonce)

(* m = [db, tx, mem, ks] *)
ClusterShares(m, e) == {v \in Validators : /\ m.mem.shares[v].on /\ (m.mem.shares[v].owner = e.o \/ Weaken = "liqIgnoresOwner")
                                           /\ m.mem.shares[v].mine /\ SameCluster(m.mem.shares[v].comm, e.comm)}

Eff(m, e) ==
    CASE e.k = "OpAdd" ->
           LET seen == IF Weaken = "operatorReadOutsideTxn" THEN m.db.ops[e.id] ELSE m.tx.ops[e.id]
           IN IF m.mem.own # 0 /\ e.key = "self" /\ m.mem.own # e.id /\ Weaken # "secondOwnId" THEN <<>>   \* ErrAlreadyRegistered
              ELSE IF seen # "none" THEN <<>>
              ELSE << [F("setOp") EXCEPT !.id = e.id, !.key = e.key] >>
      [] e.k = "VAdd" ->
           LET n      == m.tx.rcpt[e.o].nonce
               rc1    == [on |-> TRUE, nonce |-> n + 1, fee |-> IF m.tx.rcpt[e.o].on THEN m.tx.rcpt[e.o].fee ELSE "own"]
               pre    == MechPre(m, e)
               \* validateOperators reaches the OperatorsExist read only for a well-sized, duplicate-free committee
               val    == IF (Weaken = "noSizeCheck" \/ ValidSize(Len(e.comm))) /\ Len(e.comm) > 0 /\ (Weaken = "noDupOpCheck" \/ Distinct(e.comm))
                         THEN << F("validate") >> ELSE <<>>
               cur    == m.mem.shares[e.v]
               mine   == m.mem.own # 0 /\ m.mem.own \in SetOf(e.comm)
               create == /\ pre /\ (~cur.on \/ (Weaken = "overwriteExisting" /\ cur.owner # e.o))
                         /\ (mine => (e.enc = "ok" \/ (Weaken = "noKeyCheck" /\ e.enc = "mismatch")))
               sh     == [on |-> TRUE, owner |-> e.o, comm |-> e.comm, mine |-> mine, liq |-> FALSE, meta |-> FALSE]
               valid  == pre /\ (IF cur.on /\ ~create THEN cur.owner = e.o ELSE create)
               bump   == IF Weaken = "bumpOnlyWhenValid" /\ ~valid
                         THEN <<>> ELSE << [F("bump") EXCEPT !.o = e.o, !.rc = rc1] >>
           IN bump \o val \o (IF create
                       THEN (IF mine THEN << [F("kmAdd") EXCEPT !.v = e.v] >> ELSE <<>>)
                            \o << [F("saveShare") EXCEPT !.v = e.v, !.sh = sh] >>
                       ELSE <<>>)
      [] e.k = "VRem" ->
           LET cur == m.mem.shares[e.v]
           IN IF cur.on /\ (cur.owner = e.o \/ Weaken = "noOwnerCheckOnRemove")
              THEN << [F("clean") EXCEPT !.v = e.v], [F("delShare") EXCEPT !.v = e.v] >>
                   \o (IF cur.mine THEN << [F("kmRemove") EXCEPT !.v = e.v] >> ELSE <<>>)
              ELSE <<>>
      [] e.k = "Liq" ->
           LET S == ClusterShares(m, e) IN IF S = {} THEN <<>> ELSE << [F("saveLiq") EXCEPT !.vs = S, !.flag = TRUE] >>
      [] e.k = "React" ->
           LET S == ClusterShares(m, e)
           IN IF S = {} THEN <<>>
              ELSE (IF Weaken = "reactKeepsLiquidated" THEN <<>> ELSE << [F("saveLiq") EXCEPT !.vs = S, !.flag = FALSE] >>)
                   \o Rep(F("kmBump"), Cardinality(S))
      [] e.k = "Fee" ->
           IF m.tx.rcpt[e.o].on /\ m.tx.rcpt[e.o].fee = e.fee THEN <<>>
           ELSE << [F("setFee") EXCEPT !.o = e.o, !.rc = [on |-> TRUE, nonce |-> m.tx.rcpt[e.o].nonce, fee |-> e.fee]] >>
      [] OTHER -> <<>>

(* the task handed to the task executor for this event *)
Task(m, e) ==
    CASE e.k = "VAdd" ->
           LET effs == Eff(m, e)
               cur  == m.mem.shares[e.v]
               pre  == MechPre(m, e)
           IN IF \E k \in 1..Len(effs) : effs[k].t = "kmAdd" THEN "start"
              ELSE IF cur.on /\ pre /\ cur.owner = e.o /\ cur.mine THEN "start" ELSE "none"
      [] e.k = "VRem" ->
           LET cur == m.mem.shares[e.v]
           IN IF cur.on /\ (cur.owner = e.o \/ Weaken = "noOwnerCheckOnRemove") /\ cur.mine THEN "stop" ELSE "none"
      [] e.k = "VExit" ->
           LET cur == m.mem.shares[e.v]
           IN IF cur.on /\ (cur.owner = e.o \/ Weaken = "exitNoOwnerCheck") /\ cur.mine /\ cur.meta THEN "exit" ELSE "none"
      [] e.k = "Liq"   -> IF ClusterShares(m, e) = {} THEN "none" ELSE "liquidate"
      [] e.k = "React" -> IF ClusterShares(m, e) = {} THEN "none" ELSE "reactivate"
      [] e.k = "Fee"   -> IF Eff(m, e) = <<>> THEN "none" ELSE "fee"
      [] OTHER -> "none"

MetaAll(shares) == [v \in Validators |-> IF shares[v].on THEN [shares[v] EXCEPT !.meta = TRUE] ELSE shares[v]]

ApplyEff(m, f) ==
    CASE f.t = "setOp"     -> [m EXCEPT !.tx.ops[f.id] = f.key, !.mem.own = IF f.key = "self" THEN f.id ELSE @]
      [] f.t \in {"bump", "setFee"} -> [m EXCEPT !.tx.rcpt[f.o] = f.rc]
      [] f.t = "kmAdd"     -> [m EXCEPT !.ks[f.v] = TRUE]
      [] f.t = "saveShare" -> [m EXCEPT !.tx.shares[f.v] = f.sh, !.mem.shares[f.v] = f.sh]
      [] f.t = "delShare"  -> [m EXCEPT !.tx.shares[f.v] = NoShare,
                                        !.mem.shares[f.v] = IF Weaken = "memNotUpdatedOnDelete" THEN @ ELSE NoShare]
      [] f.t = "kmRemove"  -> [m EXCEPT !.ks[f.v] = FALSE]
      [] f.t = "saveLiq"   ->
           LET upd(v) == [m.mem.shares[v] EXCEPT !.liq = f.flag]
           IN [m EXCEPT !.tx.shares  = [v \in Validators |-> IF v \in f.vs THEN upd(v) ELSE @[v]],
                        !.mem.shares = [v \in Validators |-> IF v \in f.vs THEN upd(v) ELSE @[v]]]
      [] f.t = "saveLast"  -> IF Weaken = "markerOutsideTxn" THEN [m EXCEPT !.db.last = f.id, !.tx.last = f.id]
                              ELSE [m EXCEPT !.tx.last = f.id]
      [] f.t = "commit"    ->
           \* commit, then the harness plays the validator controller: beacon metadata for every stored share
           LET reg == [m.tx EXCEPT !.shares = MetaAll(@)]
           IN [m EXCEPT !.db = reg, !.tx = reg, !.mem.shares = MetaAll(@)]
      [] OTHER -> m                                                   \* validate, clean, kmBump: no modelled state

RECURSIVE FoldEffs(_, _)
FoldEffs(m, effs) == IF effs = <<>> THEN m ELSE FoldEffs(ApplyEff(m, Head(effs)), Tail(effs))
RECURSIVE ProcSeq(_, _)
ProcSeq(m, evs) == IF evs = <<>> THEN m ELSE ProcSeq(FoldEffs(m, Eff(m, Head(evs))), Tail(evs))
EndEffs(n) == << [F("saveLast") EXCEPT !.id = n], F("commit") >>
Types(effs) == [k \in 1..Len(effs) |-> effs[k].t]

M == [db |-> db, tx |-> tx, mem |-> mem, ks |-> ks]
Load(d) == [shares |-> d.shares, own |-> OwnId(d.ops)]
Set4(m) == /\ db' = m.db /\ tx' = m.tx /\ mem' = m.mem /\ ks' = m.ks

Resolve(a) == IF a.k = "VAdd" THEN [a EXCEPT !.sn = exp.rcpt[a.o].nonce + a.rel] ELSE a

----------------------------------------------------------------------------
Init ==
    \E s \in Setups :
      LET x   == Expected(s)
          reg == [ops |-> x.ops, shares |-> MetaAll(x.shares), rcpt |-> x.rcpt, last |-> 1]
      IN /\ db = reg /\ tx = reg /\ mem = Load(reg) /\ ks = x.ks /\ exp = x
         /\ blockNo = 2 /\ blk = <<>> /\ pos = 0 /\ pend = <<>>
         /\ prev = IF Stale THEN s ELSE <<>>
         /\ closed = FALSE
         /\ nEv = 0 /\ nFault = 0
         /\ act = [name |-> "Setup", events |-> s]

Boundary == pos = 0 /\ pend = <<>> /\ blk = <<>> /\ ~closed
CanStart == pend = <<>> /\ blockNo - 1 <= MaxBlocks

(* the next event of the block: redelivered after a crash, or a new one chosen by the environment *)
Take(e, new) ==
    LET m0   == M
        effs == Eff(m0, e)
        task == Task(m0, e)
    IN
    /\ pos' = pos + 1
    /\ blk' = IF Track /\ new THEN Append(blk, e) ELSE blk
    /\ exp' = IF new THEN Rule(exp, e) ELSE exp
    /\ nEv' = IF new THEN nEv + 1 ELSE nEv
    /\ UNCHANGED <<blockNo, prev, nFault, closed>>
    /\ IF Grain = "event"
       THEN /\ Set4(FoldEffs(m0, effs)) /\ pend' = <<>>
            /\ act' = [name |-> "Proc", e |-> e, task |-> task, redo |-> ~new]
       ELSE /\ pend' = effs /\ UNCHANGED <<db, tx, mem, ks>>
            /\ act' = [name |-> "Proc", e |-> e, task |-> task, redo |-> ~new, effs |-> Types(effs)]

Redeliver == /\ CanStart /\ pos < Len(blk) /\ Take(blk[pos + 1], FALSE)
NewEvent  == /\ CanStart /\ pos >= Len(blk) /\ nEv < MaxEvents /\ ~closed
             /\ \E a \in Alphabet : LET e == Resolve(a) IN e.sn >= 0 /\ Take(e, TRUE)

Advance(m) ==   \* after the commit effect
    /\ Set4(m) /\ blockNo' = blockNo + 1 /\ pos' = 0 /\ blk' = <<>> /\ closed' = FALSE
    /\ prev' = IF Stale THEN blk ELSE <<>>

EndBlock ==
    /\ CanStart /\ pos >= Len(blk)
    /\ UNCHANGED <<exp, nEv, nFault>>
    /\ IF Grain = "event"
       THEN /\ Advance(FoldEffs(M, EndEffs(blockNo))) /\ pend' = <<>>
            /\ act' = [name |-> "EndBlock", n |-> blockNo]
       ELSE /\ pend' = EndEffs(blockNo) /\ closed' = TRUE /\ UNCHANGED <<db, tx, mem, ks, blockNo, blk, pos, prev>>
            /\ act' = [name |-> "EndBlock", n |-> blockNo]

Step ==
    /\ Grain = "op" /\ pend # <<>>
    /\ LET f == Head(pend) m == ApplyEff(M, f) IN
       /\ pend' = Tail(pend)
       /\ IF f.t = "commit" THEN Advance(m) ELSE Set4(m) /\ UNCHANGED <<blockNo, pos, blk, prev, closed>>
       /\ act' = [name |-> "Step", t |-> f.t]
    /\ UNCHANGED <<exp, nEv, nFault>>

(* process death (Crash) or an operation returning an error, which ends in logger.Fatal (Fail); the open
   transaction is lost, durable side effects stay, memory is rebuilt from the surviving db, the node resumes
   from the recorded last processed block + 1 *)
Die(name) ==
    /\ nFault < MaxFaults /\ (pos > 0 \/ pend # <<>>)
    /\ (name = "Fail" => pend # <<>> /\ (Head(pend).t = "validate" => ReadFaults /\ Weaken # "readErrorSwallowed"))
    /\ tx' = db /\ mem' = Load(db) /\ pend' = <<>> /\ pos' = 0
    /\ IF db.last >= blockNo                      \* only with a weakened marker: the block is skipped
       THEN blockNo' = db.last + 1 /\ blk' = <<>> /\ closed' = FALSE
       ELSE UNCHANGED <<blockNo, blk, closed>>
    /\ nFault' = nFault + 1
    /\ act' = [name |-> name, at |-> IF pend # <<>> THEN Head(pend).t ELSE "between", swallowed |-> FALSE]
    /\ UNCHANGED <<db, ks, exp, prev, nEv>>
Crash == Grain = "op" /\ Die("Crash")
Fail  == Grain = "op" /\ Die("Fail")

(* named deviation: the OperatorsExist read of validateOperators returns an error and the handler wraps whatever
   validateOperators returns into a MalformedEventError: the rest of the event is skipped, the block goes on. *)
FailRead ==
    /\ Grain = "op" /\ ReadFaults /\ Weaken = "readErrorSwallowed" /\ nFault < MaxFaults
    /\ pend # <<>> /\ Head(pend).t = "validate"
    /\ pend' = <<>> /\ nFault' = nFault + 1
    /\ act' = [name |-> "Fail", at |-> "validate", swallowed |-> TRUE]
    /\ UNCHANGED <<db, tx, mem, ks, exp, blockNo, blk, pos, prev, closed, nEv>>

(* graceful restart between two blocks *)
Reboot == /\ Boundary /\ nFault < MaxFaults
          /\ mem' = Load(db) /\ nFault' = nFault + 1
          /\ act' = [name |-> "Reboot"]
          /\ UNCHANGED <<db, tx, ks, exp, blockNo, blk, pos, pend, prev, closed, nEv>>

(* the last committed block is delivered again *)
StaleBlock ==
    /\ Stale /\ Boundary /\ nFault < MaxFaults
    /\ nFault' = nFault + 1
    /\ IF Weaken = "noInferiorGuard"
       THEN /\ Set4(FoldEffs(ProcSeq(M, prev), EndEffs(blockNo - 1)))
            /\ act' = [name |-> "StaleBlock", n |-> blockNo - 1, events |-> prev, accepted |-> TRUE]
       ELSE /\ UNCHANGED <<db, tx, mem, ks>>
            /\ act' = [name |-> "StaleBlock", n |-> blockNo - 1, events |-> prev, accepted |-> FALSE]
    /\ UNCHANGED <<exp, blockNo, blk, pos, pend, prev, closed, nEv>>

Next == Redeliver \/ NewEvent \/ EndBlock \/ Step \/ Crash \/ Fail \/ FailRead \/ Reboot \/ StaleBlock
Spec == Init /\ [][Next]_vars

----------------------------------------------------------------------------
(* PROPERTIES - evaluated where the property evaluates them: between two blocks, nothing to redeliver *)
Core(d) == [ops |-> d.ops, shares |-> [v \in Validators |-> [d.shares[v] EXCEPT !.meta = FALSE]], rcpt |-> d.rcpt]
RulesCore == [ops |-> exp.ops, shares |-> exp.shares, rcpt |-> exp.rcpt]

DbMatchesRules   == Boundary => Core(db) = RulesCore           \* C11: registry = Expected(prefix), any batching; C12: = uninterrupted run
KeysMatchRules   == Boundary => ks = exp.ks                    \* stored key shares
MemMatchesDb     == Boundary => mem = Load(db) /\ tx = db      \* in-memory view = database; a restart reproduces it
LastBlockRight   == Boundary => db.last = blockNo - 1
OwnStable        == Boundary => mem.own = OwnId(exp.ops)
ExitOnlyByOwner  == (act.name = "Proc" /\ act.task = "exit") => exp.shares[act.e.v].owner = act.e.o
TypeOK == /\ nEv \in 0..MaxEvents /\ nFault \in 0..MaxFaults /\ pos \in 0..MaxEvents
          /\ \A o \in Owners : db.rcpt[o].nonce \in 0..MaxEvents
=============================================================================
