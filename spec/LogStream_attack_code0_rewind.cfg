SPECIFICATION Spec
CONSTANTS
  MaxHead = 8
  Head0 = 5
  Start = 3
  Batches = {2}
  Follows = {1}
  Kinds = {"one","none"}
  KindSample = {}
  LowKind = "one"
  MaxFaults = 3
  Algo = "code0"
  Weaken = "none"
  Hist = FALSE
INVARIANT NoRewind
VIEW view
