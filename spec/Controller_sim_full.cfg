SPECIFICATION Spec
CONSTANTS
  MaxH = 3
  MaxRestarts = 2
  FullNode = TRUE
  Cap = 2
  Weaken = "none"
  GapFix = FALSE
  CertRounds = {1, 2}
  Direct = TRUE
  MidCrash = TRUE
  Timeouts = TRUE
  MaxWriteFaults = 2
  MaxReadFaults = 0
  ReadKinds = {}
  ReadFix = FALSE
INVARIANT ContainerOK
