SPECIFICATION TraceSpec
CONSTANTS
  MaxH = 3
  MaxRestarts = 3
  FullNode = TRUE
  Cap = 2
  Weaken = "none"
  GapFix = FALSE
  CertRounds = {1, 2}
  Direct = TRUE
  MidCrash = TRUE
  Timeouts = TRUE
  MaxWriteFaults = 3
  MaxReadFaults = 3
  ReadKinds = {"err", "empty", "garbage"}
  ReadFix = FALSE
INVARIANT ContainerOK
INVARIANT StorageShape
POSTCONDITION TraceAccepted
