SPECIFICATION Spec
CONSTANTS
  MaxH = 3
  MaxRestarts = 1
  FullNode = FALSE
  Cap = 2
  Weaken = "none"
  GapFix = FALSE
  Direct = FALSE
  Timeouts = FALSE
PROPERTY RestartCoversKnown
