SPECIFICATION Spec
CONSTANTS
  Params <- ParamsGrid
  MaxRound = 4
  Horizon = 11
  MaxNow = 24
  Sched = "prompt"
  Weakens = {"noRoundCheckOnWake"}
  Parts = {"timer"}
  Heights = {0}
  MaxCRound = 3
  Cutoff = 3
  InstCap = 2
INVARIANT OnlyLatest
