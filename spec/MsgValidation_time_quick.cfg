SPECIFICATION SpecD
CONSTANTS
  N = 4
  Alphabet <- AlphaTime
  Times <- TimesTime
  MaxAccepts = 1
  ForkEpoch <- ForkNever
  PartialWindow = FALSE
  OverflowGuard = FALSE
  Weaken = "none"
  KnownGaps = {"partial-sig-outside-slot-window", "slot-time-overflow"}
PROPERTY Total
PROPERTY AcceptSound
INVARIANT StateSound
VIEW view
