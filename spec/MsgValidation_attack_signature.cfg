SPECIFICATION SpecD
CONSTANTS
  N = 4
  Alphabet <- AlphaAttackSigned
  Times <- TimesOne
  MaxAccepts = 2
  ForkEpoch <- ForkAtZero
  PartialWindow = FALSE
  OverflowGuard = FALSE
  Weaken = "signature"
  KnownGaps = {"partial-sig-outside-slot-window", "slot-time-overflow"}
PROPERTY AcceptSound
VIEW view
