SPECIFICATION Spec
CONSTANTS
  Classes <- ClassesTiny
  MaxMsgs = 3
  Cap = 2
  Algo = "fixed"
  SeqHarness = TRUE
  Blocking = TRUE
INVARIANT Conservation
