-------------------------- MODULE MCPartialTimely --------------------------
(* model values for PartialTimely: duty shapes of the contribution role (TLC configuration files cannot hold tuples) *)
EXTENDS PartialTimely
SubsDistinct == {<<0>>, <<0, 1, 2>>}       \* one position; three positions in three subcommittees
SubsTwo      == {<<0, 1>>}
SubsFour     == {<<0, 1, 2, 3>>}
SubsDup      == {<<0, 0>>}                 \* two positions in ONE subcommittee (the recorded finding)
=============================================================================
