SPECIFICATION Spec
CONSTANTS
  Params <- ParamsUnit
  MaxRound = 4
  Horizon = 5
  MaxNow = 8
  Sched = "any"
  Weakens = {"none"}
  Parts = {"timer", "ctl"}
  Heights = {0, 1, 2}
  MaxCRound = 3
  Cutoff = 3
  InstCap = 2
INVARIANT TypeOK
INVARIANT OncePerArming
INVARIANT OnlyLatest
INVARIANT NeverEarly
INVARIANT Superseded
INVARIANT DeadlineIsRef
INVARIANT StaleNoChange
INVARIANT CurrentBumps
VIEW view
