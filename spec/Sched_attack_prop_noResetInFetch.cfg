SPECIFICATION Spec
CONSTANTS
  Role = "prop"
  SPE = 4
  EPP = 2
  MaxEpoch = 0
  Validators = {1, 2}
  Actives = {{1}, {1, 2}}
  StartSlots = {0}
  Lags = {0}
  MaxReorgs = 0
  MaxIdx = 1
  MaxFails = 0
  InitDuties = FALSE
  Weaken = "noResetInFetch"
INVARIANT AtMostOnce
INVARIANT AtItsSlot
INVARIANT OnlyIfAssigned
INVARIANT InWindow
INVARIANT ExactlyOnceWhenValid
VIEW view
