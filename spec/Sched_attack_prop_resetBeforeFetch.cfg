SPECIFICATION Spec
CONSTANTS
  Role = "prop"
  SPE = 4
  EPP = 2
  MaxEpoch = 0
  Validators = {1}
  Actives = {{1}}
  StartSlots = {0}
  Lags = {0}
  MaxReorgs = 0
  MaxIdx = 1
  MaxFails = 1
  InitDuties = FALSE
  Weaken = "resetBeforeFetch"
INVARIANT AtMostOnce
INVARIANT AtItsSlot
INVARIANT OnlyIfAssigned
INVARIANT InWindow
INVARIANT ExactlyOnceWhenValid
VIEW view
