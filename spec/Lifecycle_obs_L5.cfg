SPECIFICATION Spec
CONSTANTS
  Owners <- MCOwners
  Validators <- MCValidators
  Comms <- MCComms
  Mine <- MCMine
  Alphabet <- AlphaObsExit
  MaxEvents = 3
  MaxBlock = 2
  MaxMeta = 1
  MaxRestarts = 0
  MetaAnywhere = FALSE
  SplitStart = FALSE
PROPERTY L5_ExitOnlyRunning
