SPECIFICATION Spec
CONSTANTS
  MaxH = 2
  MaxRestarts = 1
  FullNode = FALSE
  Cap = 2
  Weaken = "loadNoHeight"
  GapFix = FALSE
  CertRounds = {1}
  Direct = FALSE
  MidCrash = FALSE
  Timeouts = FALSE
INVARIANT RestartResumes
