SPECIFICATION Spec
CONSTANTS
  MaxH = 2
  MaxRestarts = 1
  FullNode = FALSE
  Cap = 2
  Weaken = "loadNoHeight"
  GapFix = FALSE
  CertRounds = {1}
  Direct = FALSE
  MidCrash = FALSE
  Timeouts = FALSE
  MaxWriteFaults = 0
  MaxReadFaults = 0
  ReadKinds = {}
  ReadFix = FALSE
INVARIANT RestartResumes
