SPECIFICATION Spec
CONSTANTS
  Owners <- MCOwners
  Validators <- MCValidators
  Comms <- MCComms
  Mine <- MCMine
  Alphabet <- AlphaObsReadd
  MaxEvents = 2
  MaxBlock = 2
  MaxMeta = 1
  MaxRestarts = 1
  MetaAnywhere = FALSE
  SplitStart = TRUE
INVARIANT L2b_NoRemovedRunning
