SPECIFICATION SpecD
CONSTANTS
  N = 4
  Alphabet <- AlphaCore
  Times <- TimesCore
  MaxAccepts = 3
  ForkEpoch <- ForkNever
  PartialWindow = FALSE
  OverflowGuard = FALSE
  Weaken = "none"
  KnownGaps = {"partial-sig-outside-slot-window", "slot-time-overflow"}
PROPERTY Total
PROPERTY AcceptSound
INVARIANT StateSound
VIEW view
