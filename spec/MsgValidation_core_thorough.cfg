SPECIFICATION Spec
CONSTANTS
  N = 4
  Alphabet <- AlphaCore
  Times <- TimesCore
  MaxAccepts = 5
  ForkEpoch <- ForkNever
  PartialWindow = FALSE
  Weaken = "none"
  KnownGaps = {"partial-sig-outside-slot-window"}
PROPERTY Total
PROPERTY AcceptSound
INVARIANT StateSound
VIEW view
