---------------------------- MODULE MCQBFTTimely ----------------------------
EXTENDS QBFTTimely
SV == [i \in 1..N |-> IF i = 1 THEN "a" ELSE "b"]
SVsame == [i \in 1..N |-> "a"]
NoActs == {}
AllActs == {"proposal", "prepare", "commit", "rc", "decided"}
LeaderActs == {"proposal", "prepare", "commit"}
=============================================================================
