SPECIFICATION Spec
CONSTANTS
  N = 4
  Alphabet <- AlphaEnvelope
  Times <- TimesEnvelope
  MaxAccepts = 2
  ForkEpoch <- ForkAtZero
  PartialWindow = FALSE
  Weaken = "none"
  KnownGaps = {"partial-sig-outside-slot-window"}
PROPERTY Total
PROPERTY AcceptSound
INVARIANT StateSound
VIEW view
