SPECIFICATION Spec
CONSTANTS
  Params <- ParamsGrid
  MaxRound = 4
  Horizon = 11
  MaxNow = 24
  Sched = "prompt"
  Weakens = {"none"}
  Parts = {"timer", "ctl"}
  Heights = {0, 1}
  MaxCRound = 3
  Cutoff = 3
  InstCap = 2
INVARIANT TypeOK
INVARIANT OncePerArming
INVARIANT OnlyLatest
INVARIANT NeverEarly
INVARIANT Superseded
INVARIANT DeadlineIsRef
INVARIANT StaleNoChange
INVARIANT CurrentBumps
INVARIANT AfterCancelQuiet
