SPECIFICATION Spec
CONSTANTS
  Owners <- MCOwners
  Validators <- MCValidators
  OpIds <- MCOpIds
  Alphabet <- AlphaSmall
  Setups <- SetupsCover
  MaxEvents = 3
  MaxBlocks = 3
  MaxFaults = 1
  Grain = "event"
  Weaken = "noInferiorGuard"
  Stale = TRUE
  ReadFaults = FALSE
INVARIANT DbMatchesRules
