SPECIFICATION Spec
CONSTANTS
  Role = "att"
  SPE = 4
  EPP = 2
  MaxEpoch = 1
  Validators = {1}
  Actives = {{1}}
  StartSlots = {0}
  Lags = {0, 1}
  MaxReorgs = 0
  MaxIdx = 0
  MaxFails = 0
  InitDuties = FALSE
  Weaken = "narrowWindow"
INVARIANT AtMostOnce
INVARIANT AtItsSlot
INVARIANT OnlyIfAssigned
INVARIANT InWindow
INVARIANT ExactlyOnceWhenValid
VIEW view
