SPECIFICATION SpecD
CONSTANTS
  N = 4
  Alphabet <- AlphaCore
  Times <- TimesCore
  MaxAccepts = 1
  ForkEpoch <- ForkNever
  PartialWindow = FALSE
  OverflowGuard = FALSE
  Weaken = "none"
  KnownGaps = {"partial-sig-outside-slot-window"}
PROPERTY AcceptSound
VIEW view
