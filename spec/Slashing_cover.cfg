SPECIFICATION Spec
CONSTANTS
  SPE = 2
  MaxSlot = 4
  MaxGen = 1
  MaxFaults = 1
  MaxPersist = 2
  Variants = 1
  Kinds = {"att", "blk"}
  FaultKinds = {"crash", "crashafter", "fail", "failall", "rerr", "rmiss"}
  Weaken = "none"
INVARIANT NoSlashable
