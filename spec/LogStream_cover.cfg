SPECIFICATION Spec
CONSTANTS
  MaxHead = 7
  Head0 = 5
  Start = 3
  Batches = {2}
  Follows = {1}
  Kinds = {"none","one"}
  KindSample = {}
  LowKind = "one"
  MaxFaults = 2
  Algo = "fixed"
  Weaken = "none"
  Hist = TRUE
INVARIANT NoGapDelivered
