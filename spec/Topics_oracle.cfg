SPECIFICATION Spec
CONSTANTS
  SubnetsCount = 128
  HexDigits = 10
  KeySize = 48
  SigSize = 256
  IdSize = 8
  VecSize = 128
  Weaken = "none"
