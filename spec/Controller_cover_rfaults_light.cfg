SPECIFICATION Spec
CONSTANTS
  MaxH = 1
  MaxRestarts = 1
  FullNode = FALSE
  Cap = 2
  Weaken = "none"
  GapFix = FALSE
  CertRounds = {1}
  Direct = FALSE
  MidCrash = FALSE
  Timeouts = FALSE
  MaxWriteFaults = 0
  MaxReadFaults = 1
  ReadKinds = {"err", "empty"}
  ReadFix = FALSE
INVARIANT ContainerOK
