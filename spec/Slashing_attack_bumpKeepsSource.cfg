SPECIFICATION Spec
CONSTANTS
  SPE = 2
  MaxSlot = 9
  MaxGen = 3
  MaxFaults = 0
  MaxPersist = 1
  Variants = 1
  Kinds = {"att"}
  FaultKinds = {}
  Weaken = "bumpKeepsSource"
INVARIANT NoDoubleVote
INVARIANT NoSurround
INVARIANT NoDoubleBlock
PROPERTY RefuseWhenUnknown
VIEW view
