SPECIFICATION Spec
CONSTANTS
  SPE = 2
  MaxSlot = 9
  MaxGen = 3
  MaxFaults = 0
  Variants = 1
  Kinds = {"att"}
  FaultKinds = {}
  Weaken = "bumpKeepsSource"
INVARIANT NoDoubleVote
INVARIANT NoSurround
INVARIANT NoDoubleBlock
PROPERTY RefuseWhenUnknown
VIEW view
