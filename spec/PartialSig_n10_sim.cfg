SPECIFICATION Spec
CONSTANTS
  N = 10
  R = 1
  FaultySets <- MixedFaultySets
  MaxHonest = 2
  MaxFaulty = 3
  Foreign = TRUE
  Orders <- OrdersId
  Algo = "code"
  Weaken <- NoWeaken
INVARIANT TypeOK
INVARIANT SubmittedValid
INVARIANT AtMostOnce
INVARIANT NotPrevented
