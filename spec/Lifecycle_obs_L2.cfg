SPECIFICATION Spec
CONSTANTS
  Owners <- MCOwners
  Validators <- MCValidators
  Comms <- MCComms
  Mine <- MCMine
  Alphabet <- AlphaObsLiq
  MaxEvents = 2
  MaxBlock = 2
  MaxMeta = 1
  MaxRestarts = 1
  MetaAnywhere = FALSE
  SplitStart = TRUE
INVARIANT L2_NoLiquidatedRunning
