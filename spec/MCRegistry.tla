----------------------------- MODULE MCRegistry -----------------------------
EXTENDS Registry

MCOwners == {"o1", "o2"}
MCValidators == {"v1", "v2"}
MCOpIds == 1..5

Cin   == <<1, 2, 3, 4>>
Cout  == <<2, 3, 4, 5>>
Crev  == <<4, 3, 2, 1>>       \* the same cluster as Cin, other order
Cdup  == <<1, 1, 2, 3>>
C3    == <<1, 2, 3>>
C5    == <<1, 2, 3, 4, 5>>

(* block 1 *)
SetupNone  == <<>>
SetupIn    == <<OpAdd(1, "self"), OpAdd(2, "other"), OpAdd(3, "other"), OpAdd(4, "other")>>                  \* 5 unknown
SetupAll   == <<OpAdd(1, "self"), OpAdd(2, "other"), OpAdd(3, "other"), OpAdd(4, "other"), OpAdd(5, "other")>>
SetupNotMe == <<OpAdd(1, "other"), OpAdd(2, "other"), OpAdd(3, "other"), OpAdd(4, "other"), OpAdd(5, "other")>>
Setup5     == <<OpAdd(1, "other"), OpAdd(2, "other"), OpAdd(3, "other"), OpAdd(4, "other"), OpAdd(5, "self")>> \* own id 5
Setup234   == <<OpAdd(2, "other"), OpAdd(3, "other"), OpAdd(4, "other")>>                                      \* 1 and 5 open

Good(o, v, c) == VAdd(o, v, c, 0, "ok", "ok", "ok")
AddClasses(o, v) ==
    { Good(o, v, Cin), Good(o, v, Cout), Good(o, v, Crev),
      VAdd(o, v, Cin, -1, "ok", "ok", "ok"),        \* replayed nonce
      VAdd(o, v, Cin, 1, "ok", "ok", "ok"),         \* future nonce
      VAdd(o, v, Cin, 0, "bad", "ok", "ok"),        \* signature by another key
      VAdd(o, v, Cin, 0, "ok", "bad", "ok"),        \* share data of the wrong length
      VAdd(o, v, Cin, 0, "ok", "ok", "undec"),      \* own share not decryptable
      VAdd(o, v, Cin, 0, "ok", "ok", "mismatch"),   \* decrypted key # public share
      VAdd(o, v, Cout, 0, "ok", "ok", "undec"),
      Good(o, v, Cdup), Good(o, v, C3), Good(o, v, C5) }

OpEvents == {OpAdd(1, "self"), OpAdd(1, "other"), OpAdd(5, "self"), OpAdd(5, "other"), OpRem(2)}

AlphaFull ==
    OpEvents
    \cup UNION {AddClasses(o, v) : o \in MCOwners, v \in MCValidators}
    \cup {VRem(o, v) : o \in MCOwners, v \in MCValidators}
    \cup {VExit(o, v) : o \in MCOwners, v \in MCValidators}
    \cup {Liq(o, c) : o \in MCOwners, c \in {Cin, Cout}} \cup {React(o, c) : o \in MCOwners, c \in {Cin, Cout}}
    \cup {Fee(o, f) : o \in MCOwners, f \in {"a", "b"}}

(* one validator per owner is enough to reach every rule; the second owner attacks the first one's validator *)
AlphaMid ==
    {OpAdd(1, "self"), OpAdd(1, "other"), OpAdd(5, "self"), OpAdd(5, "other")}
    \cup AddClasses("o1", "v1")
    \cup {Good("o2", "v1", Cin), Good("o1", "v2", Cin), Good("o2", "v2", Cout)}
    \cup {VRem("o1", "v1"), VRem("o2", "v1"), VRem("o2", "v2"), VExit("o1", "v1"), VExit("o2", "v1")}
    \cup {Liq("o1", Cin), Liq("o1", Crev), Liq("o2", Cin), React("o1", Cin), React("o2", Cout), Liq("o2", Cout)}
    \cup {Fee("o1", "a"), Fee("o1", "b"), Fee("o2", "a"), Fee("o1", "own")}

AlphaSmall ==
    {OpAdd(1, "self"), OpAdd(1, "other"), OpAdd(5, "other")}
    \cup {Good("o1", "v1", Cin), Good("o2", "v1", Cin), Good("o1", "v2", Cout),
          VAdd("o1", "v1", Cin, -1, "ok", "ok", "ok"), VAdd("o1", "v1", Cin, 0, "bad", "ok", "ok"),
          VAdd("o1", "v1", Cin, 0, "ok", "ok", "mismatch")}
    \cup {VRem("o1", "v1"), VRem("o2", "v1"), VExit("o1", "v1"), Liq("o1", Cin), React("o1", Cin), Fee("o1", "a")}

(* attack configs: one representative of every validity class *)
AlphaAttack ==
    {OpAdd(1, "self"), OpAdd(5, "self"), OpAdd(5, "other")}
    \cup {Good("o1", "v1", Cin), Good("o2", "v1", Cin), Good("o1", "v1", Cdup), Good("o1", "v1", C3), Good("o1", "v1", Cout),
          VAdd("o1", "v1", Cin, 0, "bad", "ok", "ok"), VAdd("o1", "v1", Cin, 0, "ok", "bad", "ok"),
          VAdd("o1", "v1", Cin, 0, "ok", "ok", "mismatch")}
    \cup {VRem("o1", "v1"), VExit("o1", "v1"), VExit("o2", "v1"), Liq("o1", Cin), Liq("o2", Cin), React("o1", Cin)}

(* crash sub-spec: events with out-of-transaction side effects and the ones that interleave with them *)
AlphaCrash ==
    {OpAdd(1, "self"), OpAdd(5, "other")}
    \cup {Good("o1", "v1", Cin), Good("o1", "v2", Cin), Good("o2", "v1", Cin), Good("o1", "v1", Cout),
          VAdd("o1", "v1", Cin, 0, "bad", "ok", "ok"), VAdd("o1", "v1", Cin, 0, "ok", "ok", "undec")}
    \cup {VRem("o1", "v1"), VRem("o2", "v1"), Liq("o1", Cin), React("o1", Cin), Fee("o1", "a")}

SetupsAll   == {SetupNone, SetupIn, SetupAll, SetupNotMe, Setup5, Setup234}
SetupsQuick == {SetupIn, SetupAll, Setup234}
SetupsCrash == {SetupIn, Setup234}
SetupsCrashQuick == {SetupIn}
SetupsEmpty == {SetupNone}
SetupsCover == {SetupIn, Setup234}
SetupsAttack == {SetupNone, Setup234}
SetupsAttackAll == {SetupAll}
=============================================================================
