SPECIFICATION CSpec
CONSTANTS
  N = 4
  Alphabet <- AlphaConc
  Times <- TimesOne
  MaxAccepts = 8
  ForkEpoch <- ForkNever
  PartialWindow = FALSE
  OverflowGuard = FALSE
  Weaken = "none"
  KnownGaps = {"partial-sig-outside-slot-window", "slot-time-overflow"}
  CallSeq <- CallsAPQ
INVARIANT MutualExclusion
INVARIANT Serialisable
PROPERTY CommitSound
