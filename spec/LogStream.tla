----------------------------- MODULE LogStream -----------------------------
(* eth/executionclient: FetchHistoricalLogs / fetchLogsInBatches / PackLogs / StreamLogs /
   streamLogsToChan, and the way eth/eventsyncer (SyncHistory, SyncOngoing) and cli/operator/node.go
   chain them (history first, then the ongoing stream from lastProcessedBlock + 1; a failed
   history sync kills the node, which restarts after the last block its handler processed).

   One action per RPC the client issues (eth_blockNumber, eth_subscribe, one eth_getLogs per batch),
   per select case of streamLogsToChan (head notification taken, subscription error) and per new
   chain head.  `delivered` is the sequence of BlockLogs handed to the event handler.

   env (picked in Init, constant afterwards): kind of every block, logBatchSize, followDistance, requested start.
   Block kinds: "none" no registry log; "one" one log; "two" two logs of one transaction;
   "rm" one removed log only; "mix" log, removed log, log of the next transaction.

   Cursor variables of the code:
     from  = StreamLogs' fromBlock (also the argument of FetchHistoricalLogs)
     cur   = streamLogsToChan's local fromBlock (first block not delivered yet)
     last  = named result lastBlock of the ORIGINAL streamLogsToChan (Algo = "code0" only)
     tries = StreamLogs' consecutive-failure counter (Fatal on the third)

   Algo = "fixed" : the code as it is now (commit c3050e311): streamLogsToChan returns the next
                    undelivered block on every path, StreamLogs resumes exactly there.
   Algo = "code0" : NAMED DEVIATION, the two-cursor algorithm before that commit: error paths
                    return fromBlock (subscribe failure, subscription error) or lastBlock (fetch
                    error; 0 if nothing was delivered in this call) and the caller adds 1.
   Weaken (one guard removed at a time, attack configs only):
     "noAdvance"       the forwarding loop does not advance the cursor per delivered entry
     "skipFailedBatch" a failed batch is skipped on resume
     "keepRemoved"     removed logs are not filtered
     "followOffByOne"  toBlock = head - followDistance + 1

   Actions that are NOT part of Next (the exhaustive replay configs keep their state graphs), used by NextR
   (LogStream_restart.cfg) and by the trace specification LogStreamTrace:
     Restart          cli/operator/node.go after the process died (Fatal on the third failure, or killed at any
                      point): a new client, the ongoing stream resumes after the last block the handler processed
     SubErrorPending  the subscription's error channel fires while head notifications are still queued (Go's
                      select may take either; the queued notifications are dropped with the subscription)
   BatchOKFrom / BatchErrFrom are BatchOK / BatchErr parameterised over the running fetch (next batch start, end
   block, cursor), so that the trace specification can compose "head notification taken" with the first batch.  *)
EXTENDS Integers, Sequences, FiniteSets, TLC

CONSTANTS MaxHead,     \* the chain grows up to this block
          Head0,       \* chain head when the node starts
          Start,       \* requested start block
          Batches,     \* set of logBatchSize values (one picked in Init)
          Follows,     \* set of followDistance values (one picked in Init)
          Kinds,       \* kinds of the blocks >= Start (every distribution is picked in Init)
          KindSample,  \* {} or a set of sequences of length MaxHead: only these distributions (simulation configs)
          LowKind,     \* kind of the blocks < Start
          MaxFaults,   \* bound on injected failures
          Algo,        \* "fixed" | "code0"
          Weaken,      \* "none" | "noAdvance" | "skipFailedBatch" | "keepRemoved" | "followOffByOne"
          Hist         \* TRUE: the run starts with the historical sync

VARIABLES env,         \* [kind : [1..MaxHead -> STRING], batch, follow, start]
          head,        \* chain head of the execution node
          pc,          \* "hcall" | "hist" | "outer" | "idle" | "fetch" | "fatal"
          from, cur, last, tries,
          pend,        \* head notifications sent on the live subscription, not yet taken by the select
          fTo, fNext,  \* running fetchLogsInBatches: endBlock, fromBlock of the next batch
          delivered,   \* sequence of [b |-> block number, logs |-> sequence of log indices]
          faults, act
vars == <<env, head, pc, from, cur, last, tries, pend, fTo, fNext, delivered, faults, act>>
view == <<env, head, pc, from, cur, last, tries, pend, fTo, fNext, delivered, faults>>

Min(a, b) == IF a < b THEN a ELSE b
Valid(k) == CASE k = "one" -> <<0>> [] k = "two" -> <<0, 1>> [] k = "mix" -> <<0, 2>> [] OTHER -> <<>>
AllLogs(k) == CASE k = "one" -> <<0>> [] k = "two" -> <<0, 1>> [] k = "mix" -> <<0, 1, 2>>
                [] k = "rm" -> <<0>> [] OTHER -> <<>>
Emit(k) == IF Weaken = "keepRemoved" THEN AllLogs(k) ELSE Valid(k)

(* PackLogs over the non-removed logs of blocks a..b; an empty batch yields the marker BlockLogs{BlockNumber: b} *)
RECURSIVE PackFrom(_, _)
PackFrom(a, b) == IF a > b THEN <<>>
                  ELSE (IF Len(Emit(env.kind[a])) = 0 THEN <<>> ELSE <<[b |-> a, logs |-> Emit(env.kind[a])]>>)
                       \o PackFrom(a + 1, b)
BatchEntries(a, b) == LET p == PackFrom(a, b) IN IF Len(p) = 0 THEN <<[b |-> b, logs |-> <<>>]>> ELSE p

Subscribed == pc \in {"idle", "fetch"}
FaultKinds == {"rpc", "drop"}     \* JSON-RPC error answer | connection closed under the call

KindFns == IF KindSample = {} THEN {[b \in 1..MaxHead |-> IF b < Start THEN LowKind ELSE f[b]] : f \in [Start..MaxHead -> Kinds]}
           ELSE KindSample
Init == /\ env \in {[kind |-> k, batch |-> bs, follow |-> fd, start |-> Start] : k \in KindFns, bs \in Batches, fd \in Follows}
        /\ head = Head0 /\ pc = IF Hist THEN "hcall" ELSE "outer"
        /\ from = Start /\ cur = 0 /\ last = 0 /\ tries = 0 /\ pend = <<>> /\ fTo = 0 /\ fNext = 0
        /\ delivered = <<>> /\ faults = 0
        /\ act = [name |-> "init", start |-> Start, head0 |-> Head0, hist |-> Hist]

(* a new block: the node's head advances; a live subscription gets a notification *)
NewBlock == /\ head < MaxHead /\ pc # "fatal"
            /\ head' = head + 1
            /\ pend' = IF Subscribed THEN Append(pend, head + 1) ELSE pend
            /\ UNCHANGED <<env, pc, from, cur, last, tries, fTo, fNext, delivered, faults>>
            /\ act' = [name |-> "NewBlock", h |-> head + 1, notified |-> Subscribed]

----------------------------------------------------------------------------
(* historical sync: EventSyncer.SyncHistory(from) -> FetchHistoricalLogs -> fetchLogsInBatches *)
HistCall == /\ pc = "hcall"
            /\ LET nothing == head < env.follow \/ head - env.follow < from      \* ErrNothingToSync
               IN /\ IF nothing THEN pc' = "outer" /\ UNCHANGED <<fTo, fNext>>
                     ELSE pc' = "hist" /\ fTo' = head - env.follow /\ fNext' = from
                  /\ act' = [name |-> "HistCall", from |-> from, nothing |-> nothing, to |-> head - env.follow]
            /\ UNCHANGED <<env, head, from, cur, last, tries, pend, delivered, faults>>
(* eth_blockNumber fails: SyncHistory fails, the node dies and restarts with the same fromBlock *)
HistCallErr == /\ pc = "hcall" /\ faults < MaxFaults /\ faults' = faults + 1
               /\ UNCHANGED <<env, head, pc, from, cur, last, tries, pend, fTo, fNext, delivered>>
               /\ act' = [name |-> "HistCallErr", from |-> from]
HistBatchOK == /\ pc = "hist"
               /\ LET a == fNext
                      b == Min(fNext + env.batch - 1, fTo)
                      es == BatchEntries(a, b)
                      done == b = fTo
                  IN /\ delivered' = delivered \o es
                     /\ IF done THEN /\ pc' = "outer" /\ fTo' = 0 /\ fNext' = 0
                                     /\ from' = es[Len(es)].b + 1            \* lastProcessedBlock + 1 (node.go)
                        ELSE pc' = "hist" /\ fNext' = b + 1 /\ UNCHANGED <<fTo, from>>
                     /\ act' = [name |-> "HistBatchOK", a |-> a, b |-> b, n |-> Len(es), done |-> done]
               /\ UNCHANGED <<env, head, cur, last, tries, pend, faults>>
(* a batch fails: the entries of the earlier batches were processed, the node dies and restarts after them *)
HistBatchErr == /\ pc = "hist" /\ faults < MaxFaults /\ faults' = faults + 1
                /\ \E k \in FaultKinds :
                     act' = [name |-> "HistBatchErr", kind |-> k, a |-> fNext, b |-> Min(fNext + env.batch - 1, fTo)]
                /\ pc' = "hcall" /\ fTo' = 0 /\ fNext' = 0
                /\ from' = IF Len(delivered) > 0 THEN delivered[Len(delivered)].b + 1 ELSE from
                /\ UNCHANGED <<env, head, cur, last, tries, pend, delivered>>

----------------------------------------------------------------------------
(* StreamLogs' handling of a return of streamLogsToChan with an error: tries++, Fatal on the third,
   reset on progress, reconnect, resume *)
Return(ret) ==
    /\ IF tries + 1 > 2
       THEN /\ pc' = "fatal" /\ tries' = tries + 1 /\ UNCHANGED from
       ELSE /\ pc' = "outer"
            /\ tries' = IF ret > from THEN 0 ELSE tries + 1
            /\ from' = IF Algo = "code0" THEN ret + 1 ELSE ret
    /\ cur' = 0 /\ last' = 0 /\ pend' = <<>> /\ fTo' = 0 /\ fNext' = 0

SubscribeOK == /\ pc = "outer"
               /\ pc' = "idle" /\ cur' = from /\ last' = 0 /\ pend' = <<>>
               /\ UNCHANGED <<env, head, from, tries, fTo, fNext, delivered, faults>>
               /\ act' = [name |-> "SubscribeOK", from |-> from]
SubscribeFail == /\ pc = "outer" /\ faults < MaxFaults /\ faults' = faults + 1
                 /\ Return(from)
                 /\ \E k \in FaultKinds : act' = [name |-> "SubscribeFail", kind |-> k, from |-> from]
                 /\ UNCHANGED <<env, head, delivered>>

(* the select takes the oldest pending head notification *)
TakeHead == /\ pc = "idle" /\ Len(pend) > 0
            /\ LET h == Head(pend)
                   off == IF Weaken = "followOffByOne" THEN 1 ELSE 0
                   to == h - env.follow + off
                   ok == h >= env.follow /\ to >= cur
               IN /\ pend' = Tail(pend)
                  /\ IF ok THEN pc' = "fetch" /\ fTo' = to /\ fNext' = cur
                     ELSE UNCHANGED <<pc, fTo, fNext>>
                  /\ act' = [name |-> "TakeHead", h |-> h, fetch |-> ok, a |-> cur, to |-> to]
            /\ UNCHANGED <<env, head, from, cur, last, tries, delivered, faults>>

(* one eth_getLogs answered; its entries are forwarded to the handler.
   n = start of this batch, t = end block of the running fetch, c = the cursor before the batch *)
BatchOKFrom(n, t, c) ==
    LET a == n
        b == Min(n + env.batch - 1, t)
        es == BatchEntries(a, b)
        lastb == es[Len(es)].b
        done == b = t
    IN /\ delivered' = delivered \o es
       /\ last' = IF Algo = "code0" THEN lastb ELSE last
       /\ cur' = IF done THEN t + 1
                 ELSE IF Algo = "code0" \/ Weaken = "noAdvance" THEN c ELSE lastb + 1
       /\ IF done THEN pc' = "idle" /\ fTo' = 0 /\ fNext' = 0
          ELSE pc' = "fetch" /\ fNext' = b + 1 /\ fTo' = t
       /\ act' = [name |-> "BatchOK", a |-> a, b |-> b, n |-> Len(es), done |-> done]
BatchOK == /\ pc = "fetch"
           /\ BatchOKFrom(fNext, fTo, cur)
           /\ UNCHANGED <<env, head, from, tries, pend, faults>>
(* one eth_getLogs fails (the entries of the earlier batches have been forwarded) *)
BatchErrFrom(n, t, c) ==
    /\ faults < MaxFaults /\ faults' = faults + 1
    /\ LET ret == IF Algo = "code0" THEN last
                  ELSE IF Weaken = "skipFailedBatch" THEN Min(n + env.batch, t + 1)
                  ELSE c
       IN /\ Return(ret)
          /\ \E k \in FaultKinds :
               act' = [name |-> "BatchErr", kind |-> k, a |-> n, b |-> Min(n + env.batch - 1, t), ret |-> ret]
    /\ UNCHANGED <<env, head, delivered>>
BatchErr == pc = "fetch" /\ BatchErrFrom(fNext, fTo, cur)
(* subscription error / connection drop while waiting in the select (notifications all taken) *)
SubError == /\ pc = "idle" /\ Len(pend) = 0 /\ faults < MaxFaults /\ faults' = faults + 1
            /\ Return(cur)
            /\ act' = [name |-> "SubError", kind |-> "drop", ret |-> cur]
            /\ UNCHANGED <<env, head, delivered>>

(* NOT in Next: the error channel fires while notifications are still queued; they are dropped *)
SubErrorPending == /\ pc = "idle" /\ faults < MaxFaults /\ faults' = faults + 1
                   /\ Return(cur)
                   /\ act' = [name |-> "SubError", kind |-> "drop", ret |-> cur]
                   /\ UNCHANGED <<env, head, delivered>>
(* NOT in Next: the process died (Fatal, or killed anywhere in the ongoing sync) and the node starts again:
   node.go reads the last processed block from its storage (nothing stored: the configured start) *)
Restart == /\ pc \in {"outer", "idle", "fetch", "fatal"}
           /\ pc' = IF Hist THEN "hcall" ELSE "outer"
           /\ from' = IF Len(delivered) > 0 THEN delivered[Len(delivered)].b + 1 ELSE env.start
           /\ tries' = 0 /\ cur' = 0 /\ last' = 0 /\ pend' = <<>> /\ fTo' = 0 /\ fNext' = 0
           /\ UNCHANGED <<env, head, delivered, faults>>
           /\ act' = [name |-> "Restart", from |-> from']

Next == NewBlock \/ HistCall \/ HistCallErr \/ HistBatchOK \/ HistBatchErr
        \/ SubscribeOK \/ SubscribeFail \/ TakeHead \/ BatchOK \/ BatchErr \/ SubError
Spec == Init /\ [][Next]_vars
NextR == Next \/ SubErrorPending \/ Restart
SpecR == Init /\ [][NextR]_vars

----------------------------------------------------------------------------
HasLogs(b) == Len(Valid(env.kind[b])) > 0
DeliveredBlocks == {delivered[i].b : i \in 1..Len(delivered)}

TypeOK == /\ head \in Head0..MaxHead /\ pc \in {"hcall", "hist", "outer", "idle", "fetch", "fatal"}
          /\ tries \in 0..3 /\ faults \in 0..MaxFaults /\ from >= 1
          /\ (pc = "fatal") = (tries = 3)
          /\ \A i \in 1..Len(delivered) : delivered[i].b \in 1..MaxHead
          /\ pc \in {"fetch", "hist"} => (fNext <= fTo /\ fTo <= head)

(* the stream handed to the event handler has strictly increasing block numbers (markers included:
   the handler refuses any entry whose number is not above the last processed one) *)
StrictlyIncreasing == \A i \in 1..(Len(delivered) - 1) : delivered[i].b < delivered[i + 1].b
ExactlyOnce == \A i, j \in 1..Len(delivered) : i # j => delivered[i].b # delivered[j].b
NoRewind == \A i \in 1..Len(delivered) : delivered[i].b >= env.start
(* an entry carries exactly the block's non-removed logs, in order; a marker only for a block without any *)
PerBlockComplete == \A i \in 1..Len(delivered) : delivered[i].logs = Valid(env.kind[delivered[i].b])
(* when an entry is handed over, every earlier block >= Start that has logs has been handed over before it *)
NoGapDelivered == \A i \in 1..Len(delivered) : \A b \in env.start..(delivered[i].b - 1) :
                     HasLogs(b) => \E j \in 1..(i - 1) : delivered[j].b = b
(* nothing below the client's cursor is missing *)
Cursor == IF Subscribed THEN cur ELSE from
NoGapCursor == \A b \in env.start..(Cursor - 1) : HasLogs(b) => b \in DeliveredBlocks
(* only finalized-enough blocks are delivered *)
FollowRespected == \A i \in 1..Len(delivered) : delivered[i].b + env.follow <= head
(* after a completed fetch the stream is complete up to the cursor and the cursor is past every delivered entry *)
CursorAhead == Subscribed => \A i \in 1..Len(delivered) : delivered[i].b < cur
=============================================================================
