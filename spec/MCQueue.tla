------------------------------ MODULE MCQueue ------------------------------
EXTENDS Queue
C(k, rel, rnd, ct, dec) == [k |-> k, rel |-> rel, rnd |-> rnd, ct |-> ct, dec |-> dec]
Exec      == C("exec", -1, 0, "none", FALSE)
TimeoutE  == C("timeout", -1, 0, "none", FALSE)
PropCur   == C("cons", 0, 0, "proposal", FALSE)
PrepCur   == C("cons", 0, 0, "prepare", FALSE)
CommCur   == C("cons", 0, 0, "commit", FALSE)
RcNext    == C("cons", 0, 1, "rc", FALSE)
PrepOld   == C("cons", 0, -1, "prepare", FALSE)
DecHigh   == C("cons", 1, 0, "commit", TRUE)
PrepHigh  == C("cons", 1, 0, "prepare", FALSE)
CommLow   == C("cons", -1, 0, "commit", FALSE)
DecLow    == C("cons", -1, 0, "commit", TRUE)
PrepLow   == C("cons", -1, 0, "prepare", FALSE)
PreCur    == C("pre", 0, 0, "none", FALSE)
PostCur   == C("post", 0, 0, "none", FALSE)
PostLow   == C("post", -1, 0, "none", FALSE)
PreHigh   == C("pre", 1, 0, "none", FALSE)
ClassesSmall == {Exec, TimeoutE, PrepCur, CommLow}
ClassesTiny  == {TimeoutE, PrepCur, CommLow}
ClassesMid   == {Exec, TimeoutE, PropCur, PrepCur, RcNext, DecHigh, CommLow, PostCur}
ClassesAll   == {Exec, TimeoutE, PropCur, PrepCur, CommCur, RcNext, PrepOld, DecHigh, PrepHigh, CommLow, DecLow,
                 PrepLow, PreCur, PostCur, PostLow, PreHigh}
=============================================================================
