SPECIFICATION Spec
CONSTANTS
  Roles <- MCRolesProp
  PreRoles <- MCPre
  NoQueueRoles <- MCNoQ
  Alphabet <- AlphaObsPre
  MaxH = 2
  MaxR = 2
  Cap = 2
  MaxPush = 2
  MaxFire = 0
  MaxStop = 0
  MaxExt = 1
  Q = 3
  SeqHarness = TRUE
  FineRead = FALSE
  FastPop = FALSE
  ExternalStart = FALSE
  AdvTimer = FALSE
  PrioDecided = "gt"
INVARIANT P2x_NoConsWithoutInstance
