SPECIFICATION Spec
CONSTANTS
  N = 4
  F = 1
  Byz = {4}
  Values = {"a", "b"}
  BadValues = {"bad"}
  MaxRound = 4
  LeaderOffset = 0
  StartValue <- SV
  Weaken = "none"
  ByzBudget = 8
  ByzActs <- AllActs
  Macro = FALSE
INVARIANT Agreement
INVARIANT CertValid
