SPECIFICATION Spec
CONSTANTS
  Roles <- MCRolesAtt
  PreRoles <- MCPre
  NoQueueRoles <- MCNoQ
  Alphabet <- AlphaObsHeld
  MaxH = 2
  MaxR = 2
  Cap = 2
  MaxPush = 2
  MaxFire = 0
  MaxStop = 0
  MaxExt = 1
  Q = 3
  SeqHarness = TRUE
  FineRead = FALSE
  FastPop = FALSE
  ExternalStart = FALSE
  AdvTimer = FALSE
  PrioDecided = "gt"
INVARIANT P9x_DecidedNotHeld
