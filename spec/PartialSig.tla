----------------------------- MODULE PartialSig -----------------------------
(* protocol/v2/ssv/runner: collection of partial (share) signatures for the decided duty objects and
   their submission to the beacon node.

     BaseRunner.basePartialSigMsgProcessing   (runner.go)            -> Store
     BaseRunner.resolveDuplicateSignature     (runner_signatures.go) -> Store, branch have # "none"
     PartialSigContainer.{AddSignature,HasSigner,HasQuorum,Remove}   (ssv-spec v0.3.7)
     types.ReconstructSignature + VerifyReconstructedSignature (types/crypto.go) -> Valid
     BaseRunner.FallBackAndVerifyEachSignature (runner_validations.go) -> Evict
     <Role>Runner.ProcessPostConsensus / ProcessPreConsensus (loop over the roots that reached quorum
        *with this message*, submission, State.Finished)                -> Loop
     ValidatePostConsensusMsg / ValidatePreConsensusMsg / validatePartialSigMsgForSlot /
        verifyExpectedRoot (whole message refused)                      -> Refused

   One action = one call of ProcessPostConsensus (ProcessPreConsensus for the duties without consensus)
   with one SignedPartialSignatureMessage; the runner is single threaded.  The model starts when the
   duty's instance has decided (DESIGN C05 scope note: earlier post-consensus messages are refused and
   stored nowhere; that step is part of spec Runner).

   A message carries one partial signature per expected root (R roots; 1 for every duty except the
   sync-committee contribution, which has one root per subcommittee), in an order chosen by the sender.
   kinds[r] = "good": the signer's share signature over root r verifies; "bad": it does not.

   Algo = "code"    : the role loop as written at the pinned commit: the roots that reached quorum with
                      this message are processed in message order; the first root whose reconstructed
                      signature does not verify evicts the bad shares of all those roots and RETURNS;
                      State.Finished is set when the loop ends.  For R > 1 a later root of the same
                      message has then used up its quorum edge (named deviation, see C05 finding).
   Algo = "perroot" : every root is handled on its own; Finished when every root was submitted.
   For R = 1 both coincide.

   Bound to the code in both directions: TLC behaviours are replayed on the real runners (harness/cmd/partialsig
   -mode replay), and executions recorded from the real runners are validated by PartialSigTrace (-mode record).
   act.err is the error class the call returns: "refused" (Validate*ConsensusMsg), "invalid" (quorum reached
   but a reconstructed signature did not verify: fallback, nothing submitted by this call after that), "none". *)
EXTENDS Integers, Sequences, FiniteSets, TLC

CONSTANTS N,           \* committee size 3f+1
          R,           \* number of expected roots
          FaultySets,  \* the sets of faulty committee members to consider (each of size <= f)
          MaxHonest,   \* messages sent by a correct member (2 = one retransmission)
          MaxFaulty,   \* messages sent by a faulty member
          Foreign,     \* TRUE: a non-member (id N+1) may send too
          Orders,      \* set of root orders (sequences over 1..R) a faulty sender may use
          Algo,        \* "code" | "perroot"
          Weaken       \* set of removed guards: "noVerifyReconstructed","noEvict","edgeEveryTime","noFinished"

VARIABLES faulty,      \* the faulty members of this behaviour
          have,        \* [root -> [signer -> "none"|"good"|"bad"]]  the container
          sub,         \* [root -> 0..2] number of Submit* calls for the object of that root
          invalidSub,  \* a Submit* call was made with a signature that does not verify
          finished,    \* State.Finished
          delivered,   \* [root -> set of signers whose correct partial signature was handed to the runner]
          sent,        \* [sender -> number of messages sent]
          act
vars == <<faulty, have, sub, invalidSub, finished, delivered, sent, act>>
view == <<faulty, have, sub, invalidSub, finished, delivered, sent>>

F == (N - 1) \div 3
Q == 2 * F + 1
Signers == 1..N
Roots == 1..R
Senders == IF Foreign THEN 1..(N + 1) ELSE Signers
IdOrder == [k \in Roots |-> k]
Kinds == {"good", "bad"}
(* message classes.  Everything but "ok" is refused as a whole by Validate{Post,Pre}ConsensusMsg:
     wrongRoot      one of the signing roots is not an expected one            (verifyExpectedRoot)
     wrongSlot      Message.Slot is not the duty's slot                        (validatePartialSigMsgForSlot)
     badCount       more or fewer partial signatures than expected roots       (verifyExpectedRoot)
     signerMismatch a partial signature names another signer than the envelope (SignedPartialSignatureMessage.Validate)
     dupRoot        right count, one expected root twice and another missing   (verifyExpectedRoot, R >= 2 only)
     foreign        the envelope's signer is no committee member (sender N+1)  (validatePartialSigMsgForSlot)        *)
Classes == {"ok", "wrongRoot", "wrongSlot", "badCount", "signerMismatch"} \cup (IF R >= 2 THEN {"dupRoot"} ELSE {})
AllGoodKinds == [r \in Roots |-> "good"]
AllBadKinds == [r \in Roots |-> "bad"]
W(g) == g \in Weaken

Held(h, r) == Cardinality({s \in DOMAIN h[r] : h[r][s] # "none"})
AllGood(h, r) == \A s \in DOMAIN h[r] : h[r][s] # "bad"
(* ReconstructSignature: Lagrange interpolation over ALL held shares, then verification under the
   validator key: it verifies iff every held share is correct *)
Valid(h, r) == AllGood(h, r) \/ W("noVerifyReconstructed")
(* FallBackAndVerifyEachSignature *)
Evict(h, rs) == IF W("noEvict") THEN h
                ELSE [r \in Roots |-> IF r \in rs THEN [s \in DOMAIN h[r] |-> IF h[r][s] = "bad" THEN "none" ELSE h[r][s]]
                                      ELSE h[r]]
SetOf(q) == {q[k] : k \in 1..Len(q)}

(* basePartialSigMsgProcessing: returns <<container, roots that reached quorum with this message>> *)
RECURSIVE Store(_, _, _, _, _, _)
Store(h, s, kinds, ord, k, edges) ==
    IF k > Len(ord) THEN <<h, edges>>
    ELSE LET r == ord[k]
             prevQ == Held(h, r) >= Q
             nv == IF h[r][s] = "none" THEN kinds[r]                 \* AddSignature
                   ELSE IF h[r][s] = "good" THEN "good"              \* resolveDuplicateSignature: keep the valid one
                   ELSE IF kinds[r] = "good" THEN "good" ELSE "none" \* stored one invalid: removed; new one kept iff valid
             h2 == [h EXCEPT ![r][s] = nv]
             hasQ == Held(h2, r) >= Q
             edge == hasQ /\ (~prevQ \/ W("edgeEveryTime"))
         IN Store(h2, s, kinds, ord, k + 1, IF edge THEN Append(edges, r) ELSE edges)

Inc(x) == IF x >= 2 THEN 2 ELSE x + 1

(* the role loop; result <<have, sub, finished, invalidSub, some root did not reconstruct (the call returns
   "got ... quorum but it has invalid signatures")>> *)
RECURSIVE LoopCode(_, _, _, _, _)
LoopCode(h, sb, inv, edges, k) ==
    IF k > Len(edges) THEN <<h, sb, TRUE, inv, FALSE>>
    ELSE LET r == edges[k] IN
         IF Valid(h, r) THEN LoopCode(h, [sb EXCEPT ![r] = Inc(@)], inv \/ ~AllGood(h, r), edges, k + 1)
         ELSE <<Evict(h, SetOf(edges)), sb, FALSE, inv, TRUE>>

RECURSIVE LoopPerRoot(_, _, _, _, _, _)
LoopPerRoot(h, sb, inv, edges, k, ev) ==
    IF k > Len(edges) THEN <<h, sb, \A r \in Roots : sb[r] >= 1, inv, ev>>
    ELSE LET r == edges[k] IN
         IF Valid(h, r)
         THEN LoopPerRoot(h, IF sb[r] = 0 \/ W("edgeEveryTime") THEN [sb EXCEPT ![r] = Inc(@)] ELSE sb,
                          inv \/ ~AllGood(h, r), edges, k + 1, ev)
         ELSE LoopPerRoot(Evict(h, {r}), sb, inv, edges, k + 1, TRUE)

Loop(h, sb, inv, edges) == IF Algo = "code" THEN LoopCode(h, sb, inv, edges, 1) ELSE LoopPerRoot(h, sb, inv, edges, 1, FALSE)

----------------------------------------------------------------------------
Init == /\ faulty \in FaultySets
        /\ have = [r \in Roots |-> [s \in Signers |-> "none"]]
        /\ sub = [r \in Roots |-> 0]
        /\ invalidSub = FALSE
        /\ finished = FALSE
        /\ delivered = [r \in Roots |-> {}]
        /\ sent = [s \in Senders |-> 0]
        /\ act = [name |-> "init"]

(* the messages sender s may produce *)
Msgs(s) ==
    IF s \notin Signers THEN {[kinds |-> AllGoodKinds, ord |-> IdOrder, cls |-> "foreign"]}
    ELSE IF s \notin faulty THEN {[kinds |-> AllGoodKinds, ord |-> IdOrder, cls |-> "ok"]}
    ELSE {[kinds |-> kd, ord |-> o, cls |-> "ok"] : kd \in [Roots -> Kinds], o \in Orders}
         \cup {[kinds |-> AllGoodKinds, ord |-> IdOrder, cls |-> c] : c \in Classes \ {"ok"}}

Recv(s, m) ==
    /\ sent[s] < (IF s \in Signers /\ s \notin faulty THEN MaxHonest ELSE MaxFaulty)
    /\ sent' = [sent EXCEPT ![s] = @ + 1]
    /\ delivered' = IF m.cls = "ok"
                    THEN [r \in Roots |-> IF m.kinds[r] = "good" THEN delivered[r] \cup {s} ELSE delivered[r]]
                    ELSE delivered
    /\ UNCHANGED faulty
    /\ IF (finished /\ ~W("noFinished")) \/ m.cls # "ok"
       THEN /\ UNCHANGED <<have, sub, invalidSub, finished>>                  \* whole message refused
            /\ act' = [name |-> "Recv", s |-> s, kinds |-> m.kinds, ord |-> m.ord, cls |-> m.cls, refused |-> TRUE, edges |-> <<>>,
                        err |-> "refused"]
       ELSE LET st == Store(have, s, m.kinds, m.ord, 1, <<>>)
                lp == IF st[2] = <<>> THEN <<st[1], sub, finished, invalidSub, FALSE>> ELSE Loop(st[1], sub, invalidSub, st[2])
            IN /\ have' = lp[1] /\ sub' = lp[2] /\ finished' = (finished \/ lp[3]) /\ invalidSub' = lp[4]
               /\ act' = [name |-> "Recv", s |-> s, kinds |-> m.kinds, ord |-> m.ord, cls |-> m.cls, refused |-> FALSE, edges |-> st[2],
                           err |-> IF lp[5] THEN "invalid" ELSE "none"]   \* the error class ProcessPostConsensus returns

Next == \E s \in Senders : \E m \in Msgs(s) : Recv(s, m)
Spec == Init /\ [][Next]_vars

----------------------------------------------------------------------------
TypeOK == /\ faulty \subseteq Signers /\ Cardinality(faulty) <= F
          /\ \A r \in Roots : \A s \in Signers : have[r][s] \in {"none", "good", "bad"}
          /\ \A r \in Roots : sub[r] \in 0..2
(* a submission is made only with a signature that verifies, i.e. from >= quorum shares that are all correct *)
SubmittedValid == ~invalidSub
(* each decided object is submitted at most once *)
AtMostOnce == \A r \in Roots : sub[r] <= 1
(* once 2f+1 correct partial signatures of distinct members were handed to the runner for a root, its object was submitted *)
NotPrevented == \A r \in Roots : Cardinality(delivered[r]) >= Q => sub[r] >= 1
=============================================================================
