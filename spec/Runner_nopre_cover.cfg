SPECIFICATION Spec
CONSTANTS
  HasPre = FALSE
  MaxSlot = 2
  MaxSig = 3
  Cap = 2
  Vals <- AllVals
  Quorums <- AllQuorums
  PrevDec = "code"
  Weaken <- NoWeaken
INVARIANT TypeOK
INVARIANT SigWindow
