SPECIFICATION Spec
CONSTANTS
  HasPre = FALSE
  MaxSlot = 2
  MaxSig = 3
  Weaken <- NoWeaken
INVARIANT TypeOK
INVARIANT SigWindow
