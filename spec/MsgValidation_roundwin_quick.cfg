SPECIFICATION SpecD
CONSTANTS
  N = 4
  Alphabet <- AlphaRoundWin
  Times <- TimesRoundWinQuick
  MaxAccepts = 0
  ForkEpoch <- ForkNever
  PartialWindow = FALSE
  OverflowGuard = FALSE
  Weaken = "none"
  KnownGaps = {"partial-sig-outside-slot-window", "slot-time-overflow"}
PROPERTY Total
PROPERTY AcceptSound
PROPERTY ClockRobust
INVARIANT StateSound
VIEW view
