SPECIFICATION CSpec
CONSTANTS
  N = 4
  Alphabet <- AlphaConc
  Times <- TimesOne
  MaxAccepts = 8
  ForkEpoch <- ForkNever
  PartialWindow = FALSE
  OverflowGuard = FALSE
  Weaken = "lockNotExclusive"
  KnownGaps = {"partial-sig-outside-slot-window", "slot-time-overflow"}
  CallSeq <- CallsAPQ
PROPERTY CommitSound
