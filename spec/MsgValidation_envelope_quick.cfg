SPECIFICATION SpecD
CONSTANTS
  N = 4
  Alphabet <- AlphaEnvelope
  Times <- TimesEnvelope
  MaxAccepts = 1
  ForkEpoch <- ForkAtZero
  PartialWindow = FALSE
  OverflowGuard = FALSE
  Weaken = "none"
  KnownGaps = {"partial-sig-outside-slot-window", "slot-time-overflow"}
PROPERTY Total
PROPERTY AcceptSound
INVARIANT StateSound
VIEW view
