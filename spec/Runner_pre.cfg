SPECIFICATION Spec
CONSTANTS
  HasPre = TRUE
  MaxSlot = 3
  MaxSig = 4
  Weaken <- NoWeaken
INVARIANT TypeOK
INVARIANT SigWindow
VIEW view
