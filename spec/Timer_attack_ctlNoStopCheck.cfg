SPECIFICATION Spec
CONSTANTS
  Params <- NoParams
  MaxRound = 1
  Horizon = 0
  MaxNow = 0
  Sched = "any"
  Weakens = {"ctlNoStopCheck"}
  Parts = {"ctl"}
  Heights = {0, 1, 2}
  MaxCRound = 3
  Cutoff = 4
  InstCap = 2
INVARIANT StaleNoChange
