SPECIFICATION Spec
CONSTANTS
  Owners <- MCOwners
  Validators <- MCValidators
  OpIds <- MCOpIds
  Alphabet <- AlphaMid
  Setups <- SetupsCover
  MaxEvents = 3
  MaxBlocks = 3
  MaxFaults = 1
  Grain = "event"
  Weaken = "none"
  Stale = FALSE
  ReadFaults = FALSE
INVARIANT DbMatchesRules
INVARIANT KeysMatchRules
INVARIANT MemMatchesDb
INVARIANT LastBlockRight
INVARIANT OwnStable
INVARIANT ExitOnlyByOwner
INVARIANT TypeOK
VIEW view
