SPECIFICATION Spec
CONSTANTS
  Owners <- MCOwners
  Validators <- MCValidators
  Comms <- MCComms
  Mine <- MCMine
  Alphabet <- AlphaSmall
  MaxEvents = 3
  MaxBlock = 3
  MaxMeta = 2
  MaxRestarts = 1
  MetaAnywhere = FALSE
  SplitStart = TRUE
INVARIANT TypeOK
INVARIANT L1a_NoneMissing
INVARIANT L3a_MemIsDb
PROPERTY L3b_StartFromStorage
INVARIANT L4_FeeIsStored
PROPERTY L5a_ExitOnlyOwnStored
INVARIANT L6_TasksOnlyInBlock
VIEW view
