SPECIFICATION FairSpec
CONSTANTS
  Roles <- MCRolesAtt
  PreRoles <- MCPre
  NoQueueRoles <- MCNoQ
  Alphabet <- AlphaObsStranded
  MaxH = 2
  MaxR = 2
  Cap = 2
  MaxPush = 6
  MaxFire = 0
  MaxStop = 0
  MaxExt = 1
  Q = 3
  SeqHarness = TRUE
  FineRead = FALSE
  FastPop = FALSE
  ExternalStart = FALSE
  AdvTimer = FALSE
  PrioDecided = "gt"
PROPERTY P3x_AllPopped
ACTION_CONSTRAINT ScriptOK_Stranded
