SPECIFICATION Spec
CONSTANTS
  Classes <- ClassesSmall
  MaxMsgs = 3
  Cap = 2
  Algo = "fixed"
  SeqHarness = FALSE
  Blocking = TRUE
INVARIANT Conservation
INVARIANT Admitted
INVARIANT LenOK
INVARIANT WaitingSound
PROPERTY Responsive
PROPERTY NoDiscard
VIEW view
