------------------------------- MODULE Timer -------------------------------
(* C17 - round timeouts: once per arming, never early, never for stale rounds.

   The module has two halves that share no action; Init picks one (part \in Parts).

   part = "timer": protocol/v2/qbft/roundtimer/timer.go (RoundTimer).
     TimeoutForRound(h, r)  ->  Arm(r): atomic store round := r, deadline := RoundTimeout(h, r), a NEW
                                time.Timer and a NEW goroutine waitForRound(r, timer.C) per arming (the field
                                t.timer is never assigned, so no earlier timer is ever stopped).
     waitForRound           ->  Expire(w): the waiter wakes when its own timer is due and calls back iff the
                                atomic round still equals its round; Drop(w): it leaves through ctx.Done().
                                When both channels are ready Go's select takes either one, so Expire stays
                                enabled after Cancel for a waiter that is already due.
     parent ctx cancelled   ->  Cancel.
     time                   ->  Advance (one unit).  Sched = "any": a due waiter may wake arbitrarily late
                                (goroutine scheduling).  Sched = "prompt" is the schedule restriction a
                                real-time harness can force: due / cancelled waiters run before the clock moves,
                                the environment acts at odd instants (at most once per instant) while all
                                deadlines fall on even instants.
     RoundTimeout is transcribed in CodeDeadline; RefDeadline is the property's reference deadline
     (slot start + role base + cumulative allowance; for the remaining roles the allowance counts from the
     arming itself, as the code defines it).

   part = "ctl": protocol/v2/qbft/controller/timer.go (Controller.OnTimeout) over the instance summary
     (round, decided, force-stopped) of every stored height, with the three ways a round changes
     (UponRoundTimeout, partial round-change quorum, decided message), StartNewInstance and the
     InstanceContainer's capacity (only the InstCap = 2 highest heights stay stored).  Code quirks kept as they
     are: a timeout for a LATER round than the instance's also moves it on by one; a decided message of a future
     height moves Controller.Height without force-stopping the running instance, whose timeouts stay live;
     past instance.CutoffRound nothing is processed.

   wk \in Weakens (chosen in Init) removes ONE guard (attack configs; {"none"} is the faithful spec):
     noRoundCheckOnWake, deadlineFromNowNotSlotStart, quickThresholdOffByOne, cancelIgnored, tickerNotTimer,
     ctlNoRoundCheck, ctlNoDecidedCheck, ctlNoStopCheck.                                                   *)
EXTENDS Integers, Sequences, FiniteSets, TLC

CONSTANTS Params,     \* set of [role, slot, quick, slow, thr, start]; role \in {"third", "twothirds", "flat"}
          MaxRound,   \* timer rounds 1..MaxRound
          Horizon,    \* the environment arms / cancels only while now < Horizon
          MaxNow,     \* the clock stops here
          Sched,      \* "any" | "prompt"
          Weakens,    \* set of guard removals to explore (chosen in Init); {"none"} = the faithful spec
          Parts,      \* subset of {"timer", "ctl"}: which half (chosen in Init; the halves share no action)
          Heights,    \* ctl: heights
          MaxCRound,  \* ctl: instance rounds 1..MaxCRound
          Cutoff,     \* ctl: instance.CutoffRound
          InstCap     \* ctl: controller.InstanceContainerDefaultCapacity (2): only the InstCap highest heights stay stored

VARIABLES part,       \* "timer" | "ctl"
          wk,         \* the ONE guard this behaviour runs without ("none": faithful)
          p,          \* parameters of this timer (role class, slot duration, allowances, slot start)
          now,        \* clock
          armed,      \* RoundTimer.round (atomic); 0 = never armed
          pending,    \* waiters: one per arming, never removed by a later arming
          cancelled, cancelAt,
          fired,      \* callbacks so far, in order, each with what the monitors need
          lastAct,    \* instant of the last environment action (prompt schedule only)
          cH,         \* ctl: Controller.Height
          inst,       \* ctl: height -> [st, round, decided, stopped]
          rcs,        \* ctl: round-change messages broadcast so far
          tarm,       \* ctl: the instance's timer as seen by the instance: [n |-> armings, round |-> last round]
          cbad,       \* ctl: monitor flag, "" or what the last offending OnTimeout did (a state variable, so that TLC
                      \*      checks it on every transition even under a VIEW)
          act
tvars == <<part, wk, p, now, armed, pending, cancelled, cancelAt, fired, lastAct>>
cvars == <<cH, inst, rcs, tarm>>
vars == <<tvars, cvars, cbad, act>>
view == <<tvars, cvars, cbad>>

Rounds == 1..MaxRound

----------------------------------------------------------------------------
(* RoundTimer.RoundTimeout, line by line.  t is the instant of the call (time.Until / the implicit "from now"
   of the default branch).  Integer division as in Go: SlotDurationSec()/3 and SlotDurationSec()/3*2. *)
Base(q) == CASE q.role = "third" -> q.slot \div 3
             [] q.role = "twothirds" -> (q.slot \div 3) * 2
             [] OTHER -> 0
Additional(q, r, thr) == IF r <= thr THEN r * q.quick
                         ELSE thr * q.quick + (r - thr) * q.slow
Deadline(q, r, t, thr, fromNow) ==
    IF q.role = "flat"
    THEN t + (IF r <= thr THEN q.quick ELSE q.slow)
    ELSE (IF fromNow THEN t ELSE q.start) + Base(q) + Additional(q, r, thr)

RefDeadline(q, r, t) == Deadline(q, r, t, q.thr, FALSE)
CodeDeadline(q, r, t) ==
    Deadline(q, r, t, IF wk = "quickThresholdOffByOne" THEN q.thr + 1 ELSE q.thr,
             wk = "deadlineFromNowNotSlotStart")

----------------------------------------------------------------------------
NoInst == [st |-> "none", round |-> 0, decided |-> FALSE, stopped |-> FALSE]

CtlWeakens == {"ctlNoRoundCheck", "ctlNoDecidedCheck", "ctlNoStopCheck"}
Init == /\ part \in Parts
        /\ wk \in {x \in Weakens : x = "none" \/ ((x \in CtlWeakens) <=> (part = "ctl"))}
        /\ p \in (IF part = "timer" THEN Params ELSE {CHOOSE q \in Params : TRUE})
        /\ now = 0 /\ armed = 0 /\ pending = {} /\ cancelled = FALSE /\ cancelAt = -1
        /\ fired = <<>> /\ lastAct = -1
        /\ cH = 0 /\ inst = [h \in Heights |-> NoInst] /\ rcs = 0 /\ tarm = [n |-> 0, round |-> 0] /\ cbad = ""
        /\ act = [name |-> "init", part |-> part, p |-> p, cutoff |-> Cutoff, weaken |-> wk]

Due(t) == {w \in pending : w.due <= t}

EnvMay == /\ part = "timer" /\ ~cancelled /\ now < Horizon
          /\ (Sched = "prompt" => now % 2 = 1 /\ lastAct < now /\ Due(now) = {})

(* TimeoutForRound(h, r) at instant t.  Within one instance rounds strictly increase (premise of C17). *)
DoArm(r, t) ==
    /\ r \in Rounds /\ r > armed
    /\ armed' = r
    /\ pending' = {[w EXCEPT !.sup = w.sup \/ t < w.ref] : w \in pending}
                  \cup {[round |-> r, due |-> CodeDeadline(p, r, t), ref |-> RefDeadline(p, r, t), sup |-> FALSE]}
    /\ act' = [name |-> "Arm", r |-> r, at |-> t]
    /\ UNCHANGED <<part, wk, p, cancelled, cancelAt, fired, cvars, cbad>>

(* the waiter's timer channel is ready at instant t and the select takes it *)
DoExpire(w, t) ==
    /\ w \in pending /\ t >= w.due
    /\ Len(fired) <= MaxRound + 1
    /\ LET calls == (armed = w.round \/ wk = "noRoundCheckOnWake") IN
       /\ pending' = IF wk = "tickerNotTimer" /\ calls THEN pending ELSE pending \ {w}
       /\ fired' = IF calls
                   THEN Append(fired, [round |-> w.round, early |-> t < w.ref, stale |-> armed # w.round,
                                       sup |-> w.sup, afterCancel |-> cancelled /\ cancelAt < w.due])
                   ELSE fired
       /\ act' = [name |-> "Expire", r |-> w.round, cb |-> calls, at |-> t]
    /\ UNCHANGED <<part, wk, p, armed, cancelled, cancelAt, cvars, cbad>>

(* ctx.Done() wins the select *)
DoDrop(w) ==
    /\ cancelled /\ wk # "cancelIgnored" /\ w \in pending
    /\ pending' = pending \ {w}
    /\ act' = [name |-> "Drop", r |-> w.round]
    /\ UNCHANGED <<part, wk, p, armed, cancelled, cancelAt, fired, cvars, cbad>>

DoCancel(t) ==
    /\ ~cancelled
    /\ cancelled' = TRUE /\ cancelAt' = t
    /\ act' = [name |-> "Cancel", at |-> t]
    /\ UNCHANGED <<part, wk, p, armed, pending, fired, cvars, cbad>>

Stamp == lastAct' = IF Sched = "prompt" THEN now ELSE lastAct
Arm(r) == EnvMay /\ DoArm(r, now) /\ Stamp /\ UNCHANGED now
Cancel == EnvMay /\ DoCancel(now) /\ Stamp /\ UNCHANGED now
Expire(w) == part = "timer" /\ DoExpire(w, now) /\ UNCHANGED <<now, lastAct>>
Drop(w) == part = "timer" /\ DoDrop(w) /\ UNCHANGED <<now, lastAct>>
Advance ==
    /\ part = "timer" /\ now < MaxNow
    /\ (now < Horizon \/ pending # {})
    /\ (Sched = "prompt" => /\ Due(now) = {}
                            /\ ~(cancelled /\ wk # "cancelIgnored" /\ pending # {}))
    /\ now' = now + 1
    /\ act' = [name |-> "Advance", to |-> now + 1]
    /\ UNCHANGED <<part, wk, p, armed, pending, cancelled, cancelAt, fired, lastAct, cvars, cbad>>

----------------------------------------------------------------------------
(* controller half *)
Running(i) == i.st = "run" /\ ~i.decided /\ ~i.stopped

(* InstanceContainer.addNewInstance keeps the container sorted by height and holds at most InstCap instances: the
   lowest one is ejected, and an instance lower than all of a full container is not stored at all *)
Stored == {x \in Heights : inst[x].st # "none"}
Kept(S) == {x \in S : Cardinality({y \in S : y > x}) < InstCap}

(* StartNewInstance(h): refuses past heights and stored heights; force-stops every other stored instance;
   Instance.Start arms round 1 *)
CStart(h) ==
    /\ part = "ctl" /\ h \in Heights /\ h >= cH /\ inst[h].st = "none"
    /\ cH' = h
    /\ inst' = [x \in Heights |-> IF x = h THEN [st |-> "run", round |-> 1, decided |-> FALSE, stopped |-> FALSE]
                                  ELSE IF x \in Kept(Stored \cup {h}) THEN [inst[x] EXCEPT !.stopped = TRUE]
                                  ELSE NoInst]
    /\ tarm' = [n |-> tarm.n + 1, round |-> 1]
    /\ act' = [name |-> "CStart", h |-> h]
    /\ UNCHANGED <<rcs, tvars, cbad>>

(* f+1 round-change messages for round r > State.Round: uponChangeRoundPartialQuorum bumps the round and arms the
   timer first; its round-change broadcast is refused once the new round reached instance.CutoffRound *)
CBump(r) ==
    /\ part = "ctl" /\ Running(inst[cH]) /\ r \in 1..MaxCRound /\ r > inst[cH].round
    /\ inst' = [inst EXCEPT ![cH].round = r]
    /\ rcs' = IF r < Cutoff THEN rcs + 1 ELSE rcs
    /\ tarm' = [n |-> tarm.n + 1, round |-> r]
    /\ act' = [name |-> "CBump", h |-> cH, r |-> r]
    /\ UNCHANGED <<cH, tvars, cbad>>

(* UponDecided with a quorum certificate of round r for height h (stored or not): the instance becomes decided
   with State.Round = r; a certificate of a future height moves Controller.Height WITHOUT force-stopping
   the instances already stored *)
CDecide(h, r) ==
    /\ part = "ctl" /\ h \in Heights /\ r \in 1..MaxCRound /\ ~inst[h].decided
    /\ LET dec == [st |-> "run", round |-> r, decided |-> TRUE, stopped |-> inst[h].stopped]
           keep == Kept(Stored \cup {h})
       IN inst' = IF inst[h].st # "none" THEN [inst EXCEPT ![h] = dec]
                  ELSE IF h \in keep THEN [x \in Heights |-> IF x = h THEN dec ELSE IF x \in keep THEN inst[x] ELSE NoInst]
                  ELSE inst
    /\ cH' = IF h > cH THEN h ELSE cH
    /\ act' = [name |-> "CDecide", h |-> h, r |-> r]
    /\ UNCHANGED <<rcs, tarm, tvars, cbad>>

(* Controller.OnTimeout, check by check, then Instance.UponRoundTimeout *)
TimeoutRes(h, r) ==
    LET i == inst[h] IN
    IF i.st = "none" THEN "nil"
    ELSE IF r < i.round /\ wk # "ctlNoRoundCheck" THEN "old"
    ELSE IF i.decided /\ wk # "ctlNoDecidedCheck" THEN "decided"
    ELSE IF (i.stopped \/ i.round >= Cutoff) /\ wk # "ctlNoStopCheck" THEN "stopped"
    ELSE "bumped"
Stale(h, r) == inst[h].st = "none" \/ inst[h].stopped \/ inst[h].decided \/ r < inst[h].round

COnTimeout(h, r) ==
    /\ part = "ctl" /\ h \in Heights /\ r \in 1..MaxCRound
    /\ LET res == TimeoutRes(h, r) IN
       /\ act' = [name |-> "COnTimeout", h |-> h, r |-> r, res |-> res, stale |-> Stale(h, r)]
       /\ IF res = "bumped"
          THEN /\ inst[h].round < MaxCRound
               /\ inst' = [inst EXCEPT ![h].round = @ + 1]
               /\ rcs' = rcs + 1
               /\ tarm' = [n |-> tarm.n + 1, round |-> inst[h].round + 1]
               /\ UNCHANGED cH
          ELSE UNCHANGED cvars
    /\ cbad' = IF Stale(h, r) /\ cvars' # cvars THEN "stale-changed"
               ELSE IF ~Stale(h, r) /\ inst[h].round < Cutoff
                       /\ ~(inst'[h].round = inst[h].round + 1 /\ rcs' = rcs + 1 /\ tarm'.round = inst'[h].round)
                    THEN "live-not-moved"
               ELSE cbad
    /\ UNCHANGED tvars

Next == \/ \E r \in Rounds : Arm(r)
        \/ Cancel \/ Advance
        \/ \E w \in pending : Expire(w) \/ Drop(w)
        \/ \E h \in Heights : CStart(h) \/ \E r \in 1..MaxCRound : CDecide(h, r) \/ COnTimeout(h, r)
        \/ \E r \in 1..MaxCRound : CBump(r)
Spec == Init /\ [][Next]_vars

----------------------------------------------------------------------------
(* C17, first sentence *)
Fired == {fired[k] : k \in DOMAIN fired}
OncePerArming == \A r \in Rounds : Cardinality({k \in DOMAIN fired : fired[k].round = r}) <= 1
OnlyLatest    == \A f \in Fired : ~f.stale        \* armed = the waiter's round at the callback
NeverEarly    == \A f \in Fired : ~f.early        \* callback instant >= reference deadline
Superseded    == \A f \in Fired : ~f.sup        \* a later arming before the reference deadline silences the earlier one
(* holds only under the prompt schedule: a waiter whose deadline lies after the cancellation does not call back *)
AfterCancelQuiet == \A f \in Fired : ~f.afterCancel
(* the code's deadline is the reference deadline (conformance of the transcription, faithful spec only) *)
DeadlineIsRef == \A w \in pending : w.due = w.ref

(* C17, second sentence: a timeout event for an earlier round, another (unknown or superseded) height or a decided
   instance changes nothing *)
StaleNoChange == cbad # "stale-changed"
(* conformance: a timeout for the current (or a later) round of a running, undecided instance moves it on
   (unless the instance reached instance.CutoffRound) *)
CurrentBumps == cbad # "live-not-moved"
(* the same two statements as action properties (thorough configs; TLC's implied-action check is slow) *)
StaleNoChangeStep ==
    [][\A h \in Heights, r \in 1..MaxCRound : (COnTimeout(h, r) /\ Stale(h, r)) => UNCHANGED cvars]_vars
CurrentBumpsStep ==
    [][\A h \in Heights, r \in 1..MaxCRound :
          (COnTimeout(h, r) /\ ~Stale(h, r) /\ inst[h].round < Cutoff) =>
                                                /\ inst'[h].round = inst[h].round + 1
                                                /\ rcs' = rcs + 1 /\ tarm'.round = inst'[h].round]_vars

TypeOK == /\ now \in 0..MaxNow /\ armed \in 0..MaxRound /\ cancelled \in BOOLEAN
          /\ \A w \in pending : w.round \in Rounds /\ w.round <= armed
          /\ cH \in Heights
=============================================================================
