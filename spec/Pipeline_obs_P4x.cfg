SPECIFICATION Spec
CONSTANTS
  Roles <- MCRolesAtt
  PreRoles <- MCPre
  NoQueueRoles <- MCNoQ
  Alphabet <- AlphaObsEarly
  MaxH = 2
  MaxR = 2
  Cap = 2
  MaxPush = 3
  MaxFire = 0
  MaxStop = 0
  MaxExt = 1
  Q = 3
  SeqHarness = FALSE
  FineRead = FALSE
  FastPop = TRUE
  ExternalStart = FALSE
  AdvTimer = FALSE
  PrioDecided = "gt"
PROPERTY P4x_ExecFirstAll
