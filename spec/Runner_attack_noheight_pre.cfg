SPECIFICATION Spec
CONSTANTS
  HasPre = TRUE
  MaxSlot = 3
  MaxSig = 4
  Cap = 2
  Vals <- AllVals
  Quorums <- AllQuorums
  PrevDec = "code"
  Weaken <- WNoHeight
INVARIANT SigWindow
