SPECIFICATION Spec
CONSTANTS
  SPE = 2
  MaxSlot = 13
  MaxGen = 4
  MaxFaults = 4
  MaxPersist = 3
  Variants = 2
  Kinds = {"att", "blk"}
  FaultKinds = {"crash", "crashafter", "fail", "failall", "rerr", "rmiss"}
  Weaken = "none"
INVARIANT TypeOK
INVARIANT NoSlashable
INVARIANT Covered
PROPERTY RefuseWhenUnknown
