------------------------- MODULE MsgValidationTrace -------------------------
(* Trace validation of executions recorded from the real validator (harness/cmd/msgval -mode sweep | concurrent)
   against MsgValidation.  Files next to the spec: alphabet.json (written by TLC itself, AlphaDump) and trace.ndjson.

   Sweep events (one per call of ValidatePubsubMessage):
     R            a fresh validator                      M   remember the state (end of the accepted prefix)
     V i t v r g  message Alpha[i] at Times[t] got class v with rule text r (g: the Go monitor's verdict on an accept)
     B            back to the remembered state (the driver rebuilt the validator after an accepted probe)
   Concurrent event:
     C pre msgs   fresh validator, sequential calls `pre`, then the calls `msgs` from 8 goroutines: some order of
                  `msgs` must explain every recorded result.

   The trace spec FOLLOWS the implementation (an accept moves the state whatever the spec thinks) and prints one
   line per disagreement, so one run reports every divergence:  MISMATCH / GMISMATCH / CMISMATCH.              *)
EXTENDS MCMsgValidation

VARIABLES l, saved
AlphaFile == JsonDeserialize("alphabet.json")
TAlpha == AlphaFile.alpha
TTimes == AlphaFile.times
Trace == ndJsonDeserialize("trace.ndjson")
tvars == <<vars, l, saved>>

Ev == Trace[l]
Fresh == [r \in RolesUsed |-> [i \in Members |-> NoSS]]

VerdictF(m, t, S) == LET vd == IF ValidRole(m.role) THEN Verdict(m, t, S) ELSE Then(PubRules(m, t), Then(SSVRules(m), Acc))
                     IN IF vd.v = "pass" THEN Acc ELSE vd
ApplyF(S, m) == IF ValidRole(m.role) /\ m.st \in {"cons", "psig"} THEN [S EXCEPT ![m.role] = Update(@, m)] ELSE S

TInit == Init /\ l = 1 /\ saved = [sig |-> sig, hist |-> hist, now |-> now]

TReset == /\ Ev.e = "R"
          /\ sig' = Fresh /\ hist' = {} /\ now' = T0 /\ done' = FALSE /\ act' = [name |-> "init"]
          /\ UNCHANGED saved
TMark == /\ Ev.e = "M"
         /\ saved' = [sig |-> sig, hist |-> hist, now |-> now]
         /\ UNCHANGED vars
TBack == /\ Ev.e = "B"
         /\ sig' = saved.sig /\ hist' = saved.hist /\ now' = saved.now
         /\ UNCHANGED <<saved, done, act>>
TValidate ==
    /\ Ev.e = "V"
    /\ LET m == TAlpha[Ev.i]
           t == TTimes[Ev.t]
           vd == VerdictF(m, t, sig)
           g == GossipBreak(m, t, hist)
       IN /\ (vd.v # Ev.v \/ vd.rule # Ev.r) => PrintT(<<"MISMATCH", l, Ev.i, Ev.t, "spec", vd.v, vd.rule, "real", Ev.v, Ev.r>>)
          /\ (Ev.v = "accept" /\ g # Ev.g) => PrintT(<<"GMISMATCH", l, Ev.i, Ev.t, "spec", g, "real", Ev.g>>)
          /\ Apply(m, t, Ev.v = "accept")
          /\ act' = [name |-> "Validate", v |-> Ev.v]
    /\ UNCHANGED <<saved, done>>

RECURSIVE RunPre(_, _, _)
RunPre(S, calls, k) ==
    IF k > Len(calls) THEN S
    ELSE LET c == calls[k]
             m == TAlpha[c.i]
             vd == VerdictF(m, TTimes[c.t], S)
         IN IF (vd.v # c.v \/ vd.rule # c.r) /\ ~PrintT(<<"CMISMATCH-PRE", l, k, "spec", vd.v, vd.rule, "real", c.v, c.r>>)
            THEN S
            ELSE RunPre(IF c.v = "accept" THEN ApplyF(S, m) ELSE S, calls, k + 1)

RECURSIVE CanOrder(_, _, _)
CanOrder(S, calls, R) ==
    \/ R = {}
    \/ \E k \in R :
         LET c == calls[k]
             m == TAlpha[c.i]
             vd == VerdictF(m, TTimes[c.t], S)
         IN /\ vd.v = c.v /\ vd.rule = c.r
            /\ CanOrder(IF c.v = "accept" THEN ApplyF(S, m) ELSE S, calls, R \ {k})

TConcurrent ==
    /\ Ev.e = "C"
    /\ LET S == RunPre(Fresh, Ev.pre, 1)
       IN ~CanOrder(S, Ev.msgs, 1..Len(Ev.msgs)) => PrintT(<<"CMISMATCH", l, "no sequential order of the batch explains the recorded results">>)
    /\ UNCHANGED <<vars, saved>>

TNext == /\ l <= Len(Trace)
         /\ l' = l + 1
         /\ (TReset \/ TMark \/ TBack \/ TValidate \/ TConcurrent)
TraceSpec == TInit /\ [][TNext]_tvars
TraceAccepted == TLCGet("stats").diameter - 1 = Len(Trace)
=============================================================================
