SPECIFICATION Spec
CONSTANTS
  Owners <- MCOwners
  Validators <- MCValidators
  Comms <- MCComms
  Mine <- MCMine
  Alphabet <- AlphaObsReadd
  MaxEvents = 3
  MaxBlock = 3
  MaxMeta = 1
  MaxRestarts = 0
  MetaAnywhere = TRUE
  SplitStart = FALSE
INVARIANT L1a_NoneMissing
