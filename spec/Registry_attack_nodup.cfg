SPECIFICATION Spec
CONSTANTS
  Owners <- MCOwners
  Validators <- MCValidators
  OpIds <- MCOpIds
  Alphabet <- AlphaAttack
  Setups <- SetupsAttackAll
  MaxEvents = 3
  MaxBlocks = 3
  MaxFaults = 0
  Grain = "event"
  Weaken = "noDupOpCheck"
  Stale = FALSE
  ReadFaults = FALSE
INVARIANT DbMatchesRules
