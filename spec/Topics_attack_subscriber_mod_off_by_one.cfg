SPECIFICATION Spec
CONSTANTS
  SubnetsCount = 128
  HexDigits = 10
  KeySize = 48
  SigSize = 3
  IdSize = 2
  VecSize = 128
  Weaken = "subscriber-mod-off-by-one"
  Domain = "attack"
INVARIANT InvAgree
INVARIANT InvInRange
