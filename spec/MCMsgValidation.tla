--------------------------- MODULE MCMsgValidation ---------------------------
(* Model values for MsgValidation: the message alphabets by family.  Every alphabet is
   "honest-looking base messages" + "each base message of MutBase with ONE field replaced by a degenerate class".
   AlphaDump writes the alphabet and the time points of a configuration to alphabet.json (read by the driver and
   by the trace spec, so the three agree on the numbering). *)
EXTENDS MsgValidation, Json, SequencesExt

M0 == [st |-> "cons", raw |-> "msg", val |-> "active", role |-> 0, dom |-> "ok", topic |-> "ok", env |-> "none",
       body |-> "ok", mt |-> 1, h |-> 0, r |-> 1, sg |-> <<1>>, fd |-> 0, root |-> 1, js |-> "none", sf |-> "ok",
       pt |-> 0, pm |-> "ok"]

T(s, o) == [s |-> s, o |-> o]

Prop(role, h, r, s, fd) == [M0 EXCEPT !.role = role, !.mt = 0, !.h = h, !.r = r, !.sg = <<s>>, !.fd = fd, !.root = fd,
                                      !.js = IF r > 1 THEN "rcq" ELSE "none"]
Prep(role, h, r, s) == [M0 EXCEPT !.role = role, !.mt = 1, !.h = h, !.r = r, !.sg = <<s>>]
Comm(role, h, r, s) == [M0 EXCEPT !.role = role, !.mt = 2, !.h = h, !.r = r, !.sg = <<s>>]
RC(role, h, r, s, fd) == [M0 EXCEPT !.role = role, !.mt = 3, !.h = h, !.r = r, !.sg = <<s>>, !.fd = fd, !.root = IF fd = 0 THEN 1 ELSE fd]
Dec(role, h, r, sg, fd) == [M0 EXCEPT !.role = role, !.mt = 2, !.h = h, !.r = r, !.sg = sg, !.fd = fd, !.root = IF fd = 0 THEN 1 ELSE fd]
PSig(role, pt, h, s) == [M0 EXCEPT !.st = "psig", !.role = role, !.pt = pt, !.h = h, !.sg = <<s>>, !.mt = 0, !.r = 0]

WithEnv(A, e) == {[m EXCEPT !.env = e] : m \in A}

(* ---- single field mutations ---- *)
MutRound(m)  == {[m EXCEPT !.r = x] : x \in {0, 5, 9, 12, 13, R31M, R31, R32M, RBIG, R63M, R63, RMAX}}
MutSlot(m)   == {[m EXCEPT !.h = x] : x \in {1, -34, -35, ZERO, ONE, H31M, H31, H32M, H32, H62, H63M, H63, HMAX}}
MutSigners(m) == {[m EXCEPT !.sg = x] : x \in {<<>>, <<0>>, <<9>>, <<3>>, <<1, 2>>, <<2, 1>>, <<1, 1>>}}
MutBody(m)   == {[m EXCEPT !.mt = 9], [m EXCEPT !.sf = "zero"], [m EXCEPT !.body = "empty"], [m EXCEPT !.body = "garbage"],
                 [m EXCEPT !.raw = "empty"], [m EXCEPT !.raw = "junk"],
                 [m EXCEPT !.st = "dkg"], [m EXCEPT !.st = "event"], [m EXCEPT !.st = "unk"],
                 \* an event-type message (type 200, body decodes as EventMsg) on a message id that nothing else uses in the
                 \* alphabets built with MutBody (roles 6 and 4 of the active validator): whenever it is validated on a validator
                 \* object it is the FIRST message of its id there (no per-id lock yet), and the sweep always validates
                 \* something on the same object next (the same bytes again, then the rest of the alphabet)
                 [m EXCEPT !.st = "event", !.role = 6], [m EXCEPT !.st = "event", !.role = 4]}
MutData(m)   == {[m EXCEPT !.fd = 1, !.root = 2], [m EXCEPT !.fd = 2, !.root = 1], [m EXCEPT !.fd = 1, !.root = 1], [m EXCEPT !.fd = 0]}
MutJust(m)   == {[m EXCEPT !.js = x] : x \in {"none", "rcq", "rcprep", "pj", "pjbad", "rcbad"}}
MutReg(m)    == {[m EXCEPT !.val = x] : x \in {"unknown", "liquidated", "nometa", "exited", "pending", "badpk"}}
MutRoute(m)  == {[m EXCEPT !.role = 99], [m EXCEPT !.role = 5], [m EXCEPT !.role = 2], [m EXCEPT !.dom = "wrong"],
                 [m EXCEPT !.topic = "wrong"]}
MutEnvUnsigned(m) == {[m EXCEPT !.env = "good"], [m EXCEPT !.env = "short"]}
MutEnvSigned(m) == {[m EXCEPT !.env = x] : x \in {"none", "good5", "badsig", "unkop", "short", "nomsg"}}
MutAll(m) == MutRound(m) \cup MutSlot(m) \cup MutSigners(m) \cup MutBody(m) \cup MutData(m) \cup MutJust(m)
             \cup MutReg(m) \cup MutRoute(m) \cup MutEnvUnsigned(m)
MutSet(B, Mu(_)) == UNION {Mu(m) : m \in B}

(* ---- family "cons": single-signer consensus traffic of the attester role, unsigned era ---- *)
ConsBase(hs, rs, ss) ==
    UNION {{Prep(0, h, r, s), Comm(0, h, r, s), RC(0, h, r, s, 0), RC(0, h, r, s, 1), Prop(0, h, r, s, 1), Prop(0, h, r, s, 2)}
           : h \in hs, r \in rs, s \in ss}
ConsMutBase == {Prop(0, 0, 1, 1, 1), Prop(0, 0, 2, 2, 1), Prep(0, 0, 1, 1), Comm(0, 0, 1, 2), RC(0, 0, 2, 1, 0), RC(0, 0, 2, 2, 1)}
AlphaConsQuick == ConsBase({-1, 0}, {1, 2}, {1, 2}) \cup MutSet(ConsMutBase, MutAll)
AlphaConsThorough == ConsBase({-1, 0}, {1, 2, 3}, {1, 2}) \cup MutSet(ConsMutBase, MutAll)
AlphaConsTiny == {Prop(0, 0, 1, 1, 1), Prop(0, 0, 1, 1, 2), Prop(0, 0, 1, 2, 1), Prep(0, 0, 1, 1), Prep(0, 0, 2, 1), Prep(0, -1, 1, 1),
                  Comm(0, 0, 1, 1), RC(0, 0, 2, 1, 1), [Prep(0, 0, 1, 1) EXCEPT !.sg = <<0>>], [Prep(0, 0, 1, 1) EXCEPT !.r = 0],
                  [Prop(0, 0, 1, 1, 1) EXCEPT !.r = 0], [Prop(0, 0, 1, 1, 1) EXCEPT !.h = HMAX], [Prep(0, 0, 1, 1) EXCEPT !.val = "liquidated"]}
TimesCons == {T(0, 1), T(0, 5)}
TimesOne == {T(0, 3)}
ForkNever == 100000
ForkAtZero == -1      \* epochs >= 0 are signed

(* ---- family "decided": multi-signer messages ---- *)
Q3 == IF N = 4 THEN <<1, 2, 3>> ELSE <<1, 2, 3, 4, 5>>
Q3b == IF N = 4 THEN <<2, 3, 4>> ELSE <<3, 4, 5, 6, 7>>
QAll == IF N = 4 THEN <<1, 2, 3, 4>> ELSE <<1, 2, 3, 4, 5, 6, 7>>
SubQ == IF N = 4 THEN <<1, 2>> ELSE <<1, 2, 3, 4>>
BadSignerSets == IF N = 4
    THEN {<<2, 1, 3>>, <<1, 2, 2>>, <<1, 1, 2>>, <<0, 1, 2>>, <<1, 2, 9>>, <<1, 2, 3, 4, 5>>, <<1, 2, 3, 3>>,
          <<1, 2, 3, 4, 5, 6, 7, 8, 9, 10, 11, 12, 13>>, <<1, 2, 3, 4, 5, 6, 7, 8, 9, 10, 11, 12, 13, 14>>}
    ELSE {<<2, 1, 3, 4, 5>>, <<1, 2, 3, 4, 4>>, <<0, 1, 2, 3, 4>>, <<1, 2, 3, 4, 9>>, <<1, 2, 3, 4, 5, 6, 7, 8>>,
          <<1, 2, 3, 4, 5, 6, 7, 8, 9, 10, 11, 12, 13>>, <<1, 2, 3, 4, 5, 6, 7, 8, 9, 10, 11, 12, 13, 14>>}
DecBase == {Dec(0, h, r, sg, fd) : h \in {-1, 0}, r \in {1, 2}, sg \in {Q3, Q3b, QAll}, fd \in {0, 1}}
           \cup {Prep(0, 0, r, s) : r \in {1, 2}, s \in {1, N}} \cup {Comm(0, 0, r, s) : r \in {1, 2}, s \in {1, N}}
DecMut == {Dec(0, 0, 1, sg, 1) : sg \in BadSignerSets \cup {SubQ}}
          \cup {[Dec(0, 0, 1, Q3, 1) EXCEPT !.mt = x] : x \in {0, 1, 3, 9}}
          \cup {[Dec(0, 0, 1, Q3, 1) EXCEPT !.root = 2], [Dec(0, 0, 1, Q3, 2) EXCEPT !.root = 2], Dec(0, 0, 1, Q3, 2)}
          \cup MutRound(Dec(0, 0, 1, Q3, 1)) \cup MutSlot(Dec(0, 0, 1, Q3, 1)) \cup MutJust(Dec(0, 0, 1, Q3, 1))
          \cup MutReg(Dec(0, 0, 1, QAll, 0)) \cup MutRoute(Dec(0, 0, 1, QAll, 0)) \cup MutBody(Dec(0, 0, 1, QAll, 0))
AlphaDecided == DecBase \cup DecMut
AlphaDecidedSmall == {Dec(0, 0, 1, Q3, 1), Prep(0, 0, 1, 1)} \cup {Dec(0, 0, 1, QAll, 0)}

(* ---- family "psig": partial-signature messages, with some consensus traffic for the shared signer state ---- *)
PSigRoles == {<<0, 0>>, <<1, 2>>, <<2, 1>>, <<2, 0>>, <<5, 4>>}            \* <<role, partial type>>
PSigBase == {PSig(x[1], x[2], h, s) : x \in PSigRoles, h \in {-1, 0}, s \in {1, 2}}
            \cup {Prep(0, h, 1, 1) : h \in {-1, 0}} \cup {Prep(2, h, 1, 1) : h \in {-1, 0}}
PSigMutOf(m) == {[m EXCEPT !.h = x] : x \in {1, 40, -3, -4, -34, -35, ZERO, ONE, H31M, H31, H32M, H32, H62, H63M, H63, HMAX}}
                \cup {[m EXCEPT !.sg = <<x>>] : x \in {0, 9}}
                \cup {[m EXCEPT !.pm = x] : x \in {"none", "dup", "wsigner", "zsig", "two"}}
                \cup {[m EXCEPT !.pt = x] : x \in {0, 1, 2, 3, 4, 5, 9}}
                \cup {[m EXCEPT !.sf = "zero"], [m EXCEPT !.body = "garbage"], [m EXCEPT !.body = "empty"], [m EXCEPT !.role = 99],
                      [m EXCEPT !.role = 3], [m EXCEPT !.role = 6]}
                \cup MutReg(m) \cup {[m EXCEPT !.topic = "wrong"], [m EXCEPT !.dom = "wrong"]}
AlphaPSig == PSigBase \cup PSigMutOf(PSig(0, 0, 0, 1)) \cup PSigMutOf(PSig(2, 1, 0, 1)) \cup PSigMutOf(PSig(5, 4, 0, 2))
TimesPSig == {T(0, 3), T(1, 3)}

(* ---- family "envelope": both eras (the fork is between the two time points), registry classes, routing ---- *)
EnvKinds == {"none", "good", "good5", "badsig", "unkop", "short", "nomsg", "badkey1", "badkey2", "badkey3", "badkey4"}
EnvBase == {Prop(0, 0, 1, 1, 1), Prep(0, 0, 1, 1), Prep(0, 0, 1, 2), Prep(0, -1, 1, 1), PSig(0, 0, 0, 1), Dec(0, 0, 1, Q3, 1)}
AlphaEnvelope == UNION {WithEnv(EnvBase, e) : e \in EnvKinds}
                 \cup UNION {WithEnv(MutReg(Prep(0, 0, 1, 1)) \cup MutRoute(Prep(0, 0, 1, 1)) \cup MutBody(Prep(0, 0, 1, 1))
                                     \cup MutSigners(Prep(0, 0, 1, 1)) \cup MutBody(PSig(0, 0, 0, 1)), e) : e \in {"none", "good"}}
TimesEnvelope == {T(-1, 3), T(0, 3)}        \* ForkEpoch = -1: the first point is before the fork, the second after

(* ---- family "time": slot and round windows of three roles, duty counting across slots ---- *)
TimeRounds == {1, 2, 3, 4, 5, 6, 7, 8, 9, 10, 12, 13}
TimeBase == {Prep(role, h, r, 1) : role \in {0, 2}, h \in {-35, -34, -4, -3, -1, 0, 1, 2, 3}, r \in {1, 2}}
            \cup {Prep(role, 0, r, 2) : role \in {0, 2, 3}, r \in TimeRounds}
            \cup {Prep(0, -34, r, 2) : r \in {11, 12, 13}} \cup {Prep(2, -3, r, 2) : r \in {5, 6, 7}}
            \cup {PSig(2, 1, h, 3) : h \in {-4, -3, 0, 1, 3}}
AlphaTime == TimeBase
TimesTime == {T(0, 1), T(0, 9), T(1, 5), T(3, 1)}

(* ---- family "core": the messages whose interplay goes through the per-signer state, explored deep ---- *)
AlphaCore == {Prop(0, 0, 1, 1, 1), Prop(0, 0, 1, 1, 2), Prop(0, 0, 2, 2, 1), Prep(0, 0, 1, 1), Prep(0, 0, 2, 1), Prep(0, -1, 1, 1),
              Prep(0, 0, 1, 2), Comm(0, 0, 1, 1), Comm(0, 0, 2, 1), RC(0, 0, 2, 1, 1), RC(0, 0, 2, 1, 0), RC(0, 0, 2, 2, 2),
              Dec(0, 0, 1, Q3, 1), Dec(0, 0, 2, Q3, 2), Dec(0, -1, 1, QAll, 0), Dec(0, 0, 1, Q3b, 2),
              PSig(0, 0, 0, 1), PSig(0, 0, -1, 1), PSig(0, 0, 1, 1), PSig(0, 0, HMAX, 2), PSig(0, 0, 0, 2),
              Prep(0, H62, 1, 1), Prop(0, H62, 1, 1, 1), Dec(0, H62, 1, Q3, 1)}
TimesCore == {T(0, 3), T(1, 1)}

(* ---- attack alphabet: the core plus one message per guard that a weakened spec would let through ---- *)
AlphaAttack == AlphaCore \cup
    {Prop(0, 0, 1, 2, 1), Prop(0, 0, 1, 3, 1),                                        \* not the leader
     Dec(0, 0, 1, <<2, 1, 3>>, 1), Dec(0, 0, 1, <<1, 1, 2>>, 1), Dec(0, 0, 1, <<1, 2, 2>>, 1), Dec(0, 0, 1, <<0, 1, 2>>, 1),
     Dec(0, 0, 1, <<1, 2, 9>>, 1), Dec(0, 0, 1, <<1, 2>>, 1), [Dec(0, 0, 1, Q3, 1) EXCEPT !.mt = 1], [Prep(0, 0, 1, 1) EXCEPT !.sg = <<0>>],
     [Prep(0, 0, 1, 1) EXCEPT !.sg = <<9>>], [Prop(0, 0, 1, 1, 1) EXCEPT !.root = 2], [Dec(0, 0, 1, Q3, 1) EXCEPT !.root = 2],
     Prep(0, 1, 1, 1), Prep(0, -35, 1, 1), Prep(0, 0, 13, 1), Prep(0, -34, 13, 1), Prep(0, 0, 4, 1), Prep(0, 0, 1, 3), Prep(0, -1, 1, 3),
     [Prep(0, 0, 1, 1) EXCEPT !.val = "liquidated"], [Prep(0, 0, 1, 1) EXCEPT !.val = "unknown"], [Prep(0, 0, 1, 1) EXCEPT !.val = "exited"],
     [Prep(0, 0, 1, 1) EXCEPT !.topic = "wrong"], [PSig(0, 0, 0, 1) EXCEPT !.sg = <<0>>], [PSig(0, 0, 0, 1) EXCEPT !.sg = <<9>>]}
AlphaAttackSigned == WithEnv({Prep(0, 0, 1, 1), Prop(0, 0, 1, 1, 1), PSig(0, 0, 0, 1)}, "good")
                     \cup WithEnv({Prep(0, 0, 1, 1), Prop(0, 0, 1, 1, 1), PSig(0, 0, 0, 1)}, "badsig")
                     \cup WithEnv({Prep(0, 0, 1, 1)}, "unkop")
AlphaSim == AlphaCore \cup ConsBase({0}, {1, 2, 3}, {1, 2}) \cup {Dec(0, 0, r, sg, 1) : r \in {1, 2, 3}, sg \in {Q3, QAll}}
            \cup {Prep(0, 1, 1, s) : s \in {1, 2}} \cup {PSig(0, 0, h, s) : h \in {0, 1}, s \in {1, 2, 3}}
TimesSim == {T(0, 1), T(0, 5), T(1, 3)}

(* ---- family "bounds": every round class around the int boundaries with heights of every residue modulo the
   committee size (the leader arithmetic mixes both), and every height class with every round class ---- *)
RoundClasses == {0, 1, 2, R31M, R31, R32M, RBIG, R63M, R63, RMAX}
HeightClasses == {ZERO, ONE, 0, H31M, H31, H32M, H32, H62, H63M, H63, HMAX}
Residues == {0 - k : k \in 0..(N - 1)}            \* slots 0, -1, ..., -(N-1): every residue modulo N, all inside the attester window
AlphaBounds == {Prop(0, h, r, s, 1) : h \in Residues, r \in RoundClasses, s \in {1, 2}}
               \cup {Prop(0, h, r, s, 1) : h \in HeightClasses, r \in RoundClasses, s \in {1, N}}
               \cup {Prep(0, h, r, 1) : h \in HeightClasses, r \in {1, R31M, R63M, RMAX}}
               \cup {Dec(0, h, r, Q3, 1) : h \in {0, H63M, HMAX}, r \in {1, R63M, RMAX}}
               \cup {PSig(0, 0, h, 1) : h \in HeightClasses}

(* ---- family "roundwin": the round window over the WHOLE range of rounds and reception times the gate distinguishes,
   for the five roles that run consensus, on a fresh signer state (MaxAccepts = 0: every accept is a probe edge).
   All messages are for slot 0; the reception time is e + 0.5 s after its start, e whole seconds.  Time points: every
   boundary b of the round step function (end of rounds 1..11 of the round timer: 2, 4, ..., 16, 136, 256, 376 s) with
   b-2, b-1, b, b+1 (i.e. 1.5 s and 0.5 s before, 0.5 s and 1.5 s after), the first seconds of the slot, the middle of
   slow rounds, the last second of the previous slot (early), and both sides of the late-slot deadline of either TTL
   class.  The last second of a slot (o = 11) is used only in slots 0..2 (property ClockRobust checks that this is
   sound).  Rounds: 0 .. max+2 of the role (max 12: attester, aggregator; 6: proposer, sync committee, contribution),
   which contains estimated-2 .. estimated+3 wherever that is not cut by the maximum; prepares for every role,
   decided commits and leader proposals for the attester role. ---- *)
RWTime(e) == T(e \div 12, e % 12)
RWBoundSecs == {DeadlineMs(r) \div 1000 : r \in 1..11}
RWNear(D) == {b + d : b \in RWBoundSecs, d \in D}
RWPoints(E) == {RWTime(e) : e \in {x \in E : x >= 0 /\ (x % 12 # 11 \/ x < 36)}}
RWEdges == {T(-1, 10), T(3, 10), T(4, 0), T(34, 10), T(35, 0)}
TimesRoundWinQuick == RWPoints({0, 1, 60, 200} \cup RWNear({-2, -1, 0, 1})) \cup RWEdges
TimesRoundWinThorough == RWPoints((0..60) \cup RWNear((-6)..6) \cup {12 * k + 5 : k \in 5..34} \cup {12 * k + 10 : k \in 5..34}) \cup RWEdges
RWRounds(role) == 0..(MaxRound(role) + 2)
AlphaRoundWin == UNION {{Prep(role, 0, r, 1) : r \in RWRounds(role)} : role \in 0..4}
                 \cup {Dec(0, 0, r, Q3, 1) : r \in 1..13}
                 \cup {Prop(0, 0, r, Leader(0, r), 1) : r \in 1..13}

(* ---- N = 7 ---- *)
AlphaSeven == DecBase \cup DecMut \cup {Prop(0, h, r, s, 1) : h \in {-1, 0}, r \in {1, 2}, s \in {1, 2, 7}}

(* ---- alphabet export ---- *)
AlphaSeq == SetToSeq(Alphabet)
TimeSeq == SetToSeq(Times)
DumpInit == Init /\ JsonSerialize("alphabet.json", [alpha |-> AlphaSeq, times |-> TimeSeq])
DumpNext == FALSE /\ UNCHANGED vars
DumpSpec == DumpInit /\ [][DumpNext]_vars
SpecD == DumpInit /\ [][Next]_vars          \* Spec that also exports its alphabet
=============================================================================
