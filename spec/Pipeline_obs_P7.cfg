SPECIFICATION Spec
CONSTANTS
  Roles <- MCRolesAtt
  PreRoles <- MCPre
  NoQueueRoles <- MCNoQ
  Alphabet <- AlphaObsExt
  MaxH = 2
  MaxR = 2
  Cap = 2
  MaxPush = 3
  MaxFire = 0
  MaxStop = 0
  MaxExt = 1
  Q = 3
  SeqHarness = TRUE
  FineRead = FALSE
  FastPop = FALSE
  ExternalStart = TRUE
  AdvTimer = FALSE
  PrioDecided = "gt"
INVARIANT P2_FilterAtHandler
