-------------------------- MODULE MsgValidationConc --------------------------
(* Concurrent validation (C09, quantifier "concurrent validation of messages for the same and different
   validators"): validateSSVMessage takes a lock per message ID (validator + role) around the read-check-update of
   the per-signer state.  The calls of CallSeq run concurrently at the grain of that mechanism:

     Arrive(c)  under the global validationMutex: look up / create the mutex of the call's ID; if it is free the call
                has it at once and runs every check on the CURRENT per-signer state (a call that is not going to be
                accepted finishes here); otherwise the call parks - the code keeps the global mutex while it waits
     Enter(c)   a parked call gets the per-ID mutex, releases the global one and runs its checks
     Leave(c)   (accepted calls only) update the per-signer state, release the per-ID mutex
                -- the harness can hold a real call between Enter and Leave (verif hook: the gate runs where the
                   envelope signature is verified, after the checks and before the update)

   Weaken = "lockNotExclusive": the global mutex is released before waiting and the map entry is deleted when a
   validation finishes, so a waiter keeps the old mutex while the next arrival creates a new one: exclusion is lost
   with THREE calls on one ID (TLC's counterexample is that schedule).

   Checked: MutualExclusion, CommitSound (an accepted call breaks no rule of C09 against what was accepted before it
   commits) and Serialisable (the results of every complete interleaving are those of some sequential order).     *)
EXTENDS MCMsgValidation

CONSTANTS CallSeq          \* sequence of [m |-> message class, t |-> time point]
VARIABLES pc, cv, lk, tbl, holder, gm, nlocks
cvars == <<vars, pc, cv, lk, tbl, holder, gm, nlocks>>

Calls == 1..Len(CallSeq)
IdOf(c) == CallSeq[c].m.role                     \* one validator: the message ID is the role
Ids == {IdOf(c) : c \in Calls}
Evicting == Weaken = "lockNotExclusive"

VF(m, t, S) == LET vd == IF ValidRole(m.role) THEN Verdict(m, t, S) ELSE Then(PubRules(m, t), Then(SSVRules(m), Acc))
               IN IF vd.v = "pass" THEN Acc ELSE vd
AF(S, m) == IF ValidRole(m.role) /\ m.st \in {"cons", "psig"} THEN [S EXCEPT ![m.role] = Update(@, m)] ELSE S
InitSig == [r \in RolesUsed |-> [i \in Members |-> NoSS]]

CInit == /\ Init
         /\ pc = [c \in Calls |-> "idle"]
         /\ cv = [c \in Calls |-> [v |-> "-", rule |-> ""]]
         /\ lk = [c \in Calls |-> 0]
         /\ tbl = [i \in Ids |-> 0]
         /\ holder = [l \in 1..Len(CallSeq) |-> 0]
         /\ gm = 0
         /\ nlocks = 0

(* the checks of a call that has just acquired its per-ID mutex *)
Checks(c, arriving) ==
    LET vd == VF(CallSeq[c].m, CallSeq[c].t, sig) IN
    /\ cv' = [cv EXCEPT ![c] = vd]
    /\ act' = IF arriving
              THEN [name |-> "Arrive", c |-> c, m |-> CallSeq[c].m, t |-> CallSeq[c].t, entered |-> TRUE, v |-> vd.v, rule |-> vd.rule]
              ELSE [name |-> "Enter", c |-> c, v |-> vd.v, rule |-> vd.rule]
    /\ IF vd.v = "accept"
       THEN /\ holder' = [holder EXCEPT ![lk'[c]] = c] /\ pc' = [pc EXCEPT ![c] = "inside"]
       ELSE /\ pc' = [pc EXCEPT ![c] = "done"] /\ holder' = holder

(* Arrive: when the mutex is free the arriving call has it at once (nobody can be waiting: a waiter holds the global
   mutex); otherwise it parks, in the pinned code with the global mutex in its hands *)
Arrive(c) ==
    /\ pc[c] = "idle" /\ gm = 0
    /\ LET id == IdOf(c)
           fresh == tbl[id] = 0
           l == IF fresh THEN nlocks + 1 ELSE tbl[id]
       IN /\ nlocks' = IF fresh THEN nlocks + 1 ELSE nlocks
          /\ lk' = [lk EXCEPT ![c] = l]
          /\ IF holder[l] = 0
             THEN /\ Checks(c, TRUE)
                  /\ gm' = 0
                  /\ tbl' = IF Evicting /\ cv'[c].v # "accept" THEN [tbl EXCEPT ![id] = 0] ELSE [tbl EXCEPT ![id] = l]
             ELSE /\ tbl' = [tbl EXCEPT ![id] = l]
                  /\ gm' = IF Evicting THEN 0 ELSE c
                  /\ pc' = [pc EXCEPT ![c] = "waiting"]
                  /\ act' = [name |-> "Arrive", c |-> c, m |-> CallSeq[c].m, t |-> CallSeq[c].t, entered |-> FALSE, v |-> "-", rule |-> ""]
                  /\ UNCHANGED <<cv, holder>>
    /\ UNCHANGED <<sig, hist, now, done>>

Release(c) ==      \* what the deferred unlock does
    /\ holder' = [holder EXCEPT ![lk[c]] = 0]
    /\ tbl' = IF Evicting THEN [tbl EXCEPT ![IdOf(c)] = 0] ELSE tbl

(* Enter: a parked call gets the mutex *)
Enter(c) ==
    /\ pc[c] = "waiting" /\ holder[lk[c]] = 0
    /\ gm' = IF gm = c THEN 0 ELSE gm
    /\ lk' = lk
    /\ Checks(c, FALSE)
    /\ tbl' = IF Evicting /\ cv'[c].v # "accept" THEN [tbl EXCEPT ![IdOf(c)] = 0] ELSE tbl
    /\ UNCHANGED <<sig, hist, now, done, nlocks>>

Leave(c) ==
    /\ pc[c] = "inside"
    /\ LET m == CallSeq[c].m
           t == CallSeq[c].t
       IN /\ sig' = AF(sig, m)
          /\ hist' = hist \cup {[m |-> m, t |-> t]}
          /\ act' = [name |-> "Leave", c |-> c, v |-> "accept", g |-> GossipBreak(m, t, hist)]
    /\ Release(c)
    /\ pc' = [pc EXCEPT ![c] = "done"]
    /\ UNCHANGED <<now, done, cv, lk, gm, nlocks>>

CNext == \E c \in Calls : Arrive(c) \/ Enter(c) \/ Leave(c)
CSpec == CInit /\ [][CNext]_cvars

----------------------------------------------------------------------------
MutualExclusion == \A c1, c2 \in Calls : (c1 # c2 /\ pc[c1] = "inside" /\ pc[c2] = "inside") => IdOf(c1) # IdOf(c2)
CommitSound == [][act'.name = "Leave" => act'.g \in ({"none"} \cup KnownGaps)]_cvars

RECURSIVE CanOrder(_, _)
CanOrder(S, R) ==
    \/ R = {}
    \/ \E c \in R : LET vd == VF(CallSeq[c].m, CallSeq[c].t, S)
                    IN /\ vd.v = cv[c].v /\ vd.rule = cv[c].rule
                       /\ CanOrder(IF vd.v = "accept" THEN AF(S, CallSeq[c].m) ELSE S, R \ {c})
Serialisable == (\A c \in Calls : pc[c] = "done") => CanOrder(InitSig, Calls)

(* model values *)
CA == [m |-> Prep(0, 0, 1, 1), t |-> T(0, 3)]
CB == [m |-> Prep(0, 0, 1, 2), t |-> T(0, 3)]
CD == [m |-> Prep(1, 0, 1, 2), t |-> T(0, 3)]       \* another message ID (aggregator role): independent of A, B
CP == [m |-> Prop(0, 0, 1, 1, 1), t |-> T(0, 3)]
CQ == [m |-> Prop(0, 0, 1, 1, 2), t |-> T(0, 3)]     \* the same leader proposes another value
CallsABB == <<CA, CB, CB>>
CallsABBD == <<CA, CB, CB, CD>>
CallsAPQ == <<CA, CP, CQ>>
AlphaConc == {CallSeq[k].m : k \in 1..Len(CallSeq)}
=============================================================================
