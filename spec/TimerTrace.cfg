SPECIFICATION TraceSpec
CONSTANTS
  Params <- TraceParams
  MaxRound = 16
  Horizon = 0
  MaxNow = 0
  Sched = "any"
  Weakens = {"none"}
  Parts = {"timer"}
  Heights = {0}
  MaxCRound = 1
  Cutoff = 1
  InstCap = 2
INVARIANT OncePerArming
INVARIANT OnlyLatest
INVARIANT NeverEarly
INVARIANT Superseded
INVARIANT DeadlineIsRef
POSTCONDITION TraceAccepted
