------------------------- MODULE QBFTInstanceTrace -------------------------
(* Trace validation of executions recorded from the REAL node instance / controller (harness/cmd/qbfttrace) against
   the single-instance model QBFTInstance (= QBFT with one honest operator, operator 1).  The executions are the
   hand-written scenarios of the pinned reference test kit (ssv-spec qbft/spectest: message-processing, timeout and
   controller kinds; a controller scenario is split into one trace per height) and seeded random executions of the
   recorder.  One event per public call, logged at its return; traces are concatenated, each starts with "Reset".

     Reset       scen kind n leader off pre crafted    the logged pre-state becomes the state (kit scenarios start
                                                        from crafted pre-states: preset round / accepted proposal)
     Start       value_ok past_height ok post out       Controller.StartNewInstance
     ProcessMsg  via msg ok decided reported post out   Instance.ProcessMsg (via = "instance") or
                                                        Controller.ProcessMsg (via = "controller")
     Timeout     via tround ok post out                 Instance.UponRoundTimeout / Controller.OnTimeout
     ForceStop   post                                   the controller stopped this instance (a newer one started)

   Every action is  IsEv(..) /\ <bind logged fields> /\ <model action>(args) /\ <logged post-state and broadcasts match>.
   The model actions are QBFT's parametrised steps DoProposal / DoPrepare / DoCommit / DoRC / Start / Timeout /
   RecvDecided with QBFT's own predicates Justified / ValidRC / CertOK; what the log does not carry is chosen by them.

   The environment of a recorded execution holds every key (the kit signs for operator 1 too), which is the model's
   Weaken = "noSigCheck" reading of Forgeable; the signature of every (nested) message is a LOGGED FACT instead.
   Facts (sig_ok, struct_ok, height_ok, data_matches, id_ok, per-element ok of justifications) are computed by the
   recorder with the reference library's exported predicates, never by the node's code.

   A refusal is a named stuttering step (Reject ...) whose guard is the model's own reject condition for that message
   class: the negation of well-formedness (QBFTInstance's mutant kinds) or of the model action's enabling condition
   (~ENABLED DoX).  So a real ACCEPT of something the model refuses, a real REFUSAL of something the model accepts, a
   wrong post-state or a wrong broadcast leaves no enabled action and the trace is rejected at that line.

   Not in QBFT.tla and stated here (named, counted by the tool as extensions):  Cutoff (CanProcessMessages: round
   < 15 and not force-stopped), the leader function of the kit's testing config (constant operator; cfg override of
   Leader), accepted no-op duplicates (AddFirstMsgForSignerAndRound), OnTimeout's old-round / decided no-op.     *)
EXTENDS QBFTInstance, Json

VARIABLES l,        \* next line of the trace
          scen,     \* parameters of the running scenario: [leader, off]
          stopped,  \* the controller force-stopped the instance
          hw        \* high-water mark of the instance's round (a certificate for a lower round moves it BACK)
Trace == ndJsonDeserialize("trace.ndjson")
tvars == <<vars, l, scen, stopped, hw>>

Me == 1
Cutoff == 15
Ev == Trace[l]
M == Trace[l].msg
IsEv(e) == l <= Len(Trace) /\ Trace[l].event = e /\ l' = l + 1
ToSet(s) == {s[k] : k \in 1..Len(s)}

(* cfg: Leader <- TLeader, StartValue <- SVc.  leader = 0: round robin from height mod N (RoundRobinProposer) *)
TLeader(r) == IF scen.leader = 0 THEN ((scen.off + r - 1) % N) + 1 ELSE scen.leader
SVc == [i \in Ops |-> "v1"]
AllActs == {"proposal", "prepare", "commit", "rc", "decided", "mutant"}

---------------------------------------------------------------------------
(* logged state <-> model state *)
Vals0 == AllVals \cup {None}
SRV(s) == {[signer |-> x.signer, round |-> x.round, value |-> x.value] : x \in ToSet(s)}
RCFull(s) == {[type |-> "rc", signer |-> x.signer, round |-> x.round, pr |-> x.pr, pv |-> x.pv, js |-> ToSet(x.js)] : x \in ToSet(s)}
RCProj(S) == {[signer |-> x.signer, round |-> x.round, pr |-> x.pr, pv |-> x.pv] : x \in S}

(* TypeOK-like well-formedness of a logged pre-state *)
PreOK(p) ==
    /\ p.round \in Rounds /\ p.lpr \in 0..MaxRound
    /\ p.lpv \in Vals0 /\ (p.lpr = 0) = (p.lpv = None)
    /\ p.acc.value \in Vals0 /\ p.acc.from \in 0..N /\ p.acc.round \in 0..MaxRound
    /\ (p.acc.value = None) = (p.acc.round = 0)
    /\ p.dval \in Vals0 /\ p.decided = (p.dval # None)
    /\ \A x \in ToSet(p.prep) \cup ToSet(p.comm) : x.signer \in Ops /\ x.round \in Rounds /\ x.value \in AllVals
    /\ \A x \in ToSet(p.rc) : x.signer \in Ops /\ x.round \in Rounds /\ x.pr \in 0..MaxRound /\ x.pv \in Vals0

CommSigners(p) == {x.signer : x \in ToSet(p.comm)}
NodeOf(p) ==
    [started |-> p.started, round |-> p.round,
     acc |-> [round |-> p.acc.round, value |-> p.acc.value, from |-> p.acc.from, data |-> p.acc.value],
     lpr |-> p.lpr, lpv |-> p.lpv,
     decided |-> p.decided, dval |-> p.dval,
     dround |-> IF p.decided THEN p.round ELSE 0, cround |-> IF p.decided THEN p.round ELSE 0, cval |-> p.dval,
     dsigners |-> IF p.decided THEN CommSigners(p) ELSE {}, dlocal |-> FALSE, dfrom |-> 0,
     prep |-> SRV(p.prep), comm |-> SRV(p.comm), rc |-> RCFull(p.rc)]

Acc3(a) == [round |-> a.round, value |-> a.value, from |-> a.from]
Proj(n) == [started |-> n.started, round |-> n.round, acc |-> Acc3(n.acc), lpr |-> n.lpr, lpv |-> n.lpv,
            decided |-> n.decided, dval |-> n.dval, prep |-> n.prep, comm |-> n.comm, rc |-> RCProj(n.rc)]
Logged(p) == [started |-> p.started, round |-> p.round, acc |-> Acc3(p.acc), lpr |-> p.lpr, lpv |-> p.lpv,
              decided |-> p.decided, dval |-> p.dval, prep |-> SRV(p.prep), comm |-> SRV(p.comm), rc |-> RCProj(RCFull(p.rc))]

CanProc(n, stp) == ~stp /\ n.round < Cutoff
(* the logged projection of the real post-state equals the model's successor state.
   Containers are compared from the high-water round upwards (plus the prepares of the last prepared round): the
   model's Norm has forgotten lower rounds, the real containers have not, and UponDecided can move the round back. *)
Max2(a, b) == IF a > b THEN a ELSE b
Cut(p, h) == [p EXCEPT !.prep = {x \in @ : x.round >= h \/ x.round = p.lpr},
                       !.comm = {x \in @ : x.round >= h}, !.rc = {x \in @ : x.round >= h}]
PostOK == /\ hw' = Max2(hw, st'[Me].round)
          /\ Cut(Proj(st'[Me]), hw') = Cut(Logged(Ev.post), hw')
          /\ Ev.post.canproc = CanProc(st'[Me], stopped')

(* broadcasts since the previous event = what the model action added to `sent` (certificates re-broadcast by the
   controller, type "decided", are the controller's business and are checked by DecidedOutOK) *)
OutProj(m) == [type |-> m.type, round |-> m.round, pr |-> IF m.type = "rc" THEN m.pr ELSE 0,
               value |-> IF m.type = "rc" THEN m.pv ELSE m.value]
LogOut == {[type |-> o.type, round |-> o.round, pr |-> o.pr, value |-> o.value] : o \in {x \in ToSet(Ev.out) : x.type # "decided"}}
NLogOut == Cardinality({k \in 1..Len(Ev.out) : Ev.out[k].type # "decided"})
NDecOut == Cardinality({k \in 1..Len(Ev.out) : Ev.out[k].type = "decided"})
OutOK == /\ Cardinality(sent' \ sent) = NLogOut
         /\ {OutProj(m) : m \in sent' \ sent} = LogOut

Silent == UNCHANGED <<st, sent, byzUsed>>
Same == UNCHANGED <<scen, stopped>>
---------------------------------------------------------------------------
(* well-formedness facts (the model only speaks about well-formed messages; the rest are QBFTInstance's mutants) *)
One(m) == Len(m.signers) = 1
Signer1(m) == IF Len(m.signers) >= 1 THEN m.signers[1] ELSE 0
TopWF(m) == /\ m.struct_ok /\ m.height_ok /\ m.sig_ok /\ One(m) /\ m.signers[1] \in Ops
            /\ m.type \in MsgTypes /\ m.value \in Vals0

(* a nested round-change that fails its own well-formedness is handed to the model as a round-change for round 0,
   which ValidRCFor never accepts; a prepared one whose prepares are not all valid arrives with js = {} (no quorum) *)
RCRec(x) == [type |-> "rc", signer |-> x.signer, round |-> IF x.ok THEN x.round ELSE 0, pr |-> x.pr, pv |-> x.pv, js |-> ToSet(x.js)]
RCJ(m) == {RCRec(x) : x \in ToSet(m.rcj)}
(* the prepare justification: the model takes one (round, value) and a signer set; mixed or invalid elements make
   the value None, which never equals the proposed value *)
PJS(m) == {x.signer : x \in ToSet(m.pj)}
PJR(m) == IF Len(m.pj) = 0 THEN 0 ELSE m.pj[1].round
PJV(m) == IF Len(m.pj) # 0 /\ \A x \in ToSet(m.pj) : x.ok /\ x.round = m.pj[1].round /\ x.value = m.pj[1].value
          THEN m.pj[1].value ELSE None
(* a received round-change as the model's record *)
RCMsgRec(m) == [type |-> "rc", signer |-> Signer1(m), round |-> m.round, pr |-> m.pr,
                (* pv = the full data the message CARRIES: for a prepared one it hashes to the root (data_matches);
                   an unprepared one may carry data too, and uponRoundChange proposes the completing message's
                   full data (valueToPropose = signedRoundChange.FullData) whether or not THAT message is prepared *)
                pv |-> m.data,
                js |-> IF m.pr # 0 /\ m.js_ok /\ m.data_matches THEN ToSet(m.js) ELSE {}]

Named(k) == act' = [name |-> k]
Reject(k) == /\ ~Ev.ok /\ Silent /\ Same /\ act' = [name |-> "Reject", kind |-> k]
             /\ Len(Ev.out) = 0 /\ PostOK
NoOp(k) == /\ Ev.ok /\ Silent /\ Same /\ act' = [name |-> "NoOp", kind |-> k]
           /\ Len(Ev.out) = 0 /\ PostOK
Done(k) == UNCHANGED byzUsed /\ Same /\ Named(k) /\ PostOK /\ OutOK
---------------------------------------------------------------------------
TInit == /\ Init /\ l = 1 /\ scen = [leader |-> 0, off |-> 0] /\ stopped = FALSE /\ hw = 1

(* the first event of every trace: the logged pre-state is the initial state (constrained by PreOK) *)
TReset == /\ IsEv("Reset")
          /\ Ev.n = N /\ PreOK(Ev.pre) /\ Ev.leader \in 0..N /\ Ev.off \in 0..(N - 1)
          /\ st' = [i \in Honest |-> NodeOf(Ev.pre)]
          /\ sent' = {} /\ byzUsed' = 0
          /\ scen' = [leader |-> Ev.leader, off |-> Ev.off]
          /\ stopped' = (~Ev.pre.canproc /\ Ev.pre.round < Cutoff)
          /\ hw' = Ev.pre.round
          /\ act' = [name |-> "Reset", scen |-> Ev.scen]

TForceStop == /\ IsEv("ForceStop") /\ stopped' = TRUE /\ UNCHANGED <<vars, scen>> /\ PostOK

(* Controller.StartNewInstance *)
TStart == /\ IsEv("Start")
          /\ \/ /\ Ev.ok /\ Ev.value_ok /\ ~Ev.past_height
                /\ Start(Me) /\ Same /\ PostOK /\ OutOK
             \/ /\ ~Ev.value_ok \/ Ev.past_height \/ ~ENABLED Start(Me)
                /\ Reject("start")

(* uponProposal + isValidProposal *)
ProposalStep ==
    LET s == Signer1(M)
        wf == TopWF(M) /\ M.data_matches
        just == Justified(RCJ(M), PJS(M), PJR(M), PJV(M), M.round, M.value)
    IN \/ /\ Ev.ok /\ wf /\ just /\ DoProposal(Me, s, M.round, M.value) /\ Done("Proposal")
       \/ /\ ~wf \/ ~just \/ ~ENABLED DoProposal(Me, s, M.round, M.value)
          /\ Reject("proposal")

(* uponPrepare; a second prepare of a signer for the round is accepted and ignored *)
PrepareDup(n, s, r, v) == n.started /\ n.acc # NoProp /\ r = n.round /\ v = n.acc.value /\ Has(n.prep, s, r)
PrepareStep ==
    LET s == Signer1(M)  n == st[Me]
    IN \/ /\ Ev.ok /\ TopWF(M) /\ DoPrepare(Me, s, M.round, M.value) /\ Done("Prepare")
       \/ /\ TopWF(M) /\ PrepareDup(n, s, M.round, M.value) /\ NoOp("duplicatePrepare")
       \/ /\ ~TopWF(M) \/ (~ENABLED DoPrepare(Me, s, M.round, M.value) /\ ~PrepareDup(n, s, M.round, M.value))
          /\ Reject("prepare")

(* UponCommit; through the controller a commit quorum (again) makes it broadcast the certificate *)
CommitDup(n, s, r, v) == n.started /\ n.acc # NoProp /\ r = n.round /\ v = n.acc.value /\ Has(n.comm, s, r)
QuorumFor(n, r, v) == Card(Signers({x \in n.comm : x.round = r /\ x.value = v})) >= Q
DecidedOutOK == Ev.via = "controller" => (NDecOut = IF QuorumFor(st'[Me], M.round, M.value) THEN 1 ELSE 0)
CommitStep ==
    LET s == Signer1(M)  n == st[Me]
    IN \/ /\ Ev.ok /\ TopWF(M) /\ DoCommit(Me, s, M.round, M.value) /\ Done("Commit")
          /\ Ev.decided = st'[Me].decided /\ DecidedOutOK
          /\ Ev.via = "controller" => (Ev.reported = (st'[Me].decided /\ ~n.decided))
       \/ /\ TopWF(M) /\ CommitDup(n, s, M.round, M.value) /\ NoOp("duplicateCommit")
       \/ /\ ~TopWF(M) \/ (~ENABLED DoCommit(Me, s, M.round, M.value) /\ ~CommitDup(n, s, M.round, M.value))
          /\ Reject("commit")

(* uponRoundChange + validRoundChangeForData *)
RCDup(n, m) == n.started /\ m.round >= n.round /\ ValidRC(m) /\ Has(n.rc, m.signer, m.round)
RCStep ==
    LET m == RCMsgRec(M)  n == st[Me]
        wf == TopWF(M) /\ (M.pr # 0 => (M.js_ok /\ M.data_matches))
    IN \/ /\ Ev.ok /\ wf /\ DoRC(Me, m) /\ Done("RoundChange")
       \/ /\ wf /\ RCDup(n, m) /\ NoOp("duplicateRoundChange")
       \/ /\ ~wf \/ (~ENABLED DoRC(Me, m) /\ ~RCDup(n, m))
          /\ Reject("roundChange")

(* Controller.UponDecided: a commit signed by >= quorum signers *)
IsCert(m) == m.type = "commit" /\ Len(m.signers) >= Q
CertWF(m) == m.struct_ok /\ m.sig_ok /\ m.data_matches /\ m.round \in Rounds /\ m.value \in AllVals
(* QBFT!RecvDecided(i) chooses round, value and signer set itself (\E over Rounds \X AllVals \X SUBSET Ops: 2 816
   combinations for N = 4, 22 528 for N = 7 - measured 15 s per certificate event).  RecvDecidedAt is its body at the
   LOGGED (r, v, S).  For N = 4 the model's own action is taken AND must agree with the instantiation (every
   certificate event of a committee-4 trace checks the transcription); larger committees use the instantiation. *)
RecvDecidedAt(i, r, v, S) ==
    LET n == st[i] IN
    /\ CertOK(S, r, v)
    /\ IF S \subseteq Honest THEN NoByz ELSE UseByz("decided")
    /\ ~n.decided \/ Card(S) > Card(n.dsigners)
    /\ IF ~n.decided
       THEN Apply(i, [n EXCEPT !.decided = TRUE, !.dval = v, !.round = r, !.dround = r, !.cround = r, !.cval = v, !.dsigners = S,
                               !.comm = @ \cup {[signer |-> s, round |-> r, value |-> v] : s \in S}], {})
       ELSE Apply(i, [n EXCEPT !.dsigners = S, !.cround = r, !.cval = v,
                               !.comm = @ \cup {[signer |-> s, round |-> r, value |-> v] : s \in S}], {})
    /\ act' = [name |-> "RecvDecided", to |-> i, round |-> r, value |-> v, signers |-> S, kind |-> "valid"]
DecidedAction(r, v, S) ==
    IF N <= 4 THEN /\ RecvDecided(Me) /\ act'.round = r /\ act'.value = v /\ act'.signers = S
                   /\ RecvDecidedAt(Me, r, v, S)
    ELSE RecvDecidedAt(Me, r, v, S)
DecidedStep ==
    LET S == ToSet(M.signers)  n == st[Me]
    IN \/ /\ Ev.ok /\ CertWF(M)
          /\ DecidedAction(M.round, M.value, S)
          /\ Same /\ PostOK /\ Len(Ev.out) = 0
          /\ Ev.reported = ~n.decided
       \/ /\ CertWF(M) /\ n.decided /\ Card(S) <= Card(n.dsigners) /\ ~Ev.reported /\ NoOp("smallerCertificate")
       \/ /\ ~CertWF(M) /\ Reject("forgedCertificate")

TProcessMsg ==
    /\ IsEv("ProcessMsg")
    /\ LET n == st[Me] IN
       IF Ev.via = "controller" /\ ~M.id_ok THEN Reject("wrongIdentifier")
       ELSE IF Ev.via = "controller" /\ IsCert(M) THEN DecidedStep
       ELSE IF Ev.via = "controller" /\ ~(n.started \/ n.decided) THEN Reject("noInstance")
       ELSE IF ~CanProc(n, stopped) THEN Reject("stopped")
       ELSE IF M.type = "proposal" THEN ProposalStep
       ELSE IF M.type = "prepare" THEN PrepareStep
       ELSE IF M.type = "commit" THEN CommitStep
       ELSE IF M.type = "rc" THEN RCStep
       ELSE Reject("unknownType")

(* Instance.UponRoundTimeout / Controller.OnTimeout (which ignores old rounds and decided instances) *)
TTimeout ==
    /\ IsEv("Timeout")
    /\ LET n == st[Me]
           exists == n.started \/ n.decided
           ignored == Ev.via = "controller" /\ (Ev.tround < n.round \/ n.decided)
       IN \/ /\ Ev.ok /\ exists /\ ~ignored /\ CanProc(n, stopped)
             /\ Timeout(Me) /\ Same /\ PostOK /\ OutOK
          \/ /\ exists /\ ignored /\ NoOp("timeoutIgnored")
          \/ /\ ~exists \/ (~ignored /\ ~CanProc(n, stopped)) \/ (~ignored /\ ~ENABLED Timeout(Me))
             /\ Reject("timeout")

TNext == TReset \/ TForceStop \/ TStart \/ TProcessMsg \/ TTimeout
TraceSpec == TInit /\ [][TNext]_tvars
(* accepted = the whole trace was consumed (high-water mark of the line index = depth of the search) *)
TraceAccepted == TLCGet("stats").diameter - 1 = Len(Trace)
(* sanity of the run itself *)
TraceTypeOK == st[Me].round \in 1..MaxRound /\ st[Me].lpr \in 0..MaxRound
=============================================================================
