---------------------------- MODULE QBFTInstance ----------------------------
(* C06: ONE consensus instance (operator 1) against an arbitrary environment: every other committee member is
   treated as adversarial, i.e. every well-formed message of the protocol grammar is receivable at any time
   (QBFT's RecvByz* actions with Byz = Ops \ {1}), plus the instance's own broadcasts (Recv* from `sent`), plus
   field-mutated messages (RecvMutant) which the instance must refuse without changing state.
   The model is the test generator and the predictor of accept/reject; the ORACLE of the property is the reference
   implementation: every behaviour is stepped through the node's instance, the node's instance with compaction
   after every message, and the ssv-spec instance, and their outputs are compared (harness/cmd/qbftdiff).      *)
EXTENDS QBFT

MutKinds == {"wrongHeight", "badSig", "nonMember", "zeroSigner", "twoSigners", "rootMismatch",
             "malformedJustification", "unknownType"}
MsgTypes == {"proposal", "prepare", "commit", "rc"}

RecvMutant(i) ==
    \E k \in MutKinds, t \in MsgTypes, s \in Ops \ {i}, r \in Rounds, v \in Values :
        /\ st[i].started
        (* the base message is the one most likely to be valid: from the round leader (or operator 2 when the
           instance itself leads), for the current round and the accepted (else the start) value *)
        /\ r = st[i].round
        /\ s = IF Leader(r) = i THEN 2 ELSE Leader(r)
        /\ v = IF st[i].acc # NoProp THEN st[i].acc.value ELSE StartValue[i]
        /\ UseByz("mutant")
        /\ UNCHANGED <<st, sent>>
        /\ act' = [name |-> "RecvMutant", to |-> i, type |-> t, from |-> s, round |-> r, value |-> v, kind |-> k]

NextI == Next \/ \E i \in Honest : RecvMutant(i)
SpecI == Init /\ [][NextI]_vars
(* sanity properties of the single-instance model *)
DecidedImpliesQuorum == \A i \in Honest : (st[i].decided /\ st[i].dlocal) => Card(st[i].dsigners) >= Q
=============================================================================
