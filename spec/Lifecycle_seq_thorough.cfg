SPECIFICATION Spec
CONSTANTS
  Owners <- MCOwners
  Validators <- MCValidators
  Comms <- MCComms
  Mine <- MCMine
  Alphabet <- AlphaMid
  MaxEvents = 5
  MaxBlock = 3
  MaxMeta = 3
  MaxRestarts = 1
  MetaAnywhere = FALSE
  SplitStart = FALSE
INVARIANT TypeOK
INVARIANT L1_RunningIsEligible
INVARIANT L2_NoLiquidatedRunning
INVARIANT L2b_NoRemovedRunning
INVARIANT L3_RestartIndependent
INVARIANT L3a_MemIsDb
PROPERTY L3b_StartFromStorage
INVARIANT L4_FeeIsStored
PROPERTY L5a_ExitOnlyOwnStored
INVARIANT L6_TasksOnlyInBlock
INVARIANT L7_RunningHoldsStored
VIEW view
