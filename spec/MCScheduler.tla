---------------------------- MODULE MCScheduler ----------------------------
(* model-specific definitions for the Scheduler configs (values a .cfg file cannot spell) *)
EXTENDS Scheduler
LagsNear == {-1, 0, 1}                  \* one slot early / on time / one slot late
LagsAtt == {-1, 0, 1, SPE, SPE + 1}     \* ... the last slot of the attester window and the first one outside it
AllActives == SUBSET Validators \ {{}}
=============================================================================
