------------------------------- MODULE Pipeline -------------------------------
(* The per-validator MESSAGE PIPELINE of protocol/v2/ssv/validator: everything between "a message / an event exists"
   and "a duty runner was called with it".  Queue.tla is the priority queue alone, Runner.tla the duty runner alone,
   Timer.tla the round timer alone; this module is the glue the three leave out:

     validator.go          HandleMessage (role lookup -> TryPush, drop when full, "missing queue")            -> Handle
                           ProcessMessage (validateMessage, routing by type to ProcessConsensus /
                           ProcessPreConsensus / ProcessPostConsensus / handleEventMessage)                   -> ConsumerProcess
     operator/validator/controller.go ExecuteDuty (CreateDutyExecuteMsg -> Queues[role].Q.TryPush)            -> Handle (k = "exec")
     timer.go              onTimeout (state = Started, HasRunningDuty, createTimerMessage -> TryPush)         -> TimerFire
     events.go             handleEventMessage -> Controller.OnTimeout / OnExecuteDuty                         -> ConsumerProcess
     duty_executer.go      OnExecuteDuty -> Start (no-op once started) -> StartDuty                           -> ConsumerProcess
     startup.go            Start (CAS NotStarted->Started, one `go StartQueueConsumer` per runner), Stop      -> Start, Stop
     msgqueue_consumer.go  ConsumeQueue: the loop  [rebuild queue.State + choose the filter] -> Pop -> handler
                                                                             -> ConsumerSnapshot, ConsumerPop, ConsumerWaitRecv, ConsumerProcess
     queue/queue.go        Pop: optional readInbox (time.Since(lastRead) > 1 ms), pop, wait loop, readInbox, pop
                                                                             -> ConsumerPop, ConsumerReadOne, ConsumerWaitRecv
     queue/message_prioritizer.go, messages.go   standardPrioritizer.Prior, transcribed score by score on ABSOLUTE
                           heights / rounds against the snapshot (Queue.tla has the same scores on relative classes)

   One validator, roles Roles (PreRoles: roles with a pre-consensus phase), operator 1 of a 4-committee (Q = 3).
   Per role: the queue (inbox = the buffered channel, capacity Cap; list = the consumer's linked list, list[1] = head =
   newest, UNBOUNDED), the consumer's program counter, the snapshot it took, the message it holds, and the abstract
   state of the role's runner - exactly the part the filter and the prioritizer read, plus what decides how that part
   changes: duty slot, Finished, partial-signature signers seen, DecidedValue, RunningInstance (height), the controller
   (Height, stored instances with round / ProposalAcceptedForCurrentRound / Decided / forceStop), the height the
   round-timer callback carries.  Heights = slots 1..MaxH with MaxH <= 2 = InstanceContainerDefaultCapacity, so the
   container never evicts (eviction is Runner.tla's subject).

   Facts of the code modelled as they are (named, not idealised):
     * capacity bounds the INBOX only: what the filter holds back piles up in the list without bound;
     * queueState.Slot is never written: every partial-signature message is scored "higher slot" (relative height 1);
     * isDecidedMesssage compares len(Signers) > Quorum: a decided message of exactly 2f+1 signers ("dec3") is an
       ordinary commit for the prioritizer, only "dec4" is decided (PrioDecided = "gt"; "ge" = the evident intention);
     * the filter of a running, proposal-less instance holds back prepare AND commit of (Height, Round) - a decided
       message is a commit; Height is the CONTROLLER's height, Round the RUNNING INSTANCE's round;
     * with a running duty but no running instance (pre-consensus phase, failed decide) the filter is FilterAny;
     * with no running duty only ExecuteDuty events pass;
     * the snapshot is taken by the consumer goroutine, which is also the only goroutine that ever changes its runner
       (timer and network only push): there is no window between snapshot and pop in the production wiring.
       ExternalStart = TRUE adds a direct call of the exported Validator.StartDuty from another goroutine (what
       protocol/v2/ssv/spectest does) - the only way the snapshot can go stale.
     * Stop replaces the queue map: queued messages are discarded, later pushes find no queue.

   SeqHarness = TRUE restricts to the schedules the replay harness can force on the real consumer goroutine: it parks
   the goroutine before Pop and after Pop (queue wrapper), so the handler call and the next snapshot run back to back,
   Pop always reads the inbox (the harness waits > 1 ms), and a consumer blocked in the wait loop takes a pushed
   message at once.                                                                                              *)
EXTENDS Integers, Sequences, FiniteSets, TLC

CONSTANTS Roles, PreRoles, NoQueueRoles,
          Alphabet,       \* message contents the environment (network, duty scheduler) may push
          MaxH, MaxR, Cap, MaxPush, MaxFire, MaxStop, MaxExt,
          Q,              \* quorum of partial signatures (3)
          SeqHarness,     \* BOOLEAN
          FastPop,        \* BOOLEAN: Pop may skip readInbox (called <= 1 ms after the last read)
          FineRead,       \* BOOLEAN: readInbox takes one message per step (pushes interleave with it), else it is one step
          ExternalStart,  \* BOOLEAN: Validator.StartDuty called directly from another goroutine
          AdvTimer,       \* BOOLEAN: the timer may fire for any round (stale / early timers), else only the instance's round
          PrioDecided     \* "gt" (the code) | "ge"

VARIABLES inbox, list, pc, snap, cur, rn, started, stopped, nextId, fate, nFire, nStop, nExt, act
vars == <<inbox, list, pc, snap, cur, rn, started, stopped, nextId, fate, nFire, nStop, nExt, act>>
view == <<inbox, list, pc, snap, cur, rn, started, stopped, nextId, fate, nFire, nStop, nExt>>

Heights == 1..MaxH
Ids == 1..MaxPush
DecKinds == {"dec3", "dec4"}
NilC == [k |-> "", ro |-> "", h |-> 0, r |-> 0, ct |-> "", sg |-> 0]
NilM == [id |-> 0, c |-> NilC]
Exec(ro, s)        == [k |-> "exec", ro |-> ro, h |-> s, r |-> 0, ct |-> "", sg |-> 0]
Tmo(ro, h, r)      == [k |-> "timeout", ro |-> ro, h |-> h, r |-> r, ct |-> "", sg |-> 0]
Cons(ro, h, r, ct) == [k |-> "cons", ro |-> ro, h |-> h, r |-> r, ct |-> ct, sg |-> 0]
Pre(ro, s, sg)     == [k |-> "pre", ro |-> ro, h |-> s, r |-> 0, ct |-> "", sg |-> sg]
Post(ro, s, sg)    == [k |-> "post", ro |-> ro, h |-> s, r |-> 0, ct |-> "", sg |-> sg]

SetOf(s) == {s[k] : k \in 1..Len(s)}
Rev(s) == [k \in 1..Len(s) |-> s[Len(s) + 1 - k]]
Remove(s, k) == [j \in 1..(Len(s) - 1) |-> IF j < k THEN s[j] ELSE s[j + 1]]
ReadInbox(l, ib) == Rev(ib) \o l

----------------------------------------------------------------------------
(* the runner of one role, abstracted *)
NoInst == [on |-> FALSE, r |-> 0, pa |-> FALSE, dec |-> FALSE, stop |-> FALSE]
Rn0 == [duty |-> 0, fin |-> FALSE, preSg |-> {}, postSg |-> {}, dval |-> FALSE, runH |-> 0, ch |-> 0,
        st |-> [h \in Heights |-> NoInst], cbh |-> 0]
HasDuty(x) == x.duty # 0 /\ ~x.fin                        \* hasRunningDuty: State # nil /\ ~Finished
RunI(x) == IF x.runH = 0 THEN NoInst ELSE x.st[x.runH]     \* State.RunningInstance
Res(x, ok) == [x |-> x, ok |-> ok]

(* BaseRunner.decide -> Controller.StartNewInstance(height = duty slot) + registerTimeoutHandler *)
DecideR(x, s) ==
    IF s < x.ch \/ x.st[s].on THEN Res(x, FALSE)            \* "past height" / "instance already running"
    ELSE Res([x EXCEPT !.ch = s, !.runH = s, !.cbh = s,
                       !.st = [h \in Heights |->
                                 IF h = s THEN [on |-> TRUE, r |-> 1, pa |-> FALSE, dec |-> FALSE, stop |-> FALSE]
                                 ELSE IF x.st[h].on THEN [x.st[h] EXCEPT !.stop = TRUE] ELSE x.st[h]]], TRUE)

(* Validator.StartDuty -> baseStartNewDuty: ShouldProcessDuty, baseSetupForNewDuty, executeDuty *)
StartDutyR(x, ro, s) ==
    IF x.ch >= s /\ x.ch # 0 THEN Res(x, FALSE)
    ELSE LET y == [x EXCEPT !.duty = s, !.fin = FALSE, !.preSg = {}, !.postSg = {}, !.dval = FALSE, !.runH = 0]
         IN IF ro \in PreRoles THEN Res(y, TRUE) ELSE DecideR(y, s)

(* ProcessPreConsensus: ValidatePreConsensusMsg, container, first quorum -> decide *)
PreR(x, ro, s, sg) ==
    IF ro \notin PreRoles \/ ~HasDuty(x) \/ s # x.duty THEN Res(x, FALSE)
    ELSE LET y == [x EXCEPT !.preSg = @ \cup {sg}]
         IN IF Cardinality(y.preSg) >= Q /\ Cardinality(x.preSg) < Q THEN DecideR(y, y.duty) ELSE Res(y, TRUE)

(* ProcessPostConsensus: ValidatePostConsensusMsg (DecidedValue, decided running instance, slot of the decided value),
   first quorum -> reconstruct, submit, Finished *)
PostR(x, s, sg) ==
    IF ~HasDuty(x) \/ ~x.dval \/ x.runH = 0 \/ ~RunI(x).dec \/ s # x.runH THEN Res(x, FALSE)
    ELSE LET y == [x EXCEPT !.postSg = @ \cup {sg}]
         IN IF Cardinality(y.postSg) >= Q /\ Cardinality(x.postSg) < Q THEN Res([y EXCEPT !.fin = TRUE], TRUE) ELSE Res(y, TRUE)

(* ProcessConsensus: baseConsensusMsgProcessing around Controller.ProcessMsg.  Every non-decided message comes from ONE
   other operator (never a quorum by itself), proposals from the leader; a decision arrives as a decided message. *)
ConsR(x, c) ==
    LET h == c.h  i == x.st[c.h] IN
    IF c.ct \in DecKinds THEN                                  \* UponDecided
        LET was == i.on /\ i.dec
            i2 == IF ~i.on THEN [on |-> TRUE, r |-> c.r, pa |-> FALSE, dec |-> TRUE, stop |-> FALSE]
                  ELSE IF ~i.dec THEN [i EXCEPT !.dec = TRUE, !.r = c.r] ELSE i
            y == [x EXCEPT !.st[h] = i2, !.ch = IF h > x.ch THEN h ELSE x.ch]
            prevDec == x.runH # 0 /\ (RunI(x).dec \/ x.dval)
        IN IF ~HasDuty(x) \/ was THEN Res(y, TRUE)
           ELSE IF x.runH = 0 \/ h # x.runH THEN Res(y, FALSE)        \* "decided wrong instance"
           ELSE IF prevDec THEN Res(y, TRUE)
           ELSE Res([y EXCEPT !.dval = TRUE], TRUE)                   \* decided: post-consensus signature broadcast
    ELSE IF x.ch = 0 \/ h > x.ch THEN Res(x, FALSE)            \* isFutureMessage (height 0 never has an instance)
    ELSE IF ~i.on \/ i.stop \/ c.r < i.r THEN Res(x, FALSE)    \* instance not found / stopped / past round
    ELSE CASE c.ct = "proposal" ->
                IF (~i.pa /\ c.r = i.r) \/ c.r > i.r
                THEN Res([x EXCEPT !.st[h] = [i EXCEPT !.pa = TRUE, !.r = c.r]], TRUE) ELSE Res(x, FALSE)
           [] c.ct \in {"prepare", "commit"} -> Res(x, i.pa /\ c.r = i.r)
           [] OTHER -> Res(x, TRUE)                            \* a single round-change

(* handleEventMessage: Controller.OnTimeout *)
TimeoutR(x, h, r) ==
    LET i == x.st[h] IN
    IF ~i.on THEN Res(x, FALSE)
    ELSE IF r < i.r \/ i.dec THEN Res(x, TRUE)
    ELSE IF i.stop THEN Res(x, FALSE)
    ELSE Res([x EXCEPT !.st[h] = [i EXCEPT !.r = i.r + 1, !.pa = FALSE]], TRUE)

React(x, ro, c) ==
    CASE c.k = "exec" -> StartDutyR(x, ro, c.h)
      [] c.k = "timeout" -> TimeoutR(x, c.h, c.r)
      [] c.k = "cons" -> ConsR(x, c)
      [] c.k = "pre" -> PreR(x, ro, c.h, c.sg)
      [] OTHER -> PostR(x, c.h, c.sg)

----------------------------------------------------------------------------
(* ConsumeQueue: the queue.State and the filter built before every Pop *)
SnapOf(x) ==
    [hd |-> HasDuty(x),
     hri |-> HasDuty(x) /\ x.runH # 0 /\ ~RunI(x).dec,
     height |-> x.ch,
     round |-> IF HasDuty(x) /\ x.runH # 0 THEN RunI(x).r ELSE 1,
     fk |-> IF ~HasDuty(x) THEN "exec" ELSE IF x.runH # 0 /\ ~RunI(x).pa THEN "nopc" ELSE "any"]
Snap0 == SnapOf(Rn0)

Admit(sn, c) ==
    CASE sn.fk = "exec" -> c.k = "exec"
      [] sn.fk = "nopc" -> ~(c.k = "cons" /\ c.h = sn.height /\ c.r = sn.round /\ c.ct \in {"prepare", "commit"} \cup DecKinds)
      [] OTHER -> TRUE

(* standardPrioritizer.Prior against the snapshot (state.Slot = 0 always) *)
ScoreType(c) == CASE c.k = "exec" -> 3 [] c.k = "timeout" -> 2 [] OTHER -> 0
RelH(c, sn) == CASE c.k = "cons" -> (IF c.h = sn.height THEN 0 ELSE IF c.h > sn.height THEN 1 ELSE -1)
                 [] c.k \in {"pre", "post"} -> (IF c.h = 0 THEN 0 ELSE 1)
                 [] OTHER -> -1
ScoreHeight(rel) == CASE rel = 0 -> 2 [] rel = 1 -> 1 [] OTHER -> 0
IsCommitType(c) == c.k = "cons" /\ c.ct \in {"commit"} \cup DecKinds
IsDecidedP(c) == c.k = "cons" /\ (c.ct = "dec4" \/ (c.ct = "dec3" /\ PrioDecided = "ge"))
ScoreSub(c, rel, hri) ==
    IF rel = 0 THEN
        IF hri THEN (CASE c.k = "cons" -> 3 [] c.k = "pre" -> 2 [] c.k = "post" -> 1 [] OTHER -> 0)
        ELSE (CASE c.k = "pre" -> 3 [] c.k = "post" -> 2 [] c.k = "cons" -> 1 [] OTHER -> 0)
    ELSE IF rel = 1 THEN
        (CASE IsDecidedP(c) -> 4 [] c.k = "pre" -> 3 [] c.k = "cons" -> 2 [] c.k = "post" -> 1 [] OTHER -> 0)
    ELSE (CASE IsDecidedP(c) -> 2 [] IsCommitType(c) -> 1 [] OTHER -> 0)
ScoreRound(c, sn) == IF c.k = "cons" THEN (IF c.r = sn.round THEN 2 ELSE IF c.r > sn.round THEN 1 ELSE -1) ELSE 0
ScoreCT(c) == IF c.k = "cons"
              THEN (CASE c.ct = "proposal" -> 4 [] c.ct = "prepare" -> 3 [] IsCommitType(c) -> 2 [] c.ct = "rc" -> 1 [] OTHER -> 0)
              ELSE 0
Prior(a, b, sn) ==
    IF ScoreType(a) # ScoreType(b) THEN ScoreType(a) > ScoreType(b)
    ELSE IF RelH(a, sn) # RelH(b, sn) THEN ScoreHeight(RelH(a, sn)) > ScoreHeight(RelH(b, sn))
    ELSE IF ScoreSub(a, RelH(a, sn), sn.hri) # ScoreSub(b, RelH(b, sn), sn.hri)
         THEN ScoreSub(a, RelH(a, sn), sn.hri) > ScoreSub(b, RelH(b, sn), sn.hri)
    ELSE IF ScoreRound(a, sn) # ScoreRound(b, sn) THEN ScoreRound(a, sn) > ScoreRound(b, sn)
    ELSE IF ScoreCT(a) # ScoreCT(b) THEN ScoreCT(a) > ScoreCT(b)
    ELSE TRUE
StrictlyPrior(a, b, sn) == Prior(a, b, sn) /\ ~Prior(b, a, sn)

(* priorityQueue.pop: the highest admitted item; on ties the later list position (= the older message) wins *)
RECURSIVE ScanAdm(_, _, _, _)
ScanAdm(l, sn, k, hi) ==
    IF k > Len(l) THEN hi
    ELSE ScanAdm(l, sn, k + 1, IF Admit(sn, l[k].c) /\ (hi = 0 \/ Prior(l[k].c, l[hi].c, sn)) THEN k ELSE hi)
Best(l, sn) == ScanAdm(l, sn, 1, 0)

----------------------------------------------------------------------------
Init == /\ inbox = [ro \in Roles |-> <<>>] /\ list = [ro \in Roles |-> <<>>]
        /\ pc = [ro \in Roles |-> "off"] /\ snap = [ro \in Roles |-> Snap0] /\ cur = [ro \in Roles |-> NilM]
        /\ rn = [ro \in Roles |-> Rn0] /\ started = FALSE /\ stopped = FALSE
        /\ nextId = 1 /\ fate = [i \in Ids |-> "none"] /\ nFire = 0 /\ nStop = 0 /\ nExt = 0
        /\ act = [name |-> "init"]

(* what the replay harness cannot hold back: the snapshot after a handler call (and after Start), and a blocked
   consumer taking a pushed message *)
Quiet == SeqHarness => \A ro \in Roles : pc[ro] # "snap" /\ ~(pc[ro] = "wait" /\ inbox[ro] # <<>>)

(* startup.go Start: the consumers of all roles are spawned *)
Start ==
    /\ ~started /\ ~stopped /\ Quiet
    /\ started' = TRUE /\ pc' = [ro \in Roles |-> "snap"]
    /\ act' = [name |-> "Start"]
    /\ UNCHANGED <<inbox, list, snap, cur, rn, stopped, nextId, fate, nFire, nStop, nExt>>

PushTo(ro, c, name) ==
    LET m == [id |-> nextId, c |-> c] IN
    /\ IF Len(inbox[ro]) < Cap
       THEN /\ inbox' = [inbox EXCEPT ![ro] = Append(@, m)] /\ fate' = [fate EXCEPT ![nextId] = "q"]
            /\ act' = [name |-> name, id |-> nextId, c |-> c, res |-> "ok"]
       ELSE /\ UNCHANGED inbox /\ fate' = [fate EXCEPT ![nextId] = "drop"]
            /\ act' = [name |-> name, id |-> nextId, c |-> c, res |-> "drop"]
    /\ nextId' = nextId + 1

(* HandleMessage (network) / controller.ExecuteDuty (k = "exec") *)
Handle(c) ==
    /\ nextId <= MaxPush /\ Quiet
    /\ IF stopped \/ c.ro \in NoQueueRoles
       THEN /\ fate' = [fate EXCEPT ![nextId] = "noq"] /\ nextId' = nextId + 1 /\ UNCHANGED inbox
            /\ act' = [name |-> "Handle", id |-> nextId, c |-> c, res |-> "noq"]       \* "missing queue for role type"
       ELSE PushTo(c.ro, c, "Handle")
    /\ UNCHANGED <<list, pc, snap, cur, rn, started, stopped, nFire, nStop, nExt>>

(* timer.go onTimeout, called by the round timer's goroutine with the round it was armed for; the height is the one
   captured when the callback was registered *)
FireRounds(x) == IF AdvTimer THEN 1..MaxR ELSE {x.st[x.cbh].r}
TimerFire(ro, r) ==
    /\ started /\ ~stopped /\ HasDuty(rn[ro]) /\ rn[ro].cbh # 0 /\ r \in FireRounds(rn[ro])
    /\ nFire < MaxFire /\ nextId <= MaxPush /\ Quiet
    /\ PushTo(ro, Tmo(ro, rn[ro].cbh, r), "TimerFire")
    /\ nFire' = nFire + 1
    /\ UNCHANGED <<list, pc, snap, cur, rn, started, stopped, nStop, nExt>>

(* ConsumeQueue, top of the loop: queue.State rebuilt from the runner, filter chosen *)
ConsumerSnapshot(ro) ==
    /\ pc[ro] = "snap"
    /\ snap' = [snap EXCEPT ![ro] = SnapOf(rn[ro])]
    /\ pc' = [pc EXCEPT ![ro] = "pop"]
    /\ act' = [name |-> "Snapshot", ro |-> ro, snap |-> SnapOf(rn[ro])]
    /\ UNCHANGED <<inbox, list, cur, rn, started, stopped, nextId, fate, nFire, nStop, nExt>>

(* One pop attempt on the list l0 (the inbox left as ib): the message goes to the handler, or - from `from` = "pop" /
   "rd1" only - the consumer enters the wait loop *)
Attempt(ro, l0, ib, rd) ==
    LET hi == Best(l0, snap[ro]) IN
    /\ inbox' = [inbox EXCEPT ![ro] = ib]
    /\ IF hi # 0
       THEN /\ cur' = [cur EXCEPT ![ro] = l0[hi]] /\ list' = [list EXCEPT ![ro] = Remove(l0, hi)]
            /\ pc' = [pc EXCEPT ![ro] = "proc"]
            /\ act' = [name |-> "Pop", ro |-> ro, read |-> rd, id |-> l0[hi].id]
       ELSE /\ cur' = cur /\ list' = [list EXCEPT ![ro] = l0] /\ pc' = [pc EXCEPT ![ro] = "wait"]
            /\ act' = [name |-> "Pop", ro |-> ro, read |-> rd, id |-> 0]

(* Pop, first half: optional readInbox, one pop attempt; nothing admitted -> the wait loop *)
ConsumerPop(ro, read) ==
    /\ pc[ro] = "pop" /\ Quiet
    /\ read \/ (FastPop /\ ~SeqHarness)
    /\ IF read /\ FineRead
       THEN /\ pc' = [pc EXCEPT ![ro] = "rd1"] /\ UNCHANGED <<inbox, list, cur>>
            /\ act' = [name |-> "PopBegin", ro |-> ro]
       ELSE Attempt(ro, IF read THEN ReadInbox(list[ro], inbox[ro]) ELSE list[ro], IF read THEN <<>> ELSE inbox[ro], read)
    /\ UNCHANGED <<snap, rn, started, stopped, nextId, fate, nFire, nStop, nExt>>

(* readInbox, one iteration of its loop: a message from the channel to the head of the list, or - channel empty - the end
   of the read and the pop attempt ("rd1": the read at the start of Pop, "rd2": the read after the wait loop) *)
ConsumerReadOne(ro) ==
    /\ FineRead /\ pc[ro] \in {"rd1", "rd2"}
    /\ IF inbox[ro] # <<>>
       THEN /\ inbox' = [inbox EXCEPT ![ro] = Tail(@)] /\ list' = [list EXCEPT ![ro] = <<Head(inbox[ro])>> \o @]
            /\ UNCHANGED <<cur, pc>>
            /\ act' = [name |-> "ReadOne", ro |-> ro, took |-> Head(inbox[ro]).id]
       ELSE Attempt(ro, list[ro], <<>>, TRUE)
    /\ UNCHANGED <<snap, rn, started, stopped, nextId, fate, nFire, nStop, nExt>>

(* Pop, the wait loop: one message from the channel; an admitted one ends the wait: readInbox, pop *)
ConsumerWaitRecv(ro) ==
    /\ pc[ro] = "wait" /\ inbox[ro] # <<>>
    /\ LET m == Head(inbox[ro])  l1 == <<m>> \o list[ro] IN
       IF Admit(snap[ro], m.c) /\ ~FineRead
       THEN LET l2 == ReadInbox(l1, Tail(inbox[ro]))  hi == Best(l2, snap[ro]) IN
            /\ inbox' = [inbox EXCEPT ![ro] = <<>>]
            /\ cur' = [cur EXCEPT ![ro] = l2[hi]] /\ list' = [list EXCEPT ![ro] = Remove(l2, hi)]
            /\ pc' = [pc EXCEPT ![ro] = "proc"]
            /\ act' = [name |-> "WaitRecv", ro |-> ro, took |-> m.id, id |-> l2[hi].id]
       ELSE /\ inbox' = [inbox EXCEPT ![ro] = Tail(@)] /\ list' = [list EXCEPT ![ro] = l1]
            /\ cur' = cur
            /\ pc' = [pc EXCEPT ![ro] = IF Admit(snap[ro], m.c) THEN "rd2" ELSE "wait"]
            /\ act' = [name |-> "WaitRecv", ro |-> ro, took |-> m.id, id |-> 0]
    /\ UNCHANGED <<snap, rn, started, stopped, nextId, fate, nFire, nStop, nExt>>

(* the handler call: Validator.ProcessMessage with the popped message *)
ConsumerProcess(ro) ==
    /\ pc[ro] = "proc" /\ Quiet
    /\ LET res == React(rn[ro], ro, cur[ro].c) IN
       /\ rn' = [rn EXCEPT ![ro] = res.x]
       /\ act' = [name |-> "Process", ro |-> ro, id |-> cur[ro].id, c |-> cur[ro].c, ok |-> res.ok]
    /\ fate' = [fate EXCEPT ![cur[ro].id] = "handed"]
    /\ cur' = [cur EXCEPT ![ro] = NilM]
    /\ pc' = [pc EXCEPT ![ro] = "snap"]
    /\ UNCHANGED <<inbox, list, snap, started, stopped, nextId, nFire, nStop, nExt>>

(* Validator.StartDuty called directly by another goroutine (the exported API; spectest does it) *)
DirectStartDuty(ro, s) ==
    /\ ExternalStart /\ started /\ ~stopped /\ nExt < MaxExt /\ Quiet
    /\ LET res == StartDutyR(rn[ro], ro, s) IN
       /\ rn' = [rn EXCEPT ![ro] = res.x]
       /\ act' = [name |-> "DirectStartDuty", ro |-> ro, s |-> s, ok |-> res.ok]
    /\ nExt' = nExt + 1
    /\ UNCHANGED <<inbox, list, pc, snap, cur, started, stopped, nextId, fate, nFire, nStop>>

(* startup.go Stop: the context is cancelled, the queue map replaced.  (A consumer holding a popped message either
   discards it - ctx.Err() after Pop - or handles it; Stop is modelled between handler calls only.) *)
Stop ==
    /\ started /\ nStop < MaxStop /\ Quiet /\ \A ro \in Roles : pc[ro] # "proc"
    /\ started' = FALSE /\ stopped' = TRUE /\ nStop' = nStop + 1
    /\ inbox' = [ro \in Roles |-> <<>>] /\ list' = [ro \in Roles |-> <<>>]
    /\ pc' = [ro \in Roles |-> "off"]
    /\ fate' = [i \in Ids |-> IF fate[i] = "q" THEN "lost" ELSE fate[i]]
    /\ act' = [name |-> "Stop"]
    /\ UNCHANGED <<snap, cur, rn, nextId, nFire, nExt>>

Next == \/ Start \/ Stop
        \/ \E c \in Alphabet : Handle(c)
        \/ \E ro \in Roles : \/ \E r \in 1..MaxR : TimerFire(ro, r)
                             \/ ConsumerSnapshot(ro) \/ ConsumerWaitRecv(ro) \/ ConsumerReadOne(ro) \/ ConsumerProcess(ro)
                             \/ \E rd \in BOOLEAN : ConsumerPop(ro, rd)
                             \/ \E s \in Heights : DirectStartDuty(ro, s)
Spec == Init /\ [][Next]_vars
Consumer(ro) == \/ ConsumerSnapshot(ro) \/ ConsumerWaitRecv(ro) \/ ConsumerReadOne(ro) \/ ConsumerProcess(ro)
                \/ \E rd \in BOOLEAN : ConsumerPop(ro, rd)
FairSpec == Spec /\ WF_vars(Start) /\ \A ro \in Roles : WF_vars(Consumer(ro))

----------------------------------------------------------------------------
Queued(ro) == SetOf(inbox[ro]) \cup SetOf(list[ro])
QueuedIds == UNION {{m.id : m \in Queued(ro)} : ro \in Roles}
HeldIds == {cur[ro].id : ro \in Roles} \ {0}
Holding(ro) == pc[ro] = "proc"
HasKind(S, k) == \E m \in S : m.c.k = k
RoleOfId(i) == CHOOSE ro \in Roles : \E m \in Queued(ro) : m.id = i
MsgOfId(i) == CHOOSE m \in Queued(RoleOfId(i)) : m.id = i

TypeOK ==
    /\ \A ro \in Roles : /\ pc[ro] \in {"off", "snap", "pop", "rd1", "wait", "rd2", "proc"}
                         /\ Len(inbox[ro]) <= Cap
                         /\ (pc[ro] = "proc") = (cur[ro].id # 0)
                         /\ rn[ro].runH # 0 => (rn[ro].runH = rn[ro].duty /\ rn[ro].st[rn[ro].runH].on)
                         /\ rn[ro].ch # 0 => rn[ro].st[rn[ro].ch].on
                         /\ rn[ro].cbh # 0 => rn[ro].st[rn[ro].cbh].on
    /\ started => ~stopped

(* P1: a message is queued for, popped by and handed to the runner of its own role only; a handler call changes the
   runner of that role only *)
P1_RoleIsolation ==
    \A ro \in Roles : /\ \A m \in Queued(ro) : m.c.ro = ro
                      /\ Holding(ro) => cur[ro].c.ro = ro
P1_OnlyOwnRunner ==
    [][\A ro \in Roles : rn'[ro] # rn[ro] => (act'.name \in {"Process", "DirectStartDuty"} /\ act'.ro = ro)]_vars

(* P2: what the consumer hands over, stated on the runner's state AT THE HANDLER CALL (the code states it on the
   snapshot; P7 closes the gap): no running duty -> ExecuteDuty events only; a running, proposal-less instance ->
   no prepare / commit / decided message of (controller height, instance round); otherwise anything. *)
P2_FilterAtHandler ==
    \A ro \in Roles : Holding(ro) =>
        LET x == rn[ro]  c == cur[ro].c IN
        /\ ~HasDuty(x) => c.k = "exec"
        /\ (HasDuty(x) /\ x.runH # 0 /\ ~RunI(x).pa) =>
               ~(c.k = "cons" /\ c.h = x.ch /\ c.r = RunI(x).r /\ c.ct \in {"prepare", "commit"} \cup DecKinds)
(* ... and on the snapshot, whatever happened since *)
P2_FilterAtPop == \A ro \in Roles : Holding(ro) => Admit(snap[ro], cur[ro].c)
(* NOT a fact of the code (kept as an observation): "without a running instance no consensus message reaches the runner" *)
P2x_NoConsWithoutInstance ==
    \A ro \in Roles : Holding(ro) /\ cur[ro].c.k = "cons" => rn[ro].runH # 0

(* P3: nothing is lost but by a full inbox (counted), a role without queue, or Stop *)
P3_Conservation ==
    LET q == QueuedIds \cup HeldIds IN
    /\ \A i \in Ids : /\ (i >= nextId) = (fate[i] = "none")
                      /\ (fate[i] = "q") = (i \in q)
    /\ QueuedIds \cap HeldIds = {}
    /\ \A ro \in Roles : Len(inbox[ro]) + Len(list[ro]) = Cardinality(Queued(ro))
    /\ \A r1, r2 \in Roles : r1 # r2 => {m.id : m \in Queued(r1)} \cap {m.id : m \in Queued(r2)} = {}
P3_NoSilentLoss == \A i \in Ids : fate[i] # "lost"
P3_OnlyCountedLoss == [][\A i \in Ids : (fate[i] = "q" /\ fate'[i] # "q") => fate'[i] \in {"handed", "lost"}]_vars
InQ(i) == i \in QueuedIds
AdmNow(i) == InQ(i) /\ LET ro == RoleOfId(i) IN Admit(SnapOf(rn[ro]), MsgOfId(i).c)
(* liveness: a queued message is eventually popped, or is (at some moment) not admitted by the filter of the runner's
   state; checked under weak fairness of the consumer, on the unconstrained small model *)
P3_Live == \A i \in Ids : [](InQ(i) => <>(~AdmNow(i)))
(* NOT a fact (observation): every queued message is eventually popped *)
P3x_AllPopped == <>[](QueuedIds = {})

(* P4 / P5: the true ordering guarantee.  At the completion of a pop that has read the inbox (every Pop of the wait
   path, and every Pop that was called more than 1 ms after the last read) the returned message is maximal in the
   prioritizer's order among everything queued and admitted; in particular an ExecuteDuty event beats everything, a
   timeout event beats everything but ExecuteDuty.  A fast Pop (FastPop) chooses among the list only. *)
PopDone(ro) == pc[ro] \in {"pop", "rd1", "wait", "rd2"} /\ pc'[ro] = "proc"
PoolBefore(ro) == IF act'.name = "Pop" /\ ~act'.read THEN SetOf(list[ro]) ELSE Queued(ro)
P4_PopMaximal ==
    [][\A ro \in Roles : PopDone(ro) =>
          \A m \in PoolBefore(ro) : Admit(snap[ro], m.c) => ~StrictlyPrior(m.c, cur'[ro].c, snap[ro])]_vars
P4_ExecFirst ==
    [][\A ro \in Roles : PopDone(ro) /\ HasKind(PoolBefore(ro), "exec") => cur'[ro].c.k = "exec"]_vars
P5_TimeoutNext ==
    [][\A ro \in Roles : (PopDone(ro) /\ snap[ro].fk # "exec" /\ HasKind(PoolBefore(ro), "timeout")
                          /\ ~HasKind(PoolBefore(ro), "exec")) => cur'[ro].c.k = "timeout"]_vars
(* NOT facts (observations): the same over everything pushed - fails for a fast Pop while the event sits in the inbox *)
P4x_ExecFirstAll ==
    [][\A ro \in Roles : PopDone(ro) /\ HasKind(Queued(ro), "exec") => cur'[ro].c.k = "exec"]_vars
(* NOT a fact (observation): a consensus message of a height the controller has not reached is not handed over (it is:
   while the previous duty still runs the filter admits it and the controller rejects it as a future message - lost;
   when the previous duty has finished the same message is held back and handled right after the ExecuteDuty event) *)
P4y_NoEarlyConsumed ==
    \A ro \in Roles : Holding(ro) /\ cur[ro].c.k = "cons" /\ cur[ro].c.ct \notin DecKinds => cur[ro].c.h <= rn[ro].ch

(* P6: a stale timeout event (another height than the running instance's, or a round below the instance's round) reaches
   the controller and changes nothing *)
StaleTmo(x, c) == c.k = "timeout" /\ (c.h # x.runH \/ c.r < x.st[c.h].r)
P6_StaleTimeoutNoop ==
    [][\A ro \in Roles : (Holding(ro) /\ pc'[ro] = "snap" /\ StaleTmo(rn[ro], cur[ro].c)) => rn'[ro] = rn[ro]]_vars
(* the part of P6 that holds for every role: a timeout below the round, for a decided or an unknown instance *)
P6a_OldRoundNoop ==
    [][\A ro \in Roles : (Holding(ro) /\ pc'[ro] = "snap" /\ cur[ro].c.k = "timeout"
                          /\ (~rn[ro].st[cur[ro].c.h].on \/ cur[ro].c.r < rn[ro].st[cur[ro].c.h].r \/ rn[ro].st[cur[ro].c.h].dec))
                         => rn'[ro] = rn[ro]]_vars

(* P7: the snapshot the consumer pops and hands over with is the runner's current state *)
P7_SnapshotFresh == \A ro \in Roles : pc[ro] \in {"pop", "rd1", "wait", "rd2", "proc"} => snap[ro] = SnapOf(rn[ro])

(* P8 - NOT a fact (observation): the queue is bounded by its capacity *)
P8x_Bounded == \A ro \in Roles : Len(inbox[ro]) + Len(list[ro]) <= Cap

(* P9 - NOT a fact (observation): a decided message for the running, undecided instance is never held back *)
P9x_DecidedNotHeld ==
    \A ro \in Roles : \A m \in Queued(ro) :
        (HasDuty(rn[ro]) /\ rn[ro].runH # 0 /\ ~RunI(rn[ro]).dec /\ m.c.k = "cons" /\ m.c.ct \in DecKinds /\ m.c.h = rn[ro].runH)
            => Admit(SnapOf(rn[ro]), m.c)

(* P10 - NOT a fact (observation): a decided message is preferred to a single commit of the same (lower) height *)
P10x_DecidedOverCommit ==
    [][\A ro \in Roles : PopDone(ro) =>
          ~(cur'[ro].c.k = "cons" /\ cur'[ro].c.ct = "commit"
            /\ \E m \in PoolBefore(ro) : m.c.k = "cons" /\ m.c.ct = "dec3" /\ m.c.h = cur'[ro].c.h /\ Admit(snap[ro], m.c)
                                          /\ RelH(m.c, snap[ro]) # 0)]_vars
=============================================================================
