----------------------------- MODULE Scheduler -----------------------------
(* operator/duties: the select loops of AttesterHandler (attester.go), ProposerHandler (proposer.go)
   and SyncCommitteeHandler (sync_committee.go) over dutystore.Duties / dutystore.SyncCommitteeDuties.
   One module, the handler is chosen by the constant Role; one action per select case:

     Tick           <-h.ticker.Next()      (fetch-then-execute on fetchFirst, else execute-then-fetch)
     Reorg(kind)    <-h.reorg              (kind "prev"/"cur" = Previous / Current dependent root changed)
     IndicesChange  <-h.indicesChange
     InitialDuties  HandleInitialDuties, once, before the loop (proposer, sync committee; constant InitDuties)
     Assign         the beacon node fixes the assignment of the next epoch / period (environment)

   A *key* is an epoch (att, prop) or a sync-committee period (sync).  The duty store is a set of
   triples <<key, slot, validator>> (slot = -1 for sync: the duty is due at every slot of the period);
   Add merges, ResetEpoch / Reset removes a key.  truth[k][v] is what the beacon node would answer now
   for key k and validator v: a slot offset in the epoch (att, prop; -1 = no duty) or 0 / -1 for
   member / non-member of the sync committee.  It changes only at Reorg steps.  A fetch asks for the
   active validators only; IndicesChange may change the active set.

   History variables of the property monitor (they never influence the handler):
     lastFetched  the assignment returned by the most recent successful fetch, per key
     mvalid       "storeValid" (DESIGN section 5 C16): keys that were fetched successfully and whose fetched
                  duties the pinned handler has not deliberately dropped since.  A key enters on a successful
                  fetch and leaves ONLY where the pinned handler resets the store before a re-fetch succeeds:

                    event            attester                      proposer            sync committee
                    reorg Previous   e; e+1 if ShouldFetchNext     -  (ignored)        -  (ignored)
                    reorg Current    e+1 if ShouldFetchNext        e                   p+1 if ShouldFetchNextPeriod
                    indices change   e+1 at once if ShouldFetch-   -  (old duties      -  (old duties kept until a
                                     Next; e at the NEXT tick,        kept until a        re-fetch succeeds)
                                     after its execution (the         re-fetch
                                     tick executes, resets,           succeeds)
                                     then re-fetches)
                    failed fetch     -                             -                   -     (no handler touches the
                                                                                             store on a failed fetch)
                    last tick of key e / p leaves (nothing of it is due any more)

                  While a key is in mvalid every duty of lastFetched that is due at a tick must be dispatched in
                  that tick, unless a successful fetch of the same key in the same tick, not preceded by a dispatch,
                  returned an assignment without it (the handler fetched first and the assignment changed).
     hiDisp       highest slot of any dispatched duty
     viol         names of the monitors that tripped (always {} in the faithful spec)

   Weaken removes ONE guard of the code (attack configs).                                          *)
EXTENDS Integers, Sequences, FiniteSets, TLC

CONSTANTS Role,        \* "att" | "prop" | "sync"
          SPE,         \* slots per epoch (>= 4)
          EPP,         \* epochs per sync-committee period (>= 2; only "sync" reads it)
          MaxEpoch,    \* ticks stop after the last slot of this epoch
          Validators,  \* validator indices (integers)
          Actives,     \* allowed active sets (non-empty subsets of Validators)
          StartSlots,  \* slot carried by the first tick
          Lags,        \* (EstimatedCurrentSlot - ticker slot) while a tick is processed
          MaxReorgs, MaxIdx, MaxFails,
          InitDuties,  \* TRUE: HandleInitialDuties runs before the loop starts, as in Scheduler.Start (prop, sync)
          Weaken

VARIABLES slot,         \* virtual current slot = slot of the last tick (start slot before the first tick)
          started,      \* a tick has happened
          inited,       \* HandleInitialDuties is done (or not part of this run)
          truth,        \* [Keys -> [Validators -> TruthVals \cup {Unset}]]
          nextAssign,   \* next key the beacon node will fix
          active,
          store,        \* SUBSET (Keys \X Int \X Validators)  -- the dutystore
          fetchFirst, fetchCur, fetchNext, idxChanged,   \* handler flags
          lastFetched, mvalid, hiDisp, viol,             \* monitor history
          budget, act
vars == <<slot, started, inited, truth, nextAssign, active, store, fetchFirst, fetchCur, fetchNext, idxChanged,
          lastFetched, mvalid, hiDisp, viol, budget, act>>
view == <<slot, started, inited, truth, nextAssign, active, store, fetchFirst, fetchCur, fetchNext, idxChanged,
          lastFetched, mvalid, hiDisp, viol, budget>>

Unset == -2
EpochOf(s) == s \div SPE
Off(s) == s % SPE
PeriodOf(e) == e \div EPP
KeyOf(s) == IF Role = "sync" THEN PeriodOf(EpochOf(s)) ELSE EpochOf(s)
MaxSlot == (MaxEpoch + 1) * SPE - 1
MaxKey == KeyOf(MaxSlot) + 1          \* may be fetched as "next" but is never executed: fixed default
Keys == 0..MaxKey
TruthVals == CASE Role = "att" -> 0..(SPE - 1) [] Role = "prop" -> (-1)..(SPE - 1) [] OTHER -> {-1, 0}
MinV == CHOOSE v \in Validators : \A w \in Validators : v <= w
SetMax(S) == CHOOSE x \in S : \A y \in S : y <= x

(* attester.go shouldFetchNexEpoch, sync_committee.go shouldFetchNextPeriod (syncCommitteePreparationEpochs = 2) *)
ShouldFetchNext(s) == Off(s) > SPE \div 2 - 2
ShouldFetchNextPeriod(s) == Off(s) >= SPE \div 2 - 1 /\ EpochOf(s) % EPP >= EPP - 2
LastSlotOfPeriod(p) == (p + 1) * EPP * SPE - 2

(* what the beacon node returns for key k when asked for the validators in acts *)
Assignment(k, acts) ==
    LET have == {w \in acts : truth[k][w] >= 0}
        lossy == IF Weaken = "lossyAdd"    \* Add keeps one validator per slot
                 THEN {w \in have : \A x \in have : truth[k][x] = truth[k][w] => x <= w} ELSE have
    IN {<<k, IF Role = "sync" THEN -1 ELSE k * SPE + truth[k][v], v>> : v \in lossy}
Returned(k, acts) == {<<k, IF Role = "sync" THEN -1 ELSE k * SPE + truth[k][v], v>> : v \in {w \in acts : truth[k][w] >= 0}}

ResetK(st, k) == {t \in st : t[1] # k}
(* CommitteeSlotDuties(epoch, slot) / CommitteePeriodDuties(period) as <<slot, validator>> pairs *)
DueAt(st, k, s) ==
    IF Role = "sync" THEN {<<s, t[3]>> : t \in {u \in st : u[1] = k}}
    ELSE {<<t[2], t[3]>> : t \in {u \in st : u[1] = k /\ u[2] = s}}
DutiesAt(st, k, s) ==
    IF Role # "sync" /\ Weaken = "noSlotFilter" THEN {<<t[2], t[3]>> : t \in {u \in st : u[1] = k}}
    ELSE DueAt(st, k, s)
Entry(d) == <<KeyOf(d[1]), IF Role = "sync" THEN -1 ELSE d[1], d[2]>>

(* shouldExecute: the allowed window; Strict = the part of it the property demands dispatch in *)
Allowed(cur, ds) == IF Role = "att" THEN (cur >= ds /\ cur - ds <= SPE) \/ cur + 1 = ds
                    ELSE cur = ds \/ cur + 1 = ds
Strict(cur, ds) == IF Role = "att" THEN cur >= ds /\ cur - ds <= SPE ELSE cur = ds
ShouldExec(cur, ds) == CASE Weaken = "noWindow" -> TRUE
                         [] Weaken = "narrowWindow" -> cur = ds
                         [] OTHER -> Allowed(cur, ds)

----------------------------------------------------------------------------
Init == /\ slot \in StartSlots /\ started = FALSE
        /\ inited = (~InitDuties \/ Role = "att")
        /\ truth = [k \in Keys |-> [v \in Validators |-> IF k = MaxKey THEN 0 ELSE Unset]]
        /\ nextAssign = 0
        /\ active \in Actives
        /\ store = {}
        /\ fetchFirst = TRUE
        /\ fetchCur = (Role # "prop")
        /\ fetchNext = (CASE Role = "att" -> TRUE [] Role = "sync" -> ShouldFetchNextPeriod(slot) [] OTHER -> FALSE)
        /\ idxChanged = FALSE
        /\ lastFetched = {} /\ mvalid = {} /\ hiDisp = -1 /\ viol = {}
        /\ budget = [reorg |-> MaxReorgs, idx |-> MaxIdx, fail |-> MaxFails]
        /\ act = [name |-> "init", role |-> Role, spe |-> SPE, epp |-> EPP, s0 |-> slot, active |-> active,
                  maxKey |-> MaxKey]

NextTickSlot == IF started THEN slot + 1 ELSE slot
AssignPending == nextAssign < MaxKey /\ nextAssign <= KeyOf(NextTickSlot) + 1

(* the beacon node fixes the assignment of the next key (as early as possible: canonical order) *)
Assign ==
    /\ AssignPending
    /\ \E f \in [Validators -> TruthVals] :
         /\ truth' = [truth EXCEPT ![nextAssign] = f]
         /\ act' = [name |-> "Assign", key |-> nextAssign, vals |-> {<<v, f[v]>> : v \in Validators}]
    /\ nextAssign' = nextAssign + 1
    /\ UNCHANGED <<slot, started, inited, active, store, fetchFirst, fetchCur, fetchNext, idxChanged,
                   lastFetched, mvalid, hiDisp, viol, budget>>

----------------------------------------------------------------------------
(* handler state threaded through one tick *)
H0 == [st |-> store, lf |-> lastFetched, mv |-> mvalid, fc |-> fetchCur, fn |-> fetchNext, log |-> <<>>, fails |-> 0]
Merge == Role = "att" \/ Weaken = "noResetInFetch"     \* att: Add merges; prop/sync: Reset(key) before Add

FetchKey(h, k, ok) ==
    IF ok THEN [h EXCEPT !.st = (IF Merge THEN h.st ELSE ResetK(h.st, k)) \cup Assignment(k, active),
                         !.lf = ResetK(h.lf, k) \cup Returned(k, active),
                         !.mv = h.mv \cup {k},
                         !.log = Append(h.log, <<k, TRUE>>)]
    ELSE [h EXCEPT !.st = IF Weaken = "resetBeforeFetch" THEN ResetK(h.st, k) ELSE h.st,   \* pinned: untouched
                   !.log = Append(h.log, <<k, FALSE>>), !.fails = h.fails + 1]

(* processFetching of the attester and sync-committee handlers *)
ProcFetch(h, k, s, okC, okN) ==
    LET h1 == IF h.fc THEN FetchKey(h, k, okC) ELSE h
        h2 == IF h.fc /\ okC THEN [h1 EXCEPT !.fc = FALSE] ELSE h1
        doN == ~(h.fc /\ ~okC) /\ h.fn /\ (Role = "sync" \/ ShouldFetchNext(s))
        h3 == IF doN THEN FetchKey(h2, k + 1, okN) ELSE h2
    IN IF doN /\ okN THEN [h3 EXCEPT !.fn = FALSE] ELSE h3

(* the monitors, evaluated on one tick: disp was dispatched while lfExec was the fetched assignment *)
TickViol(s, cur, h, disp, lfExec) ==
    LET k == KeyOf(s)
        due == DueAt(lastFetched, k, s)
        refetched == \E i \in 1..Len(h.log) : h.log[i] = <<k, TRUE>>
        \* the fetch precedes the dispatch records exactly on the fetchFirst branch; without dispatch records the
        \* order is not observable and the exemption applies as well
        exempt(d) == refetched /\ Entry(d) \notin h.lf /\ (fetchFirst \/ disp = {})
    IN {x \in {"wrong-slot"} : \E d \in disp : d[1] # s}
       \cup {x \in {"twice"} : \E d \in disp : d[1] <= hiDisp}
       \cup {x \in {"unassigned"} : \E d \in disp : Entry(d) \notin lfExec}
       \cup {x \in {"window"} : \E d \in disp : ~Allowed(cur, d[1])}
       \cup {x \in {"missed"} : /\ Strict(cur, s) /\ k \in mvalid
                                /\ \E d \in due : d \notin disp /\ ~exempt(d)}

Commit(s, lag, okC, okN, h, cand, lfExec, ff, ic, fn, st, mv) ==
    LET k == KeyOf(s)
        disp == {d \in cand : ShouldExec(s + lag, d[1])}     \* shouldExecute on what the store holds for this tick
        fetched == {h.log[i][1] : i \in 1..Len(h.log)}
        dead == KeyOf(s + 1) # k           \* last tick of this key: its truth and monitor history are garbage
    IN /\ (k \in fetched \/ okC) /\ ((k + 1) \in fetched \/ okN)     \* canonical: unused outcomes are TRUE
       /\ (lag = 0 \/ cand # {} \/ (k \in mvalid /\ DueAt(lastFetched, k, s) # {}))   \* canonical: a lag nobody can see is 0
       /\ h.fails <= budget.fail
       /\ budget' = [budget EXCEPT !.fail = @ - h.fails]
       /\ slot' = s /\ started' = TRUE
       /\ store' = st
       /\ lastFetched' = IF dead THEN ResetK(h.lf, k) ELSE h.lf
       /\ mvalid' = IF dead THEN mv \ {k} ELSE mv
       /\ truth' = IF dead THEN [truth EXCEPT ![k] = [v \in Validators |-> Unset]] ELSE truth
       /\ fetchFirst' = ff /\ idxChanged' = ic /\ fetchCur' = h.fc /\ fetchNext' = fn
       /\ hiDisp' = SetMax({hiDisp} \cup {d[1] : d \in disp})
       /\ viol' = viol \cup TickViol(s, s + lag, h, disp, lfExec)
       /\ UNCHANGED <<nextAssign, active, inited>>
       /\ act' = [name |-> "Tick", slot |-> s, lag |-> lag, okC |-> okC, okN |-> okN,
                  fetches |-> h.log, disp |-> disp]

AttTick(s, lag, okC, okN) ==
    LET e == EpochOf(s)
        HM == IF idxChanged THEN [H0 EXCEPT !.mv = @ \ {e}] ELSE H0      \* monitor: see the table at mvalid
        hA == ProcFetch(HM, e, s, okC, okN)
        hB0 == IF idxChanged /\ Weaken # "noResetOnIndices" THEN [HM EXCEPT !.st = ResetK(@, e)] ELSE HM
        hB == ProcFetch(hB0, e, s, okC, okN)
        h == IF fetchFirst THEN hA ELSE hB
        cand == IF fetchFirst THEN DutiesAt(hA.st, e, s) ELSE DutiesAt(store, e, s)   \* processExecution's input
        lfExec == IF fetchFirst THEN hA.lf ELSE lastFetched
        fn2 == IF Off(s) = SPE \div 2 - 2 THEN TRUE ELSE h.fn
        st2 == IF Off(s) = SPE - 1 /\ Weaken # "noEpochEndReset" THEN ResetK(h.st, e) ELSE h.st
    IN Commit(s, lag, okC, okN, h, cand, lfExec, FALSE, FALSE, fn2, st2, h.mv)

PropTick(s, lag, okC, okN) ==
    LET e == EpochOf(s)
        hF == FetchKey(H0, e, okC)
        h == IF fetchFirst \/ idxChanged THEN hF ELSE H0
        cand == IF fetchFirst THEN DutiesAt(hF.st, e, s) ELSE DutiesAt(store, e, s)
        lfExec == IF fetchFirst THEN hF.lf ELSE lastFetched
        last == Off(s) = SPE - 1
        st2 == IF last THEN ResetK(h.st, e - 1) ELSE h.st       \* ResetEpoch(currentEpoch - 1); fetchFirst = true
    IN Commit(s, lag, okC, okN, h, cand, lfExec, last, FALSE, FALSE, st2, h.mv)

SyncTick(s, lag, okC, okN) ==
    LET p == KeyOf(s)
        hF == ProcFetch(H0, p, s, okC, okN)
        cand == IF fetchFirst THEN DutiesAt(hF.st, p, s) ELSE DutiesAt(store, p, s)
        lfExec == IF fetchFirst THEN hF.lf ELSE lastFetched
        fn2 == IF Off(s) = SPE \div 2 - 2 /\ EpochOf(s) % EPP = EPP - 2 THEN TRUE ELSE hF.fn
        st2 == IF s = LastSlotOfPeriod(p) THEN ResetK(hF.st, p - 1) ELSE hF.st
    IN /\ KeyOf(s + lag) = p          \* the fetch reads EstimatedCurrentEpoch: keep the lag inside the period
       /\ Commit(s, lag, okC, okN, hF, cand, lfExec, FALSE, idxChanged, fn2, st2, hF.mv)

(* fetch outcomes are chosen only for fetches that can happen in this tick (Commit pins the unused ones to TRUE) *)
OkDomC == IF (Role = "prop" /\ (fetchFirst \/ idxChanged)) \/ (Role # "prop" /\ fetchCur) THEN BOOLEAN ELSE {TRUE}
OkDomN(s) == IF (Role = "att" /\ fetchNext /\ ShouldFetchNext(s)) \/ (Role = "sync" /\ fetchNext) THEN BOOLEAN ELSE {TRUE}

(* HandleInitialDuties, called by Scheduler.Start before the loop: the proposer handler fetches the current epoch;
   the sync-committee handler runs processFetching (fetchNextPeriod is still FALSE) and then sets both fetch flags *)
InitialDuties ==
    /\ ~inited /\ ~AssignPending /\ inited' = TRUE
    /\ \E okC \in BOOLEAN :
         LET k == KeyOf(slot)
             h == FetchKey(H0, k, okC)
         IN /\ h.fails <= budget.fail
            /\ budget' = [budget EXCEPT !.fail = @ - h.fails]
            /\ store' = h.st /\ lastFetched' = h.lf /\ mvalid' = h.mv
            /\ fetchCur' = (Role = "sync") /\ fetchNext' = (Role = "sync")
            /\ act' = [name |-> "InitialDuties", okC |-> okC, fetches |-> h.log]
    /\ UNCHANGED <<slot, started, truth, nextAssign, active, fetchFirst, idxChanged, hiDisp, viol>>

Tick ==
    /\ ~AssignPending /\ inited
    /\ NextTickSlot <= MaxSlot
    /\ \E lag \in Lags, okC \in OkDomC, okN \in OkDomN(NextTickSlot) :
         /\ NextTickSlot + lag >= 0
         /\ \/ Role = "att" /\ AttTick(NextTickSlot, lag, okC, okN)
            \/ Role = "prop" /\ PropTick(NextTickSlot, lag, okC, okN)
            \/ Role = "sync" /\ SyncTick(NextTickSlot, lag, okC, okN)

----------------------------------------------------------------------------
(* a reorg changes what the beacon node reports for key tk (one validator, or nothing) *)
Changes(tk) == {[v |-> MinV, t |-> truth[tk][MinV]]}
               \cup {c \in [v : Validators, t : TruthVals] :
                       /\ tk < nextAssign /\ tk < MaxKey /\ tk >= KeyOf(NextTickSlot)    \* a live, assigned key
                       /\ c.t # truth[tk][c.v]}

ReorgCommon(kind, tk, c) ==
    /\ budget.reorg > 0 /\ budget' = [budget EXCEPT !.reorg = @ - 1]
    /\ truth' = [truth EXCEPT ![tk][c.v] = c.t]
    /\ act' = [name |-> "Reorg", kind |-> kind, slot |-> slot, key |-> tk, v |-> c.v, t |-> c.t]
    /\ UNCHANGED <<slot, started, inited, nextAssign, active, idxChanged, lastFetched, hiDisp, viol>>

AttReorg(kind) ==
    LET e == EpochOf(slot)
        tk == IF kind = "prev" THEN e ELSE e + 1
        sfn == ShouldFetchNext(slot)
        st1 == IF kind = "prev" /\ Weaken # "noResetOnReorg" THEN ResetK(store, e) ELSE store
        st2 == IF sfn /\ Weaken # "noResetNextOnReorg" THEN ResetK(st1, e + 1) ELSE st1
    IN \E c \in Changes(tk) :
         /\ ReorgCommon(kind, tk, c)
         /\ store' = st2
         /\ fetchFirst' = IF kind = "prev" THEN TRUE ELSE fetchFirst
         /\ fetchCur' = IF kind = "prev" THEN TRUE ELSE fetchCur
         /\ fetchNext' = IF sfn THEN TRUE ELSE fetchNext
         /\ mvalid' = (mvalid \ (IF kind = "prev" THEN {e} ELSE {})) \ (IF sfn THEN {e + 1} ELSE {})

PropReorg ==      \* only Current is acted upon
    LET e == EpochOf(slot) IN
    \E c \in Changes(e) :
         /\ ReorgCommon("cur", e, c)
         /\ store' = IF Weaken # "noResetOnReorg" THEN ResetK(store, e) ELSE store
         /\ fetchFirst' = TRUE
         /\ mvalid' = mvalid \ {e}
         /\ UNCHANGED <<fetchCur, fetchNext>>

SyncReorg ==      \* only Current is acted upon
    LET p == KeyOf(slot)  sfn == ShouldFetchNextPeriod(slot) IN
    \E c \in Changes(p + 1) :
         /\ ReorgCommon("cur", p + 1, c)
         /\ store' = IF sfn /\ Weaken # "noResetNextOnReorg" THEN ResetK(store, p + 1) ELSE store
         /\ fetchNext' = IF sfn THEN TRUE ELSE fetchNext
         /\ mvalid' = mvalid \ (IF sfn THEN {p + 1} ELSE {})
         /\ UNCHANGED <<fetchFirst, fetchCur>>

Reorg == /\ ~AssignPending /\ inited
         /\ \/ Role = "att" /\ (AttReorg("prev") \/ AttReorg("cur"))
            \/ Role = "prop" /\ PropReorg
            \/ Role = "sync" /\ SyncReorg

IndicesChange ==
    /\ ~AssignPending /\ inited
    /\ budget.idx > 0 /\ budget' = [budget EXCEPT !.idx = @ - 1]
    /\ LET k == KeyOf(slot) IN
       \E na \in Actives :
         /\ active' = na
         /\ act' = [name |-> "IndicesChange", active |-> na]
         /\ mvalid' = IF Role = "att" /\ ShouldFetchNext(slot) THEN mvalid \ {k + 1} ELSE mvalid
         /\ \/ /\ Role = "att"
               /\ idxChanged' = TRUE /\ fetchCur' = TRUE
               /\ fetchNext' = IF ShouldFetchNext(slot) THEN TRUE ELSE fetchNext
               /\ store' = IF ShouldFetchNext(slot) /\ Weaken # "noResetNextOnIndices"
                           THEN ResetK(store, k + 1) ELSE store
            \/ /\ Role = "prop"
               /\ idxChanged' = TRUE
               /\ UNCHANGED <<fetchCur, fetchNext, store>>
            \/ /\ Role = "sync"
               /\ fetchCur' = TRUE
               /\ fetchNext' = IF ShouldFetchNextPeriod(slot) THEN TRUE ELSE fetchNext
               /\ UNCHANGED <<idxChanged, store>>
    /\ UNCHANGED <<slot, started, inited, truth, nextAssign, fetchFirst, lastFetched, hiDisp, viol>>

Next == Assign \/ InitialDuties \/ Tick \/ Reorg \/ IndicesChange
Spec == Init /\ [][Next]_vars

----------------------------------------------------------------------------
(* the property, per duty identity (role, key, slot, validator) *)
AtMostOnce == "twice" \notin viol             \* dispatch slots strictly increase and a tick dispatches a set
AtItsSlot == "wrong-slot" \notin viol
OnlyIfAssigned == "unassigned" \notin viol
InWindow == "window" \notin viol
ExactlyOnceWhenValid == "missed" \notin viol
(* stronger than the property: the store never holds a duty the latest fetch of a live key did not return *)
NoStaleInStore == \A t \in store : (t[1] >= KeyOf(NextTickSlot) /\ t[1] <= KeyOf(NextTickSlot) + 1) => t \in lastFetched
(* sanity: refuted at once, so the checks are not vacuous *)
NeverDispatch == hiDisp = -1
TypeOK == /\ slot \in 0..MaxSlot /\ nextAssign \in 0..MaxKey /\ active \in Actives
          /\ \A t \in store : t[1] \in (-1)..MaxKey /\ t[3] \in Validators
          /\ mvalid \subseteq Keys
=============================================================================
