SPECIFICATION Spec
CONSTANTS
  Role = "sync"
  SPE = 4
  EPP = 3
  MaxEpoch = 3
  Validators = {1}
  Actives = {{1}}
  StartSlots = {0, 5}
  Lags = {0}
  MaxReorgs = 2
  MaxIdx = 1
  MaxFails = 2
  InitDuties = FALSE
  Weaken = "none"
INVARIANT TypeOK
INVARIANT AtMostOnce
INVARIANT AtItsSlot
INVARIANT OnlyIfAssigned
INVARIANT InWindow
INVARIANT ExactlyOnceWhenValid
INVARIANT NoStaleInStore
VIEW view
