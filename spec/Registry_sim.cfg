SPECIFICATION Spec
CONSTANTS
  Owners <- MCOwners
  Validators <- MCValidators
  OpIds <- MCOpIds
  Alphabet <- AlphaFull
  Setups <- SetupsAll
  MaxEvents = 7
  MaxBlocks = 7
  MaxFaults = 2
  Grain = "event"
  Weaken = "none"
  Stale = TRUE
  ReadFaults = FALSE
INVARIANT DbMatchesRules
INVARIANT KeysMatchRules
INVARIANT MemMatchesDb
INVARIANT LastBlockRight
INVARIANT OwnStable
INVARIANT ExitOnlyByOwner
