SPECIFICATION Spec
CONSTANTS
  MaxH = 2
  MaxRestarts = 1
  FullNode = FALSE
  Cap = 2
  Weaken = "none"
  GapFix = FALSE
  CertRounds = {1, 2}
  Direct = FALSE
  MidCrash = TRUE
  Timeouts = FALSE
  MaxWriteFaults = 0
  MaxReadFaults = 0
  ReadKinds = {}
  ReadFix = FALSE
INVARIANT ContainerOK
INVARIANT TopIsHeight
INVARIANT StorageShape
INVARIANT RestartResumes
PROPERTY NoRerun
PROPERTY NoRerunCtl
PROPERTY HeightMonotone
PROPERTY HighestMonotone
PROPERTY HistMonotoneExceptRerun
PROPERTY RestartCoversLearned
INVARIANT HistBehindHighest
VIEW view
