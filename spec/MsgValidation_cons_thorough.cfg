SPECIFICATION Spec
CONSTANTS
  N = 4
  Alphabet <- AlphaConsThorough
  Times <- TimesCons
  MaxAccepts = 2
  ForkEpoch <- ForkNever
  PartialWindow = FALSE
  Weaken = "none"
  KnownGaps = {"partial-sig-outside-slot-window"}
PROPERTY Total
PROPERTY AcceptSound
INVARIANT StateSound
VIEW view
