SPECIFICATION Spec
CONSTANTS
  SPE = 2
  MaxSlot = 7
  MaxGen = 2
  MaxFaults = 1
  MaxPersist = 1
  Variants = 2
  Kinds = {"att", "blk"}
  FaultKinds = {"crash", "crashafter", "fail", "rerr", "rmiss"}
  Weaken = "readdNoBump"
INVARIANT NoDoubleVote
INVARIANT NoSurround
INVARIANT NoDoubleBlock
PROPERTY RefuseWhenUnknown
VIEW view
