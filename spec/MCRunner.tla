------------------------------ MODULE MCRunner ------------------------------
EXTENDS Runner
NoWeaken == {}
AllVals == {"valid", "alt", "invalid"}
TwoVals == {"valid", "invalid"}
OneVal == {"valid"}
AllQuorums == {"q1", "q2", "all"}
TwoQuorums == {"q1", "q2"}
OneQuorum == {"q1"}
WNoHeight == {"noHeightCheck"}
WNoPrev == {"noPrevDecided"}
WEveryDecided == {"noPrevDecided", "noCtrlPrevDecided"}
WNoRevalidate == {"noRevalidate"}
WNoRoute == {"noRouteCheck"}
WPrevFromContainer == {"prevDecidedFromContainer"}
=============================================================================
