------------------------------ MODULE MCRunner ------------------------------
EXTENDS Runner
NoWeaken == {}
WNoHeight == {"noHeightCheck"}
WNoPrev == {"noPrevDecided"}
WEveryDecided == {"noPrevDecided", "noCtrlPrevDecided"}
WNoRevalidate == {"noRevalidate"}
WNoRoute == {"noRouteCheck"}
=============================================================================
