SPECIFICATION Spec
CONSTANTS
  N = 4
  R = 2
  FaultySets <- TailFaultySets
  MaxHonest = 1
  MaxFaulty = 2
  Foreign = FALSE
  Orders <- OrdersFwdRev
  Algo = "perroot"
  Weaken <- NoWeaken
INVARIANT TypeOK
INVARIANT SubmittedValid
INVARIANT AtMostOnce
INVARIANT NotPrevented
