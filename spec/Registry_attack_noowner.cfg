SPECIFICATION Spec
CONSTANTS
  Owners <- MCOwners
  Validators <- MCValidators
  OpIds <- MCOpIds
  Alphabet <- AlphaSmall
  Setups <- SetupsCover
  MaxEvents = 3
  MaxBlocks = 3
  MaxFaults = 0
  Grain = "event"
  Weaken = "noOwnerCheckOnRemove"
  Stale = FALSE
  ReadFaults = FALSE
INVARIANT DbMatchesRules
