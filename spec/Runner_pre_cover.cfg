SPECIFICATION Spec
CONSTANTS
  HasPre = TRUE
  MaxSlot = 2
  MaxSig = 2
  Cap = 2
  Vals <- AllVals
  Quorums <- AllQuorums
  PrevDec = "code"
  Weaken <- NoWeaken
INVARIANT TypeOK
INVARIANT SigWindow
