SPECIFICATION Spec
CONSTANTS
  HasPre = TRUE
  MaxSlot = 2
  MaxSig = 2
  Weaken <- NoWeaken
INVARIANT TypeOK
INVARIANT SigWindow
