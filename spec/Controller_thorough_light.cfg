SPECIFICATION Spec
CONSTANTS
  MaxH = 3
  MaxRestarts = 2
  FullNode = FALSE
  Cap = 2
  Weaken = "none"
  GapFix = FALSE
  CertRounds = {1, 2}
  Direct = TRUE
  MidCrash = TRUE
  Timeouts = TRUE
  MaxWriteFaults = 0
  MaxReadFaults = 0
  ReadKinds = {}
  ReadFix = FALSE
INVARIANT ContainerOK
INVARIANT TopIsHeight
INVARIANT StorageShape
INVARIANT RestartResumes
PROPERTY NoRerun
PROPERTY NoRerunCtl
PROPERTY HeightMonotone
PROPERTY HighestMonotone
PROPERTY HistMonotoneExceptRerun
PROPERTY RestartCoversLearned
INVARIANT HistBehindHighest
VIEW view
