-------------------------- MODULE PartialSigTrace --------------------------
(* Trace validation of executions recorded from the REAL duty runners (harness/cmd/partialsig -mode record)
   against PartialSig: the implementation -> specification direction of property C05.

   One event per call of ProcessPostConsensus (ProcessPreConsensus for the duties without consensus), logged at
   its return through Validator.ProcessMessage:

     Reset  n, r, role, faulty                      a new execution: a runner of that role whose instance has
                                                    just decided (or whose duty has just started), empty containers
     Recv   s      envelope signer (N+1 = any id that is no committee member; the real id is in "sid")
            kinds  per root (index = root number): "good" iff the DRIVER verified the partial signature with
                   herumi BLS under the share public key of member s over that root; otherwise the name of the
                   wrong signature that was sent (garbage, wrongroot, undeser, othershare, stranger, infinity)
            ord    the order of the roots in the message
            cls    message class (PartialSig!Classes, "foreign")
            err    error class returned by the call: none | refused | invalid | other
            subs   the Submit* calls the beacon-node spy saw DURING the call: obj = number of the decided object
                   (0: not a decided object), ok = the submitted signature verifies under the validator public
                   key over the signing root of that object (checked by the driver, not by the runner)
            nsh, nbad  partial signatures held per root after the call / of these, wrong ones
            fin    State.Finished after the call

   Every Recv event is explained by PartialSig!Recv with exactly the logged sender and message - which must be one
   the logged faulty set allows (a member outside `faulty` only sends correct signatures) - such that the logged
   error class, container sizes, Finished flag and Submit* calls are the ones Recv predicts (TRecv).  An event for
   which no such step exists (~ENABLED Explain) is taken by the named step TUnexplained: it is printed
   ("UNEXPLAINED", line) - a conformance divergence -, the model's state is abandoned until the next Reset, and only
   the observation variables below keep following the log, so that a property violation later in the same
   execution is still seen.

   The C05 clauses are invariants over what was handed to the runner (delivered) and what the beacon node SAW
   (osub, obad) - logged inputs and outputs only, never the model's prediction:
     TSubmittedValid  every submission verifies and is a decided object
     TAtMostOnce      each decided object is submitted at most once
     TNotPrevented    once 2f+1 correct partial signatures of distinct members for a root were handed over, the
                      object has been submitted (state after the delivering call)
   An invariant violated on a recorded state is a violation of C05 by the real code; an UNEXPLAINED event or a
   trace TLC cannot read to its end is a divergence.

   The several-roots loop of the pinned commit loses the quorum edge of later roots (known finding
   submission-prevented-multiroot, Algo = "code"); its history signature - more than one root and some member's
   message mixing correct and wrong partial signatures - is exempted here and judged by the driver's monitor,
   which reports it through the known-findings path.

   N, R and Algo are constants: the tool validates one file per (committee size, number of roots).           *)
EXTENDS PartialSig, Json
VARIABLES l,        \* next line of the trace
          osub,     \* [root -> number of Submit* calls seen for the decided object of that root]
          obad,     \* number of Submit* calls seen whose signature does not verify or whose object was not decided
          mixed,    \* some member's accepted-class message mixed correct and wrong partial signatures
          diverged  \* an event of this execution was not explained: the model's state is not followed any more
Trace == ndJsonDeserialize("trace.ndjson")
tvars == <<vars, l, osub, obad, mixed, diverged>>

Ev == Trace[l]
IsEv(e) == l <= Len(Trace) /\ Ev.event = e /\ l' = l + 1
SeqToSet(q) == {q[k] : k \in 1..Len(q)}

TFaultySets == {{}}
TOrders == {o \in [Roots -> Roots] : \A a, b \in Roots : a # b => o[a] # o[b]}

ToKind(k) == IF k = "good" THEN "good" ELSE "bad"
(* the content of a message that is refused as a whole is not part of the model *)
EvMsg == IF Ev.cls = "ok" THEN [kinds |-> [r \in Roots |-> ToKind(Ev.kinds[r])], ord |-> Ev.ord, cls |-> "ok"]
         ELSE [kinds |-> AllGoodKinds, ord |-> IdOrder, cls |-> Ev.cls]
NBadHeld(h, r) == Cardinality({s \in DOMAIN h[r] : h[r][s] = "bad"})
NSubFor(r) == Cardinality({k \in 1..Len(Ev.subs) : Ev.subs[k].obj = r})
NSubBad == Cardinality({k \in 1..Len(Ev.subs) : ~Ev.subs[k].ok \/ Ev.subs[k].obj \notin Roots})
Cap2(x) == IF x >= 2 THEN 2 ELSE x
WellFormed == Ev.s \in Senders /\ Len(Ev.kinds) = R /\ Len(Ev.nsh) = R /\ Len(Ev.nbad) = R

TInit == /\ Init /\ l = 1
         /\ osub = [r \in Roots |-> 0] /\ obad = 0 /\ mixed = FALSE /\ diverged = FALSE

TReset == /\ IsEv("Reset")
          /\ Ev.n = N /\ Ev.r = R
          /\ faulty' = SeqToSet(Ev.faulty)
          /\ faulty' \subseteq Signers /\ Cardinality(faulty') <= F
          /\ have' = [r \in Roots |-> [s \in Signers |-> "none"]]
          /\ sub' = [r \in Roots |-> 0] /\ invalidSub' = FALSE /\ finished' = FALSE
          /\ delivered' = [r \in Roots |-> {}] /\ sent' = [s \in Senders |-> 0]
          /\ act' = [name |-> "init"]
          /\ osub' = [r \in Roots |-> 0] /\ obad' = 0 /\ mixed' = FALSE /\ diverged' = FALSE

(* the observation variables follow the log *)
Observe == /\ osub' = [r \in Roots |-> osub[r] + NSubFor(r)]
           /\ obad' = obad + NSubBad
           /\ mixed' = (mixed \/ (/\ Ev.cls = "ok" /\ Ev.s \in Signers
                                  /\ \E a, b \in Roots : Ev.kinds[a] = "good" /\ Ev.kinds[b] # "good"))

(* PartialSig!Recv with the logged sender and message, predicting every logged output *)
Explain == /\ WellFormed
           /\ LET m == EvMsg IN
              /\ m \in Msgs(Ev.s)
              /\ Recv(Ev.s, m)
           /\ act'.err = Ev.err
           /\ finished' = Ev.fin
           /\ \A r \in Roots : /\ Held(have', r) = Ev.nsh[r] /\ NBadHeld(have', r) = Ev.nbad[r]
                               /\ sub'[r] = Cap2(osub[r] + NSubFor(r))
           /\ invalidSub' = (obad + NSubBad > 0)

TRecv == /\ ~diverged /\ IsEv("Recv")
         /\ Explain /\ Observe /\ diverged' = FALSE

TUnexplained == /\ IsEv("Recv") /\ WellFormed
                /\ diverged \/ ~ENABLED Explain
                /\ diverged \/ PrintT(<<"UNEXPLAINED", l>>)
                /\ delivered' = IF Ev.cls = "ok" /\ Ev.s \in Signers
                                THEN [r \in Roots |-> IF Ev.kinds[r] = "good" THEN delivered[r] \cup {Ev.s} ELSE delivered[r]]
                                ELSE delivered
                /\ UNCHANGED <<faulty, have, sub, invalidSub, finished, sent, act>>
                /\ Observe /\ diverged' = TRUE

TNext == TReset \/ TRecv \/ TUnexplained
TraceSpec == TInit /\ [][TNext]_tvars

----------------------------------------------------------------------------
(* C05 on what the beacon node saw *)
TSubmittedValid == obad = 0
TAtMostOnce == \A r \in Roots : osub[r] <= 1
KnownMultiRoot == R > 1 /\ mixed
TNotPrevented == \A r \in Roots : Cardinality(delivered[r]) >= Q => (osub[r] >= 1 \/ KnownMultiRoot)
TraceAccepted == TLCGet("stats").diameter - 1 = Len(Trace)
=============================================================================
