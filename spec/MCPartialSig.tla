---------------------------- MODULE MCPartialSig ----------------------------
EXTENDS PartialSig
(* model values for the configs *)
AllFaultySets == {S \in SUBSET Signers : Cardinality(S) <= F}
TailFaultySets == {{}} \cup {{s \in Signers : s > N - k} : k \in 1..F}   \* {}, {N}, {N-1,N}, ... (no intervals: they print as a..b)
MixedFaultySets == TailFaultySets \cup {{1}} \cup (IF F >= 2 THEN {{1, N}} ELSE {})
OrdersId == {IdOrder}
OrdersFwdRev == {IdOrder, [k \in Roots |-> R + 1 - k]}
OrdersAll == {o \in [Roots -> Roots] : \A a, b \in Roots : a # b => o[a] # o[b]}   \* every order of the roots (simulation, trace validation)
NoWeaken == {}
WNoVerify == {"noVerifyReconstructed"}
WNoEvict == {"noEvict"}
WEdge == {"edgeEveryTime"}
WEdgeNoFin == {"edgeEveryTime", "noFinished"}
=============================================================================
