--------------------------- MODULE LifecycleTrace ---------------------------
(* Trace validation of executions recorded from the real event handler + validator controller
   (harness/cmd/lifecycle -mode record) against Lifecycle.  One line per step of the real code: Event (an event
   was handled inside the open block transaction), Commit (the block was committed; `more` = a task is about to
   be executed), Exec (a task was handed to the controller: kind and arguments as the task executor saw them),
   MetaUpdate, Restart, SyncDone, StartList / StartSetup (the two halves of StartValidators).  Every line
   carries the projected real state after the step: in-memory shares, database shares and recipients, the
   validatorsMap with the recipient of every running validator.  Executions are concatenated; a Reset line
   re-initialises the state. *)
EXTENDS Lifecycle, Json
VARIABLE l
Trace == ndJsonDeserialize("trace.ndjson")
tvars == <<vars, l>>

IsEv(e) == l <= Len(Trace) /\ Trace[l].event = e /\ l' = l + 1
RunProj(r) == [v \in Validators |-> [on |-> r[v].on, owner |-> r[v].owner, fee |-> r[v].fee]]
Matches(t) == /\ mem' = t.mem /\ db'.shares = t.db /\ db'.rcpt = t.rcpt /\ RunProj(running') = t.running
SetOfSeq(s) == {s[k] : k \in 1..Len(s)}

TInit == l = 1 /\ Init

TReset == /\ IsEv("Reset")
          /\ mem' = [v \in Validators |-> NoShare] /\ gen' = [v \in Validators |-> 0] /\ cnt' = [v \in Validators |-> 3]
          /\ db' = EmptyDb /\ txw' = NoTxw /\ blk' = "idle" /\ nblk' = 0 /\ tasks' = <<>>
          /\ running' = [v \in Validators |-> NoRun]
          /\ mode' = "live" /\ sv' = "done" /\ snap' = NoEnts /\ clean' = TRUE
          /\ nEv' = 0 /\ nMeta' = 0 /\ nRestart' = 0
          /\ act' = [name |-> "Init"]

TEvent == /\ IsEv("Event") /\ Event(Trace[l].e) /\ Matches(Trace[l])

TCommit == /\ IsEv("Commit") /\ Commit /\ Matches(Trace[l])
           /\ Trace[l].more = (tasks' # <<>>)

TExec == /\ IsEv("Exec") /\ Exec /\ Matches(Trace[l])
         /\ LET t == Head(tasks) r == Trace[l] IN
            /\ r.t = t.t
            /\ (t.t \in {"start", "stop", "exit"} => r.v = t.v)
            /\ (t.t \in {"start", "liquidate", "reactivate", "fee"} => r.o = t.o)
            /\ (t.t = "fee" => r.f = t.f)
            /\ (t.t \in {"liquidate", "reactivate"} => SetOfSeq(r.vs) = {v \in Validators : t.ents[v].in})
         /\ Trace[l].more = (tasks' # <<>>)

TMeta == /\ IsEv("MetaUpdate") /\ MetaUpdate(Trace[l].v) /\ Matches(Trace[l])
TRestart == /\ IsEv("Restart") /\ Restart /\ Matches(Trace[l])
TSyncDone == /\ IsEv("SyncDone") /\ SyncDone /\ Matches(Trace[l])
TStartList == /\ IsEv("StartList") /\ StartList /\ Matches(Trace[l])
TStartSetup == /\ IsEv("StartSetup") /\ StartSetup /\ Matches(Trace[l])

TNext == TReset \/ TEvent \/ TCommit \/ TExec \/ TMeta \/ TRestart \/ TSyncDone \/ TStartList \/ TStartSetup
TraceSpec == TInit /\ [][TNext]_tvars
TraceAccepted == TLCGet("stats").diameter - 1 = Len(Trace)
=============================================================================
