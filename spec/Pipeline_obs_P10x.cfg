SPECIFICATION Spec
CONSTANTS
  Roles <- MCRolesAtt
  PreRoles <- MCPre
  NoQueueRoles <- MCNoQ
  Alphabet <- AlphaObsPrio
  MaxH = 2
  MaxR = 2
  Cap = 2
  MaxPush = 5
  MaxFire = 0
  MaxStop = 0
  MaxExt = 1
  Q = 3
  SeqHarness = TRUE
  FineRead = FALSE
  FastPop = FALSE
  ExternalStart = FALSE
  AdvTimer = FALSE
  PrioDecided = "gt"
PROPERTY P10x_DecidedOverCommit
