SPECIFICATION TraceSpec
CONSTANTS
  Role = "sync"
  SPE = 8
  EPP = 3
  MaxEpoch = 4
  Validators = {1, 2, 3}
  Actives <- AllActives
  StartSlots = {0}
  Lags <- LagsNear
  MaxReorgs = 100000
  MaxIdx = 100000
  MaxFails = 100000
  InitDuties = FALSE
  Weaken = "none"
INVARIANT AtMostOnce
INVARIANT AtItsSlot
INVARIANT OnlyIfAssigned
INVARIANT InWindow
INVARIANT ExactlyOnceWhenValid
POSTCONDITION TraceAccepted
