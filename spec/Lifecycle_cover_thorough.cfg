SPECIFICATION Spec
CONSTANTS
  Owners <- MCOwners
  Validators <- MCValidators
  Comms <- MCComms
  Mine <- MCMine
  Alphabet <- AlphaSmall
  MaxEvents = 3
  MaxBlock = 2
  MaxMeta = 2
  MaxRestarts = 1
  MetaAnywhere = TRUE
  SplitStart = TRUE
INVARIANT TypeOK
PROPERTY L3b_StartFromStorage
INVARIANT L4_FeeIsStored
PROPERTY L5a_ExitOnlyOwnStored
INVARIANT L6_TasksOnlyInBlock
