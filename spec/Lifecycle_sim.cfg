SPECIFICATION Spec
CONSTANTS
  Owners <- MCOwners
  Validators <- MCValidators
  Comms <- MCComms
  Mine <- MCMine
  Alphabet <- AlphaFull
  MaxEvents = 8
  MaxBlock = 3
  MaxMeta = 4
  MaxRestarts = 2
  MetaAnywhere = TRUE
  SplitStart = TRUE
INVARIANT TypeOK
PROPERTY L3b_StartFromStorage
INVARIANT L4_FeeIsStored
PROPERTY L5a_ExitOnlyOwnStored
INVARIANT L6_TasksOnlyInBlock
