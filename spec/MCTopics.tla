------------------------------ MODULE MCTopics ------------------------------
(* Exhaustive evaluation of Topics on a boundary domain.  The spec has no state of its own; TLC
   enumerates the domain through the variable `act`: one initial state, one step per case. *)
EXTENDS Topics

CONSTANTS Domain      \* "quick" | "thorough" | "attack" (keys only, small: used with a weakened spec)

VARIABLE act

EdgeBytes == IF Domain = "thorough" THEN {0, 1, 127, 128, 254, 255} ELSE {0, 127, 128, 255}
Fillers   == IF Domain = "thorough" THEN {0, 165, 255} ELSE IF Domain = "attack" THEN {0} ELSE {0, 255}
KeyLens   == IF Domain = "attack" THEN {0, 4, 5, KeySize} ELSE {0, 1, 2, 3, 4, 5, KeySize - 1, KeySize}
NLead     == HexDigits \div 2          \* the bytes of the key the mapping reads

KeyOf(p, n, f) == [k \in 1..n |-> IF k <= Len(p) THEN p[k] ELSE f]
Keys == UNION {{KeyOf(p, n, f) : p \in [1..Min(n, NLead) -> EdgeBytes], f \in (IF n > NLead THEN Fillers ELSE {0})}
               : n \in KeyLens}

\* envelope with small parametric sizes (SigSize, IdSize come from the cfg)
EnvBytes == {0, 7, 255}
Msgs == {<<>>} \cup [1..1 -> EnvBytes] \cup [1..2 -> EnvBytes]
Sigs == [1..SigSize -> {0, 255}]
Ids  == [1..IdSize -> {0, 1, 255}]

Nums == {0, 1, 255, 256, 257, 65535, 65536, 16777215, 16777216, 2147483647}

\* 128-bit vectors: empty, full, single ones, single zeros, alternating bits / bytes / nibbles
Vec(P(_)) == [i \in 1..VecSize |-> IF P(i - 1) THEN 1 ELSE 0]
Vecs == {Vec(LAMBDA i : FALSE), Vec(LAMBDA i : TRUE),
         Vec(LAMBDA i : i % 2 = 0), Vec(LAMBDA i : i % 2 = 1),
         Vec(LAMBDA i : (i \div 4) % 2 = 0), Vec(LAMBDA i : (i \div 4) % 2 = 1),
         Vec(LAMBDA i : (i \div 8) % 2 = 0), Vec(LAMBDA i : (i \div 8) % 2 = 1)}
        \cup {Vec(LAMBDA i : i = b) : b \in 0..(VecSize - 1)}
        \cup {Vec(LAMBDA i : i # b) : b \in 0..(VecSize - 1)}

HexStrs == {"", "0", "123456789", "0000000000", "ffffffffff", "FFFFFFFFFF", "00000000zz", "0x00000001",
            "8000000000", "000000007f", "0000000080", "00000000ff00", "abcdefABCD"}

KeyCases == {[name |-> "key", pk |-> k] : k \in Keys}
Cases == IF Domain = "attack" THEN KeyCases
         ELSE KeyCases
              \cup {[name |-> "env", msg |-> m, idLE |-> i, sig |-> s] : m \in Msgs, i \in Ids, s \in Sigs}
              \cup {[name |-> "num", n |-> n, k |-> k] : n \in Nums, k \in 1..3}
              \cup {[name |-> "vec", v |-> v] : v \in Vecs}
              \cup {[name |-> "hexstr", s |-> s] : s \in HexStrs}

Init == act = [name |-> "init"]
Next == act.name = "init" /\ \E c \in Cases : act' = c
Spec == Init /\ [][Next]_act

InvAgree     == act.name = "key" => Agree(act.pk)
InvInRange   == act.name = "key" => InRange(act.pk)
InvRoundTrip == act.name = "env" => RoundTrip(act.msg, act.idLE, act.sig)
InvDigits    == act.name = "num" => DigitsOK(act.n, act.k)
InvVec       == act.name = "vec" => VecRoundTrip(act.v)
InvHexStr    == act.name = "hexstr" => ValidatorSubnet(act.s) \in -1..(SubnetsCount - 1)
\* refuted on purpose by Topics_shortkey.cfg (documented quirk, see Topics!AgreeThroughMsgID)
InvAgreeThroughMsgID == act.name = "key" => AgreeThroughMsgID(act.pk)
=============================================================================
