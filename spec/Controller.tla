----------------------------- MODULE Controller -----------------------------
(* protocol/v2/qbft/controller (Controller: StartNewInstance, ProcessMsg -> UponDecided /
   UponExistingInstanceMsg, SaveInstance, LoadHighestInstance, OnTimeout, InstanceContainer),
   the duty runner's gate around it (protocol/v2/ssv/runner: ShouldProcessDuty, baseStartNewDuty,
   decide, baseConsensusMsgProcessing incl. the save of a local decision and compactInstanceIfNeeded),
   ibft/storage (highest_instance record, historical records, CompactCopy on save) and
   Validator.Start (new controller + LoadHighestInstance on the same db).

   One action per public call, as the queue consumer makes them:
     StartDuty(s)     runner.StartNewDuty(attester duty, slot s)
     CtlStart(s)      controller.StartNewInstance(s, value) called directly (any other caller)
     LocalMsgs(h,F)   the 7 deciding messages of round 1 for height h (proposal, 3 prepares, 3 commits of
                      operators 1,2,3), each through runner.ProcessConsensus; F = failing write attempts
     Commit4(h)       the late round-1 commit of operator 4
     Decided(h,r,n,F) a decided certificate (aggregated commit, n signers 1..n, round r) for height h;
                      F = failing write attempts (see below)
     OnTimeout(h,r)   a timeout event reaching controller.OnTimeout
     Restart(rk)      process crash between two calls + Validator.Start on the same database; rk = outcome of the
                      ONE storage read Start makes per runner (LoadHighestInstance -> GetHighestInstance), see below
     DecidedCrash(h,r,n,k) / LocalMsgsCrash(h,k)
                      the same call, but the process dies inside it right before its (k+1)-th database write
                      (k writes are durable), followed by Validator.Start.  A full node's save of a highest
                      instance is TWO writes (ibftStorage.saveInstance: highest_instance first, then the
                      historical record), so k = 1 leaves the highest record without the historical one.

   An instance is [h, run, prop, dec, round, cc, stop]:
     run  = started locally by StartNewInstance (has a start value), prop = ProposalAcceptedForCurrentRound # nil,
     dec/round = State.Decided / State.Round, stop = forceStop,
     cc[r] = State.CommitContainer.Msgs[r] as the sequence of signer sets, in insertion order
             (LongestUniqueSignersForRoundAndRoot is an order dependent greedy scan; one root per height).
   A database record is [h, cr, n, inst, late]: the certificate's round and number of signers (DecidedMessage), the
   compacted instance state stored with it, and (history only, not part of the real record) whether it was written
   as a non-highest record, i.e. for a decided message that arrived below c.Height.

   Failing / empty storage READS (MaxReadFaults, ReadKinds).  The code reads the store in two places of this footprint:
     Validator.Start -> Controller.LoadHighestInstance -> ibftStorage.GetHighestInstance   (one Get per runner)
     Controller.InstanceForHeight -> ibftStorage.GetInstance, full node only, only for a height that is not in
     memory (UponDecided of an old height)                                                  (one Get per call)
   A read has one of the outcomes "ok" | "err" (db.Get returns an error) | "garbage" (the record does not decode:
   GetHighestInstance / GetInstance return "could not decode instance") | "empty" (the database answers not-found
   although the record is there).  The code's reaction, transcribed:
     LoadHighestInstance returns the error of "err" / "garbage"; Validator.Start LOGS it ("failed to load highest
     instance") and goes on: the validator is started with a fresh controller (Height 0, no instance, highest decided
     slot 0) exactly as if nothing had ever been stored.  "empty" is indistinguishable from a first start.
     InstanceForHeight logs the error and returns nil: UponDecided goes on as if the height had never been decided -
     it creates a decided instance from the message and SAVES it over the stored record.
   lf = how this incarnation was loaded: "ok" | "err" (the store reported an error and the code went on) | "empty".
   ReadFix = TRUE models the proposed repair: Validator.Start returns the load error without starting anything (no queue
   consumer: no message is processed, no duty runs) until a later start attempt (RetryStart) loads successfully, and
   UponDecided returns the error of a failed instance lookup without touching anything.

   Weaken names ONE deviation from the code at a time (attack configs); "none" is the faithful spec.
     compareOwnRoundOnly  UponDecided compares with the commits of the certificate's own round only
                          (the comparison before commit 3b0a60d89)
     noPastGuard          StartNewInstance without `height < c.Height`
     noExistingGuard      StartNewInstance without `FindInstance(height) != nil`
     gateStrict           ShouldProcessDuty with `>` for `>=`
     saveAlwaysHighest    SaveInstance treats every instance as the highest
     loadNoHeight         LoadHighestInstance does not set c.Height
     noBump               UponDecided does not bump c.Height on a future decided
     histFirst            ibftStorage.saveInstance writes the historical record before the highest record
     saveErrReturns       UponDecided RETURNS the error of SaveInstance, before the height bump (and the runner,
                          seeing an error from ProcessMsg, does not save again)
     saveErrNoBump        UponDecided bumps c.Height only when SaveInstance succeeded (error still swallowed)
     compactToMsgRound    compactInstanceIfNeeded trims the commit container to the round of the message it is handed
                          (max(State.Round, msg round)) instead of State.Round
     saveErrUndecides     UponDecided, when SaveInstance failed, marks the instance undecided again ("the next copy
                          of the certificate retries the save"): a smaller certificate then replaces the stored one
     saveContinuesAfterError  ibftStorage.saveInstance attempts the historical write although the highest
                          write failed                                                                       *)
EXTENDS Integers, Sequences, FiniteSets, TLC

CONSTANTS MaxH,         \* heights / slots 0..MaxH
          MaxRestarts,
          FullNode,     \* BOOLEAN: controller fullNode flag
          Cap,          \* InstanceContainerDefaultCapacity
          Weaken,
          GapFix,       \* BOOLEAN: FALSE = SaveInstance as at the pinned commit (highest iff msg.Height >= c.Height);
                        \* TRUE = the proposed repair (also highest when above the stored highest height)
          CertRounds,   \* rounds of the decided certificates delivered ({1, 2}; {1} in lean attack configs)
          Direct,       \* BOOLEAN: include CtlStart
          Timeouts,     \* BOOLEAN: include OnTimeout
          MidCrash,     \* BOOLEAN: include the crash points inside a call (between the database writes)
          MaxWriteFaults, \* number of database writes that may fail (error returned, nothing written)
          MaxReadFaults, \* number of database reads that may fail / answer not-found / return an undecodable record
          ReadKinds,     \* subset of {"err", "empty", "garbage"}
          ReadFix        \* BOOLEAN: FALSE = the code as pinned (read errors logged and swallowed); TRUE = proposed repair

VARIABLES height,       \* Controller.Height
          stored,       \* Controller.StoredInstances
          rs,           \* runner: [has |-> State # nil, run |-> height of State.RunningInstance or -1]
          db,           \* [hi |-> record, hist |-> [Heights -> record]]
          restarts,
          wf,           \* write faults so far
          rf,           \* read faults so far
          lf,           \* how Validator.Start loaded this incarnation: "ok" | "err" | "empty"
          top,          \* history: highest height started or learned as decided by this incarnation (-1: none)
          lc,           \* history: highest height this incarnation learned through a completely processed decided
                        \* message that was not late (h >= c.Height on arrival), for an instance it did not hold as
                        \* decided already and that the store did not know as a late record only (-1: none)
          act
vars == <<height, stored, rs, db, restarts, wf, rf, lf, top, lc, act>>
view == <<height, stored, rs, db, restarts, wf, rf, lf, top, lc>>

Heights == 0..MaxH
Rounds  == 1..2
Cert(n) == IF n = 3 THEN {1, 2, 3} ELSE {1, 2, 3, 4}
Max0(S) == IF S = {} THEN 0 ELSE CHOOSE x \in S : \A y \in S : y <= x
Min1(S) == CHOOSE x \in S : \A y \in S : x <= y
MaxI(a, b) == IF a >= b THEN a ELSE b

EmptyCC == [r \in Rounds |-> <<>>]
NoInst  == [h |-> -1, run |-> FALSE, prop |-> FALSE, dec |-> FALSE, round |-> 0, cc |-> EmptyCC, stop |-> FALSE]
NoRec   == [h |-> -1, cr |-> 0, n |-> 0, inst |-> NoInst, late |-> FALSE]

----------------------------------------------------------------------------
(* MsgContainer.LongestUniqueSignersForRoundAndRoot: for every start index, greedily add later messages whose
   signers are disjoint from the ones collected so far; the largest collection wins *)
RECURSIVE Greedy(_, _, _)
Greedy(s, j, cur) == IF j > Len(s) THEN cur
                     ELSE Greedy(s, j + 1, IF s[j] \cap cur = {} THEN cur \cup s[j] ELSE cur)
LongestRound(s) == Max0({Cardinality(Greedy(s, i + 1, s[i])) : i \in 1..Len(s)})
Longest(inst)   == Max0({LongestRound(inst.cc[r]) : r \in Rounds})          \* longestCommitSigners
Cmp(inst, r)    == IF Weaken = "compareOwnRoundOnly" THEN LongestRound(inst.cc[r]) ELSE Longest(inst)

(* InstanceContainer *)
Idx(st, h) == IF \E k \in 1..Len(st) : st[k].h = h THEN CHOOSE k \in 1..Len(st) : st[k].h = h /\ \A j \in 1..(k - 1) : st[j].h # h
              ELSE 0
AddInst(st, inst) ==
    LET lower == {k \in 1..Len(st) : st[k].h < inst.h}
        at    == IF lower = {} THEN Len(st) + 1 ELSE CHOOSE k \in lower : \A j \in lower : k <= j
        n2    == IF Len(st) < Cap THEN Len(st) + 1 ELSE Cap
    IN IF at = Len(st) + 1
       THEN (IF Len(st) < Cap THEN Append(st, inst) ELSE st)        \* lowest and no room: not stored at all
       ELSE [k \in 1..n2 |-> IF k < at THEN st[k] ELSE IF k = at THEN inst ELSE st[k - 1]]   \* last one ejected when full
StopOthers(st, h) == [k \in 1..Len(st) |-> IF st[k].h # h THEN [st[k] EXCEPT !.stop = TRUE] ELSE st[k]]

(* instance.Compact / CompactCopy as far as the commit container goes: rounds below State.Round are dropped *)
Compact(inst) == [inst EXCEPT !.cc = [r \in Rounds |-> IF r < inst.round THEN <<>> ELSE inst.cc[r]]]
CompactAt(st, h) == LET k == Idx(st, h) IN IF k = 0 THEN st ELSE [st EXCEPT ![k] = Compact(st[k])]
(* BaseRunner.compactInstanceIfNeeded after a decided certificate of round r *)
CompactAtMsg(st, h, r) ==
    IF Weaken # "compactToMsgRound" THEN CompactAt(st, h)
    ELSE LET k == Idx(st, h) IN
         IF k = 0 THEN st
         ELSE [st EXCEPT ![k].cc = [q \in Rounds |-> IF q < MaxI(st[k].round, r) THEN <<>> ELSE st[k].cc[q]]]

(* Controller.SaveInstance + ibftStorage.saveInstance: the database writes of one save, in order *)
IsHighest(d, h, hgt) == \/ Weaken = "saveAlwaysHighest" \/ h >= hgt
                        \/ GapFix /\ d.hi.h < h
Writes(d, h, hgt) ==
    IF FullNode
    THEN IF IsHighest(d, h, hgt)
         THEN (IF Weaken = "histFirst" THEN <<"hist", "hi">> ELSE <<"hi", "hist">>)   \* SaveHighestAndHistoricalInstance
         ELSE <<"hist">>                                                             \* SaveInstance
    ELSE IF IsHighest(d, h, hgt) THEN <<"hi">> ELSE <<>>                              \* light: SaveHighestInstance / nothing
(* the writes of the save whose positions are in D are durable *)
SaveSet(d, inst, cr, n, hgt, D) ==
    LET ws  == Writes(d, inst.h, hgt)
        rec == [h |-> inst.h, cr |-> cr, n |-> n,
                inst |-> [Compact(inst) EXCEPT !.run = FALSE, !.stop = FALSE],
                late |-> ~IsHighest(d, inst.h, hgt)]
        done(w) == \E j \in 1..Len(ws) : j \in D /\ ws[j] = w
    IN [hi |-> IF done("hi") THEN rec ELSE d.hi,
        hist |-> IF done("hist") THEN [d.hist EXCEPT ![inst.h] = rec] ELSE d.hist]
(* the first k writes of the save are durable (k >= number of writes: the whole save) *)
SaveK(d, inst, cr, n, hgt, k) == SaveSet(d, inst, cr, n, hgt, 1..k)
Save(d, inst, cr, n, hgt) == SaveK(d, inst, cr, n, hgt, 2)

(* One call of ibftStorage.saveInstance with w writes whose first write is the a-th write attempt of the enclosing
   call; F = the attempt numbers that fail.  It returns at the first failing Set: the writes before it are durable,
   the ones after it are not attempted.  done = positions written, next = number of the next attempt. *)
NoSave(a) == [done |-> {}, next |-> a, err |-> FALSE]
SaveRun(w, a, F) ==
    LET bad == {j \in 1..w : (a + j - 1) \in F} IN
    IF bad = {} THEN [done |-> 1..w, next |-> a + w, err |-> FALSE]
    ELSE IF Weaken = "saveContinuesAfterError"
    THEN [done |-> (1..w) \ bad, next |-> a + w, err |-> TRUE]
    ELSE [done |-> 1..(Min1(bad) - 1), next |-> a + Min1(bad), err |-> TRUE]
(* fault plans of one call: at most 2 saves of at most 2 writes *)
FaultSets == IF wf >= MaxWriteFaults THEN {{}}
             ELSE {F \in SUBSET (1..(IF FullNode THEN 4 ELSE 2)) : Cardinality(F) <= MaxWriteFaults - wf}

(* outcomes of one storage read; Blind = the store reported an error (the code KNOWS the read failed) *)
RdPlans   == IF rf < MaxReadFaults THEN {"ok"} \cup ReadKinds ELSE {"ok"}
Blind(rk) == rk \in {"err", "garbage"}
RfInc(rk) == IF rk = "ok" THEN 0 ELSE 1
(* ReadFix: a validator whose load failed is not started - its queue consumer does not run *)
NotStarted == ReadFix /\ lf = "err"

----------------------------------------------------------------------------
Init == /\ height = 0 /\ stored = <<>> /\ rs = [has |-> FALSE, run |-> -1]
        /\ db = [hi |-> NoRec, hist |-> [h \in Heights |-> NoRec]]
        /\ restarts = 0 /\ wf = 0 /\ rf = 0 /\ lf = "ok" /\ top = -1 /\ lc = -1
        /\ act = [name |-> "init", full |-> FullNode]

(* Controller.StartNewInstance(s): "" when it starts the instance, else the reason of the refusal *)
CtlRefusal(s) == IF Weaken # "noPastGuard" /\ s < height THEN "past"
                 ELSE IF Weaken # "noExistingGuard" /\ Idx(stored, s) # 0 THEN "running"
                 ELSE ""
NewRunning(s) == [h |-> s, run |-> TRUE, prop |-> FALSE, dec |-> FALSE, round |-> 1, cc |-> EmptyCC, stop |-> FALSE]
StartedStore(s) == StopOthers(AddInst(stored, NewRunning(s)), s)

(* BaseRunner.ShouldProcessDuty *)
GateRefuses(s) == /\ IF Weaken = "gateStrict" THEN height > s ELSE height >= s
                  /\ height # 0

StartDuty(s) ==
    /\ IF NotStarted                  \* ReadFix only: OnExecuteDuty never runs, the duty is not executed
       THEN /\ act' = [name |-> "StartDuty", slot |-> s, ok |-> FALSE, why |-> "notstarted"]
            /\ UNCHANGED <<height, stored, rs, top>>
       ELSE IF GateRefuses(s)
       THEN /\ act' = [name |-> "StartDuty", slot |-> s, ok |-> FALSE, why |-> "gate"]
            /\ UNCHANGED <<height, stored, rs, top>>
       ELSE IF CtlRefusal(s) # ""        \* baseSetupForNewDuty already replaced the runner state
       THEN /\ act' = [name |-> "StartDuty", slot |-> s, ok |-> FALSE, why |-> CtlRefusal(s)]
            /\ rs' = [has |-> TRUE, run |-> -1]
            /\ UNCHANGED <<height, stored, top>>
       ELSE /\ act' = [name |-> "StartDuty", slot |-> s, ok |-> TRUE, why |-> ""]
            /\ height' = s /\ stored' = StartedStore(s)
            /\ rs' = [has |-> TRUE, run |-> s]
            /\ top' = MaxI(top, s)
    /\ UNCHANGED <<db, restarts, wf, rf, lf, lc>>

CtlStart(s) ==
    /\ Direct /\ ~NotStarted
    /\ IF CtlRefusal(s) # ""
       THEN /\ act' = [name |-> "CtlStart", slot |-> s, ok |-> FALSE, why |-> CtlRefusal(s)]
            /\ UNCHANGED <<height, stored, top>>
       ELSE /\ act' = [name |-> "CtlStart", slot |-> s, ok |-> TRUE, why |-> ""]
            /\ height' = s /\ stored' = StartedStore(s)
            /\ top' = MaxI(top, s)
    /\ UNCHANGED <<rs, db, restarts, wf, rf, lf, lc>>

(* Validator.Start on database d: NewController + LoadHighestInstance, whose one read has the outcome rk.
   On "err" / "garbage" LoadHighestInstance returns the error before it touches the controller and Start only logs
   it; on "empty" (and when nothing is stored) it returns nil, nil: the new controller stays at Height 0 without
   an instance.  top = what the runner is accountable for after this start: the durably stored highest height -
   unless the database itself answered not-found ("empty"), which no code can tell from a first start. *)
Load(d, rk) ==
    /\ rk \in RdPlans
    /\ rs' = [has |-> FALSE, run |-> -1]
    /\ IF d.hi.h = -1 \/ rk # "ok"
       THEN height' = 0 /\ stored' = <<>>
       ELSE /\ height' = IF Weaken = "loadNoHeight" THEN 0 ELSE d.hi.h
            /\ stored' = <<Compact(d.hi.inst)>>
    /\ top' = IF rk = "empty" THEN -1 ELSE d.hi.h
    /\ lc' = -1
    /\ lf' = IF Blind(rk) THEN "err" ELSE IF rk = "empty" /\ d.hi.h # -1 THEN "empty" ELSE "ok"
    /\ rf' = rf + RfInc(rk)
    /\ db' = d /\ UNCHANGED wf
Boot(d, rk) ==
    /\ restarts < MaxRestarts
    /\ restarts' = restarts + 1
    /\ Load(d, rk)
(* ReadFix only: a later start attempt of the validator whose load had failed (startValidator is called again by the
   operator's metadata loop); no process death, same database *)
RetryStart(rk) ==
    /\ NotStarted
    /\ Load(db, rk)
    /\ act' = [name |-> "RetryStart", brd |-> rk]
    /\ UNCHANGED restarts

(* the seven deciding messages of round 1 for the running instance (they are refused as "future" above
   c.Height, and a force-stopped instance refuses everything) *)
LocalGuard(h) == LET k == Idx(stored, h) IN
    /\ ~NotStarted
    /\ k # 0 /\ h = height
    /\ stored[k].run /\ ~stored[k].stop /\ ~stored[k].prop
LocalNew(h) == LET i == stored[Idx(stored, h)] IN
    [i EXCEPT !.prop = TRUE, !.dec = TRUE, !.cc[1] = i.cc[1] \o <<{1}, {2}, {3}>>]
(* the runner saves the decision of its own running instance only *)
LocalSaves(h) == LET i == stored[Idx(stored, h)] IN i.round = 1 /\ ~i.dec /\ rs.has /\ rs.run = h

(* F: the write attempts of the runner's save that fail; the error is logged, the decision stands in memory *)
LocalMsgs(h, F) ==
    /\ LocalGuard(h)
    /\ LET k == Idx(stored, h)  i == stored[k] IN
       IF i.round > 1           \* every message is of a past round
       THEN /\ F = {}
            /\ act' = [name |-> "LocalMsgs", h |-> h, res |-> "pastround", fail |-> F]
            /\ UNCHANGED <<stored, db, top>>
       ELSE LET s1 == IF LocalSaves(h) THEN SaveRun(Len(Writes(db, h, height)), 1, F) ELSE NoSave(1) IN
            /\ F \subseteq 1..(s1.next - 1)        \* every planned failure is hit
            /\ stored' = [stored EXCEPT ![k] = LocalNew(h)]
            /\ db' = IF LocalSaves(h) THEN SaveSet(db, LocalNew(h), 1, 3, height, s1.done) ELSE db
            /\ top' = MaxI(top, h)
            /\ act' = [name |-> "LocalMsgs", h |-> h, fail |-> F,
                       res |-> IF i.dec THEN "already" ELSE IF LocalSaves(h) THEN "decided-saved" ELSE "decided-nosave"]
    /\ wf' = wf + Cardinality(F)
    /\ UNCHANGED <<height, rs, restarts, rf, lf, lc>>

(* ... and the process dies right before the (k+1)-th database write of that call; rk = the read of the next start *)
LocalMsgsCrash(h, k, rk) ==
    /\ MidCrash /\ LocalGuard(h) /\ LocalSaves(h)
    /\ k < Len(Writes(db, h, height))
    /\ Boot(SaveK(db, LocalNew(h), 1, 3, height, k), rk)
    /\ act' = [name |-> "LocalMsgsCrash", h |-> h, k |-> k, brd |-> rk]

Commit4(h) ==
    LET k == Idx(stored, h) IN
    /\ ~NotStarted
    /\ k # 0 /\ h = height
    /\ stored[k].prop /\ stored[k].round = 1 /\ ~stored[k].stop
    /\ \A j \in 1..Len(stored[k].cc[1]) : stored[k].cc[1][j] # {4}
    /\ stored' = [stored EXCEPT ![k].cc[1] = Append(@, {4})]
    /\ act' = [name |-> "Commit4", h |-> h]
    /\ UNCHANGED <<height, rs, db, restarts, wf, rf, lf, top, lc>>

(* Controller.UponDecided for a valid certificate, then BaseRunner.compactInstanceIfNeeded.
   When the certificate decides the runner's own running instance the runner saves it a second time (same record).
   rk = outcome of the storage read of InstanceForHeight, which a full node makes when the height is not in memory:
   any outcome but "ok" makes it return nil (error logged), i.e. the stored record is not seen. *)
DecidedCalc(h, r, n, rk) ==
    LET k    == Idx(stored, h)
        reads == k = 0 /\ FullNode                           \* InstanceForHeight goes to storage
        disk == reads /\ db.hist[h].h = h /\ rk = "ok"       \* ... and gets a transient copy of the stored instance
        more == IF k # 0 THEN n > Cmp(stored[k], r) ELSE n > Cmp(db.hist[h].inst, r)
        st1  == IF k = 0
                THEN IF disk THEN stored
                     ELSE AddInst(stored, [h |-> h, run |-> FALSE, prop |-> FALSE, dec |-> TRUE, round |-> r,
                                           cc |-> [EmptyCC EXCEPT ![r] = <<Cert(n)>>], stop |-> FALSE])
                ELSE IF ~stored[k].dec
                THEN [stored EXCEPT ![k].dec = TRUE, ![k].round = r, ![k].cc[r] = Append(@, Cert(n))]
                ELSE IF more THEN [stored EXCEPT ![k].cc[r] = Append(@, Cert(n))] ELSE stored
        save == IF k # 0 /\ stored[k].dec THEN more ELSE IF disk THEN more ELSE TRUE
        k1   == Idx(st1, h)
        prev == (k # 0 /\ stored[k].dec) \/ disk             \* prevDecided
    IN [st1 |-> st1, k1 |-> k1, disk |-> disk, reads |-> reads, memdec |-> k # 0 /\ stored[k].dec,
        sv |-> save /\ k1 # 0,                               \* only an instance held in memory is saved
        resave |-> ~prev /\ rs.has /\ rs.run = h /\ k1 # 0,  \* baseConsensusMsgProcessing saves it again
        bump |-> h > height /\ Weaken # "noBump"]

(* F: the write attempts of this call that fail.  The controller's save (s1) comes first; when the certificate
   decides the runner's own running instance the runner's save (s2) follows, whatever the outcome of s1.  Both
   errors are logged and swallowed, nothing in memory depends on them (Weaken: saveErrReturns, saveErrNoBump). *)
Decided(h, r, n, F, rk) ==
    LET c  == DecidedCalc(h, r, n, rk)
        w1 == Len(Writes(db, h, height))
        s1 == IF c.sv THEN SaveRun(w1, 1, F) ELSE NoSave(1)
        early  == Weaken = "saveErrReturns" /\ s1.err       \* UponDecided returned the error
        nobump == early \/ (Weaken = "saveErrNoBump" /\ s1.err)
        s2 == IF c.resave /\ ~early THEN SaveRun(w1, s1.next, F) ELSE NoSave(s1.next)
        st2 == IF Weaken = "saveErrUndecides" /\ s1.err THEN [c.st1 EXCEPT ![c.k1].dec = FALSE] ELSE c.st1
    IN /\ ~NotStarted
       /\ rk \in RdPlans /\ (rk # "ok" => c.reads)  \* a planned read fault is hit
       /\ ~(ReadFix /\ Blind(rk))                   \* (the repaired call: DecidedReadErr)
       /\ F \subseteq 1..(s2.next - 1)             \* every planned failure is hit
       /\ db' = IF c.sv THEN SaveSet(db, c.st1[c.k1], r, n, height, s1.done \cup s2.done) ELSE db
       /\ height' = IF c.bump /\ ~nobump THEN h ELSE height
       /\ stored' = CompactAtMsg(st2, h, r)
       /\ top' = MaxI(top, h)                      \* learned in memory, whatever the store says
       /\ wf' = wf + Cardinality(F)
       /\ rf' = rf + RfInc(rk)
       \* learned from this message AND due to survive a restart: timely, the node did not hold the instance as
       \* decided in memory already (then it had learned it before), the store did not know it as a late record
       \* only, and no write of this call failed (a failed write followed by a restart legitimately forgets)
       /\ lc' = IF h >= height /\ ~c.memdec /\ ~(c.disk /\ db.hist[h].late) /\ F = {} /\ rk = "ok"
                THEN MaxI(lc, h) ELSE lc
       /\ act' = [name |-> "Decided", h |-> h, r |-> r, n |-> n, saved |-> c.sv, bumped |-> c.bump /\ ~nobump,
                  fail |-> F, rd |-> rk]
       /\ UNCHANGED <<rs, restarts, lf>>

(* ReadFix only: InstanceForHeight reports the failed lookup, UponDecided returns the error, nothing changes *)
DecidedReadErr(h, r, n, rk) ==
    /\ ReadFix /\ ~NotStarted /\ Blind(rk) /\ rk \in RdPlans
    /\ DecidedCalc(h, r, n, rk).reads
    /\ rf' = rf + 1
    /\ act' = [name |-> "Decided", h |-> h, r |-> r, n |-> n, saved |-> FALSE, bumped |-> FALSE, fail |-> {}, rd |-> rk]
    /\ UNCHANGED <<height, stored, rs, db, restarts, wf, lf, top, lc>>

(* the in-call read of a call that dies is fault-free; rk = the read of the next start *)
DecidedCrash(h, r, n, k, rk) ==
    LET c  == DecidedCalc(h, r, n, "ok")
        w1 == Len(Writes(db, h, height))
    IN /\ MidCrash /\ c.sv /\ ~NotStarted
       /\ k < w1 + (IF c.resave THEN w1 ELSE 0)
       /\ Boot(SaveK(db, c.st1[c.k1], r, n, height, k), rk)
       /\ act' = [name |-> "DecidedCrash", h |-> h, r |-> r, n |-> n, k |-> k, brd |-> rk]

(* Controller.OnTimeout; live = it reaches Instance.UponRoundTimeout of an instance that still runs *)
OnTimeout(h, r) ==
    LET k == Idx(stored, h)
        live == k # 0 /\ r >= stored[k].round /\ ~stored[k].dec /\ ~stored[k].stop
    IN /\ Timeouts /\ ~NotStarted
       /\ live => stored[k].round < 2
       /\ stored' = IF live THEN [stored EXCEPT ![k].round = @ + 1, ![k].prop = FALSE] ELSE stored
       /\ act' = [name |-> "OnTimeout", h |-> h, r |-> r, live |-> live]
       /\ UNCHANGED <<height, rs, db, restarts, wf, rf, lf, top, lc>>

(* crash between two calls, then Validator.Start *)
Restart(rk) == Boot(db, rk) /\ act' = [name |-> "Restart", brd |-> rk]

Next == \/ \E s \in Heights : StartDuty(s) \/ CtlStart(s)
        \/ \E h \in Heights : Commit4(h) \/ \E F \in FaultSets : LocalMsgs(h, F)
        \/ \E h \in Heights, r \in CertRounds, n \in {3, 4}, F \in FaultSets, rk \in RdPlans :
               Decided(h, r, n, F, rk) \/ (F = {} /\ DecidedReadErr(h, r, n, rk))
        \/ \E h \in Heights, r \in Rounds : OnTimeout(h, r)
        \/ \E rk \in RdPlans : Restart(rk) \/ RetryStart(rk)
        \/ \E h \in Heights, k \in 0..1, rk \in RdPlans :
               \/ LocalMsgsCrash(h, k, rk)
               \/ \E r \in CertRounds, n \in {3, 4} : DecidedCrash(h, r, n, k, rk)
Spec == Init /\ [][Next]_vars

----------------------------------------------------------------------------
(* container: bounded, strictly descending heights; the instance of c.Height sits at the front once it exists *)
ContainerOK == /\ Len(stored) <= Cap
               /\ \A k \in 1..(Len(stored) - 1) : stored[k].h > stored[k + 1].h
               /\ \A k \in 1..Len(stored) : stored[k].h <= height

(* a duty start succeeds only above every height this incarnation has started or learned as decided - in memory,
   whether or not the write of that decision failed - and above the stored highest decided height it was booted
   from (top: set to the stored highest height at boot, raised by every start and every decision since).  The code's height-0 special case, explicit:
   c.Height = 0 means "nothing yet" to ShouldProcessDuty, so the gate lets every slot through and the
   controller alone refuses slot 0 - and only while it holds an instance for height 0 in memory.
   After a restart the runner answers for the DURABLY STORED highest height (top is set to it at every start): a
   start whose load of the highest instance FAILED ("err", "garbage": the store reported an error) gives no licence
   to run a stored height again - refusing to start or retrying would be fine, silently starting from height 0 is a
   re-run, and "c.Height = 0 means nothing yet" is no excuse when the code was told that its read failed.  Only when
   the database itself answers not-found ("empty") is the start indistinguishable from a first one (top = -1). *)
ZeroCase == height = 0 /\ Idx(stored, 0) = 0
NoRerun == [][(act'.name = "StartDuty" /\ act'.ok)
                 => \/ act'.slot > top
                    \/ act'.slot = 0 /\ ZeroCase /\ lf # "err"]_vars
(* the same without the slot-0 corner (finding config: the counterexample is a stored height >= 1 run again) *)
NoRerunAbove0 == [][(act'.name = "StartDuty" /\ act'.ok /\ act'.slot > 0) => act'.slot > top]_vars
(* ... which the code does not guarantee (suspected defect, height-rerun-after-failed-highest-read): Validator.Start
   logs the error of LoadHighestInstance and starts the validator on a fresh controller.  This is the only way NoRerun
   fails: in an incarnation whose load failed, and even then the runner refuses what it has seen in memory. *)
NoRerunExceptFailedLoad ==
    [][(act'.name = "StartDuty" /\ act'.ok)
          => \/ act'.slot > top
             \/ act'.slot = 0 /\ ZeroCase
             \/ lf = "err" /\ act'.slot > height]_vars
(* the controller by itself: no instance below c.Height and none for a height it holds an instance of *)
NoRerunCtl == [][(act'.name \in {"CtlStart", "StartDuty"} /\ act'.ok)
                    => act'.slot >= height /\ Idx(stored, act'.slot) = 0]_vars
IsBoot(a) == a.name \in {"Restart", "DecidedCrash", "LocalMsgsCrash", "RetryStart"}
HeightMonotone == [][~IsBoot(act') => height' >= height]_vars
TopIsHeight == lf = "err" \/ top = -1 \/ top = height

(* the highest_instance record: replaced only by a greater height, or at the same height by a certificate
   with at least as many signers (see HighestStrict for the literal "more signers") *)
RecMonotone(a, b) == a.h # -1 => \/ b.h > a.h
                                 \/ b.h = a.h /\ b.n >= a.n
HighestMonotone == [][RecMonotone(db.hi, db'.hi)]_vars
(* ... which an incarnation that was started although its load failed (or on an "empty" read) breaks as long as its
   controller has not passed the stored highest height: every decision it sees is "the highest" to SaveInstance
   (suspected defect, stored-overwritten-after-failed-highest-read; "empty": environment, nobody's fault) *)
HighestMonotoneExceptFailedLoad == [][RecMonotone(db.hi, db'.hi) \/ (lf # "ok" /\ height <= db.hi.h)]_vars
(* the same for decided certificates alone (attack configs: the counterexample is a pure certificate schedule) *)
HighestMonotoneCert == [][act'.name = "Decided" => RecMonotone(db.hi, db'.hi)]_vars
(* historical records (full node): literally "replaced only by more signers" ... *)
HistShrinks(h)  == db.hist[h].h # -1 /\ (db'.hist[h].h # h \/ db'.hist[h].n < db.hist[h].n)
HistMonotone    == [][\A h \in Heights : ~HistShrinks(h)]_vars
HistMonotoneNZ  == [][\A h \in Heights \ {0} : ~HistShrinks(h)]_vars
(* ... which the code does not guarantee (recorded finding): a height decided before a restart but not covered by
   the highest_instance record (it was below c.Height when it was decided) is accepted again after the restart,
   and the decision of the fresh instance overwrites the older record.  This is the only way a record shrinks. *)
RerunShrink(h) ==
          /\ restarts > 0 /\ act'.name \in {"LocalMsgs", "Decided", "LocalMsgsCrash", "DecidedCrash"}
          /\ act'.h = h /\ db'.hist[h].h = h
          /\ LET k == Idx(stored, h) IN k # 0 /\ stored[k].run /\ ~stored[k].dec
(* HistMonotoneStrictReads: the excuse above only.  HistMonotoneExceptRerun adds the second way, open only to a failed
   read: InstanceForHeight swallowed the error of GetInstance (or got not-found), UponDecided took the height for
   undecided and saved the message's certificate over the stored one (suspected defect,
   historical-overwritten-after-failed-instance-read) *)
HistMonotoneStrictReads == [][\A h \in Heights : HistShrinks(h) => RerunShrink(h)]_vars
HistMonotoneExceptRerun ==
    [][\A h \in Heights : HistShrinks(h) =>
          \/ RerunShrink(h)
          \/ act'.name = "Decided" /\ act'.rd # "ok" /\ act'.h = h]_vars
StorageShape    == /\ db.hi.h # -1 => db.hi.inst.dec /\ db.hi.n >= 3
                   /\ \A h \in Heights : db.hist[h].h \in {-1, h}
                   /\ ~FullNode => \A h \in Heights : db.hist[h].h = -1
                   \* a crash between the two writes of a full node leaves at most the highest record alone
                   \* ... and so does a failed historical write
                   /\ FullNode /\ db.hi.h # -1 /\ ~MidCrash /\ wf = 0 => db.hist[db.hi.h].h = db.hi.h
                   /\ db.hi.late = FALSE
(* crash consistency of the two writes: a historical record that was written as a highest instance never gets
   ahead of the highest_instance record *)
HistBehindHighest == rf = 0 => \A h \in Heights : db.hist[h].h = h /\ ~db.hist[h].late => db.hi.h >= h

(* the trace an incarnation that was started blind (failed or "empty" load) leaves when it has overwritten the highest
   record by a lower one (HighestMonotoneExceptFailedLoad) on a full node: a historical record, written as a highest
   one, above the highest record.  The stored copy of that height then keeps UponDecided from saving it again - in
   that incarnation and in every later one (without read faults HistBehindHighest excludes such a state). *)
Downgraded(d) == \E h \in Heights : h > d.hi.h /\ d.hist[h].h = h /\ ~d.hist[h].late
(* whatever a completely processed, timely decided message none of whose writes failed taught this incarnation
   survives its death: the next incarnation starts from a stored highest height that is not below it *)
RestartCoversLearned == [][IsBoot(act') => \/ lc <= db'.hi.h
                                            \/ (rf > 0 /\ Downgraded(db'))]_vars

(* after Restart the controller resumes with the stored highest height and refuses duties up to it *)
DutyWouldStart(s) == ~NotStarted /\ ~GateRefuses(s) /\ CtlRefusal(s) = ""
RestartResumes == (IsBoot(act) /\ db.hi.h # -1 /\ lf = "ok")
                      => /\ height = db.hi.h
                         /\ \A s \in 0..db.hi.h : ~DutyWouldStart(s)
(* whatever the load did - short of a database that denies having the record - no stored height can be started
   (holds with ReadFix, fails for the pinned code) *)
RestartRefuses == (IsBoot(act) /\ db.hi.h # -1 /\ lf # "empty") => \A s \in 0..db.hi.h : ~DutyWouldStart(s)

(* ---- observations: NOT properties of the faithful spec (used by the *_observe configs only) ---- *)
(* literal reading of "by one with more signers": the certificate is unchanged or has strictly more signers *)
HighestStrict == [][db.hi.h # -1 /\ db'.hi.h = db.hi.h =>
                       \/ (db'.hi.cr = db.hi.cr /\ db'.hi.n = db.hi.n)
                       \/ db'.hi.n > db.hi.n]_vars
(* every decided instance held in memory at the crash is covered by the stored highest height *)
RestartCoversKnown == [][IsBoot(act') =>
                            \A k \in 1..Len(stored) : stored[k].dec => stored[k].h <= height']_vars
=============================================================================
