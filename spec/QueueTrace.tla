----------------------------- MODULE QueueTrace -----------------------------
(* Trace validation of executions recorded from the real queue (harness/cmd/queue -mode record)
   against Queue.  One event per public call, logged at its return; many executions are
   concatenated with "Reset" events. *)
EXTENDS Queue, Json
VARIABLE l
Trace == ndJsonDeserialize("trace.ndjson")
tvars == <<vars, l>>

IsEv(e) == l <= Len(Trace) /\ Trace[l].event = e /\ l' = l + 1
SeqToSet(s) == {s[k] : k \in 1..Len(s)}

TInit == Init /\ l = 1
TReset == /\ IsEv("Reset")
          /\ inbox' = <<>> /\ list' = <<>> /\ pushed' = {} /\ popped' = {} /\ nextId' = 1
          /\ waiting' = NotWaiting /\ act' = [name |-> "init"]
TTryPush == /\ IsEv("TryPush")
            /\ nextId = Trace[l].id
            /\ TryPush(Trace[l].c)
            /\ act'.ok = Trace[l].ok
TPush == /\ IsEv("Push")
         /\ nextId = Trace[l].id
         /\ Push(Trace[l].c)
TTryPop == /\ IsEv("TryPop")
           /\ TryPop(SeqToSet(Trace[l].filter), Trace[l].hri)
           /\ act'.res = Trace[l].res
           /\ act'.len = Trace[l].len
TNext == TReset \/ TTryPush \/ TPush \/ TTryPop
TraceSpec == TInit /\ [][TNext]_tvars
TraceAccepted == TLCGet("stats").diameter - 1 = Len(Trace)
=============================================================================
