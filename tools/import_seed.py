#!/usr/bin/env python3
"""usage: import_seed.py <src dir> <dest name> <property> <needs> <ran> <detected_by comma list or 'MISSED'>"""
import json, os, shutil, sys
src, name, prop, needs, ran, det = sys.argv[1:7]
dst = os.path.join("/verif/seeded", name)
os.makedirs(dst, exist_ok=True)
for f in ("patch.diff", "demo_test.go", "README.md"):
    if os.path.exists(os.path.join(src, f)):
        shutil.copy(os.path.join(src, f), os.path.join(dst, f + (".txt" if f.endswith(".go") else "")))
meta = {"property": prop, "origin": "fresh sub-agent given only the property text and a scratch worktree",
        "needs": needs, "ran": ran, "detected_by": [] if det == "MISSED" else det.split(","), "missed": det == "MISSED"}
json.dump(meta, open(os.path.join(dst, "meta.json"), "w"), indent=1)
print("imported", dst)
