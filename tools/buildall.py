"""setup_cmd: build every harness driver once so that later checks hit a warm go cache."""
import glob
import os
import vlib


def main():
    rc = 0
    for d in sorted(glob.glob(os.path.join(vlib.HARNESS, "cmd", "*"))):
        try:
            vlib.go_build(os.path.basename(d))
        except vlib.MachineryError as e:
            vlib.log("setup: %s" % e)
            rc = 2
    r = vlib.sh(["tlc", "-h"], check=False)
    vlib.log("setup: tlc available" if "TLC" in (r.stdout or "") or r.returncode in (0, 1) else "setup: tlc missing")
    return rc
