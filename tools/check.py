#!/usr/bin/env python3
"""Entry point of every registered check: ./check <Cxx> [--tier quick|thorough] [--replay path]

exit 0: the property held on everything explored (KNOWN-FINDING lines may be printed)
exit 1: a monitor tripped on the real code: `VIOLATION property=<id> replay=<path>`
exit 2: the machinery itself failed (never a verdict about the property)
"""
import argparse
import importlib
import os
import sys
import time
import traceback

sys.path.insert(0, os.path.dirname(os.path.abspath(__file__)))
import vlib  # noqa: E402


def main():
    ap = argparse.ArgumentParser()
    ap.add_argument("prop")
    ap.add_argument("--tier", default=os.environ.get("VERIF_TIER", "quick"), choices=["quick", "thorough"])
    ap.add_argument("--replay", default=None)
    ap.add_argument("--setup", action="store_true")
    a = ap.parse_args()
    if a.prop == "setup":
        vlib.setup()
        import buildall
        return buildall.main()
    seed = vlib.seed_from_env()
    t0 = time.time()
    try:
        vlib.setup()
        mod = importlib.import_module("props." + a.prop)
        if a.replay:
            rc = mod.replay(a.replay)
        else:
            rc = mod.run(a.tier, seed)
        vlib.log("[%s] tier=%s seed=%d exit=%d wall=%.1fs" % (a.prop, a.tier, seed, rc, time.time() - t0))
        return rc
    except vlib.MachineryError as e:
        vlib.log("MACHINERY-ERROR property=%s: %s" % (a.prop, e))
        return 2
    except Exception:  # noqa: BLE001
        traceback.print_exc()
        vlib.log("MACHINERY-ERROR property=%s: unexpected exception" % a.prop)
        return 2


if __name__ == "__main__":
    sys.exit(main())
