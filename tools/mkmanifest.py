#!/usr/bin/env python3
"""Regenerates /verif/MANIFEST.json from the table below (one source of truth, always schema-valid)."""
import json
import os

VERIF = os.path.dirname(os.path.dirname(os.path.abspath(__file__)))

HOOK_COMMITS = []  # filled in as hook commits are made in /repo

CHECKS = {
    "C14": dict(
        category="model_checking",
        text="Queue.tla mirrors priorityQueue (inbox channel, prepending readInbox, the pop scan, the three phases of the "
             "blocking Pop) and standardPrioritizer.Prior score by score. TLC exhausts every interleaving of push / "
             "try-push / pop / try-pop / blocking-pop steps for <= 3 (quick) or 4 (thorough) messages from a class "
             "alphabet with every filter and both prioritizer states, checking Conservation, Admitted, NoDiscard, "
             "Responsive and Maximal (coarse documented order and the exact Prior relation). The dumped state graph is "
             "replayed edge-wise on the real queue with monitors evaluated on real return values; attack traces of the "
             "pinned commit's pop (a named deviation in the spec) are replayed as regression; random executions of the "
             "real queue are validated against QueueTrace.tla; concurrent producers are checked for bag equality.",
        design_ref="DESIGN.md section 5 C14",
        note="Go channel semantics trusted; exhaustive only for the stated constants; the concurrent part is a sampled "
             "exploration of schedules (bag-equality monitor), not an enumeration.",
        technique="TLA+ spec + TLC exhaustive check; state-graph cover and attack traces replayed on the real queue; "
                  "TLC trace validation of recorded executions",
    ),
}

CHECKS["C18"] = dict(
    category="exploration",
    text="Topics.tla states the key -> subnet -> topic mapping as pure operators at the three call sites (publisher through the "
         "message id's key slot, subscriber on the raw key, validator after GetTopicBaseName), the fixed-offset envelope and the "
         "128-bit subnet vector <-> hex string codec, code quirks included. TLC checks Agree, InRange, RoundTrip and VecRoundTrip "
         "exhaustively on a boundary domain (first five key bytes in {00,7f,80,ff}, lengths 0..5/47/48, small parametric envelope, "
         "264 vectors) and evaluates the same operators as an oracle (ndJsonDeserialize/ndJsonSerialize) on seeded inputs from the Go "
         "driver (2 000 / 50 000 random keys plus boundary, short and attack keys, envelopes, vectors, odd strings). The driver runs "
         "every key through the real p2pNetwork.Subscribe and Broadcast (verif hook, fake topics controller) and feeds the published "
         "bytes to the real message validator on all 128 advertised topics and the 'unknown' sentinel; monitors compare the three real "
         "call sites with each other, check the advertised range and the real codecs' round trips; spec-vs-code mismatches are divergences.",
    design_ref="DESIGN.md section 5 C18 and section 7",
    note="The 2^384 key space is sampled, only the boundary domain is enumerated (spec side). The topics controller is a fake that "
         "records names (assumed to prepend the prefix as the real one does); operator signatures are arbitrary 256-byte strings. "
         "Malformed keys below 5 bytes map to the sentinel 'unknown' by design and are asserted only at the call sites that take a raw "
         "key; the disagreement through a zero-padded message id is recorded as an observation.",
    technique="stateless TLA+ spec as executable oracle + TLC exhaustive boundary evaluation + counterexample keys of weakened specs; "
              "real call sites compared with each other by a Go driver",
)

HOOK_COMMITS.append("4f281a047")
HOOK_COMMITS.append("3fc5237af")
HOOK_COMMITS.append("dd4c46005")

CHECKS["C15"] = dict(
    category="model_checking",
    text="Controller.tla mirrors the qbft controller (StartNewInstance guards, UponDecided incl. the all-rounds signer "
         "comparison, SaveInstance's highest/historical rule, the capacity-2 instance container, LoadHighestInstance), "
         "the duty runner's gate and save of local decisions, in-place/on-save compaction of the commit container, "
         "ibft/storage's highest and historical records for light and full nodes, OnTimeout, crash + Validator.Start, and failing "
         "storage writes: any db Set of a save may return an error and write nothing (<= MaxWriteFaults), with the code's reaction "
         "transcribed - saveInstance stops at the first failing write, UponDecided and the runner log and swallow the error, nothing in "
         "memory depends on it. NoRerun counts what was learned in memory until the next restart and only what is stored after it. "
         "TLC exhausts all sequences of duty starts, direct instance starts, local decisions, late commits, decided "
         "certificates (3/4 signers, rounds 1/2, past/current/future heights), timeouts and restarts for heights 0..3 / "
         "<= 2 restarts, checking NoRerun (height-0 special case explicit), NoRerunCtl, HeightMonotone, RestartResumes, "
         "HighestMonotone and HistMonotoneExceptRerun. Seeded TLC simulations, thirteen attack traces (named deviations incl. "
         "the pre-3b0a60d89 comparison, a save error returned or acted on before the height bump, the instance un-decided after a "
         "failed save, the historical write attempted after a failed highest write, compaction trimmed to the message's round), finding and observation traces are replayed on a real Validator + attester runner "
         "+ controller + ibft storage with full-state conformance after every step and monitors on real outputs; seeded "
         "executions generated on the real code are validated against ControllerTrace.tla (incl. injected write failures keyed by "
         "write-attempt number in a fault-injecting basedb.Database wrapper). Failing / empty / undecodable storage READS at restart "
         "(Validator.Start -> LoadHighestInstance, replayed through the real Validator.Start) and in InstanceForHeight are part of the "
         "environment: the faithful model violates NoRerun / HighestMonotone there, the counterexamples reproduce on the real code "
         "(three known findings), 'only-way-it-fails' properties bound the damage and a modelled repair restores the strict ones.",
    design_ref="DESIGN.md section 5 C15",
    note="One committee of 4, certificates {1,2,3}/{1,2,3,4}, one value per height; a crash may fall between calls and between the two writes of "
         "SaveInstance (each single db Set atomic); a db Set may also fail (error, nothing written; at most 2 per behaviour "
         "exhaustively, 3 in recorded runs; not combined with a crash inside the same call; reads never fail); a decision whose write "
         "failed may legitimately be forgotten by a restart (RestartCoversLearned and restart-lost-highest exempt such calls); in-memory badger stands in for disk; the height-0 special case of ShouldProcessDuty is excluded explicitly; "
         "known finding history-overwritten-by-rerun-after-restart (late decided below c.Height is not stored as highest); "
         "quick-tier exhaustive runs are time-boxed (stopAfter) and report exhaustive=false when the box is hit.",
    technique="TLA+ spec + TLC exhaustive check; simulations, attack and finding traces replayed on the real code with "
              "state conformance; TLC trace validation of recorded executions",
)
CHECKS["C16"] = dict(
    category="model_checking",
    text="Scheduler.tla transcribes the select loops of AttesterHandler, ProposerHandler and SyncCommitteeHandler (one "
         "module, constant Role) over the duty store: Tick (fetch-then-execute on fetchFirst, else execute/reset/fetch, "
         "fetch-next trigger, end-of-epoch/period resets, shouldExecute under a clock lag), Reorg(prev/cur), "
         "IndicesChange with a changing active set, HandleInitialDuties, fetch failures, assignments that change at "
         "reorgs. TLC exhausts every interleaving for 4- and 6-slot epochs over 2-5 epochs incl. a sync-period boundary "
         "(quick 0.23M, thorough 8.1M distinct states) checking AtMostOnce, AtItsSlot, OnlyIfAssigned, InWindow, "
         "ExactlyOnceWhenValid (storeValid reading) and NoStaleInStore. State-graph covers, -simulate runs with 8-slot "
         "epochs and 15 attack traces (one guard removed each) are replayed on the real handlers with five monitors on "
         "the recorded ExecuteDuties / BeaconNode.*Duties calls and step-wise comparison of fetch calls, dispatch sets "
         "and the real dutystore; the driver's own random schedules are validated by TLC against SchedulerTrace.tla.",
    design_ref="DESIGN.md section 5 C16, appendix A.6, appendix B (duty handlers)",
    note="Exhaustive only for the stated constants (<= 2 validators, bounded reorg/indices/failure budgets, no skipped "
         "ticks, non-empty active set). 'Fetched successfully before that tick' is read as storeValid: no dispatch is "
         "demanded after an invalidating event or failed fetch until the key is fetched again, so a handler that stops "
         "fetching is outside the property; which events invalidate which key is transcribed per role from the pinned handlers. BeaconNetwork arithmetic is re-implemented by the virtual network.",
    technique="TLA+ spec + TLC exhaustive check; graph cover, simulation and attack traces replayed on the real duty "
              "handlers with monitors; TLC trace validation of recorded executions",
)
CHECKS["C03"] = dict(
    category="model_checking",
    text="Runner.tla models StartNewDuty (ShouldProcessDuty, new State, pre-consensus proof or decide), the pre-/post-consensus quorum "
         "steps, Controller.ProcessMsg/UponDecided/StartNewInstance with the PRODUCTION 2-slot instance container (addNewInstance "
         "eviction, future decided messages creating instances, the runner's pointer to an instance that was pushed out) and "
         "baseConsensusMsgProcessing (prevDecided, didDecideCorrectly, validateDecidedConsensusData) with a log of every "
         "SignBeaconObject. TLC exhausts all sequences of start-duty events, deciding sequences, decided messages "
         "(stale/future/replayed, three signer quorums, valid/other/invalid value), foreign-validator/-role messages and "
         "partial-signature quorums over heights 1..3 for both role families and checks SigWindow (+ OnceDetached). State-graph "
         "covers that prefer 'two future decided messages, then replays of the duty's decided message' histories, attack traces "
         "(height check, re-validation, once-only reporting, message-id check removed, prevDecided read from the container, the "
         "pinned re-sign-after-eviction deviation) and seeded single-message-grain random executions are replayed on real runners "
         "of all five roles built with controller.NewController behind a real Validator.ProcessMessage; the monitor reads only the "
         "key-manager spy. In the other direction 150 (quick) / 3 000 (thorough) seeded random executions recorded from the real "
         "runners of every consensus role at single-call grain (not derived from TLC) are validated by the trace specification "
         "RunnerTrace.tla, whose invariants restate C03 on every recorded validator-key signature; a failing invariant on a real "
         "trace is a verdict, an unexplained event a divergence.",
    design_ref="DESIGN.md section 5 C03",
    note="QBFT deciding sequences and partial-signature quorums are macro steps in the spec (split in the random executions); heights 1..3, "
         "operator 1 of 4 (7 in part of the random runs); SignRoot signatures are not constrained; the reference ssv-spec value check is the "
         "oracle for 'passed the validity check'; the check first replays the pinned deviation's counterexample and generates covers "
         "from the variant (PrevDec code/fixed) the tree implements; fixed finding signed-twice-evicted-undecided (commit 15afa78ec).",
    technique="TLA+ spec + TLC exhaustive check; state-graph cover, attack traces and random executions replayed on real runners with a key-manager spy; "
              "TLC trace validation of recorded executions of the real runners",
)
CHECKS["C05"] = dict(
    category="model_checking",
    text="PartialSig.tla models the partial-signature container (add, duplicate resolution, quorum edge), reconstruction-with-verification, "
         "the fallback eviction, the per-role roots loop and Finished. TLC exhausts every arrival order and every placement of <= f faulty "
         "members (wrong/mixed/duplicate/replaced shares, wrong root/slot/count, non-members) for 4 operators and selected faulty sets for 7, "
         "simulates 10 and 13 operators and 3 roots, checking SubmittedValid, AtMostOnce, NotPrevented. Covers, simulations, attack traces "
         "and random executions are replayed on real runners of all eight duty kinds with real threshold BLS; the oracle verifies every "
         "Submit* signature under the validator key over the independently recomputed signing root and counts submissions per decided object. "
         "Seeded random executions recorded from the real runners (all roles, committees 4-13, <= f Byzantine senders, duplicates, "
         "replacements, wrong roots / slots / signer ids) are validated by the trace spec PartialSigTrace.tla, which carries the C05 "
         "invariants over the logged inputs and outputs.",
    design_ref="DESIGN.md section 5 C05",
    note="'arrived' = handed to the runner after its instance decided; exhaustive only for the stated constants; the multi-root roots loop of the "
         "pinned commit is a named deviation (Algo=code) whose counterexample is the recorded finding submission-prevented-multiroot; the check "
         "detects which variant the tree implements.",
    technique="TLA+ spec + TLC exhaustive check and simulation; state-graph cover, attack traces and random executions replayed on real runners with beacon-node spy and BLS verification; "
              "TLC trace validation of recorded executions",
)
CHECKS["C13"] = dict(
    category="model_checking",
    text="LogStream.tla mirrors FetchHistoricalLogs / fetchLogsInBatches / PackLogs / StreamLogs / streamLogsToChan and the "
         "SyncHistory->SyncOngoing hand-over, one action per RPC and per select case, with the tries/Fatal rule, empty-batch "
         "markers, removed logs and head-notification queue. TLC exhausts every distribution of log kinds over blocks, batch "
         "sizes {1,2,3}, follow distances {0,2} and <= 3 failures (subscribe failure, subscription error/connection cut, "
         "getLogs error on any batch, blockNumber error) in any position relative to new heads, checking StrictlyIncreasing, "
         "ExactlyOnce, NoRewind, PerBlockComplete, NoGap (delivered and cursor form) and FollowRespected. The dumped state "
         "graph, seeded simulations of a larger instance and the counterexamples of the named deviations (pre-fix two-cursor "
         "algorithm, four single-guard weakenings) are replayed on the real ExecutionClient behind the real EventSyncer against "
         "a gated in-process go-ethereum rpc.Server over WebSocket; a free-running seeded fault-injection run and a PackLogs "
         "run add timing races and large batches. Monitors read only the BlockLogs handed to the event handler. In the other "
         "direction free-running executions of the real StreamLogs under a seeded random environment (head bursts, random logs, "
         "batch and follow sizes, error answers, connection cuts, subscription errors, shutdown/restart from last+1) are recorded "
         "at the fake node's RPC boundary and at the consumer and validated by TLC against LogStreamTrace.tla twice: the C13 "
         "invariants on the observed stream (a violated one is a verdict), and step-wise explanation by LogStream's actions with "
         "fetch ranges, delivered entries and resume cursors bound (a rejection is a divergence).",
    design_ref="DESIGN.md section 5 C13",
    note="Execution node honest and append-only (no reorgs; canonical getLogs order); exhaustive only for the stated constants; "
         "connection cut and subscription error are one event for the client; executions in which go-ethereum's rpc client "
         "hangs after a cut are given up without verdict (about 1.5 % of the free-running executions).",
    technique="TLA+ spec + TLC exhaustive check; state-graph cover, simulations and attack traces replayed on the real client "
              "with a gated fake execution node; free-running fault injection; TLC trace validation of recorded free-running "
              "executions (observation and conformance readings)",
)

CHECKS["C08"] = dict(
    category="model_checking",
    text="MsgValidation.tla models the pubsub gate of one peer (ValidatePubsubMessage -> validateSSVMessage -> consensus / partial-signature "
         "rules in the code's order, per-signer state, both envelope eras) over alphabets of message classes that include every degenerate "
         "field class (round 0 / 2^32 / 2^63 / 2^64-1, slot 0 / 2^62+s / 2^63 / 2^64-1, empty / zero / non-member / unsorted / duplicate / 13 / 14 "
         "signers, unknown types and roles, malformed and nested justifications, zero signatures, six registry classes, wrong topic / domain, "
         "seven envelope classes). TLC checks totality on every edge of ten family configs exhaustively; a Go driver concretises every "
         "(accepted prefix, class, time point) up to depth 2-4 with real SSZ/JSON encoding, real BLS/RSA keys and a re-based-genesis clock and "
         "passes it to the real ValidatePubsubMessage under recover(), a hang watchdog and an allocation ceiling; every recorded call is "
         "validated by TLC (MsgValidationTrace). Byte half: seeded perturbations (truncation at field boundaries, offset/length words, extreme "
         "8-byte values, bit flips) of the model-generated messages fed to the validator and to DecodeSignedSSVMessage, DecodeNetworkMsg, "
         "queue.DecodeSSVMessage, NodeInfo/SignedNodeInfo Consume+UnmarshalRecord, NodeMetadata.Decode, Subnets.FromString.",
    design_ref="DESIGN.md section 5 C08, section 7",
    note="The byte-string half is EXPLORATION seeded from the model (arbitrary byte strings are not enumerated); messages above a few KiB are "
         "not generated; allocation ceiling 96 MiB per call; hang = a call that is slower than 2 s or has not returned after 10 s and fails the same way three more times in a row when repeated on the same validator object (a stall of a loaded machine passes a repeat; an input the validator loops on, or a validator left wedged by an earlier call such as a leaked lock, fails every repeat); the replay file is the call history of that object, cut down to (call before + hanging call) when that hangs again on a fresh validator; direct ValidateSSVMessage calls: 60 s watchdog. Shares one run with C09 (cached under .work/msgval).",
    technique="TLA+ spec + TLC exhaustive check; implementation-driven sweep of the real validator over the spec alphabet with TLC trace "
              "validation; attack traces; model-seeded byte perturbation of validator and decoders",
)
CHECKS["C09"] = dict(
    category="model_checking",
    text="MsgValidation.tla holds two definitions: the operational verdict (rules in the code's order with the real rule texts and the "
         "per-signer state update) and the declarative GossipBreak/GossipOK written from the property statement over the set of previously "
         "accepted messages. TLC checks accept => GossipOK (AcceptSound), totality and StateSound on every edge of ten family configs "
         "(single-signer consensus, deep core interplay, time windows of three roles, the round and slot windows of all five consensus "
         "roles over every boundary of the estimated-round step function - rounds 0..max+2 x reception times +-0.5 s/+-1.5 s around "
         "2,4,...,16,136,256,376 s, slot start, early and late edges, clock arithmetic in milliseconds with the code's constants "
         "(roundwin) -, boundary rounds/heights for committees 4 and 7, partial signatures, N=7, decided messages, both envelope eras; "
         "ClockRobust: time points in the last second of a slot are only used where the verdict does not depend on the code's truncated "
         "clock); 18 weakened-guard configs give attack traces. The real validator is swept over the same alphabets after every accepted prefix "
         "(depth 2-4) and every call is validated by TLC (0 mismatches); graph cover, simulated behaviours and attack traces are replayed with "
         "per-step comparison of class and Error.Text(). The verdict comes only from valkit.Monitor: the statement of C09 evaluated on the "
         "concrete accepted bytes (own SSZ decode, own RSA verification, own leader/window arithmetic) and the concrete history. Thorough: "
         "message sets from 8 goroutines under -race, each batch explained by some sequential order found by TLC.",
    design_ref="DESIGN.md section 5 C09",
    note="Exhaustive only for the stated alphabets (<= 2 tracked single signers, listed slot/round/time classes, committee 4 and 7). The monitor "
         "asserts exactly the statement: full data on prepares/commits, decided-message limits and signer/envelope-operator identity are not "
         "asserted. Named deviations PartialWindow / OverflowGuard are selected by probing the real validator. Known finding "
         "accepted:partial-sig-outside-slot-window (KNOWN-FINDING, exit 0). Clock-dependent clauses are skipped for calls slower than 300 ms. Time points are whole seconds + 0.5 s; the gate's boundaries are whole seconds.",
    technique="TLA+ spec with operational and declarative definitions + TLC exhaustive check; sweep of the real validator with TLC trace "
              "validation; attack traces; independent concrete-bytes monitor; concurrent batches under -race",
)

CHECKS["C11"] = dict(
    category="model_checking",
    text="Registry.tla holds the registration rules declaratively (Expected = fold of Rule over the event sequence, "
         "independent of blocks) next to the mechanism of eth/eventhandler (one transaction per block, reads that "
         "see / do not see the transaction's own writes as the code does, nonce bumped before validation, in-memory "
         "share map and own-operator record, key manager outside the transaction). TLC exhausts every sequence of "
         "<= 3 (quick) / 4 (thorough) events from a 35-class alphabet (every validity class of ValidatorAdded, "
         "foreign-owner remove/exit, duplicate OperatorAdded ids, cluster and fee events) under every block batching "
         "and a restart, checking db = Expected(prefix), keys = Expected, mem = db, last = block. A seeded cover of the "
         "dumped state graph, simulated behaviours over the full 77-class alphabet, and the counterexamples of 17 "
         "named weakenings (incl. the pre-55553ea0e SaveOperatorData) are replayed on the real EventHandler with real "
         "BLS owner signatures and RSA share keys in ABI-packed logs; monitors compare the real database with the "
         "rules, memory with database, a fresh node with the running one, and the same events batched one per block "
         "(real vs real). Random chains recorded from the real handler are validated by TLC (RegistryTrace.tla).",
    design_ref="DESIGN.md section 5 C11",
    note="Rules oracle = the spec's Expected evaluated by TLC; exhaustive only for the stated constants (2 owners, 2 "
         "validators, operator ids 1..5); ABI-unparseable logs are outside the alphabet; badger atomicity trusted; "
         "beacon metadata supplied by the harness.",
    technique="TLA+ rules-vs-mechanism spec + TLC exhaustive check over all batchings; state-graph cover, simulation "
              "and attack traces replayed on the real event handler; TLC trace validation of recorded chains",
)
CHECKS["C12"] = dict(
    category="model_checking",
    text="Crash sub-spec of Registry.tla (Grain = op): one step per storage write / operator-lookup read / key-manager "
         "call / decided-store cleanup / marker write / commit, Crash and Fail between any two, restart on the "
         "surviving database, redelivery of the interrupted block, redelivery of a committed block. TLC exhausts "
         "<= 3 events x 1 fault (quick) / <= 4 events x 2 faults (thorough, 7.9M states) checking that at every clean "
         "boundary registry, nonces and key store equal the uninterrupted run (the rules' fold). On the real handler: "
         "TLC's crash behaviours are replayed with the fault at the corresponding operation; every operation index "
         "of a clean run of each generated chain (incl. the key manager's and decided store's inner writes) is used "
         "as a crash point and as an error point behind counting basedb.Database/Txn/KeyManager wrappers, plus "
         "sampled double faults; a new node is booted on the surviving badger as cli/operator/node.go does, resumes "
         "from last+1, and its final db / memory / wallet accounts / slashing-record presence are compared with the "
         "clean run; the last block is redelivered and must be refused.",
    design_ref="DESIGN.md section 5 C12",
    note="Process death = recovered panic inside the wrapped operation; badger atomicity/durability trusted; a failed "
         "operation is not performed at all; single faults exhaustive per chain, double faults sampled; slashing "
         "records compared by presence. Two known-finding signatures (orphan wallet account).",
    technique="TLA+ crash sub-spec + TLC exhaustive check; crash behaviours and attack traces replayed; exhaustive "
              "per-chain fault enumeration on the real handler with restart on the surviving database",
)

CHECKS["C04"] = dict(
    category="model_checking",
    text="Slashing.tla models ekm AddShare / RemoveShare / BumpSlashingProtection / SignBeaconObject (attestation, block) "
         "with eth2-key-manager's NormalProtection and wallet as sequential read/write programs over four database items, "
         "one action per public call with at most one fault plan (crash before/after a write, one failing write, read error, "
         "read not-found, empty value) or a persistent write fault (failall: every Set/Delete of the highest-attestation or "
         "highest-proposal record fails for 1..MaxPersist consecutive calls, over restarts; spec variable broken), so a crash "
         "falls between any two writes and a retry meets the same error; restart = new signer on the surviving "
         "database. TLC exhausts clock <= 5 slots / 1 fault (quick) or 7 slots / 2 faults (thorough, 2.06M states) checking "
         "NoDoubleVote, NoSurround, NoDoubleBlock, RefuseWhenUnknown and the covering invariant; Apalache discharges the "
         "inductive step for unbounded integers on SlashInd.tla (thorough), where three weakened steps (< for <=, bump keeps "
         "source, release without record update) are refuted. State-graph cover, simulations and per-clause "
         "attack traces of eleven weakenings (incl. saveErrSwallowed: record write retried, last error dropped) are replayed on the real key manager over real badger behind a fault-injecting "
         "wrapper and a fake clock; the monitor applies the slashing conditions to released signatures only. Random real "
         "executions are validated against SlashingTrace.tla; concurrent signing runs under -race.",
    design_ref="DESIGN.md section 5 C04",
    note="one share, SPE=2; targets/slots not beyond the clock; add/remove/reactivate assumed not to overlap signing of "
         "the same share; concurrent part is a sampled exploration (the dependency's account lock deadlocks under "
         "contention, counted, not a verdict); the empty-record fault was a genuine defect (fixed in 25c7aec2a) and stays "
         "in the model as a named deviation; a persistent write fault hits one protection record at a time and no second plan is "
         "injected while it lasts; account/wallet writes fail only once per call.",
    technique="TLA+ spec + TLC exhaustive check + Apalache inductive step; cover / attack traces replayed on the real "
              "signer with crash and storage-fault injection; TLC trace validation of recorded executions",
)

_QBFT_NOTE = ("N=4 (f=1), one Byzantine operator with its real BLS key; exhaustive only per adversary class and round bound "
              "named in the evidence (macro grain: quorum-at-once delivery of prepares/commits, normalised like "
              "instance.Compact), never for all Byzantine behaviours; the fine grain (one ProcessMsg per step) is "
              "sampled by TLC simulation; BLS unforgeability and the herumi library are trusted.")

CHECKS["C01"] = dict(
    category="model_checking",
    text="QBFT.tla models the node's consensus for one height at the grain of the code: Start, uponProposal, uponPrepare, "
         "UponCommit, uponRoundChange (leader proposes / f+1 pull / nothing), UponRoundTimeout, Controller.UponDecided, with "
         "first-message-per-signer containers, the code's justification checks and its quirks (proposal stamped with "
         "State.Round, prepared value taken from the quorum-completing round-change, every round-change validated against "
         "the proposed value). The adversary may deliver any well-formed message signed by the Byzantine operator; honest "
         "signatures cannot be forged. TLC checks Agreement and DecidedStable exhaustively per adversary class (silent "
         "member, equivocating leader, lying round-changes, certificates, one arbitrary reception; all leader rotations in "
         "thorough). Fine-grain TLC behaviours are replayed on real controllers (real BLS, signature verification on) with "
         "the projected real state compared to the spec state after every step and the agreement monitor evaluated on the "
         "real instances; attack traces of weakened specs (one removed guard each; guided synthesis) are replayed as "
         "regression. Committee 7 (f=2, two Byzantine operators with real keys) is covered by macro-grain simulations replayed "
         "on seven real controllers, not exhaustively.",
    design_ref="DESIGN.md section 5 C01 and 10.3",
    note=_QBFT_NOTE,
    technique="TLA+ spec + TLC exhaustive check per adversary class; TLC simulation behaviours and attack traces replayed on "
              "real controllers with state comparison",
)
CHECKS["C02"] = dict(
    category="model_checking",
    text="Same QBFT.tla; CertValid (every decision an operator holds is backed by >= 2f+1 distinct committee members whose "
         "honest part really committed to that round and value), LocalDecisionFromLeader and CommittedValuesChecked are "
         "checked exhaustively for the certificate class (valid certificates and the eight forged kinds - sub-quorum, "
         "duplicate / zero / foreign signers, bad aggregate, value not matching root, wrong identifier, not a commit - in "
         "every situation of the receiving operator) and the Byzantine-leader class with invalid values. On the real code "
         "every certificate returned by Controller.ProcessMsg is re-verified independently by the harness "
         "(FastAggregateVerify over exactly the listed members' keys, distinctness, quorum, H(FullData)=Root; leader and "
         "value check for local decisions); forged certificates are built with the Byzantine operator's real key and must "
         "leave the real controller unchanged; one attack trace per forged kind / removed guard is replayed. The accepted "
         "proposal carries its root and its stored full data separately (a relayed proposal with substituted data is a "
         "stuttering step the real code must refuse) and LocalDecisionMatchesCert requires the value a local decision reports "
         "to be the value its certificate is over. Committee 7 (f=2) by replayed simulations.",
    design_ref="DESIGN.md section 5 C02",
    note=_QBFT_NOTE,
    technique="TLA+ spec + TLC exhaustive check (certificate classes); simulation behaviours and attack traces replayed on real "
              "controllers; independent re-verification of every reported certificate",
)
CHECKS["C06"] = dict(
    category="model_checking",
    text="Two directions. (1) Specification -> code: QBFTInstance.tla is the single-instance restriction of QBFT.tla (operator 1 "
         "against an arbitrary environment: every well-formed message of the grammar receivable at any time, plus field mutants "
         "that must be refused). TLC exhausts it for committee 4 (<= 2 rounds; thorough also 3 rounds, offset 3, committee 7) and "
         "generates behaviours in eight families (incl. timeouts up to the round cut-off; thorough adds one test per node of a "
         "dumped state graph). Every behaviour is stepped through the node's instance, the node's instance with instance.Compact "
         "where the runner compacts, and the ssv-spec v0.3.7 qbft.Instance with identical keys and byte-identical inputs; "
         "accept/reject, encoded broadcasts, decision/certificate and State.GetRoot() are compared after every step. (2) Code -> "
         "specification: every message-processing, timeout and controller scenario of the pinned reference test kit (ssv-spec "
         "qbft/spectest.AllTests, wired as protocol/v2/qbft/spectest wires it: 165 of 206 scenarios, 61 from crafted pre-states; 39 "
         "excluded as not calling an instance, 2 as outside the model's round range) and seeded random executions (200 quick / 2000 "
         "thorough: Byzantine builders, mutants, timeouts, certificates) are recorded from the REAL instance / controller, one event "
         "per public call (abstract message fields, facts computed with the reference library's exported predicates, result, "
         "projected post-state, broadcasts). TLC validates them against QBFTInstanceTrace.tla: model steps "
         "DoProposal/DoPrepare/DoCommit/DoRC/Start/Timeout/RecvDecided with the model's own Justified/ValidRC/CertOK; refusals are "
         "named stuttering steps guarded by the negation of the model's enabling condition, so a wrong accept/refuse, post-state or "
         "broadcast rejects the trace. Each call is also made on the reference instance/controller. A rejected trace is a "
         "violation only if node and reference disagree on accept/reject, broadcast, decision or state root in it; otherwise it is "
         "a model imprecision (divergence). A disagreement with the reference is a violation regardless.",
    design_ref="DESIGN.md section 5 C06, section 10.3",
    note="The reference implementation is the oracle; the TLA+ model generates inputs and predicts accept/reject forwards and explains "
         "recorded executions backwards. The signer order of the aggregated commit is normalised. Trace direction: the environment "
         "holds every key (kit scenarios sign for operator 1), so signatures are logged facts (Weaken = noSigCheck reading of "
         "Forgeable); the leader function comes from the trace (the kit's constant leader via cfg override of Leader). "
         "Controller-level differences between node and reference are outside C06 and only counted: re-broadcast of a grown "
         "certificate, and the rule for storing a further certificate. Known model imprecisions are avoided by the generator and "
         "counted if seen: a single commit beside a stored certificate, and the round moving back on a certificate then forward "
         "again. The binding self-test corrupts one accept and one post-state round and requires rejection at that line. "
         "Committees 4, 7 (10, 13 kit happy flows); rounds <= 16. Known finding C06:compaction-changes-output-after-decision.",
    technique="TLA+ single-instance model as test generator (TLC exhaustive + simulation + state-graph cover) with differential "
              "execution against the reference ssv-spec instance; TLC trace validation (pre-state TraceInit, ENABLED-guarded Reject "
              "steps, high-water-mark acceptance, parallel chunks) of the repository's reference-kit scenarios and random executions "
              "recorded from the real instance/controller",
)
CHECKS["C07"] = dict(
    category="model_checking",
    text="QBFTCont.tla is a two-phase specification: any bounded asynchronous prefix of QBFT.tla, then `Switch` to a "
         "deterministic timely continuation among the correct operators built from the same step operators (non-round-change "
         "deliveries first, all timers of a round fire together, round-changes unprepared first / highest prepared last, "
         "decided certificate, else the lowest undecided operator times out). The existential of the property becomes the "
         "state invariant CanDecide (all decided within f+3 further rounds, except in the known wedge), checked exhaustively "
         "from every state of the silent-member class (quiescent switch states for Byzantine classes in thorough). The "
         "fault-free synchronous case is the liveness property FirstRoundDecision under weak fairness for every leader "
         "rotation; the timeout step is an action property. On the real code: spec continuations are replayed on real "
         "controllers, and from every replayed prefix the driver searches its own bounded family of timely continuations "
         "(5 delivery orders + random ones, f+3 rounds) and reports only if none decides; synchronous runs for heights "
         "0..3; attack traces of the timeout step.",
    design_ref="DESIGN.md section 5 C07",
    note=_QBFT_NOTE + " A failing witness is evidence, not proof, that no continuation exists; the known wedge (conflicting "
         "prepared values with a silent member, inherited from the reference protocol) is a recorded finding.",
    technique="two-phase TLA+ spec with an in-spec witness continuation (state invariant) + liveness under fairness; "
              "continuations and a driver-side continuation search replayed on real controllers",
)
CHECKS["C10"] = dict(
    category="model_checking",
    text="QBFTTimely.tla restricts QBFT.tla to executions that respect the timing assumptions (global round clock; every "
         "message is delivered before the round's deadline; at the deadline the timers of all undecided operators fire in any "
         "order interleaved with deliveries; <= f silent members; optionally late leaders (LateRounds) or a faulty but timely "
         "member) and states the gate's reject-class rules for consensus messages as conditions on what correct operators emit "
         "(leader stamp, one full data per signer and round also across decided certificates, justifications). "
         "PartialTimely.tla does the same for the partial-signature messages of one duty of all seven roles (pre-consensus "
         "randao / selection / contribution proofs / registration / exit, macro consensus decided in any round up to the role's "
         "maximum, post-consensus): type known and matching the role, signer consistency, no repeated root, <= 13 signatures "
         "(size limit), duty count; plus the ignore-class rules for the fault-free accept claim. TLC checks both exhaustively "
         "(committee 4: every leader rotation; committee 7: two silent members and the partial-signature spec exhaustively, the "
         "other classes in time boxes). Behaviours are replayed on real controllers (committees 4 and 7; silent "
         "leader(s)/member(s), fault-free, late leaders up to round 12 / 6 and one round beyond, lossy class, guided scenarios) "
         "and on real validators with the real duty runners of every role (duty world); EVERY broadcast of a correct operator "
         "(consensus, decided, pre- and post-consensus partial signatures) goes to the real messageValidator of every other "
         "correct peer at virtual times inside its window (three positions per round by the real round-timer arithmetic; slot "
         "window probed on the gate; duty world also in reverse order): class reject is a violation, in fault-free in-order "
         "runs anything but accept is.",
    design_ref="DESIGN.md section 5 C10, section 10.3",
    note="Committees 4 and 7; gate driven through ValidateSSVMessage (bare SSV message, pre-fork era). Committee-7 QBFT classes "
         "beyond two silent members are explored in time boxes and by simulation, not exhaustively; one duty per runner (no slot "
         "advance between duties); <= 4 signatures per message; the lossy class is outside the property's premise for the "
         "exhaustive claim and only feeds the real gate. Known findings: a proposal stamped with the stale round of an adopted "
         "decided certificate is rejected as 'signer is not leader'; the contribution-proof message of a validator with two "
         "sync-committee positions in one subcommittee carries one root twice and is rejected as 'duplicated partial signature "
         "message'.",
    technique="TLA+ timely-class specs (consensus and partial-signature messages) with the gate's reject rules as emitter-side "
              "invariants + TLC exhaustive check; behaviours replayed on real controllers / real validators and duty runners "
              "with a real peer validator on every broadcast",
)
CHECKS["C17"] = dict(
    category="model_checking",
    text="Timer.tla models RoundTimer at the grain of the code (atomic armed round, one waiter goroutine + timer per arming that "
         "is never stopped, wake-up round comparison, ctx.Done select, RoundTimeout transcribed with the role table and quick/slow "
         "threshold) and Controller.OnTimeout over instance summaries (old round, unknown/superseded height, decided, cutoff, "
         "container capacity 2). TLC exhausts every arm/advance/expire/cancel interleaving with arbitrary wake-up lateness for 3 role "
         "classes and rounds <= 4 (quick) / 6 parameter sets, rounds <= 5 (thorough), checking OncePerArming, OnlyLatest, NeverEarly, "
         "Superseded, StaleNoChange. The prompt-schedule state graph is replayed in real time on real RoundTimers (ms-scaled via the "
         "verif hook, fake BeaconNetwork) and on a real controller with real instances; one attack trace per removed guard is replayed; "
         "seeded random real-time schedules are validated by TLC (TimerTrace, interval linearization); the timer->Validator.onTimeout->"
         "queue->ProcessMessage->Controller.OnTimeout path is exercised on a real validator.",
    design_ref="DESIGN.md section 5 C17",
    note="Monitors assert only scheduling-independent facts from recorded monotonic timestamps (never early, at most once per round, "
         "no callback for a round superseded before its deadline); callback-after-cancel is reported only after an isolated 3/3 "
         "confirmation; one instance per timer (cross-instance stale waiters are outside the property); exhaustive for the stated "
         "constants only.",
    technique="TLA+ spec + TLC exhaustive check; state-graph cover and attack traces replayed in real time on the real timer / "
              "controller / validator; TLC trace validation of recorded real-time executions",
)

NOT_YET = {}


def main():
    props = [json.loads(l)["id"] for l in open(os.path.join(VERIF, "properties.jsonl")) if l.strip()]
    checks = []
    for pid in props:
        if pid not in CHECKS:
            continue
        c = CHECKS[pid]
        checks.append({
            "property_id": pid,
            "quick_cmd": "./check %s --tier quick" % pid,
            "thorough_cmd": "./check %s --tier thorough" % pid,
            "evidence_file": "/verif/evidence/%s.json" % pid,
            "replay_cmd_template": "./check %s --replay {path}" % pid,
            "engine": "tlc+go-harness",
            "level_claimed": {"category": c["category"], "text": c["text"], "design_ref": c["design_ref"]},
            "level_note": c["note"],
            "technique": c["technique"],
        })
    na = []
    for pid in props:
        if pid not in CHECKS:
            na.append({"property_id": pid, "reason": NOT_YET.get(
                pid, "check not built yet in this round (planned with the TLA+ spec named in DESIGN.md section 0); not claimed until its driver is committed")})
    m = {
        "version": 1,
        "setup_cmd": "./check setup",
        "hooks": {
            "guard": "verif",
            "enable": "harness drivers are built with `go build -tags verif -overlay /verif/.work/overlay/overlay.json -ldflags=-checklinkname=0` against /repo's working tree",
            "baseline_off_cmd": "cd /repo && GOFLAGS=-mod=mod go test -json -vet=off -count=1 -timeout 25m ./...",
            "source_commits": HOOK_COMMITS,
            "add_only": True,
        },
        "engines": [{
            "name": "tlc+go-harness",
            "path": "/verif/tools/check.py",
            "serves_properties": [c["property_id"] for c in checks],
            "kind_free_text": "explicit TLA+ specifications under spec/ checked by TLC (exhaustive / simulation / attack "
                              "configs); TLC behaviours, state-graph covers and attack traces replayed on the real code "
                              "by Go drivers under harness/cmd; executions recorded from the real code validated by TLC "
                              "trace specifications",
        }],
        "checks": checks,
        "not_applicable": na,
        "notes": "DESIGN.md explains the approach; known_findings.json lists recorded/fixed defects; seeded/ holds the "
                 "breaking changes the checks were tried against.",
    }
    with open(os.path.join(VERIF, "MANIFEST.json"), "w") as f:
        json.dump(m, f, indent=1)
    print("MANIFEST.json: %d checks, %d not_applicable" % (len(checks), len(na)))


if __name__ == "__main__":
    main()
