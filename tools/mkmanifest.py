#!/usr/bin/env python3
"""Regenerates /verif/MANIFEST.json from the table below (one source of truth, always schema-valid)."""
import json
import os

VERIF = os.path.dirname(os.path.dirname(os.path.abspath(__file__)))

HOOK_COMMITS = []  # filled in as hook commits are made in /repo

CHECKS = {
    "C14": dict(
        category="model_checking",
        text="Queue.tla mirrors priorityQueue (inbox channel, prepending readInbox, the pop scan, the three phases of the "
             "blocking Pop) and standardPrioritizer.Prior score by score. TLC exhausts every interleaving of push / "
             "try-push / pop / try-pop / blocking-pop steps for <= 3 (quick) or 4 (thorough) messages from a class "
             "alphabet with every filter and both prioritizer states, checking Conservation, Admitted, NoDiscard, "
             "Responsive and Maximal (coarse documented order and the exact Prior relation). The dumped state graph is "
             "replayed edge-wise on the real queue with monitors evaluated on real return values; attack traces of the "
             "pinned commit's pop (a named deviation in the spec) are replayed as regression; random executions of the "
             "real queue are validated against QueueTrace.tla; concurrent producers are checked for bag equality.",
        design_ref="DESIGN.md section 5 C14",
        note="Go channel semantics trusted; exhaustive only for the stated constants; the concurrent part is a sampled "
             "exploration of schedules (bag-equality monitor), not an enumeration.",
        technique="TLA+ spec + TLC exhaustive check; state-graph cover and attack traces replayed on the real queue; "
                  "TLC trace validation of recorded executions",
    ),
}

CHECKS["C18"] = dict(
    category="exploration",
    text="Topics.tla states the key -> subnet -> topic mapping as pure operators at the three call sites (publisher through the "
         "message id's key slot, subscriber on the raw key, validator after GetTopicBaseName), the fixed-offset envelope and the "
         "128-bit subnet vector <-> hex string codec, code quirks included. TLC checks Agree, InRange, RoundTrip and VecRoundTrip "
         "exhaustively on a boundary domain (first five key bytes in {00,7f,80,ff}, lengths 0..5/47/48, small parametric envelope, "
         "264 vectors) and evaluates the same operators as an oracle (ndJsonDeserialize/ndJsonSerialize) on seeded inputs from the Go "
         "driver (2 000 / 50 000 random keys plus boundary, short and attack keys, envelopes, vectors, odd strings). The driver runs "
         "every key through the real p2pNetwork.Subscribe and Broadcast (verif hook, fake topics controller) and feeds the published "
         "bytes to the real message validator on all 128 advertised topics and the 'unknown' sentinel; monitors compare the three real "
         "call sites with each other, check the advertised range and the real codecs' round trips; spec-vs-code mismatches are divergences.",
    design_ref="DESIGN.md section 5 C18 and section 7",
    note="The 2^384 key space is sampled, only the boundary domain is enumerated (spec side). The topics controller is a fake that "
         "records names (assumed to prepend the prefix as the real one does); operator signatures are arbitrary 256-byte strings. "
         "Malformed keys below 5 bytes map to the sentinel 'unknown' by design and are asserted only at the call sites that take a raw "
         "key; the disagreement through a zero-padded message id is recorded as an observation.",
    technique="stateless TLA+ spec as executable oracle + TLC exhaustive boundary evaluation + counterexample keys of weakened specs; "
              "real call sites compared with each other by a Go driver",
)

HOOK_COMMITS.append("4f281a047")

NOT_YET = {}


def main():
    props = [json.loads(l)["id"] for l in open(os.path.join(VERIF, "properties.jsonl")) if l.strip()]
    checks = []
    for pid in props:
        if pid not in CHECKS:
            continue
        c = CHECKS[pid]
        checks.append({
            "property_id": pid,
            "quick_cmd": "./check %s --tier quick" % pid,
            "thorough_cmd": "./check %s --tier thorough" % pid,
            "evidence_file": "/verif/evidence/%s.json" % pid,
            "replay_cmd_template": "./check %s --replay {path}" % pid,
            "engine": "tlc+go-harness",
            "level_claimed": {"category": c["category"], "text": c["text"], "design_ref": c["design_ref"]},
            "level_note": c["note"],
            "technique": c["technique"],
        })
    na = []
    for pid in props:
        if pid not in CHECKS:
            na.append({"property_id": pid, "reason": NOT_YET.get(
                pid, "check not built yet in this round (planned with the TLA+ spec named in DESIGN.md section 0); not claimed until its driver is committed")})
    m = {
        "version": 1,
        "setup_cmd": "./check setup",
        "hooks": {
            "guard": "verif",
            "enable": "harness drivers are built with `go build -tags verif -overlay /verif/.work/overlay/overlay.json -ldflags=-checklinkname=0` against /repo's working tree",
            "baseline_off_cmd": "cd /repo && GOFLAGS=-mod=mod go test -json -vet=off -count=1 -timeout 25m ./...",
            "source_commits": HOOK_COMMITS,
            "add_only": True,
        },
        "engines": [{
            "name": "tlc+go-harness",
            "path": "/verif/tools/check.py",
            "serves_properties": [c["property_id"] for c in checks],
            "kind_free_text": "explicit TLA+ specifications under spec/ checked by TLC (exhaustive / simulation / attack "
                              "configs); TLC behaviours, state-graph covers and attack traces replayed on the real code "
                              "by Go drivers under harness/cmd; executions recorded from the real code validated by TLC "
                              "trace specifications",
        }],
        "checks": checks,
        "not_applicable": na,
        "notes": "DESIGN.md explains the approach; known_findings.json lists recorded/fixed defects; seeded/ holds the "
                 "breaking changes the checks were tried against.",
    }
    with open(os.path.join(VERIF, "MANIFEST.json"), "w") as f:
        json.dump(m, f, indent=1)
    print("MANIFEST.json: %d checks, %d not_applicable" % (len(checks), len(na)))


if __name__ == "__main__":
    main()
