"""Shared machinery of the /verif checks: environment, harness build, TLC driving, evidence, known findings."""
import glob
import hashlib
import json
import os
import re
import shutil
import subprocess
import sys
import time

sys.path.insert(0, os.path.dirname(os.path.abspath(__file__)))
import tlaval  # noqa: E402

VERIF = os.path.dirname(os.path.dirname(os.path.abspath(__file__)))
REPO = os.environ.get("VERIF_REPO", "/repo")
WORK = os.path.join(VERIF, ".work")
SPEC = os.path.join(VERIF, "spec")
HARNESS_SRC = os.path.join(VERIF, "harness")
# Registered checks always build against /repo. For trying a mutated copy of the repository without touching
# /repo (and without disturbing concurrent builds) set VERIF_REPO=<worktree>: the harness sources are then
# mirrored to a per-repo build directory with its own go.mod.
if os.path.realpath(REPO) == "/repo":
    HARNESS = HARNESS_SRC
    BINDIR = os.path.join(WORK, "bin")
else:
    _tag = hashlib.sha256(os.path.realpath(REPO).encode()).hexdigest()[:10]
    HARNESS = os.path.join(WORK, "alt-" + _tag, "harness")
    BINDIR = os.path.join(WORK, "alt-" + _tag, "bin")
# evidence of a trial run against a scratch copy must not overwrite the evidence of the real tree
EVID = os.path.join(VERIF, "evidence") if HARNESS == HARNESS_SRC else os.path.join(WORK, "alt-" + _tag, "evidence")
OVERLAY = os.path.join(WORK, "overlay", "overlay.json")
NCPU = os.cpu_count() or 4

GOENV = dict(os.environ, GOFLAGS="-mod=mod", GOPROXY="off", GOSUMDB="off", GOTOOLCHAIN="local")


class MachineryError(Exception):
    """A failure of the checking machinery itself (exit 2) - never a property violation."""


def log(*a):
    print(*a, flush=True)


def sh(cmd, cwd=None, env=None, timeout=None, check=True, capture=True):
    p = subprocess.run(cmd, cwd=cwd, env=env or GOENV, timeout=timeout, shell=isinstance(cmd, str),
                       stdout=subprocess.PIPE if capture else None,
                       stderr=subprocess.STDOUT if capture else None, text=True)
    if check and p.returncode != 0:
        raise MachineryError("command failed (%d): %s\n%s" % (p.returncode, cmd, (p.stdout or "")[-4000:]))
    return p


# ----------------------------------------------------------------------------------------
# setup: overlay for the quic-go poison files, harness go.mod/go.sum derived from /repo
# ----------------------------------------------------------------------------------------

def gomodcache():
    return sh(["go", "env", "GOMODCACHE"]).stdout.strip()


def ensure_overlay():
    od = os.path.join(WORK, "overlay")
    os.makedirs(od, exist_ok=True)
    mc = gomodcache()
    quic = os.path.join(mc, "github.com/quic-go/quic-go@v0.33.0/internal/qtls/go121.go")
    qtls = os.path.join(mc, "github.com/quic-go/qtls-go1-20@v0.2.3/unsafe.go")
    repl = {}
    if os.path.exists(quic):
        f1 = os.path.join(od, "go121.go")
        with open(f1, "w") as f:
            f.write("//go:build go1.21\n\npackage qtls\n")
        repl[quic] = f1
    if os.path.exists(qtls):
        src = open(qtls).read()
        # drop the init() struct-layout check (QUIC is never used by anything verified here)
        m = re.search(r'\nfunc init\(\) \{.*?\n\}\n', src, re.S)
        if m:
            src = src[:m.start()] + "\nvar _ = tls.VersionTLS13\n" + src[m.end():]
        f2 = os.path.join(od, "unsafe.go")
        with open(f2, "w") as f:
            f.write(src)
        repl[qtls] = f2
    with open(OVERLAY, "w") as f:
        json.dump({"Replace": repl}, f, indent=1)


def ensure_harness_mod():
    """harness/go.mod = /repo/go.mod with the module line changed + replace to /repo; go.sum copied."""
    if HARNESS != HARNESS_SRC:
        os.makedirs(HARNESS, exist_ok=True)
        sh(["rsync", "-a", "--delete", "--exclude", "go.mod", "--exclude", "go.sum", HARNESS_SRC + "/", HARNESS + "/"])
    src = open(os.path.join(REPO, "go.mod")).read()
    src = re.sub(r'^module .*$', "module verif/harness", src, count=1, flags=re.M)
    src += "\nrequire github.com/bloxapp/ssv v0.0.0\n\nreplace github.com/bloxapp/ssv => %s\n" % REPO
    src += "\nrequire pgregory.net/rapid v1.3.0\n"
    dst = os.path.join(HARNESS, "go.mod")
    if not os.path.exists(dst) or open(dst).read() != src:
        with open(dst, "w") as f:
            f.write(src)
    sums = open(os.path.join(REPO, "go.sum")).read()
    extra = os.path.join(HARNESS, "go.sum.extra")
    if os.path.exists(extra):
        sums += open(extra).read()
    dsts = os.path.join(HARNESS, "go.sum")
    if not os.path.exists(dsts) or open(dsts).read() != sums:
        with open(dsts, "w") as f:
            f.write(sums)


def setup():
    os.makedirs(WORK, exist_ok=True)
    os.makedirs(EVID, exist_ok=True)
    ensure_overlay()
    ensure_harness_mod()


GO_BUILD_FLAGS = ["-tags", "verif", "-ldflags=-checklinkname=0"]


def go_build(driver, race=False):
    """Build harness/cmd/<driver> against /repo's working tree (always invoked; the go cache makes it cheap)."""
    setup()
    out = os.path.join(BINDIR, driver + ("-race" if race else ""))
    os.makedirs(os.path.dirname(out), exist_ok=True)
    cmd = ["go", "build"] + GO_BUILD_FLAGS + ["-overlay", OVERLAY]
    if race:
        cmd.append("-race")
    cmd += ["-o", out, "./cmd/" + driver]
    t0 = time.time()
    p = sh(cmd, cwd=HARNESS, check=False, timeout=1800)
    if p.returncode != 0:
        raise MachineryError("harness driver %s does not build against /repo:\n%s" % (driver, p.stdout[-6000:]))
    log("[build] %s in %.1fs" % (driver, time.time() - t0))
    return out


# ----------------------------------------------------------------------------------------
# TLC
# ----------------------------------------------------------------------------------------

class TLCResult:
    def __init__(self):
        self.distinct = 0
        self.generated = 0
        self.depth = 0
        self.queue_left = None
        self.finished = False          # search space exhausted
        self.violation = None          # name of violated invariant / property
        self.violation_kind = None
        self.trace = []                # list of parsed states (dicts) of the counterexample
        self.error = None              # TLC-level error text (parse error, evaluation error)
        self.wall = 0.0
        self.out = ""
        self.coverage = {}
        self.cfg = ""
        self.sim_traces = 0


_re_counts = re.compile(r'(\d+) states generated, (\d+) distinct states found, (\d+) states left on queue')
_re_depth = re.compile(r'The depth of the complete state graph search is (\d+)')
_re_progress = re.compile(r'Progress\((\d+)\).*?: ([\d,]+) states generated.*?, ([\d,]+) distinct states found.*?, ([\d,]+) states left on queue')
_re_state_hdr = re.compile(r'^State (\d+): (.*)$', re.M)


def _scratch(name):
    d = os.path.join(WORK, "tlc", "%s-%d-%d" % (name, os.getpid(), int(time.time() * 1000) % 100000000))
    os.makedirs(d, exist_ok=True)
    return d


def _copy_specs(d):
    for f in glob.glob(os.path.join(SPEC, "*.tla")) + glob.glob(os.path.join(SPEC, "*.cfg")):
        shutil.copy(f, d)


def _run_group(cmd, cwd, env, timeout):
    """Run a command in its own process group; on timeout kill that group only (other TLC runs are not touched)."""
    import signal
    logf = os.path.join(cwd, "_stdout.log")
    with open(logf, "w") as lf:
        p = subprocess.Popen(cmd, cwd=cwd, env=env, stdout=lf, stderr=subprocess.STDOUT, start_new_session=True)
        try:
            rc = p.wait(timeout=timeout)
        except subprocess.TimeoutExpired:
            try:
                os.killpg(p.pid, signal.SIGKILL)
            except ProcessLookupError:
                pass
            p.wait()
            rc = -9
    with open(logf, errors="replace") as lf:
        out = lf.read()
    return out, rc


def parse_tlc_trace(out):
    """Parse the counterexample states of a TLC run's stdout."""
    states = []
    hdrs = list(_re_state_hdr.finditer(out))
    for j, h in enumerate(hdrs):
        start = h.end()
        end = hdrs[j + 1].start() if j + 1 < len(hdrs) else len(out)
        body = out[start:end]
        # body ends at first blank line followed by non-state text
        lines = []
        for ln in body.split("\n")[1:]:
            if ln.strip() == "":
                if lines:
                    break
                continue
            lines.append(ln)
        txt = "\n".join(lines)
        try:
            st = tlaval.parse_state(txt)
        except Exception as e:  # noqa: BLE001
            raise MachineryError("cannot parse TLC state: %s\n%s" % (e, txt[:400]))
        st["_action"] = h.group(2)
        states.append(st)
    return states


def tlc(module, cfg, name=None, workers=None, timeout=600, stop_after=None, extra=(), files=None,
        heap=None, depth_first=False, keep=False, coverage=False, deadlock=False):
    """Run TLC in BFS mode on spec/<module>.tla with spec/<cfg>. Returns TLCResult."""
    name = name or cfg.replace(".cfg", "")
    d = _scratch(name)
    _copy_specs(d)
    for fn, content in (files or {}).items():
        with open(os.path.join(d, fn), "w") as f:
            f.write(content)
    env = dict(os.environ)
    jopts = []
    if stop_after:
        jopts.append("-Dtlc2.TLC.stopAfter=%d" % stop_after)
    if depth_first:
        jopts.append("-Dtlc2.tool.queue.IStateQueue=StateDeque")
    jopts.append("-Xmx%s" % (heap or os.environ.get("VERIF_TLC_HEAP", "10g")))
    jopts.append("-Xss64m")
    env["JAVA_TOOL_OPTIONS"] = " ".join(jopts)
    cmd = ["tlc", "-workers", str(workers or min(NCPU, 8)), "-metadir", os.path.join(d, "md"),
           "-config", cfg]
    if not deadlock:
        cmd.append("-deadlock")  # -deadlock DISABLES deadlock checking
    if coverage:
        cmd += ["-coverage", "1"]
    cmd += list(extra) + [module + ".tla"]
    t0 = time.time()
    res = TLCResult()
    res.cfg = cfg
    out, rc = _run_group(cmd, d, env, timeout)
    res.wall = time.time() - t0
    res.out = out
    res.rc = rc
    m = None
    for m in _re_counts.finditer(out):
        pass
    if m:
        res.generated, res.distinct, res.queue_left = int(m.group(1)), int(m.group(2)), int(m.group(3))
    else:
        pm = None
        for pm in _re_progress.finditer(out):
            pass
        if pm:
            res.depth = int(pm.group(1))
            res.generated = int(pm.group(2).replace(",", ""))
            res.distinct = int(pm.group(3).replace(",", ""))
            res.queue_left = int(pm.group(4).replace(",", ""))
    md = _re_depth.search(out)
    if md:
        res.depth = int(md.group(1))
    mv = re.search(r'Error: Invariant (\S+) is violated', out)
    if mv:
        res.violation, res.violation_kind = mv.group(1), "invariant"
    mv = re.search(r'Error: Action property (\S+) is violated', out) or \
        re.search(r'Error: Action property line .* of module (\S+) is violated', out)
    if mv and not res.violation:
        res.violation, res.violation_kind = mv.group(1), "action"
    if "Error: Temporal properties were violated" in out and not res.violation:
        res.violation, res.violation_kind = "temporal", "temporal"
    if "Error: Deadlock reached" in out and not res.violation:
        res.violation, res.violation_kind = "deadlock", "deadlock"
    if res.violation:
        res.trace = parse_tlc_trace(out)
    elif re.search(r'^Error:', out, re.M) or "***Parse Error***" in out or "Semantic errors" in out or "Abort messages" in out:
        em = re.search(r'(Error:.*?)(?:\n\n|\Z)', out, re.S)
        res.error = (em.group(1) if em else out[-2000:])[:4000]
        if "Parse Error" in out or "Semantic errors" in out or "Abort messages" in out:
            res.error = out[-3000:]
    res.finished = ("Model checking completed" in out and res.queue_left == 0 and not res.violation
                    and not res.error)
    if coverage:
        res.coverage = parse_coverage(out)
    if not keep:
        shutil.rmtree(d, ignore_errors=True)
    else:
        res.dir = d
    return res


def parse_coverage(out):
    cov = {}
    for m in re.finditer(r'^<(\w+) line \d+, col \d+ to line \d+, col \d+ of module (\w+)>: (\d+):(\d+)', out, re.M):
        cov[m.group(1)] = cov.get(m.group(1), 0) + int(m.group(4))
    return cov


def tlc_simulate(module, cfg, num, depth, seed, name=None, timeout=600, files=None, keep_vars=None, workers=1):
    """Run TLC -simulate, return list of behaviours; each behaviour = list of state dicts (restricted to keep_vars)."""
    name = name or cfg.replace(".cfg", "") + "-sim"
    d = _scratch(name)
    _copy_specs(d)
    for fn, content in (files or {}).items():
        with open(os.path.join(d, fn), "w") as f:
            f.write(content)
    env = dict(os.environ)
    env["JAVA_TOOL_OPTIONS"] = "-Xss64m"
    os.makedirs(os.path.join(d, "sim"), exist_ok=True)
    cmd = ["tlc", "-workers", str(workers), "-metadir", os.path.join(d, "md"), "-deadlock",
           "-simulate", "file=%s,num=%d" % (os.path.join(d, "sim", "b"), num), "-depth", str(depth),
           "-seed", str(seed), "-config", cfg, module + ".tla"]
    t0 = time.time()
    out, _ = _run_group(cmd, d, env, timeout)
    res = TLCResult()
    res.out = out
    res.wall = time.time() - t0
    mv = re.search(r'Error: Invariant (\S+) is violated', out)
    if mv:
        res.violation, res.violation_kind = mv.group(1), "invariant"
        res.trace = parse_tlc_trace(out)
    elif re.search(r'^Error:', out, re.M) and "Error: Invariant" not in out:
        res.error = out[-3000:]
    behaviours = []
    for fn in sorted(glob.glob(os.path.join(d, "sim", "b_*"))):
        txt = open(fn).read()
        parts = re.split(r'^STATE_\d+ ==\s*$', txt, flags=re.M)[1:]
        beh = []
        for part in parts:
            body = part.split("\n\n")[0]
            st = tlaval.parse_state(body)
            if keep_vars:
                st = {k: v for k, v in st.items() if k in keep_vars}
            beh.append(st)
        behaviours.append(beh)
    m = re.search(r'The number of states generated: (\d+)', out)
    res.generated = int(m.group(1)) if m else sum(len(b) for b in behaviours)
    res.sim_traces = len(behaviours)
    shutil.rmtree(d, ignore_errors=True)
    return res, behaviours


def tlc_dump_graph(module, cfg, name=None, timeout=600, files=None, workers=4):
    """Exhaustive run with -dump dot,actionlabels; returns (TLCResult, nodes{id:state}, edges[(src,dst,label)], init ids)."""
    name = name or cfg.replace(".cfg", "") + "-dump"
    d = _scratch(name)
    dot = os.path.join(d, "graph.dot")
    r = tlc(module, cfg, name=name + "x", workers=workers, timeout=timeout, files=files,
            extra=["-dump", "dot", dot])
    nodes, edges, inits = {}, [], []
    if os.path.exists(dot):
        edge_re = re.compile(r'^(-?\d+) -> (-?\d+)')
        node_re = re.compile(r'^(-?\d+) \[label="(.*?)"(?:,tooltip=".*")?(,style = filled)?\];?$')
        unesc = re.compile(r'\\(.)')

        def _un(m):
            c = m.group(1)
            return "\n" if c == "n" else c
        with open(dot) as f:
            for ln in f:
                ln = ln.rstrip("\n")
                m = edge_re.match(ln)
                if m:
                    edges.append((m.group(1), m.group(2), ""))
                    continue
                m = node_re.match(ln)
                if m:
                    lab = unesc.sub(_un, m.group(2))
                    nodes[m.group(1)] = tlaval.parse_state(lab)
                    if m.group(3):
                        inits.append(m.group(1))
    shutil.rmtree(d, ignore_errors=True)
    return r, nodes, edges, inits


def bfs_paths(nodes, edges, inits):
    """Shortest path (list of node ids) from an initial node to every node."""
    adj = {}
    for a, b, _ in edges:
        adj.setdefault(a, []).append(b)
    parent = {i: None for i in inits}
    queue = list(inits)
    qi = 0
    while qi < len(queue):
        a = queue[qi]
        qi += 1
        for b in adj.get(a, ()):
            if b not in parent:
                parent[b] = a
                queue.append(b)
    return parent


def path_to(parent, n):
    p = []
    while n is not None:
        p.append(n)
        n = parent[n]
    return p[::-1]


def expect_tlc_ok(r, what):
    """The faithful spec must be accepted by TLC; a TLC-level error is a machinery failure."""
    if r.error:
        raise MachineryError("TLC error in %s: %s" % (what, r.error))
    if r.violation:
        return False
    if r.distinct == 0 and r.generated == 0:
        raise MachineryError("TLC produced no statistics for %s:\n%s" % (what, r.out[-2000:]))
    return True


# ----------------------------------------------------------------------------------------
# known findings / verdicts / evidence
# ----------------------------------------------------------------------------------------

def known_findings(prop):
    p = os.path.join(VERIF, "known_findings.json")
    if not os.path.exists(p):
        return []
    data = json.load(open(p))
    return [e for e in data.get("findings", []) if e.get("property") == prop and e.get("status") == "known"]


class Verdict:
    """Collects violations seen on the REAL code. signature is matched against known_findings.json."""

    def __init__(self, prop):
        self.prop = prop
        self.violations = []   # (signature, description, replay path)
        self.known_hits = {}   # signature -> description
        self.known = {e["signature"]: e for e in known_findings(prop)}

    def violation(self, signature, description, replay):
        if signature in self.known:
            self.known_hits.setdefault(signature, description)
        else:
            self.violations.append((signature, description, replay))

    def report(self):
        for sig, desc in self.known_hits.items():
            log("KNOWN-FINDING: property=%s %s (%s)" % (self.prop, sig, desc))
        seen = set()
        for sig, desc, replay in self.violations:
            if (sig, replay) in seen:
                continue
            seen.add((sig, replay))
            if len(seen) <= 20:
                log("VIOLATION property=%s replay=%s" % (self.prop, replay))
                log("  signature=%s %s" % (sig, desc))
        return 1 if self.violations else 0


def save_replay(prop, name, obj):
    d = os.path.join(WORK, "replays", prop)
    os.makedirs(d, exist_ok=True)
    p = os.path.join(d, name)
    with open(p, "w") as f:
        if isinstance(obj, str):
            f.write(obj)
        else:
            json.dump(obj, f)
    return p


def write_evidence(prop, tier, seed, level, coverage, wall, assumptions, violations):
    os.makedirs(EVID, exist_ok=True)
    ev = {"property_id": prop, "tier": tier, "seed": int(seed), "level": level, "coverage": coverage,
          "assumptions": assumptions, "wall_s": round(wall, 2), "violations": int(violations)}
    tmp = os.path.join(EVID, prop + ".json.tmp")
    with open(tmp, "w") as f:
        json.dump(ev, f, indent=1, sort_keys=True)
    os.replace(tmp, os.path.join(EVID, prop + ".json"))


def write_ndjson(path, rows):
    os.makedirs(os.path.dirname(path), exist_ok=True)
    with open(path, "w") as f:
        for r in rows:
            f.write(json.dumps(r, separators=(",", ":")) + "\n")


def read_ndjson(path):
    out = []
    with open(path) as f:
        for ln in f:
            ln = ln.strip()
            if ln:
                out.append(json.loads(ln))
    return out


def run_driver(binary, args, timeout=1800, env=None, stdin=None):
    """Run a Go driver. Exit 0 = ran to completion (result file tells the story); anything else = machinery failure."""
    e = dict(GOENV)
    e.update(env or {})
    t0 = time.time()
    p = subprocess.run([binary] + list(args), stdout=subprocess.PIPE, stderr=subprocess.STDOUT, text=True,
                       timeout=timeout, env=e, input=stdin)
    if p.returncode != 0:
        raise MachineryError("driver %s %s exited %d:\n%s" % (os.path.basename(binary), " ".join(args),
                                                               p.returncode, p.stdout[-6000:]))
    return p.stdout, time.time() - t0


def run_driver_sharded(binary, behs, inp, outp, extra=(), timeout=3000, shards=None, env=None):
    """Replay `behs` with `binary -in <file> -out <file> extra...` in parallel processes (the drivers are sequential
    and spend their time in BLS); writes the whole input to `inp` (the replay path) and the merged result to `outp`."""
    from concurrent.futures import ThreadPoolExecutor
    write_ndjson(inp, behs)
    n = shards or max(1, min(NCPU, len(behs) // 40))
    t0 = time.time()
    if n == 1:
        run_driver(binary, ["-in", inp, "-out", outp] + list(extra), timeout=timeout, env=env)
        return json.load(open(outp)), time.time() - t0
    parts = []
    for k in range(n):
        pi, po = "%s.shard%d" % (inp, k), "%s.shard%d" % (outp, k)
        write_ndjson(pi, behs[k::n])
        parts.append((pi, po))
    with ThreadPoolExecutor(n) as ex:
        list(ex.map(lambda pp: run_driver(binary, ["-in", pp[0], "-out", pp[1]] + list(extra), timeout=timeout, env=env), parts))
    res = None
    for pi, po in parts:
        r = json.load(open(po))
        if res is None:
            res = r
        else:
            for k in ("behaviours", "steps", "nontrivial"):
                res[k] = res.get(k, 0) + r.get(k, 0)
            for k in ("violations", "divergences", "notes", "samples"):
                res[k] = (res.get(k) or []) + (r.get(k) or [])
            for k, v in (r.get("counters") or {}).items():
                res["counters"][k] = res["counters"].get(k, 0) + v
        os.remove(pi)
        os.remove(po)
    res["notes"] = sorted(set(res.get("notes") or []))
    res["samples"] = (res.get("samples") or [])[:3]
    with open(outp, "w") as f:
        json.dump(res, f)
    return res, time.time() - t0


def seed_from_env():
    try:
        return int(os.environ.get("VERIF_SEED", "1"))
    except ValueError:
        return int(hashlib.sha256(os.environ["VERIF_SEED"].encode()).hexdigest()[:8], 16)


def behaviours_to_acts(behaviours, state_vars=None):
    """Each behaviour -> list of {act:..., state:{...}} rows (skipping the init state's act)."""
    out = []
    for beh in behaviours:
        rows = []
        for st in beh:
            row = {"act": tlaval.plain(st.get("act"))}
            if state_vars:
                row["state"] = {k: tlaval.plain(st[k]) for k in state_vars if k in st}
            rows.append(row)
        out.append(rows)
    return out


def graph_behaviours(nodes, edges, inits, seed, max_extra=2000, state_vars=None, kind="cover"):
    """Behaviours covering every node of a dumped state graph (BFS-tree leaves) plus a seeded sample of the
    non-tree edges (path to the source + the edge). `act` must be part of the dumped state (no VIEW)."""
    import random
    parent = bfs_paths(nodes, edges, inits)
    is_parent = set(p for p in parent.values() if p is not None)
    leaves = [n for n in parent if n not in is_parent]
    tree_edges = set((p, n) for n, p in parent.items() if p is not None)
    extra = [(a, b) for a, b, _ in edges if (a, b) not in tree_edges and a in parent and a != b]
    rng = random.Random(seed)
    rng.shuffle(extra)
    extra = extra[:max_extra]

    def mk(path, ident):
        steps = []
        for n in path:
            st = nodes[n]
            row = {"act": tlaval.plain(st.get("act"))}
            if state_vars:
                row["state"] = {k: tlaval.plain(st[k]) for k in state_vars if k in st}
            steps.append(row)
        return {"id": ident, "kind": kind, "steps": steps}

    behs = []
    for n in leaves:
        behs.append(mk(path_to(parent, n), "%s-leaf-%s" % (kind, n)))
    for a, b in extra:
        behs.append(mk(path_to(parent, a) + [b], "%s-edge-%s-%s" % (kind, a, b)))
    return behs, {"nodes": len(nodes), "edges": len(edges), "leaves": len(leaves), "extra_edges": len(extra),
                  "non_tree_edges_total": len([1 for a, b, _ in edges if (a, b) not in tree_edges and a != b])}


def trace_behaviour(trace, ident, kind, state_vars=None):
    steps = []
    for st in trace:
        row = {"act": tlaval.plain(st.get("act"))}
        if state_vars:
            row["state"] = {k: tlaval.plain(st[k]) for k in state_vars if k in st}
        steps.append(row)
    return {"id": ident, "kind": kind, "steps": steps}


def tlc_validate_trace(module, cfg, trace_path, name=None, timeout=600):
    """Trace validation: copy the recorded NDJSON next to the trace spec as trace.ndjson and let TLC consume it.
    Returns (accepted, lines_consumed, TLCResult)."""
    content = open(trace_path).read()
    r = tlc(module, cfg, name=name or (module + "-tv"), workers=1, timeout=timeout, depth_first=True,
            files={"trace.ndjson": content})
    nlines = len([x for x in content.split("\n") if x.strip()])
    if r.error and "TraceAccepted" not in r.out and "Postcondition" not in r.out and "postcondition" not in r.out:
        raise MachineryError("TLC error during trace validation: %s" % r.error)
    consumed = max(0, r.depth - 1)
    rejected = ("Postcondition" in r.out or "postcondition" in r.out) and "violated" in r.out or \
        ("TraceAccepted" in r.out and "violated" in r.out)
    accepted = (not rejected) and (not r.violation) and consumed == nlines
    return accepted, consumed, nlines, r
