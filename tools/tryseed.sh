#!/bin/sh
# usage: tools/tryseed.sh <patch.diff> <property id> [more ids]   -- runs the quick checks against a scratch worktree with the patch
set -e
patch=$1; shift
wt=/tmp/try-$$
git -C /repo worktree add -q $wt HEAD
git -C $wt apply "$patch"
for id in "$@"; do
  echo "=== $id against $patch"
  VERIF_REPO=$wt timeout 3000 /verif/check $id --tier quick 2>&1 | grep -E "VIOLATION|signature=|KNOWN-FINDING|exit=|MACHINERY" | head -40 || true
done
git -C /repo worktree remove --force $wt
