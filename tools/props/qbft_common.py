"""Shared by C01 / C02 / C07: TLC configs of spec/QBFT.tla, behaviours replayed on real controllers (driver qbft)."""
import json
import os
import time

import gen_attacks
import vlib
from vlib import log

PARAMS0 = {"N": 4, "Byz": [4], "LeaderOffset": 0, "StartValue": {"1": "a", "2": "b", "3": "b", "4": "b"}}


def cfg_text(spec="Spec", N=4, F=1, Byz="{4}", MaxRound=2, LeaderOffset=0, StartValue="SV", Weaken="none", ByzBudget=0,
             ByzActs="NoActs", Macro="TRUE", invariants=(), properties=(), view="view", values='{"a", "b"}',
             bad='{"bad"}', extra=()):
    lines = ["SPECIFICATION %s" % spec, "CONSTANTS",
             "  N = %d" % N, "  F = %d" % F, "  Byz = %s" % Byz, "  Values = %s" % values, "  BadValues = %s" % bad,
             "  MaxRound = %d" % MaxRound, "  LeaderOffset = %d" % LeaderOffset, "  StartValue <- %s" % StartValue,
             '  Weaken = "%s"' % Weaken, "  ByzBudget = %d" % ByzBudget, "  ByzActs <- %s" % ByzActs,
             "  Macro = %s" % Macro]
    lines += list(extra)
    lines += ["INVARIANT %s" % i for i in invariants]
    lines += ["PROPERTY %s" % p for p in properties]
    if view:
        lines.append("VIEW %s" % view)
    return "\n".join(lines) + "\n"


def params_of(N=4, Byz=(4,), LeaderOffset=0, sv="SV"):
    svm = {str(i): ("a" if (sv == "SVsame" or i == 1) else "b") for i in range(1, N + 1)}
    return {"N": N, "Byz": list(Byz), "LeaderOffset": LeaderOffset, "StartValue": svm}


def run_exhaustive(prop, name, module="MCQBFT", timeout=1200, stop_after=None, workers=None, **kw):
    """Runs one exhaustive config of the faithful spec. A violation there is a model error (MachineryError)."""
    text = cfg_text(**kw)
    r = vlib.tlc(module, "gen_%s.cfg" % name, name="%s-%s" % (prop, name), workers=workers or min(vlib.NCPU, 8),
                 timeout=timeout, stop_after=stop_after, files={"gen_%s.cfg" % name: text})
    if r.error:
        raise vlib.MachineryError("TLC error in %s/%s: %s" % (prop, name, r.error))
    if r.violation:
        raise vlib.MachineryError("faithful QBFT spec violates %s in config %s (model error, not a verdict): %s" % (
            r.violation, name, json.dumps(vlib.tlaval.plain([s.get("act") for s in r.trace]))))
    if r.distinct == 0:
        raise vlib.MachineryError("TLC gave no statistics for %s:\n%s" % (name, r.out[-1500:]))
    log("[%s] TLC %s: %d distinct / %d generated, depth %d, exhaustive=%s, %.0fs" %
        (prop, name, r.distinct, r.generated, r.depth, r.finished, r.wall))
    return {"cfg": name, "distinct": r.distinct, "generated": r.generated, "depth": r.depth, "exhaustive": r.finished,
            "wall_s": round(r.wall, 1), "constants": {k: str(v) for k, v in kw.items() if k not in ("invariants", "properties")}}


def simulate(prop, name, num, depth, seed, params, module="MCQBFT", state_vars=("st",), workers=4, timeout=900, **kw):
    kw.setdefault("view", None)
    text = cfg_text(**kw)
    per = max(1, num // workers)
    r, behs = vlib.tlc_simulate(module, "gen_%s.cfg" % name, per, depth, seed, name="%s-%s" % (prop, name),
                                keep_vars=["act"] + list(state_vars), timeout=timeout, workers=workers,
                                files={"gen_%s.cfg" % name: text})
    if r.error:
        raise vlib.MachineryError("TLC simulation error in %s: %s" % (name, r.error[-1500:]))
    if r.violation:
        raise vlib.MachineryError("faithful QBFT spec violates %s in simulation %s (model error)" % (r.violation, name))
    out = []
    for k, b in enumerate(behs):
        bb = vlib.trace_behaviour(b, "%s-%d-%d" % (name, seed, k), "sim", state_vars=list(state_vars))
        bb["params"] = params
        for s in bb["steps"]:
            st = s.get("state", {}).get("st")
            if isinstance(st, list):      # TLC prints a function with domain 1..n as a sequence
                s["state"]["st"] = {str(i + 1): v for i, v in enumerate(st)}
        out.append(bb)
    log("[%s] simulated %d behaviours (%s), %d states, %.0fs" % (prop, len(out), name, r.generated, r.wall))
    return out, r.generated


def committee7(prop, tier, seed, invariants):
    """Committee of 7 (f = 2, Byzantine operators 6 and 7 with real keys): macro-grain simulations (a whole prepare /
    commit quorum is one step, everything else one delivery per step) reach decisions in about 40 % of the behaviours,
    the uniform fine grain almost never does at this size (measured: 1 of 40). Two leader rotations: the first leaders
    correct (offset 0) and the first two leaders Byzantine (offset 5)."""
    n = 24 if tier == "quick" else 400
    out, gen = [], 0
    for k, (lo, budget) in enumerate(((0, 4), (5, 6))):
        b, g = simulate(prop, "sim-n7-lo%d" % lo, n, 55, seed + 31 * k, params_of(N=7, Byz=(6, 7), LeaderOffset=lo),
                        N=7, F=2, Byz="{6, 7}", MaxRound=3, LeaderOffset=lo, ByzBudget=budget, ByzActs="AllActs",
                        Macro="TRUE", invariants=invariants, workers=4 if tier == "quick" else 12)
        out += b
        gen += g
    decided = sum(1 for b in out if any(n_.get("decided") for n_ in b["steps"][-1]["state"]["st"].values()))
    return out, gen, {"behaviours": len(out), "with_a_decision": decided, "N": 7, "F": 2, "Byz": [6, 7]}


def binding_selftest(prop, behs):
    """Demonstrates the binding: corrupt one field of one predicted state and expect the replay to notice."""
    import copy
    for b in behs:
        for k, s in enumerate(b["steps"]):
            st = s.get("state", {}).get("st")
            if k > 3 and isinstance(st, dict) and any(n.get("started") for n in st.values()):
                c = copy.deepcopy(b)
                c["id"] = "selftest-" + b["id"]
                c["steps"] = c["steps"][:k + 1]
                key = sorted(kk for kk, n in st.items() if n.get("started"))[0]
                c["steps"][k]["state"]["st"][key]["round"] += 1
                res, _ = replay(prop, [c], "selftest")
                if res["counters"].get("divergences", 0) == 0:
                    raise vlib.MachineryError("binding self-test failed: a corrupted predicted state was not noticed")
                return "corrupted st[%s].round at step %d of %s: %d divergences reported" % (
                    key, k, b["id"], res["counters"]["divergences"])
    return "skipped (no suitable behaviour)"


def faulty_copies(behs, count, mode="all"):
    """Copies of behaviours to be replayed with injected broadcast errors (the publish call errors although the
    message went out): the protocol state must not depend on the result of a broadcast."""
    import copy
    out = []
    for b in behs[:count]:
        c = copy.deepcopy(b)
        c["id"] += "-faulty-" + mode
        c["params"] = dict(c["params"], failBroadcasts=mode)
        out.append(c)
    return out


def attack_behaviours(prop, tier, log_prefix):
    behs, stale = gen_attacks.load("qbft", prop)
    if stale and tier == "thorough":
        log("[%s] regenerating stale attack traces: %s" % (log_prefix, stale))
        gen_attacks.generate("qbft", stale, log=log)
        behs, stale = gen_attacks.load("qbft", prop)
    elif stale:
        log("[%s] NOTE: attack traces %s are stale or missing w.r.t. the current spec (regenerated by the thorough tier)" % (log_prefix, stale))
    return behs, stale


def replay(prop, behs, tag, cont=False, timeout=3000):
    wd = os.path.join(vlib.WORK, prop)
    os.makedirs(wd, exist_ok=True)
    binq = vlib.go_build("qbft")
    inp = os.path.join(wd, "%s.ndjson" % tag)
    outp = os.path.join(wd, "%s_result.json" % tag)
    res, wall = vlib.run_driver_sharded(binq, behs, inp, outp, extra=["-cont"] if cont else [], timeout=timeout)
    log("[%s] replayed %d behaviours / %d steps (%s) on real controllers in %.0fs: %d monitor trips, %d divergences" %
        (prop, res["behaviours"], res["steps"], tag, wall, res["counters"].get("violations", 0),
         res["counters"].get("divergences", 0)))
    return res, inp


def collect(prop, res, verdict, replay_path, foreign):
    """Only violations whose signature belongs to `prop` count for this check; others are listed as foreign."""
    for v in res["violations"]:
        sig = v["signature"]
        if sig.startswith(prop + ":"):
            verdict.violation(sig, "%s [%s step %d]" % (v["description"], v["behaviour"], v["step"]), replay_path)
        else:
            foreign.setdefault(sig, 0)
            foreign[sig] += 1
