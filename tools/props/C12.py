"""C12 - block event processing is atomic and exactly-once across crashes (crash sub-spec of spec/Registry.tla).

Grain = "op": one step per storage write / key-manager call / commit, Crash and Fail between any two of them,
restart on the surviving database, redelivery of the interrupted block.  TLC checks that at every clean block
boundary the database, the key store and the nonces equal the rules' fold over the chain (= the uninterrupted
run).  On the real code: (a) TLC's crash behaviours are replayed with the fault at the corresponding
model-visible operation, (b) every operation index of a clean run of each chain is used as a crash point and
as an error point (exhaustive per chain), (c) the last block is delivered again and must be refused."""
import concurrent.futures
import json
import os
import time

import vlib
from vlib import log
from props import C11 as base

PROP = "C12"
MODULE = base.MODULE
SV = base.SV

ATTACKS = [  # (cfg, description, driver mode)
    ("Registry_attack_marker.cfg", "last-processed marker written outside the block transaction", "crash"),
    ("Registry_attack_readswallow.cfg", "OperatorsExist read error wrapped into MalformedEventError (code before 3dbd518c8)", "crash"),
    ("Registry_attack_stale.cfg", "no ErrInferiorBlock guard", "replay"),
]


def _tier(tier):
    if tier == "quick":
        return dict(mc="Registry_crash_quick.cfg", mc_stop=150, sim=("Registry_crash_sim.cfg", 160, 45), chains=24, double=2)
    return dict(mc="Registry_crash_thorough.cfg", mc_stop=1500, sim=("Registry_crash_sim.cfg", 4000, 55), chains=800, double=10)


def _attacks():
    with concurrent.futures.ThreadPoolExecutor(max_workers=3) as ex:
        return list(zip(ATTACKS, ex.map(base.attack_trace, [a[0] for a in ATTACKS])))


def run(tier, seed):
    t0 = time.time()
    T = _tier(tier)
    verdict = vlib.Verdict(PROP)
    cov = {"configs": [], "attack_traces": 0, "divergences": 0}
    binr = vlib.go_build("registry")
    wd = os.path.join(vlib.WORK, PROP)
    os.makedirs(wd, exist_ok=True)
    results = []

    with concurrent.futures.ThreadPoolExecutor(max_workers=4) as ex:
        f_mc = ex.submit(base.tlc_retry, T["mc"], workers=8, timeout=T["mc_stop"] + 600, stop_after=T["mc_stop"])
        f_sim = ex.submit(base.simulate, T["sim"][0], T["sim"][1], T["sim"][2], seed, "crashsim")
        f_att = ex.submit(_attacks)
        by_mode = {"crash": [], "replay": []}
        for (cfg, desc, mode), steps in f_att.result():
            if not steps:
                log("[C12] config %s produced no counterexample (not counted)" % cfg)
                continue
            by_mode[mode].append({"id": "attack-" + cfg.replace(".cfg", "").split("_")[-1], "kind": "attack:" + desc, "steps": steps})
        cov["attack_traces"] = len(by_mode["crash"]) + len(by_mode["replay"])
        log("[C12] +%.0fs attack traces" % (time.time() - t0))
        rs, sbehs = f_sim.result()
        cov["sim_behaviours"] = len(sbehs)
        transitions = rs.generated
        log("[C12] +%.0fs crash simulation" % (time.time() - t0))

        # (a) TLC's crash behaviours and the op-grain attack / finding traces on the real handler
        inp_c = os.path.join(wd, "crash_behaviours.ndjson")
        vlib.write_ndjson(inp_c, sbehs + by_mode["crash"])
        out_c = os.path.join(wd, "crash_result.json")
        vlib.run_driver(binr, ["-mode", "crash", "-in", inp_c, "-out", out_c, "-workers", "6"], timeout=3000)
        res_c = json.load(open(out_c))
        base.collect(res_c, verdict, PROP, inp_c, "crash")
        results.append(res_c)
        log("[C12] +%.0fs crash behaviours replayed: %d behaviours, %d with faults, %d violations, %d divergences" %
            (time.time() - t0, res_c["behaviours"], res_c["counters"].get("faulty_runs", 0), res_c["counters"].get("violations", 0),
             res_c["counters"].get("divergences", 0)))
        # event-grain attack trace (stale block)
        if by_mode["replay"]:
            inp_r = os.path.join(wd, "replay_behaviours.ndjson")
            vlib.write_ndjson(inp_r, by_mode["replay"])
            out_r = os.path.join(wd, "replay_result.json")
            vlib.run_driver(binr, ["-mode", "replay", "-in", inp_r, "-out", out_r, "-workers", "2"], timeout=3000)
            res_r = json.load(open(out_r))
            # C12 owns only the redelivery monitor of that mode; the C11 monitors are reported by C11
            res_r["violations"] = [v for v in res_r["violations"] if v["signature"].startswith("old-block-accepted")]
            base.collect(res_r, verdict, PROP, inp_r, "replay")
            results.append(res_r)
        # (b) + (c) every operation of a clean run as crash point and as error point, per chain
        out_f = os.path.join(wd, "faults_result.json")
        vlib.run_driver(binr, ["-mode", "faults", "-in", inp_c, "-out", out_f, "-workers", "6", "-chains", str(T["chains"]),
                               "-double", str(T["double"]), "-seed", str(seed)], timeout=6000)
        res_f = json.load(open(out_f))
        base.collect(res_f, verdict, PROP, inp_c, "faults")
        results.append(res_f)
        log("[C12] +%.0fs fault enumeration: %d chains, %d operations, %d fault points, %d double-fault runs, %d violations" %
            (time.time() - t0, res_f["counters"].get("chains", 0), res_f["counters"].get("clean_ops", 0),
             res_f["counters"].get("fault_points", 0), res_f["counters"].get("double_fault_runs", 0), res_f["counters"].get("violations", 0)))

        failed = res_c["counters"].get("clean_run_failed", 0) + res_f["counters"].get("clean_run_failed", 0)
        if res_f["counters"].get("fault_points", 0) == 0 or failed > (res_c["behaviours"] + res_f["behaviours"]) // 2:
            raise vlib.MachineryError("the real handler cannot process the generated chains without faults (%d clean runs failed, e.g. %s): "
                                      "there is no uninterrupted run to compare with - see ./check C11" %
                                      (failed, json.dumps((res_c["divergences"] + res_f["divergences"])[:1])[:600]))
        r = f_mc.result()
        if not vlib.expect_tlc_ok(r, T["mc"]):
            raise vlib.MachineryError("faithful crash sub-spec violates %s (model error, not a verdict):\n%s" %
                                      (r.violation, json.dumps(vlib.tlaval.plain([s.get("act") for s in r.trace]))))
        cov["configs"].append({"cfg": T["mc"], "distinct": r.distinct, "generated": r.generated, "depth": r.depth,
                               "exhaustive": r.finished, "wall_s": round(r.wall, 1)})
        log("[C12] TLC %s: %d distinct / %d generated, finished=%s, %.1fs" % (T["mc"], r.distinct, r.generated, r.finished, r.wall))
    states = r.distinct
    transitions += r.generated

    for res in results:
        cov["divergences"] += res["counters"].get("divergences", 0)
    cov["divergence_samples"] = [d for res in results for d in res["divergences"][:3]][:6]
    cov["crash_behaviours"] = res_c["behaviours"]
    cov["fault_enumeration"] = {k: res_f["counters"].get(k, 0) for k in
                                ("chains", "clean_ops", "fault_points", "double_fault_runs", "faulty_runs",
                                 "failed_ops_swallowed", "faults_not_reached")}
    rc = verdict.report()
    if cov["divergences"] and rc == 0:
        log("[C12] NOTE: %d conformance divergences without a monitor trip (see evidence)" % cov["divergences"])
    coverage = {
        "states": states, "transitions": transitions,
        "traces_validated_against_impl": res_c["behaviours"] + res_f["behaviours"] + sum(x["behaviours"] for x in results[1:-1]),
        "samples": res_c["samples"][:1] + res_f["samples"][:1],
        "evaluations": sum(x["counters"].get("faulty_runs", 0) for x in results) + res_c["steps"],
        "distinct_nontrivial": res_c["nontrivial"] + res_f["nontrivial"],
        "rule": "evaluation = one faulty execution (crash or failed operation, restart on the surviving database, resumption, "
                "comparison with the clean run of the same chain); non-trivial = the chain holds a "
                "ValidatorAdded/Removed/ClusterLiquidated/Reactivated event; fault points = every operation index of the clean run",
        "exhaustive": bool(r.finished),
        "detail": cov,
    }
    vlib.write_evidence(PROP, tier, seed, "model_checking", coverage, time.time() - t0, [
        "process death = panic inside the wrapped database / key-manager operation, recovered by the driver; the in-memory badger object survives",
        "badger's transaction atomicity and the durability of committed writes are trusted",
        "a failed operation returns an error without being performed (no partial write inside one badger call)",
        "fault enumeration is exhaustive per generated chain (single fault) and sampled for double faults",
        "slashing-protection records are compared by presence, not by value (they depend on the wall clock)",
    ], len(verdict.violations))
    return rc


def replay(path):
    binr = vlib.go_build("registry")
    verdict = vlib.Verdict(PROP)
    wd = os.path.join(vlib.WORK, PROP)
    os.makedirs(wd, exist_ok=True)
    outp = os.path.join(wd, "replay_single.json")
    mode = os.path.basename(path).split("-")[0]
    if mode not in ("crash", "faults", "replay"):
        mode = "crash"
    args = ["-mode", mode, "-in", path, "-out", outp, "-workers", "2"]
    if mode == "faults":
        args += ["-chains", "1", "-double", "0"]
    vlib.run_driver(binr, args)
    res = json.load(open(outp))
    if mode == "replay":
        res["violations"] = [v for v in res["violations"] if v["signature"].startswith("old-block-accepted")]
    base.collect(res, verdict, PROP, path, mode)
    return verdict.report()
