"""C09 - message validation never accepts a message that breaks a gossip rule (spec/MsgValidation.tla, shared run with C08).

TLC checks accept => GossipOK on every edge; the real validator is swept over the same alphabets and every call is
validated by TLC; the verdict comes only from valkit.Monitor (the statement of C09 on the concrete accepted bytes)."""
import time

import vlib
from props import msgval_common as mc

PROP = "C09"


def run(tier, seed):
    t0 = time.time()
    res = mc.run_shared(tier, seed)
    return mc.finish(PROP, tier, seed, res, t0)


def replay(path):
    return mc.replay(PROP, path)
