"""Shared run of the MsgValidation checks (C08 and C09 use one spec, one driver and one run).

run_shared(tier, seed) does everything once and caches the outcome under /verif/.work/msgval keyed by the driver
binary (rebuilt from the tree under test on every call), the spec files, tier and seed; C08.py / C09.py pick the
signatures that belong to their property.
"""
import fcntl
import glob
import hashlib
import json
import os
import re
import shutil
import subprocess
import time
from concurrent.futures import ThreadPoolExecutor

import vlib
from vlib import log

_T0 = time.time()


def _el():
    return "+%ds" % (time.time() - _T0)


WD = os.path.join(vlib.WORK, "msgval" if vlib.HARNESS == vlib.HARNESS_SRC else "msgval-" + os.path.basename(os.path.dirname(vlib.HARNESS)))
KNOWN_GAP = "partial-sig-outside-slot-window"

# family: cfg stem, committee size, fork epoch code, sweep depth (quick, thorough), prefixes bound (quick, thorough),
#         perturbed messages (quick, thorough), concurrent batches (thorough)
FAMILIES = [  # heaviest first
    dict(name="cons", n=4, fork=100000, depth=(2, 3), paths=(60, 500), bytes=(50, 400), conc=True),
    dict(name="core", n=4, fork=100000, depth=(3, 4), paths=(350, 3000), bytes=(24, 24), conc=True),
    dict(name="time", n=4, fork=100000, depth=(2, 3), paths=(60, 500), bytes=(10, 40), conc=False),
    dict(name="psig", n=4, fork=100000, depth=(2, 3), paths=(60, 600), bytes=(30, 140), conc=True),
    # round/slot windows of every role over the whole range of rounds and reception times, fresh signer state (depth 1:
    # only the window rules decide); bytes 0 = no byte perturbation of this family
    dict(name="roundwin", n=4, fork=100000, depth=(1, 1), paths=(0, 0), bytes=(0, 0), conc=False),
    dict(name="bounds", n=4, fork=100000, depth=(2, 3), paths=(0, 400), bytes=(60, 300), conc=False),
    dict(name="bounds7", n=7, fork=100000, depth=(2, 3), paths=(0, 400), bytes=(40, 200), conc=False),
    dict(name="seven", n=7, fork=100000, depth=(2, 3), paths=(0, 800), bytes=(15, 100), conc=False),
    dict(name="decided", n=4, fork=100000, depth=(2, 3), paths=(0, 800), bytes=(25, 100), conc=True),
    dict(name="envelope", n=4, fork=-1, depth=(2, 3), paths=(0, 600), bytes=(30, 120), conc=False),
]
JVM_SMALL = "1g -XX:ParallelGCThreads=1 -XX:TieredStopAtLevel=1"   # short runs (attack configs, small traces)
JVM_TRACE = "3g -XX:ParallelGCThreads=2"
JVM_MC = "6g -XX:ParallelGCThreads=4"
JVM_MC_QUICK = "2g -XX:ParallelGCThreads=2 -XX:TieredStopAtLevel=1"   # quick configs are < 120 k edges: C1 only halves wall and CPU (measured)
C08_SIGS = ("validator-panic", "validator-hang", "unbounded-allocation", "decoder-panic:")


def variant(binary):
    """Which named deviations does the tree under test have?  Asked of the real validator (driver -mode probe):
    a far-future partial-signature message and a prepare for slot 2^62+Base on a fresh validator."""
    os.makedirs(WD, exist_ok=True)
    outp = os.path.join(WD, "probe.json")
    res, _ = _driver(binary, ["-mode", "probe", "-out", outp], timeout=600)
    pr = res["samples"][0]
    pw = pr["partial_far_future"]["class"] != "accept"
    og = pr["prepare_slot_2_62"]["class"] != "accept"
    return dict(partial_window=pw, overflow_guard=og, probe=pr)


def cfg_text(name, var, spec=None, drop_checks=False, extra=""):
    t = open(os.path.join(vlib.SPEC, name)).read()
    if var["partial_window"]:
        t = t.replace("PartialWindow = FALSE", "PartialWindow = TRUE")
        t = t.replace('"partial-sig-outside-slot-window"', '"-"')
    if var["overflow_guard"]:
        t = t.replace("OverflowGuard = FALSE", "OverflowGuard = TRUE")
        t = t.replace('"slot-time-overflow"', '"-"')
    if spec:
        t = re.sub(r'^SPECIFICATION .*$', 'SPECIFICATION ' + spec, t, flags=re.M)
    if drop_checks:
        t = "\n".join(ln for ln in t.split("\n") if not ln.startswith(("PROPERTY", "INVARIANT", "VIEW")))
    return t + extra


def _hash_inputs(binary, tier, seed, pw):
    h = hashlib.sha256()
    h.update(open(binary, "rb").read())
    for f in sorted(glob.glob(os.path.join(vlib.SPEC, "M*MsgValidation*"))):
        h.update(open(f, "rb").read())
    for f in (__file__, os.path.join(vlib.VERIF, "known_findings.json")):
        h.update(open(f, "rb").read())
    for f in sorted(glob.glob(os.path.join(vlib.HARNESS_SRC, "cmd/msgvalconc/*.go"))) + sorted(glob.glob(os.path.join(vlib.REPO, "message/validation/*.go"))):
        h.update(open(f, "rb").read())
    h.update(("%s|%s|%s" % (tier, seed, pw)).encode())
    return h.hexdigest()[:20]


def _driver(binary, args, timeout=3000, env=None):
    """Run the driver.  Whatever it does (dies, hangs, writes nothing) ends in a MachineryError with the tail of its output,
    never in a traceback: stale outputs of an earlier run are removed first, so a missing file is seen as missing."""
    out = args[args.index("-out") + 1]
    stale = [out, out + ".repro.ndjson"] + ([args[args.index("-trace") + 1]] if "-trace" in args else [])
    for f in stale:
        if os.path.exists(f):
            os.remove(f)
    what = "driver %s %s" % (os.path.basename(binary), " ".join(args))
    try:
        stdout, _ = vlib.run_driver(binary, args, timeout=timeout, env=env)
    except subprocess.TimeoutExpired as e:
        tail = e.stdout if isinstance(e.stdout, str) else (e.stdout or b"").decode("utf-8", "replace")
        raise vlib.MachineryError("%s did not finish within %d s (killed); its output ended with:\n%s" % (what, timeout, tail[-3000:]))
    if not os.path.exists(out):
        raise vlib.MachineryError("%s exited 0 without writing its result file %s; its output ended with:\n%s" % (what, out, stdout[-3000:]))
    try:
        res = json.load(open(out))
    except ValueError as e:
        raise vlib.MachineryError("%s wrote an unreadable result file %s (%s); its output ended with:\n%s" % (what, out, e, stdout[-3000:]))
    res["_output_tail"] = stdout[-3000:]
    repros = vlib.read_ndjson(out + ".repro.ndjson") if os.path.exists(out + ".repro.ndjson") else []
    return res, repros


def _hung(res):
    return any(v["signature"] == "validator-hang" for v in res.get("violations", []))


def _chunks(trace_path, max_events):
    """Split a sweep trace at 'R' events into chunks of at most ~max_events lines."""
    chunks, cur = [], []
    if not os.path.exists(trace_path):
        return chunks
    with open(trace_path) as f:
        for ln in f:
            if not ln.endswith("\n"):  # a line cut short (the driver ended abnormally): not an event
                break
            if ln.startswith('{"e":"R"') and len(cur) >= max_events:
                chunks.append(cur)
                cur = []
            cur.append(ln)
    if cur:
        chunks.append(cur)
    return chunks


def _validate_trace(fam_cfg, pw, alphabet_json, lines, name):
    r = vlib.tlc("MsgValidationTrace", "trace.cfg", name=name, workers=1, timeout=3000, heap=JVM_TRACE if len(lines) > 3000 else JVM_SMALL,
                 files={"trace.cfg": cfg_text(fam_cfg, pw, spec="TraceSpec", drop_checks=True, extra="\nPOSTCONDITION TraceAccepted\n"),
                        "alphabet.json": alphabet_json, "trace.ndjson": "".join(lines)})
    if r.error:
        raise vlib.MachineryError("TLC error during trace validation (%s): %s" % (name, r.error[:1500]))
    mism = [re.sub(r'\s+', ' ', m.group(0)) for m in re.finditer(r'<<\s*"[CG]?MISMATCH[^>]*>>', r.out)]
    complete = (r.depth - 1 == len(lines))
    return dict(events=len(lines), consumed=max(0, r.depth - 1), mismatches=mism, complete=complete, generated=r.generated, wall=r.wall)


def _selftest(cfg, pw, alphabet_json, lines):
    """Binding self-test: a recorded result is corrupted (an ignore/reject turned into an accept) and TLC must object."""
    for k, ln in enumerate(lines):
        e = json.loads(ln)
        if e["e"] == "V" and e["v"] != "accept" and k > 5:
            e["v"], e["r"], e["g"] = "accept", "", "none"
            bad = lines[:k] + [json.dumps(e) + "\n"] + lines[k + 1:]
            tv = _validate_trace(cfg, pw, alphabet_json, bad, "mvt-selftest")
            if not tv["mismatches"]:
                raise vlib.MachineryError("binding self-test failed: a corrupted recorded verdict was accepted by MsgValidationTrace")
            return "corrupted event %d reported: %s" % (k + 1, tv["mismatches"][0][:200])
    return "skipped"


def _family(fam, tier, seed, pw, binary, pool):
    """TLC exhaustive run (+ alphabet export) -> sweep on the real validator -> TLC trace validation -> byte perturbation."""
    q = 0 if tier == "quick" else 1
    name = fam["name"]
    cfg = "MsgValidation_%s_%s.cfg" % (name, tier)
    wd = os.path.join(WD, name)
    os.makedirs(wd, exist_ok=True)
    out = dict(name=name, cfg=cfg, violations=[], divergences=[], notes=[])
    # 1. exhaustive model checking of the faithful spec; the same run exports the alphabet
    budget = 100 if tier == "quick" else 900
    r = vlib.tlc("MCMsgValidation", "mc.cfg", name="mv-" + name, workers=4 if tier == "quick" else 8, timeout=budget + 300,
                 stop_after=budget, files={"mc.cfg": cfg_text(cfg, pw)}, keep=True, heap=JVM_MC_QUICK if tier == "quick" else JVM_MC)
    try:
        if r.error:
            raise vlib.MachineryError("TLC error in %s: %s" % (cfg, r.error[:2000]))
        ap = os.path.join(r.dir, "alphabet.json")
        if not os.path.exists(ap):
            raise vlib.MachineryError("TLC did not export the alphabet of %s:\n%s" % (cfg, r.out[-1500:]))
        alphabet_json = open(ap).read()
    finally:
        shutil.rmtree(getattr(r, "dir", ""), ignore_errors=True)
    alpha_path = os.path.join(wd, "alphabet.json")
    with open(alpha_path, "w") as f:
        f.write(alphabet_json)
    out["mc"] = dict(cfg=cfg, distinct=r.distinct, generated=r.generated, depth=r.depth, exhaustive=bool(r.finished), wall_s=round(r.wall, 1),
                     alphabet=len(json.loads(alphabet_json)["alpha"]))
    out["mc_violation"] = None
    if r.violation:
        out["mc_violation"] = dict(cfg=cfg, prop=r.violation, behaviour=vlib.trace_behaviour(r.trace, "mc-cex-" + name, "mc-counterexample"))
    log("[msgval] " + _el() + " %-8s TLC %s: %d distinct / %d generated, alphabet %d, exhaustive=%s, %.0fs%s" %
        (name, cfg, r.distinct, r.generated, out["mc"]["alphabet"], r.finished, r.wall, "  VIOLATES " + r.violation if r.violation else ""))
    # 2. sweep of the real validator over the alphabet
    base = ["-alpha", alpha_path, "-n", str(fam["n"]), "-fork", str(fam["fork"]), "-seed", str(seed)]
    tr = os.path.join(wd, "trace.ndjson")
    res, repros = _driver(binary, ["-mode", "sweep", "-depth", str(fam["depth"][q]), "-maxpaths", str(fam["paths"][q]),
                                   "-trace", tr, "-out", os.path.join(wd, "sweep.json"), "-workers", "6"] + base)
    out["sweep"] = dict(prefixes=res["counters"].get("prefixes", 0), calls=res["steps"], events=res["counters"].get("recorded_events", 0),
                        nontrivial=res["nontrivial"], timing_unsafe=res["counters"].get("timing_unsafe_steps", 0), notes=res["notes"][:5])
    out["violations"] += [(v, repros, "sweep:" + name) for v in res["violations"]]
    out["sigcounts"] = {k[4:]: v for k, v in res["counters"].items() if k.startswith("sig:")}
    # 3. the recorded calls are validated by TLC against the spec (in chunks, in parallel)
    if not os.path.exists(tr) and not _hung(res):
        raise vlib.MachineryError("the sweep of family %s ended without a trace file and without a reported hang; the driver's output ended with:\n%s"
                                  % (name, res.get("_output_tail", "")))
    if _hung(res):
        out["notes"].append("the sweep was cut short: a validator object stopped returning (violation validator-hang); what was recorded until then is validated")
    chunks = _chunks(tr, 30000 if tier == "quick" else 60000)
    futs = [pool.submit(_validate_trace, cfg, pw, alphabet_json, ch, "mvt-%s-%d" % (name, k)) for k, ch in enumerate(chunks)]
    # 4. byte-level perturbation of the concretised messages (exploration), validator + decoders
    if fam["bytes"][q] > 0:
        resb, reprosb = _driver(binary, ["-mode", "bytes", "-maxmsgs", str(fam["bytes"][q]), "-flips", "12" if tier == "quick" else "48",
                                         "-out", os.path.join(wd, "bytes.json")] + base)
    else:
        resb, reprosb = dict(behaviours=0, steps=0, counters={}, violations=[]), []
    out["bytes"] = dict(messages=resb["behaviours"], validator_inputs=resb["steps"], decoder_inputs=resb["counters"].get("decoder_inputs", 0),
                        record_inputs=resb["counters"].get("record_inputs", 0), subnet_inputs=resb["counters"].get("subnet_inputs", 0),
                        perturbed_accepted=resb["counters"].get("perturbed_accepted", 0))
    out["violations"] += [(v, reprosb, "bytes:" + name) for v in resb["violations"]]
    for k, v in resb["counters"].items():
        if k.startswith("sig:"):
            out["sigcounts"][k[4:]] = out["sigcounts"].get(k[4:], 0) + v
    tv = [f.result() for f in futs]
    if name == "core" and chunks:
        out["selftest"] = _selftest(cfg, pw, alphabet_json, chunks[0][:400])
    out["trace"] = dict(chunks=len(tv), events=sum(t["events"] for t in tv), consumed=sum(t["consumed"] for t in tv),
                        mismatches=sum(len(t["mismatches"]) for t in tv), complete=all(t["complete"] for t in tv),
                        generated=sum(t["generated"] for t in tv), samples=[m for t in tv for m in t["mismatches"]][:8])
    log("[msgval] " + _el() + " %-8s sweep: %d prefixes, %d calls on the real validator; trace validation: %d/%d events, %d mismatches; bytes: %d validator + %d decoder inputs" %
        (name, out["sweep"]["prefixes"], out["sweep"]["calls"], out["trace"]["consumed"], out["trace"]["events"], out["trace"]["mismatches"],
         out["bytes"]["validator_inputs"], out["bytes"]["decoder_inputs"] + out["bytes"]["record_inputs"] + out["bytes"]["subnet_inputs"]))
    out["sample"] = [ln.strip() for ln in (chunks[0] if chunks else [])[2:6]]
    out["alpha_sample"] = json.loads(alphabet_json)["alpha"][:2]
    return out


def _attack(cfg, pw):
    r = vlib.tlc("MCMsgValidation", "a.cfg", name="mva-" + cfg[:-4], workers=1, timeout=600, files={"a.cfg": cfg_text(cfg, pw)}, heap=JVM_SMALL)
    if r.error:
        raise vlib.MachineryError("attack config %s: %s" % (cfg, r.error[:1500]))
    if not r.violation:
        return cfg, None, r
    return cfg, vlib.trace_behaviour(r.trace, "attack-" + cfg.replace("MsgValidation_", "").replace(".cfg", ""), "attack:" + cfg), r


def _schedules(tier, seed, pw):
    """Deterministic, schedule-controlled concurrency (MsgValidationConc): Arrive / Enter / Leave interleavings of calls on
    one validator, replayed with the verif hook VerifValidateSSVMessage (a gate inside the critical section)."""
    hook = os.path.join(vlib.REPO, "message/validation/verif_hooks.go")
    if not os.path.exists(hook):
        return dict(skipped="the tree under test has no message/validation/verif_hooks.go (build tag verif): the "
                            "schedule-controlled concurrency part of C09 cannot be built")
    binary = vlib.go_build("msgvalconc")
    wd = os.path.join(WD, "sched")
    os.makedirs(wd, exist_ok=True)
    behs, stats, states, generated = [], {}, 0, 0
    for c in ("conc", "conc_apq"):
        cfg = "MsgValidation_%s.cfg" % c
        rg, nodes, edges, inits = vlib.tlc_dump_graph("MsgValidationConc", "c.cfg", name="mvs-" + c, timeout=900, workers=2,
                                                      files={"c.cfg": cfg_text(cfg, pw)})
        if not vlib.expect_tlc_ok(rg, cfg):
            raise vlib.MachineryError("the faithful concurrency spec violates %s in %s (model error, not a verdict)" % (rg.violation, cfg))
        if not rg.finished:
            raise vlib.MachineryError("the concurrency config %s did not finish" % cfg)
        bs, gs = vlib.graph_behaviours(nodes, edges, inits, seed, max_extra=0 if tier == "quick" else 400, kind="cover-" + c)
        behs += bs
        stats[c] = gs
        states += rg.distinct
        generated += rg.generated
    attacks = 0
    for c in ("conc_attack_exclusion", "conc_attack_commit", "conc_attack_commit_apq"):
        cfg = "MsgValidation_%s.cfg" % c
        r = vlib.tlc("MsgValidationConc", "a.cfg", name="mvsa-" + c, workers=1, timeout=600, files={"a.cfg": cfg_text(cfg, pw)}, heap=JVM_SMALL)
        if r.error:
            raise vlib.MachineryError("attack config %s: %s" % (cfg, r.error[:1500]))
        generated += r.generated
        if r.violation:
            behs.append(vlib.trace_behaviour(r.trace, "attack-" + c, "attack:lockNotExclusive"))
            attacks += 1
    inp = os.path.join(wd, "behaviours.ndjson")
    vlib.write_ndjson(inp, behs)
    res, repros = _driver(binary, ["-in", inp, "-out", os.path.join(wd, "sched.json"), "-repeat", "1" if tier == "quick" else "3"])
    log("[msgval] " + _el() + " schedules: %d Arrive/Enter/Leave interleavings (%d attack traces of the weakened lock) replayed with the gate hook: "
        "%d divergences, %d attack steps refused, %d timeouts" % (res["behaviours"], attacks, res["counters"].get("divergences", 0),
                                                                   res["counters"].get("attack_steps_refused", 0), res["counters"].get("schedule_timeouts", 0)))
    return dict(behaviours=res["behaviours"], steps=res["steps"], nontrivial=res["nontrivial"], attack_traces=attacks, graph=stats,
                states=states, generated=generated, divergences=res["counters"].get("divergences", 0),
                refused=res["counters"].get("attack_steps_refused", 0), timeouts=res["counters"].get("schedule_timeouts", 0),
                violations=res["violations"], repros=repros, notes=res["notes"][:5],
                sigcounts={k[4:]: v for k, v in res["counters"].items() if k.startswith("sig:")}, sample=res["samples"][:1])


def run_shared(tier, seed):
    os.makedirs(WD, exist_ok=True)
    with open(os.path.join(WD, "lock"), "w") as lf:
        fcntl.flock(lf, fcntl.LOCK_EX)
        binary = vlib.go_build("msgval")
        pw = variant(binary)
        key = _hash_inputs(binary, tier, seed, json.dumps(pw, sort_keys=True))
        cp = os.path.join(WD, "cache-%s.json" % key)
        nocache = os.environ.get("VERIF_NOCACHE") or os.environ.get("VERIF_MSGVAL_FAMILIES")
        if os.path.exists(cp) and time.time() - os.path.getmtime(cp) < 3600 and not nocache:
            log("[msgval] reusing the shared run %s (same driver binary, spec, tier, seed)" % os.path.basename(cp))
            return json.load(open(cp))
        t0 = time.time()
        result = _run(tier, seed, binary, pw)
        result["wall_s"] = round(time.time() - t0, 1)
        if not os.environ.get("VERIF_MSGVAL_FAMILIES"):
            tmp = cp + ".tmp"
            with open(tmp, "w") as f:
                json.dump(result, f)
            os.replace(tmp, cp)
        for old in glob.glob(os.path.join(WD, "cache-*.json")):
            if old != cp and time.time() - os.path.getmtime(old) > 7200:
                os.remove(old)
        return result


def _run(tier, seed, binary, pw):
    if tier == "quick":
        # the graph dumps (cover, schedules) go through vlib.tlc without a heap argument: small C1-only JVMs for them too
        os.environ.setdefault("VERIF_TLC_HEAP", JVM_MC_QUICK)
    log("[msgval] tree under test %s: partial-signature slot window %s, slot overflow guard %s" %
        (vlib.REPO, "PRESENT" if pw["partial_window"] else "absent (pinned code)", "PRESENT" if pw["overflow_guard"] else "absent (pinned code)"))
    q = 0 if tier == "quick" else 1
    res = dict(tier=tier, seed=seed, variant=pw, families=[], violations=[], divergences=0, states=0, transitions=0,
               traces=0, evaluations=0, nontrivial=0, attack_traces=0, notes=[])
    pool = ThreadPoolExecutor(8)
    fam_pool = ThreadPoolExecutor(6 if tier == "quick" else 2)
    only = os.environ.get("VERIF_MSGVAL_FAMILIES")  # development aid: restrict the run to some families (never cached)
    families = [f for f in FAMILIES if not only or f["name"] in only.split(",")]
    fam_futs = [fam_pool.submit(_family, fam, tier, seed, pw, binary, pool) for fam in families]
    # attack traces (weakened spec), graph cover and simulation run while the families are busy
    attack_cfgs = sorted(os.path.basename(f) for f in glob.glob(os.path.join(vlib.SPEC, "MsgValidation_attack_*.cfg")))
    if not pw["partial_window"]:
        attack_cfgs.append("MsgValidation_gap_partial_window.cfg")
    if not pw["overflow_guard"]:
        attack_cfgs.append("MsgValidation_gap_slot_overflow.cfg")
    if tier == "quick":  # a seeded third of the attack configs (all of them in the thorough tier); the gap configs always
        import random
        rng = random.Random(seed)
        plain = [c for c in attack_cfgs if "_attack_" in c]
        rng.shuffle(plain)
        attack_cfgs = sorted(plain[:6]) + [c for c in attack_cfgs if "_gap_" in c]
    sched_fut = pool.submit(_schedules, tier, seed, pw)
    att_futs = [pool.submit(_attack, c, pw) for c in attack_cfgs]
    wd = os.path.join(WD, "replay")
    os.makedirs(wd, exist_ok=True)
    behs = []
    rg, nodes, edges, inits = vlib.tlc_dump_graph("MCMsgValidation", "cover.cfg", name="mv-cover", timeout=900, workers=2,
                                                  files={"cover.cfg": cfg_text("MsgValidation_cover.cfg", pw)})
    if not vlib.expect_tlc_ok(rg, "MsgValidation_cover.cfg"):
        raise vlib.MachineryError("cover config violates %s" % rg.violation)
    cover, gstat = vlib.graph_behaviours(nodes, edges, inits, seed, max_extra=0 if tier == "quick" else 500)
    behs += cover
    nsim, dsim = (60, 10) if tier == "quick" else (2000, 16)
    rs, sb = vlib.tlc_simulate("MCMsgValidation", "sim.cfg", nsim, dsim, seed, name="mv-sim", keep_vars=["act"], timeout=1500,
                               files={"sim.cfg": cfg_text("MsgValidation_sim.cfg", pw, spec="Spec")})
    if rs.error or rs.violation:
        raise vlib.MachineryError("simulation config: %s %s" % (rs.violation, (rs.error or "")[:1500]))
    for k, b in enumerate(sb):
        behs.append(vlib.trace_behaviour(b, "sim-%d" % k, "sim"))
    res["transitions"] += rs.generated + rg.generated
    res["states"] += rg.distinct
    attacks = []
    for f in att_futs:
        cfg, beh, r = f.result()
        if beh is None:
            log("[msgval] attack config %s produced no counterexample (not counted)" % cfg)
            continue
        attacks.append(beh)
        res["transitions"] += r.generated
    res["attack_traces"] = len(attacks)
    fams = [f.result() for f in fam_futs]
    cex = []
    for fo in fams:
        if fo["mc_violation"]:
            b = fo["mc_violation"]["behaviour"]
            b["id"] = "attack-" + b["id"]  # replayed like an attack trace: what matters is whether the real code reproduces it
            cex.append(b)
    signed = [b for b in attacks if "signature" in b["id"]]
    attacks = [b for b in attacks if "signature" not in b["id"]]
    inp = os.path.join(wd, "behaviours.ndjson")
    vlib.write_ndjson(inp, cex + behs + attacks)
    rr, repros = _driver(binary, ["-mode", "replay", "-in", inp, "-n", "4", "-fork", "100000", "-out", os.path.join(wd, "replay.json")])
    # the signed-era attack trace needs the fork configuration of its cfg
    if signed:
        inp2 = os.path.join(wd, "behaviours_signed.ndjson")
        vlib.write_ndjson(inp2, signed)
        rr2, repros2 = _driver(binary, ["-mode", "replay", "-in", inp2, "-n", "4", "-fork", "-1", "-out", os.path.join(wd, "replay_signed.json")])
        rr["violations"] += rr2["violations"]
        repros += repros2
    log("[msgval] " + _el() + " replayed %d behaviours (%d graph cover, %d simulated, %d attack traces) on the real validator: %d divergences, %d attack steps refused" %
        (rr["behaviours"], len(cover), len(sb), len(attacks) + len(signed), rr["counters"].get("divergences", 0), rr["counters"].get("attack_steps_refused", 0)))
    res["replay"] = dict(behaviours=rr["behaviours"], steps=rr["steps"], cover=gstat, simulated=len(sb), attack=len(attacks) + len(signed),
                         divergences=rr["counters"].get("divergences", 0), refused=rr["counters"].get("attack_steps_refused", 0),
                         divergence_samples=rr["divergences"][:5])
    allv = [(v, repros, "replay") for v in rr["violations"]]
    res["divergences"] += rr["counters"].get("divergences", 0)
    res["traces"] += rr["behaviours"]
    res["evaluations"] += rr["steps"]
    res["nontrivial"] += rr["nontrivial"]
    sigcounts = {k[4:]: v for k, v in rr["counters"].items() if k.startswith("sig:")}
    for fo in fams:
        if fo["mc_violation"]:
            # a counterexample of the FAITHFUL spec is a verdict only if the real code reproduces it
            hit = [v for v in rr["violations"] if v["behaviour"] == fo["mc_violation"]["behaviour"]["id"]]
            if not hit:
                raise vlib.MachineryError("the faithful spec violates %s in %s but the real code does not reproduce the counterexample "
                                          "(model error, not a verdict): %s" % (fo["mc_violation"]["prop"], fo["mc_violation"]["cfg"],
                                                                                 json.dumps([s["act"] for s in fo["mc_violation"]["behaviour"]["steps"]])[:3000]))
        allv += fo["violations"]
        res["states"] += fo["mc"]["distinct"]
        res["transitions"] += fo["mc"]["generated"] + fo["trace"]["generated"]
        res["divergences"] += fo["trace"]["mismatches"] + (0 if fo["trace"]["complete"] else 1)
        res["traces"] += fo["sweep"]["prefixes"] if fo["trace"]["complete"] else 0
        res["evaluations"] += fo["sweep"]["calls"] + fo["bytes"]["validator_inputs"] + fo["bytes"]["decoder_inputs"] + fo["bytes"]["record_inputs"] + fo["bytes"]["subnet_inputs"]
        res["nontrivial"] += fo["sweep"]["nontrivial"]
        for k, v in fo["sigcounts"].items():
            sigcounts[k] = sigcounts.get(k, 0) + v
        res["families"].append({k: fo[k] for k in ("name", "mc", "sweep", "trace", "bytes", "sample", "alpha_sample")})
        if "selftest" in fo:
            res["selftest"] = fo["selftest"]
    # concurrency (thorough): message sets from 8 goroutines under the race detector, batches validated by TLC
    if tier == "thorough":
        racebin = vlib.go_build("msgval", race=True)
        conc = []
        for fam in families:
            if not fam["conc"]:
                continue
            wdc = os.path.join(WD, fam["name"])
            trc = os.path.join(wdc, "conc.ndjson")
            racelog = os.path.join(wdc, "race")
            for old in glob.glob(racelog + "*"):
                os.remove(old)
            rc, reprosc = _driver(racebin, ["-mode", "concurrent", "-alpha", os.path.join(wdc, "alphabet.json"), "-n", str(fam["n"]), "-fork", str(fam["fork"]),
                                            "-seed", str(seed), "-rounds", "300", "-trace", trc, "-out", os.path.join(wdc, "conc.json")],
                                  env={"GORACE": "halt_on_error=0 exitcode=0 log_path=" + racelog})
            races = len(glob.glob(racelog + "*"))
            lines = [ln for ln in (open(trc).readlines() if os.path.exists(trc) else []) if ln.endswith("\n")]
            cfgname = "MsgValidation_%s_%s.cfg" % (fam["name"], tier)
            tv = _validate_trace(cfgname, pw, open(os.path.join(wdc, "alphabet.json")).read(), lines, "mvc-" + fam["name"]) if lines else dict(events=0, consumed=0, mismatches=[], complete=True, generated=0)
            conc.append(dict(family=fam["name"], batches=rc["behaviours"], calls=rc["steps"], recorded=len(lines), mismatches=len(tv["mismatches"]),
                             complete=tv["complete"], race_reports=races, samples=tv["mismatches"][:3]))
            allv += [(v, reprosc, "concurrent:" + fam["name"]) for v in rc["violations"]]
            res["divergences"] += len(tv["mismatches"]) + races
            res["evaluations"] += rc["steps"]
            res["traces"] += rc["behaviours"] if tv["complete"] and not tv["mismatches"] else 0
            res["transitions"] += tv["generated"]
            log("[msgval] " + _el() + " %-8s concurrent: %d batches of 8 goroutines under -race, %d recorded, %d unexplained by any order, %d race reports" %
                (fam["name"], rc["behaviours"], len(lines), len(tv["mismatches"]), races))
        res["concurrent"] = conc
    sched = sched_fut.result()
    if "skipped" not in sched:
        allv += [(v, sched["repros"], "schedule") for v in sched["violations"]]
        res["states"] += sched["states"]
        res["transitions"] += sched["generated"]
        res["divergences"] += sched["divergences"]
        res["traces"] += sched["behaviours"]
        res["evaluations"] += sched["steps"]
        res["nontrivial"] += sched["nontrivial"]
        for k, v in sched["sigcounts"].items():
            sigcounts[k] = sigcounts.get(k, 0) + v
    res["schedules"] = {k: v for k, v in sched.items() if k not in ("violations", "repros")}
    res["sigcounts"] = sigcounts
    # violations with their replay files
    seen = set()
    for v, repros, origin in allv:
        sig = v["signature"]
        rp = next((r for r in repros if r["signature"] == sig), None)
        k = (sig, origin)
        if k in seen:
            continue
        seen.add(k)
        prop = "C08" if sig.startswith(C08_SIGS) else "C09"
        path = vlib.save_replay(prop, "%s-%s-%s-seed%d.json" % (re.sub(r'[^A-Za-z0-9_.-]', '_', sig), origin.replace(":", "_"), tier, seed),
                                rp if rp else dict(signature=sig, kind="none", origin=origin, description=v["description"]))
        res["violations"].append(dict(signature=sig, description="%s [%s, %s step %s]" % (v["description"][:600], origin, v["behaviour"], v["step"]),
                                      replay=path, prop=prop))
    pool.shutdown()
    fam_pool.shutdown()
    return res


def finish(prop, tier, seed, res, t0):
    """Verdict + evidence of one property from the shared result."""
    if prop == "C09" and "skipped" in res.get("schedules", {}):
        raise vlib.MachineryError(res["schedules"]["skipped"])
    verdict = vlib.Verdict(prop)
    mine = [v for v in res["violations"] if v["prop"] == prop]
    for v in mine:
        verdict.violation(v["signature"], v["description"], v["replay"])
    rc = verdict.report()
    if res["divergences"] and rc == 0:
        log("[%s] NOTE: %d conformance divergences without a monitor trip (see evidence)" % (prop, res["divergences"]))
    fam = res["families"]
    bytes_tot = sum(f["bytes"]["validator_inputs"] + f["bytes"]["decoder_inputs"] + f["bytes"]["record_inputs"] + f["bytes"]["subnet_inputs"] for f in fam)
    detail = dict(variant=res["variant"], binding_selftest=res.get("selftest"),
                  configs=[f["mc"] for f in fam], sweeps={f["name"]: f["sweep"] for f in fam}, trace_validation={f["name"]: f["trace"] for f in fam},
                  replay=res["replay"], attack_traces=res["attack_traces"], divergences=res["divergences"], signature_counts=res.get("sigcounts", {}),
                  byte_level={f["name"]: f["bytes"] for f in fam}, concurrent=res.get("concurrent"), schedules=res.get("schedules"), shared_run_wall_s=res.get("wall_s"))
    if prop == "C08":
        rule = ("structured half (model checking): every (accepted prefix, message class, time point) of the spec's alphabets up to the sweep depth is "
                "concretised with real SSZ/JSON encoding and real keys and passed to ValidatePubsubMessage under recover(); non-trivial = distinct "
                "prefixes with >= 1 previously accepted message, each probed with the whole alphabet.  Byte half (EXPLORATION, not model checking): "
                "%d seeded perturbations (truncation at field boundaries, offset/length words, extreme 8-byte values, bit flips) of the "
                "model-generated messages fed to the validator and to DecodeSignedSSVMessage, DecodeNetworkMsg, queue.DecodeSSVMessage, "
                "NodeInfo/SignedNodeInfo Consume+UnmarshalRecord, NodeMetadata.Decode, Subnets.FromString" % bytes_tot)
        assumptions = ["arbitrary byte strings are only explored by seeded perturbation of model-generated messages (DESIGN.md section 7): the byte half is exploration",
                       "allocation ceiling 96 MiB per call; hang = a call that is slower than 2 s or has not returned after 10 s AND fails the same way three more times in a row "
                       "when repeated on the same validator object (5 s each; a stall of a loaded machine passes a repeat): an input the validator loops on and a "
                       "validator left wedged by an EARLIER call both fail every repeat; the replay file is the call history of that object, cut down to "
                       "(call before + hanging call) when that hangs again on a fresh validator; direct calls of ValidateSSVMessage: 60 s watchdog",
                       "messages larger than a few KiB (8 MiB pubsub limit) are not generated"]
    else:
        rule = ("every (accepted prefix, message class, time point) of the alphabets up to the sweep depth on the real validator; the monitor evaluates "
                "the statement of C09 on the concrete accepted bytes, clock and history, independently of the operational spec; TLC checks "
                "accept => GossipOK on every edge of every config and validates every recorded call; non-trivial = distinct prefixes with >= 1 "
                "previously accepted message (replayed behaviours: >= 2 accepted messages; schedules: >= 3 concurrent calls). Concurrency: every "
                "Arrive/Enter/Leave interleaving of MsgValidationConc (graph cover) and the 3-party attack schedules of the weakened lock are replayed "
                "deterministically with a gate inside the critical section (verif hook). Family roundwin: the slot and round windows of the five "
                "consensus roles on a fresh signer state, rounds 0..max+2 x reception times 1.5 s and 0.5 s before and 0.5 s and 1.5 s after every "
                "boundary of the estimated-round step function (2, 4, .., 16, 136, 256, 376 s), the slot start, the last second before the slot and "
                "both sides of the late-slot deadline (thorough: every second of the first minute, +-6 s around the slow boundaries, two points per "
                "later slot); the model computes the windows in milliseconds with the code's constants")
        assumptions = ["exhaustive results hold for the stated alphabets (committee 4 and 7, <= 2 tracked single signers, the listed slot/round/time classes)",
                       "the clock is virtual (re-based genesis); time points are whole seconds + 0.5 s, i.e. 0.5 s away from every boundary of the gate (all are "
                       "whole seconds); steps slower than 300 ms are not compared; the last second of a slot (where the code's truncated clock may already "
                       "show the next slot) is used only where TLC shows the verdict does not depend on it (ClockRobust)",
                       "BLS signatures are not verified by the gate (as in the code); RSA envelopes use real generated operator keys",
                       "known findings (named deviations of the spec, reported by the monitor when the tree has them): accepted:partial-sig-outside-slot-window, accepted:slot-time-overflow"]
    samples = []
    for f in sorted(fam, key=lambda f: f["name"] != "core")[:2]:
        samples.append(dict(family=f["name"], alphabet_classes=f["alpha_sample"], recorded_events=f["sample"]))
    coverage = dict(states=res["states"], transitions=res["transitions"], traces_validated_against_impl=res["traces"], samples=samples,
                    evaluations=res["evaluations"], distinct_nontrivial=res["nontrivial"], rule=rule,
                    exhaustive=all(f["mc"]["exhaustive"] for f in fam), detail=detail)
    vlib.write_evidence(prop, tier, seed, "model_checking", coverage, time.time() - t0, assumptions, len(verdict.violations))
    return rc


def replay(prop, path):
    binary = vlib.go_build("msgval")
    r = json.load(open(path))
    if r.get("kind") in (None, "none", "concurrent"):
        log("this violation is schedule dependent or has no saved input: re-run `./check %s` with the same VERIF_SEED" % prop)
        return 0
    os.makedirs(WD, exist_ok=True)
    outp = os.path.join(WD, "repro_result.json")
    if r.get("kind") == "schedule":
        res, _ = _driver(vlib.go_build("msgvalconc"), ["-repro", "-in", path, "-n", str(r.get("n", 4)), "-fork", str(r.get("fork", 100000)), "-out", outp])
        verdict = vlib.Verdict(prop)
        for v in res["violations"]:
            if ("C08" if v["signature"].startswith(C08_SIGS) else "C09") == prop:
                verdict.violation(v["signature"], v["description"][:600], path)
        return verdict.report()
    res, _ = _driver(binary, ["-mode", "repro", "-in", path, "-n", str(r.get("n", 4)), "-fork", str(r.get("fork", 100000)), "-out", outp])
    verdict = vlib.Verdict(prop)
    for v in res["violations"]:
        p = "C08" if v["signature"].startswith(C08_SIGS) else "C09"
        if p == prop:
            verdict.violation(v["signature"], v["description"][:600], path)
    for n in res["notes"]:
        log("[%s] %s" % (prop, n))
    return verdict.report()
