"""Lifecycle - validator lifecycle on one node (spec/Lifecycle.tla), an extension beyond the fixed property list.

Registry.tla covers what the registry-contract events do to the STORED state; Lifecycle.tla covers what the same
events do to the set of validators RUNNING on the node: the tasks the event handler emits, what the validator
controller does with them, the metadata goroutine (the only place a new validator is started), restart + history
sync + StartValidators.  System-level facts L1..L7 are checked by TLC; behaviours (state-graph cover, simulation,
counterexamples of the facts that do NOT hold under the code's real concurrency) are replayed on the real
EventHandler wired to the real validator controller, and the driver's own random executions are validated by TLC
against LifecycleTrace.tla.

Nothing here is a verdict: a fact that fails in the model AND on the real code is an OBSERVATION (reported, see
/root/scratch/findings/LIFE-*.md); a mismatch between the real code and the spec is a divergence (counted).
Stand-alone: `python3 tools/props/lifecycle.py quick|thorough` (exit 0 unless the machinery failed: exit 2).
Registration: run_part(tier, seed, log) -> coverage dict."""
import concurrent.futures
import hashlib
import json
import os
import sys
import threading
import time

sys.path.insert(0, os.path.dirname(os.path.dirname(os.path.abspath(__file__))))
import vlib  # noqa: E402

NAME = "lifecycle"
MODULE = "MCLifecycle"
SV = ["mem", "db", "running", "tasks", "blk", "mode", "sv"]
SPEC_FILES = ("Lifecycle.tla", "MCLifecycle.tla")

# exhaustive configs of the faithful spec: every listed fact must hold (a violation = model error = exit 2)
MC = {
    "quick": [("Lifecycle_seq_quick.cfg", 1), ("Lifecycle_conc_quick.cfg", 1)],
    "thorough": [("Lifecycle_seq_quick.cfg", 1), ("Lifecycle_meta_quick.cfg", 1), ("Lifecycle_start_quick.cfg", 1),
                 ("Lifecycle_conc_quick.cfg", 1), ("Lifecycle_seq_thorough.cfg", 3), ("Lifecycle_meta_thorough.cfg", 3),
                 ("Lifecycle_start_thorough.cfg", 3), ("Lifecycle_conc_thorough.cfg", 3), ("Lifecycle_full_thorough.cfg", 3),
                 ("Lifecycle_three_thorough.cfg", 3)],
}
# facts that do not hold once the code's real concurrency is admitted: the counterexample is replayed on the real code
OBS = [
    ("Lifecycle_obs_L1a.cfg", "L1a_NoneMissing",
     "removal and re-registration of a validator in one block + a metadata update before the StopValidator task: the new share is eligible but not running"),
    ("Lifecycle_obs_L2.cfg", "L2_NoLiquidatedRunning",
     "a liquidation handled between StartValidators' listing of the shares and their setup: the validator of the liquidated cluster runs"),
    ("Lifecycle_obs_L2b.cfg", "L2b_NoRemovedRunning",
     "a removal handled between StartValidators' listing of the shares and their setup: a validator runs on a removed share"),
    ("Lifecycle_obs_L3.cfg", "L3_RestartIndependent",
     "a metadata update of a share written by the open block transaction is overwritten by the commit: memory has the metadata, the database has not"),
    ("Lifecycle_obs_L5.cfg", "L5_ExitOnlyRunning",
     "ValidatorExited of a validator of a liquidated cluster hands an exit descriptor to the duty scheduler although the validator does not run"),
]
TIER = {
    # cover: (cfg, BFS-tree leaves replayed, non-tree edges replayed) - a broad alphabet with few events and one
    # validator through its whole life (register, liquidate, reactivate, recipient, exit, remove)
    "quick": dict(cover=[("Lifecycle_cover.cfg", 200, 40), ("Lifecycle_cover_cycle.cfg", 260, 60)], sim=(60, 45), runs=40, steps=50,
                  workers=4, budget=600),
    "thorough": dict(cover=[("Lifecycle_cover_thorough.cfg", 5000, 2000), ("Lifecycle_cover_cycle_thorough.cfg", 5000, 2000)],
                     sim=(2500, 60), runs=1500, steps=60, workers=6, budget=1500),
}


class _Slots:
    """At most `n` TLC worker threads at a time over all concurrent TLC runs of this tool (shared, loaded machine)."""

    def __init__(self, n):
        self.n, self.cv = n, threading.Condition()

    def run(self, w, fn):
        with self.cv:
            while self.n < w:
                self.cv.wait()
            self.n -= w
        try:
            return fn()
        finally:
            with self.cv:
                self.n += w
                self.cv.notify_all()


SLOTS = _Slots(6)


def _cache_dir():
    d = os.path.join(vlib.WORK, NAME, "cache")
    os.makedirs(d, exist_ok=True)
    return d


def _wd(tier, seed):
    """Scratch of one run: per tier, seed and repository (a trial against VERIF_REPO does not disturb a run on /repo)."""
    alt = "" if vlib.HARNESS == vlib.HARNESS_SRC else "-" + os.path.basename(os.path.dirname(vlib.BINDIR))
    d = os.path.join(vlib.WORK, NAME, "%s-s%s%s" % (tier, seed, alt))
    os.makedirs(d, exist_ok=True)
    return d


def _key(cfg):
    h = hashlib.sha256()
    for fn in SPEC_FILES + (cfg,):
        h.update(open(os.path.join(vlib.SPEC, fn), "rb").read())
    return h.hexdigest()[:24]


def _cached(kind, cfg, compute):
    """TLC results that depend on the specification only are cached under .work by the hash of the spec files."""
    cp = os.path.join(_cache_dir(), "%s-%s-%s.json" % (kind, cfg.replace(".cfg", ""), _key(cfg)))
    if os.path.exists(cp):
        try:
            d = json.load(open(cp))
            d["cached"] = True
            return d
        except ValueError:
            pass
    d = compute()
    tmp = cp + ".tmp%d" % os.getpid()
    with open(tmp, "w") as f:
        json.dump(d, f)
    os.replace(tmp, cp)
    d["cached"] = False
    return d


def _tlc_retry(cfg, need_end, **kw):
    """A TLC run that ends without statistics and without a verdict was killed from outside: run it once more."""
    for attempt in (1, 2, 3):
        r = vlib.tlc(MODULE, cfg, **kw)
        if r.error or r.violation or r.finished or ((r.distinct or r.generated) and not need_end):
            return r
        time.sleep(3)
    raise vlib.MachineryError("TLC produced no statistics for %s:\n%s" % (cfg, r.out[-1500:]))


def model_check(cfg, workers, budget):
    def compute():
        r = SLOTS.run(workers, lambda: _tlc_retry(cfg, False, workers=workers, timeout=budget + 300, stop_after=budget))
        if r.error:
            raise vlib.MachineryError("TLC error in %s: %s" % (cfg, r.error))
        return {"cfg": cfg, "distinct": r.distinct, "generated": r.generated, "depth": r.depth, "exhaustive": bool(r.finished),
                "wall_s": round(r.wall, 1), "violation": r.violation,
                "trace": [vlib.tlaval.plain(s.get("act")) for s in r.trace] if r.violation else None}
    d = _cached("mc", cfg, compute)
    if d["violation"]:
        raise vlib.MachineryError("the faithful Lifecycle spec violates %s in %s (model error):\n%s" %
                                  (d["violation"], cfg, json.dumps(d["trace"])))
    return d


def observation_trace(cfg, fact):
    def compute():
        r = SLOTS.run(1, lambda: _tlc_retry(cfg, True, workers=1, timeout=600))
        if r.error:
            raise vlib.MachineryError("TLC error in %s: %s" % (cfg, r.error))
        steps = vlib.trace_behaviour(r.trace, "x", "x", state_vars=SV)["steps"] if r.violation else None
        return {"cfg": cfg, "fact": fact, "violated": r.violation, "steps": steps, "distinct": r.distinct, "generated": r.generated,
                "wall_s": round(r.wall, 1)}
    return _cached("obs", cfg, compute)


def cover_graph(cfg):
    def compute():
        for attempt in (1, 2, 3):
            rg, nodes, edges, inits = SLOTS.run(1, lambda: vlib.tlc_dump_graph(MODULE, cfg, timeout=1500, workers=1))
            if rg.error or rg.violation or nodes:
                break
            time.sleep(3)
        if rg.error or rg.violation or not nodes:
            raise vlib.MachineryError("cover config %s: %s %s" % (cfg, rg.violation, (rg.error or rg.out[-1500:])))
        keep = ["act"] + SV
        return {"distinct": rg.distinct, "generated": rg.generated, "inits": inits,
                "nodes": {k: {x: vlib.tlaval.plain(v[x]) for x in keep if x in v} for k, v in nodes.items()},
                "edges": [[a, b] for a, b, _ in edges]}
    return _cached("graph", cfg, compute)


def sample_graph(g, seed, n_leaves, n_edges, tag):
    import random
    nodes, edges, inits = g["nodes"], [(a, b, "") for a, b in g["edges"]], g["inits"]
    parent = vlib.bfs_paths(nodes, edges, inits)
    is_parent = set(p for p in parent.values() if p is not None)
    leaves = sorted(n for n in parent if n not in is_parent)
    tree = set((p, n) for n, p in parent.items() if p is not None)
    extra = sorted(set((a, b) for a, b, _ in edges if (a, b) not in tree and a in parent and a != b))
    rng = random.Random(seed)
    rng.shuffle(leaves)
    rng.shuffle(extra)

    def mk(path, ident):
        return {"id": ident, "kind": "cover",
                "steps": [{"act": nodes[n].get("act"), "state": {k: nodes[n][k] for k in SV if k in nodes[n]}} for n in path]}
    behs = [mk(vlib.path_to(parent, n), "%s-leaf-%s" % (tag, n)) for n in leaves[:n_leaves]]
    behs += [mk(vlib.path_to(parent, a) + [b], "%s-edge-%s-%s" % (tag, a, b)) for a, b in extra[:n_edges]]
    return behs, {"nodes": len(nodes), "edges": len(edges), "leaves": len(leaves), "leaves_replayed": min(n_leaves, len(leaves)),
                  "non_tree_edges": len(extra), "non_tree_edges_replayed": min(n_edges, len(extra))}


def simulate(num, depth, seed):
    for attempt in (1, 2, 3):
        rs, sb = SLOTS.run(1, lambda: vlib.tlc_simulate(MODULE, "Lifecycle_sim.cfg", num, depth, seed, keep_vars=["act"] + SV, timeout=2400))
        if rs.violation or rs.error or len(sb) >= max(1, num // 2):
            break
        time.sleep(3)
    if rs.violation or rs.error:
        raise vlib.MachineryError("simulation of the faithful spec: %s %s" % (rs.violation, (rs.error or "")[-1500:]))
    return rs, [vlib.trace_behaviour(b, "sim-%d" % k, "sim", state_vars=SV) for k, b in enumerate(sb)]


def _selftest(tr, wd):
    """Corrupt one recorded event (a running validator's recipient / a stored liquidation flag) and expect rejection."""
    lines = [x for x in open(tr).read().split("\n") if x.strip()]
    idx = None
    for i, ln in enumerate(lines):
        e = json.loads(ln)
        if i < 8 or e["event"] == "Reset":
            continue
        hit = [v for v in sorted(e["running"]) if e["running"][v]["on"]]
        if hit:
            e["running"][hit[0]]["fee"] = "b" if e["running"][hit[0]]["fee"] != "b" else "a"
            lines[i], idx, what = json.dumps(e), i, "recipient of running %s" % hit[0]
            break
    if idx is None:
        return {"status": "skipped"}
    p = os.path.join(wd, "trace_corrupt.ndjson")
    with open(p, "w") as f:
        f.write("\n".join(lines[:idx + 1]) + "\n")
    accepted, consumed, nlines, _ = SLOTS.run(1, lambda: vlib.tlc_validate_trace("LifecycleTrace", "LifecycleTrace.cfg", p, name="LifecycleTrace-selftest"))
    if accepted:
        raise vlib.MachineryError("binding self-test failed: a corrupted trace was accepted by LifecycleTrace")
    return {"status": "rejected", "corrupted_line": idx + 1, "field": what, "rejected_at_line": consumed + 1}


def run_part(tier, seed, log=vlib.log):
    """One run of the lifecycle extension. Returns the coverage dict: states / transitions (TLC), configs,
    behaviours_replayed, steps_replayed, divergences (+ samples), traces_validated, recorded_events, trace_accepted,
    binding_selftest, observations (fact, model verdict, real-code verdict, trace), real_code_fact_failures, wall_s.
    Raises vlib.MachineryError when the machinery itself fails (TLC error, a listed fact violated in the faithful
    spec, driver crash, corrupted trace accepted)."""
    t0 = time.time()
    T = TIER[tier]
    wd = _wd(tier, seed)
    cov = {"tier": tier, "seed": seed, "configs": [], "observations": [], "divergences": 0}
    binr = vlib.go_build(NAME)
    log("[lifecycle] +%.0fs driver built" % (time.time() - t0))

    tr = os.path.join(wd, "trace.ndjson")
    outr = os.path.join(wd, "record_result.json")

    def record_and_validate():
        vlib.run_driver(binr, ["-mode", "record", "-trace", tr, "-out", outr, "-seed", str(seed), "-runs", str(T["runs"]),
                               "-steps", str(T["steps"]), "-workers", str(T["workers"])], timeout=3000)
        res2 = json.load(open(outr))
        with concurrent.futures.ThreadPoolExecutor(max_workers=2) as ex2:
            f_st = ex2.submit(_selftest, tr, wd)
            acc = SLOTS.run(1, lambda: vlib.tlc_validate_trace("LifecycleTrace", "LifecycleTrace.cfg", tr, timeout=2400))
            st = f_st.result()
        return res2, acc, st

    with concurrent.futures.ThreadPoolExecutor(max_workers=12) as ex:
        f_rec = ex.submit(record_and_validate)
        f_cov = [ex.submit(cover_graph, c[0]) for c in T["cover"]]
        f_sim = ex.submit(simulate, T["sim"][0], T["sim"][1], seed)
        f_obs = [ex.submit(observation_trace, cfg, fact) for cfg, fact, _ in OBS]
        f_mc = [ex.submit(model_check, cfg, w, T["budget"]) for cfg, w in MC[tier]]

        # behaviours: graph cover (seeded sample), counterexamples of the facts that do not hold, simulation
        behs, cov["cover_graphs"], gstates, gtrans = [], [], 0, 0
        for (ccfg, nl, ne), f in zip(T["cover"], f_cov):
            g = f.result()
            b1, gstat = sample_graph(g, seed, nl, ne, ccfg.replace("Lifecycle_", "").replace(".cfg", ""))
            behs += b1
            gstates, gtrans = gstates + g["distinct"], gtrans + g["generated"]
            cov["cover_graphs"].append(dict(gstat, cfg=ccfg, cached=g["cached"]))
            log("[lifecycle] +%.0fs cover graph %s: %s" % (time.time() - t0, ccfg, gstat))
            del g
        obehs = []
        for (cfg, fact, desc), f in zip(OBS, f_obs):
            o = f.result()
            if not o["steps"]:
                log("[lifecycle] %s: the fact holds in the model (no counterexample)" % cfg)
                cov["observations"].append({"fact": fact, "model": "holds", "cfg": cfg})
                continue
            obehs.append({"id": "obs-" + fact, "kind": "obs:" + desc, "steps": o["steps"]})
            cov["observations"].append({"fact": fact, "model": "violated", "cfg": cfg, "what": desc, "trace_steps": len(o["steps"]),
                                        "trace": [s["act"] for s in o["steps"]]})
        log("[lifecycle] +%.0fs %d counterexamples of facts that do not hold under the code's concurrency" % (time.time() - t0, len(obehs)))

        def replay(behaviours, tag, workers):
            inp = os.path.join(wd, "behaviours-%s.ndjson" % tag)
            outp = os.path.join(wd, "replay_result-%s.json" % tag)
            vlib.write_ndjson(inp, behaviours)
            vlib.run_driver(binr, ["-mode", "replay", "-in", inp, "-out", outp, "-workers", str(workers)], timeout=3000)
            return json.load(open(outp))
        f_rc = ex.submit(replay, behs, "cover", T["workers"])
        f_ro = ex.submit(replay, obehs, "observations", 2)
        rs, sbehs = f_sim.result()
        cov["sim_behaviours"] = len(sbehs)
        log("[lifecycle] +%.0fs simulation: %d behaviours" % (time.time() - t0, len(sbehs)))
        res_s = replay(sbehs, "sim", T["workers"])
        res, reso = f_rc.result(), f_ro.result()
        for k in ("behaviours", "steps", "nontrivial"):
            res[k] = res.get(k, 0) + res_s.get(k, 0) + reso.get(k, 0)
        for k in ("divergences", "samples"):
            res[k] = (res.get(k) or []) + (res_s.get(k) or [])
        for r_ in (res_s, reso):
            for k, v in (r_.get("counters") or {}).items():
                res["counters"][k] = res["counters"].get(k, 0) + v
        log("[lifecycle] +%.0fs replayed %d behaviours / %d steps on the real event handler + validator controller: %d divergences" %
            (time.time() - t0, res["behaviours"], res["steps"], res["counters"].get("divergences", 0)))

        # the observation traces on their own: which facts fail on the REAL code
        for o in cov["observations"]:
            if o["model"] != "violated":
                continue
            hit = [s for s in reso["samples"] if isinstance(s, dict) and s.get("fact") == o["fact"] and s.get("behaviour") == "obs-" + o["fact"]]
            o["real_code"] = "reproduced" if hit else "not reproduced"
            if hit:
                o["real_state"] = hit[0]["real"]
        cov["observation_replay_divergences"] = reso["counters"].get("divergences", 0)

        res2, (accepted, consumed, nlines, rt), selftest = f_rec.result()
        log("[lifecycle] +%.0fs recorded %d executions / %d events, trace %s" %
            (time.time() - t0, res2["behaviours"], nlines, "accepted" if accepted else "REJECTED at line %d" % (consumed + 1)))
        states = transitions = 0
        for f in f_mc:
            d = f.result()
            cov["configs"].append({k: d[k] for k in ("cfg", "distinct", "generated", "depth", "exhaustive", "wall_s", "cached")})
            states += d["distinct"]
            transitions += d["generated"]
            log("[lifecycle] TLC %s: %d distinct / %d generated, depth %d, exhaustive=%s, %.1fs%s" %
                (d["cfg"], d["distinct"], d["generated"], d["depth"], d["exhaustive"], d["wall_s"], " (cached)" if d["cached"] else ""))

    cov["states"] = states + gstates
    cov["transitions"] = transitions + gtrans + rs.generated + rt.generated
    cov["behaviours_replayed"] = res["behaviours"]
    cov["steps_replayed"] = res["steps"]
    cov["fact_evaluations_on_real_state"] = res["counters"].get("fact_evaluations", 0)
    cov["divergences"] = res["counters"].get("divergences", 0) + res2["counters"].get("divergences", 0)
    cov["divergence_samples"] = (res["divergences"] + reso["divergences"] + res2["divergences"])[:6]
    cov["real_code_fact_failures"] = {k[4:]: v for k, v in sorted(res["counters"].items()) if k.startswith("obs:")}
    cov["recorded_executions"] = res2["behaviours"]
    cov["recorded_events"] = nlines
    cov["traces_validated"] = res2["behaviours"] if accepted else 0
    cov["trace_accepted"] = accepted
    if not accepted:
        lines = open(tr).read().split("\n")
        bad = lines[consumed] if consumed < len(lines) else "?"
        log("[lifecycle] recorded trace REJECTED by the spec at line %d: %s" % (consumed + 1, bad[:700]))
        cov["divergences"] += 1
        cov["trace_rejected_at"] = {"line": consumed + 1, "event": bad[:2000]}
    cov["binding_selftest"] = selftest
    cov["samples"] = res["samples"][:3]
    cov["wall_s"] = round(time.time() - t0, 1)
    cov["workdir"] = wd
    with open(os.path.join(wd, "coverage.json"), "w") as f:
        json.dump(cov, f, indent=1, sort_keys=True)
    return cov


def summary(cov, log=vlib.log):
    log("")
    log("lifecycle %s seed=%s: %.0fs" % (cov["tier"], cov["seed"], cov["wall_s"]))
    log("  TLC: %d distinct states over %d configs (all listed facts hold: %s)" %
        (cov["states"], len(cov["configs"]), ", ".join("%s=%d%s" % (c["cfg"].replace("Lifecycle_", "").replace(".cfg", ""), c["distinct"],
                                                                  "" if c["exhaustive"] else "(partial)") for c in cov["configs"])))
    log("  replay: %d behaviours / %d steps on the real code, %d divergences; trace validation: %d executions / %d events %s; self-test: %s" %
        (cov["behaviours_replayed"], cov["steps_replayed"], cov["divergences"], cov["recorded_executions"], cov["recorded_events"],
         "accepted" if cov["trace_accepted"] else "REJECTED", cov["binding_selftest"].get("status")))
    for o in cov["observations"]:
        if o["model"] == "violated":
            log("  OBSERVATION %s: violated in the model, %s on the real code - %s" % (o["fact"], o.get("real_code"), o["what"]))
    if cov["real_code_fact_failures"]:
        log("  facts failing on real quiescent states during replay (observations, no verdict): %s" % cov["real_code_fact_failures"])
    for d in cov["divergence_samples"][:3]:
        log("  DIVERGENCE %s" % json.dumps(d)[:600])


def main(argv):
    tier = argv[1] if len(argv) > 1 else "quick"
    if tier not in TIER:
        print("usage: lifecycle.py quick|thorough")
        return 2
    try:
        cov = run_part(tier, vlib.seed_from_env())
        summary(cov)
        return 0
    except vlib.MachineryError as e:
        vlib.log("MACHINERY FAILURE: %s" % e)
        return 2
    except Exception as e:  # noqa: BLE001
        import traceback
        traceback.print_exc()
        vlib.log("MACHINERY FAILURE: %s" % e)
        return 2


if __name__ == "__main__":
    sys.exit(main(sys.argv))
