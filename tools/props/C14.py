"""C14 - the validator message queue neither loses nor duplicates messages (spec/Queue.tla)."""
import json
import os
import time

import vlib
from vlib import log

PROP = "C14"
STATE_VARS = None


def _tier(tier):
    if tier == "quick":
        return dict(mc="Queue_quick.cfg", cover="Queue_cover.cfg", extra_edges=3000, sim=None,
                    record_runs=300, conc_rounds=30, race=False)
    return dict(mc="Queue_thorough.cfg", cover="Queue_cover_thorough.cfg", extra_edges=40000,
                sim=("Queue_sim.cfg", 3000, 14), record_runs=5000, conc_rounds=400, race=True)


ATTACKS = [  # (cfg, description)
    ("Queue_attack_code_cons.cfg", "pop() as at the pinned commit: Conservation"),
    ("Queue_attack_code_resp.cfg", "pop() as at the pinned commit: Responsive"),
    ("Queue_attack_code_nodiscard.cfg", "pop() as at the pinned commit: NoDiscard"),
]


def run(tier, seed):
    t0 = time.time()
    T = _tier(tier)
    verdict = vlib.Verdict(PROP)
    cov = {"configs": [], "attack_traces": 0, "divergences": 0}
    binq = vlib.go_build("queue")
    wd = os.path.join(vlib.WORK, PROP)
    os.makedirs(wd, exist_ok=True)

    # 1. exhaustive model checking of the faithful spec
    r = vlib.tlc("MCQueue", T["mc"], workers=vlib.NCPU, timeout=3000, stop_after=2400 if tier == "thorough" else 600)
    if not vlib.expect_tlc_ok(r, T["mc"]):
        raise vlib.MachineryError("faithful Queue spec violates %s (model error, not a verdict):\n%s" %
                                  (r.violation, json.dumps(vlib.tlaval.plain([s.get("act") for s in r.trace]))))
    cov["configs"].append({"cfg": T["mc"], "distinct": r.distinct, "generated": r.generated, "depth": r.depth,
                           "exhaustive": r.finished, "wall_s": round(r.wall, 1)})
    states, transitions = r.distinct, r.generated
    log("[C14] TLC %s: %d distinct / %d generated, finished=%s, %.1fs" % (T["mc"], r.distinct, r.generated, r.finished, r.wall))

    # 2. state-graph cover replayed on the real queue
    rg, nodes, edges, inits = vlib.tlc_dump_graph("MCQueue", T["cover"], timeout=1800, workers=8)
    if not vlib.expect_tlc_ok(rg, T["cover"]):
        raise vlib.MachineryError("cover config violates %s" % rg.violation)
    behs, gstat = vlib.graph_behaviours(nodes, edges, inits, seed, max_extra=T["extra_edges"])
    cov["cover_graph"] = gstat
    if T["sim"]:
        cfg, num, depth = T["sim"]
        rs, sb = vlib.tlc_simulate("MCQueue", cfg, num, depth, seed, keep_vars=["act"], timeout=900)
        if rs.violation or rs.error:
            raise vlib.MachineryError("simulation config: %s %s" % (rs.violation, rs.error))
        for k, b in enumerate(sb):
            behs.append(vlib.trace_behaviour(b, "sim-%d" % k, "sim"))
        cov["sim_behaviours"] = len(sb)
        transitions += rs.generated
    # 3. attack traces from the weakened spec (named deviation: the pinned commit's pop)
    attack_behs = []
    for cfg, desc in ATTACKS:
        ra = vlib.tlc("MCQueue", cfg, workers=4, timeout=600)
        if ra.error:
            raise vlib.MachineryError("attack config %s: %s" % (cfg, ra.error))
        if not ra.violation:
            log("[C14] attack config %s produced no counterexample (not counted)" % cfg)
            continue
        attack_behs.append(vlib.trace_behaviour(ra.trace, "attack-" + cfg.replace(".cfg", ""), "attack:" + desc))
    cov["attack_traces"] = len(attack_behs)
    inp = os.path.join(wd, "behaviours.ndjson")
    vlib.write_ndjson(inp, behs + attack_behs)
    outp = os.path.join(wd, "replay_result.json")
    vlib.run_driver(binq, ["-mode", "replay", "-in", inp, "-out", outp, "-cap", "2"], timeout=3000)
    res = json.load(open(outp))
    _collect(res, verdict, inp)
    cov["replayed_behaviours"] = res["behaviours"]
    cov["replayed_steps"] = res["steps"]
    cov["divergences"] += res["counters"].get("divergences", 0)
    log("[C14] replayed %d behaviours / %d steps on the real queue: %d violations, %d divergences" %
        (res["behaviours"], res["steps"], res["counters"].get("violations", 0), res["counters"].get("divergences", 0)))

    # 4. executions recorded from the real queue, validated by TLC against the spec
    tr = os.path.join(wd, "trace.ndjson")
    outr = os.path.join(wd, "record_result.json")
    vlib.run_driver(binq, ["-mode", "record", "-trace", tr, "-out", outr, "-seed", str(seed), "-runs",
                           str(T["record_runs"]), "-maxmsgs", "6", "-cap", "3"])
    res2 = json.load(open(outr))
    _collect(res2, verdict, tr)
    accepted, consumed, nlines, rt = vlib.tlc_validate_trace("QueueTrace", "QueueTrace.cfg", tr, timeout=1200)
    cov["recorded_traces"] = res2["behaviours"]
    cov["recorded_events"] = nlines
    cov["trace_accepted"] = accepted
    transitions += rt.generated
    if not accepted:
        lines = open(tr).read().split("\n")
        bad = lines[consumed] if consumed < len(lines) else "?"
        log("[C14] recorded trace REJECTED by the spec at line %d: %s" % (consumed + 1, bad))
        cov["divergences"] += 1
        cov["trace_rejected_at"] = {"line": consumed + 1, "event": bad}
    # self-test of the binding: corrupt one recorded result and expect rejection
    cov["binding_selftest"] = _selftest(tr, wd)

    # 5. concurrent producers on the real queue
    binc = vlib.go_build("queue", race=True) if T["race"] else binq
    outc = os.path.join(wd, "conc_result.json")
    vlib.run_driver(binc, ["-mode", "concurrent", "-out", outc, "-seed", str(seed), "-runs", str(T["conc_rounds"])], timeout=3000)
    res3 = json.load(open(outc))
    _collect(res3, verdict, "concurrent:seed=%d" % seed)
    cov["concurrent_runs"] = res3["behaviours"]
    cov["concurrent_msgs"] = res3["counters"].get("concurrent_msgs", 0)

    rc = verdict.report()
    # a rejected trace / divergence without a monitor trip is reported, but is not a violation of C14
    if cov["divergences"] and rc == 0:
        log("[C14] NOTE: %d conformance divergences without a monitor trip (see evidence)" % cov["divergences"])
    coverage = {
        "states": states, "transitions": transitions,
        "traces_validated_against_impl": res["behaviours"] + (res2["behaviours"] if accepted else 0),
        "samples": res["samples"][:1] + [open(tr).read().split("\n")[1:8]],
        "evaluations": res["steps"] + res2["steps"] + res3["steps"],
        "distinct_nontrivial": res["nontrivial"],
        "rule": "behaviours = BFS-tree leaves of the dumped state graph + seeded non-tree edges + attack traces; "
                "non-trivial = contains a pop with >= 2 messages known to the queue or a blocking Pop",
        "exhaustive": bool(r.finished),
        "detail": cov,
    }
    vlib.write_evidence(PROP, tier, seed, "model_checking", coverage, time.time() - t0, [
        "prioritizer classes are concretised against State{Height 10, Round 2, Slot 10, Quorum 3}",
        "exhaustive results hold for the stated constants (messages <= MaxMsgs from the class alphabet, all filters)",
        "Go channel FIFO semantics are trusted",
    ], len(verdict.violations))
    return rc


def _collect(res, verdict, replay_path):
    for v in res["violations"]:
        verdict.violation(v["signature"], "%s [%s step %d]" % (v["description"], v["behaviour"], v["step"]), replay_path)


def _selftest(tr, wd):
    lines = [x for x in open(tr).read().split("\n") if x.strip()]
    idx = None
    for i, ln in enumerate(lines):
        e = json.loads(ln)
        if e["event"] == "TryPop" and e["res"] != 0 and i > 20:
            e["res"] = 0
            e["len"] = e["len"] + 1
            lines[i] = json.dumps(e)
            idx = i
            break
    if idx is None:
        return "skipped"
    p = os.path.join(wd, "trace_corrupt.ndjson")
    with open(p, "w") as f:
        f.write("\n".join(lines) + "\n")
    accepted, consumed, nlines, _ = vlib.tlc_validate_trace("QueueTrace", "QueueTrace.cfg", p)
    if accepted:
        raise vlib.MachineryError("binding self-test failed: a corrupted trace was accepted by QueueTrace")
    return "corrupted line %d rejected at line %d" % (idx + 1, consumed + 1)


def replay(path):
    binq = vlib.go_build("queue")
    verdict = vlib.Verdict(PROP)
    wd = os.path.join(vlib.WORK, PROP)
    os.makedirs(wd, exist_ok=True)
    outp = os.path.join(wd, "replay_single.json")
    if path.startswith("concurrent:"):
        seed = path.split("=")[1]
        vlib.run_driver(binq, ["-mode", "concurrent", "-out", outp, "-seed", seed, "-runs", "30"])
    else:
        first = open(path).readline()
        if '"steps"' in first:
            vlib.run_driver(binq, ["-mode", "replay", "-in", path, "-out", outp, "-cap", "2"])
        else:
            log("recorded trace: re-run `./check C14` with the same VERIF_SEED to regenerate it")
            return 0
    _collect(json.load(open(outp)), verdict, path)
    return verdict.report()
