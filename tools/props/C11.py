"""C11 - registry state is a deterministic function of the contract event log (spec/Registry.tla).

The rules (Expected = fold of Rule over the events) and the mechanism (block transaction, in-memory share map,
key manager) are two parts of one spec; TLC checks `db = Expected(prefix)`, `mem = db`, `last = block` at every
block boundary under every batching.  Behaviours (state-graph cover, simulation, attack traces of the weakened
mechanism) are replayed on the real EventHandler; the monitors compare the real database with the rules, the
real memory with the real database, and the same events under two batchings (real vs real)."""
import concurrent.futures
import hashlib
import json
import os
import random
import time

import vlib
from vlib import log

PROP = "C11"
MODULE = "MCRegistry"
SV = ["db", "mem", "ks", "exp"]

ATTACKS = [  # (cfg, what the weakened mechanism lacks)
    ("Registry_attack_opread.cfg", "SaveOperatorData reads the existing operator outside the block transaction (code before 55553ea0e)"),
    ("Registry_attack_noowner.cfg", "ValidatorRemoved without the owner check"),
    ("Registry_attack_bump.cfg", "nonce bumped only for well-formed adds"),
    ("Registry_attack_nonce.cfg", "owner signature not bound to the expected nonce"),
    ("Registry_attack_nosig.cfg", "owner signature not verified"),
    ("Registry_attack_nolen.cfg", "share data length not checked"),
    ("Registry_attack_nokey.cfg", "decrypted own key not compared with the public share"),
    ("Registry_attack_nodup.cfg", "duplicate operator ids accepted"),
    ("Registry_attack_nosize.cfg", "committee size not checked"),
    ("Registry_attack_noexist.cfg", "unknown operators accepted"),
    ("Registry_attack_overwrite.cfg", "a stored validator is replaced by another owner's registration"),
    ("Registry_attack_ownid.cfg", "own public key accepted under a second operator id"),
    ("Registry_attack_react.cfg", "ClusterReactivated does not clear the liquidation flag"),
    ("Registry_attack_liqowner.cfg", "cluster events match on the operator set only"),
    ("Registry_attack_exit.cfg", "ValidatorExited of a foreign owner yields an exit task"),
    ("Registry_attack_memdel.cfg", "Shares.Delete does not update the in-memory map"),
    ("Registry_attack_stale.cfg", "no ErrInferiorBlock guard"),
]


def _tier(tier):
    if tier == "quick":
        return dict(mc="Registry_quick.cfg", mc_stop=150, cover="Registry_cover_quick.cfg", leaves=400, edges=100,
                    sim=("Registry_sim.cfg", 220, 16), record_runs=80)
    return dict(mc="Registry_thorough.cfg", mc_stop=1500, cover="Registry_cover.cfg", leaves=6000, edges=2500,
                sim=("Registry_sim.cfg", 5000, 18), record_runs=3000)


def sample_graph(nodes, edges, inits, seed, n_leaves, n_edges, kind="cover"):
    """Behaviours from a dumped state graph: a seeded sample of BFS-tree leaves and of non-tree edges."""
    parent = vlib.bfs_paths(nodes, edges, inits)
    is_parent = set(p for p in parent.values() if p is not None)
    leaves = sorted(n for n in parent if n not in is_parent)
    tree = set((p, n) for n, p in parent.items() if p is not None)
    extra = sorted(set((a, b) for a, b, _ in edges if (a, b) not in tree and a in parent and a != b))
    rng = random.Random(seed)
    rng.shuffle(leaves)
    rng.shuffle(extra)
    picked_l, picked_e = leaves[:n_leaves], extra[:n_edges]

    def mk(path, ident):
        steps = []
        for n in path:
            st = nodes[n]
            steps.append({"act": vlib.tlaval.plain(st.get("act")),
                          "state": {k: vlib.tlaval.plain(st[k]) for k in SV if k in st}})
        return {"id": ident, "kind": kind, "steps": steps}
    behs = [mk(vlib.path_to(parent, n), "%s-leaf-%s" % (kind, n)) for n in picked_l]
    behs += [mk(vlib.path_to(parent, a) + [b], "%s-edge-%s-%s" % (kind, a, b)) for a, b in picked_e]
    return behs, {"nodes": len(nodes), "edges": len(edges), "leaves": len(leaves), "leaves_replayed": len(picked_l),
                  "non_tree_edges": len(extra), "non_tree_edges_replayed": len(picked_e)}


def dump_retry(cfg):
    for attempt in (1, 2, 3):
        rg, nodes, edges, inits = vlib.tlc_dump_graph(MODULE, cfg, timeout=1800, workers=4)
        if rg.error or rg.violation or nodes:
            return rg, nodes, edges, inits
        log("[registry] graph dump of %s ended without output (attempt %d), retrying" % (cfg, attempt))
        time.sleep(3)
    raise vlib.MachineryError("TLC produced no state graph for %s:\n%s" % (cfg, rg.out[-1500:]))


def simulate(cfg, num, depth, seed, ident, kind="sim"):
    for attempt in (1, 2, 3):
        rs, sb = vlib.tlc_simulate(MODULE, cfg, num, depth, seed, keep_vars=["act"] + SV, timeout=2400)
        if rs.violation or rs.error or len(sb) >= max(1, num // 2):
            break
        log("[registry] simulation of %s produced %d of %d behaviours (attempt %d), retrying" % (cfg, len(sb), num, attempt))
        time.sleep(3)
    if rs.violation or rs.error:
        raise vlib.MachineryError("simulation of the faithful spec (%s): %s %s" % (cfg, rs.violation, (rs.error or "")[-1500:]))
    return rs, [vlib.trace_behaviour(b, "%s-%d" % (ident, k), kind, state_vars=SV) for k, b in enumerate(sb)]


def tlc_retry(cfg, need_end=False, **kw):
    """A TLC run that ends without statistics and without a verdict was killed from outside (another check's
    timeout handler kills every TLC on the machine): run it once more before calling it a machinery failure."""
    for attempt in (1, 2, 3):
        r = vlib.tlc(MODULE, cfg, **kw)
        if r.error or r.violation or r.finished or ((r.distinct or r.generated) and not need_end):
            return r
        log("[registry] TLC run of %s ended without output (attempt %d), retrying" % (cfg, attempt))
        time.sleep(3)
    raise vlib.MachineryError("TLC produced no statistics for %s:\n%s" % (cfg, r.out[-1500:]))


def _spec_key(cfg):
    h = hashlib.sha256()
    for fn in ("Registry.tla", "MCRegistry.tla", cfg):
        h.update(open(os.path.join(vlib.SPEC, fn), "rb").read())
    return h.hexdigest()[:24]


def attack_trace(cfg):
    """Counterexample of one weakened spec (None if TLC finds none). It depends on the spec files only, so it is
    cached under .work keyed by their hash."""
    cdir = os.path.join(vlib.WORK, "registry-attack-cache")
    os.makedirs(cdir, exist_ok=True)
    cp = os.path.join(cdir, "%s-%s.json" % (cfg.replace(".cfg", ""), _spec_key(cfg)))
    if os.path.exists(cp):
        try:
            return json.load(open(cp))
        except ValueError:
            pass
    ra = tlc_retry(cfg, need_end=True, workers=2, timeout=900)
    if ra.error:
        raise vlib.MachineryError("attack config %s: %s" % (cfg, ra.error))
    steps = vlib.trace_behaviour(ra.trace, "x", "x", state_vars=SV)["steps"] if ra.violation else None
    tmp = cp + ".tmp%d" % os.getpid()
    with open(tmp, "w") as f:
        json.dump(steps, f)
    os.replace(tmp, cp)
    return steps


def attack_traces(attacks, prop):
    """Counterexamples of the weakened specs, in parallel."""
    out = []
    with concurrent.futures.ThreadPoolExecutor(max_workers=5) as ex:
        for (cfg, desc), steps in zip(attacks, ex.map(attack_trace, [a[0] for a in attacks])):
            if not steps:
                log("[%s] attack config %s produced no counterexample (not counted)" % (prop, cfg))
                continue
            out.append({"id": "attack-" + cfg.replace(".cfg", "").replace("Registry_attack_", ""), "kind": "attack:" + desc,
                        "steps": steps})
    return out


def collect(res, verdict, prop, in_path, mode):
    """Every violation gets its own replay file holding just the behaviour that tripped the monitor."""
    behs = None
    for v in res["violations"]:
        if behs is None:
            behs = {b["id"]: b for b in vlib.read_ndjson(in_path)} if in_path and os.path.exists(in_path) else {}
        b = behs.get(v["behaviour"])
        if b is not None:
            name = "%s-%s.ndjson" % (mode, v["behaviour"].replace("/", "_"))
            rp = vlib.save_replay(prop, name, json.dumps(b, separators=(",", ":")) + "\n")
        else:
            rp = in_path
        verdict.violation(v["signature"], "%s [%s step %d]" % (v["description"][:1500], v["behaviour"], v["step"]), rp)


def run(tier, seed):
    t0 = time.time()
    T = _tier(tier)
    verdict = vlib.Verdict(PROP)
    cov = {"configs": [], "attack_traces": 0, "divergences": 0}
    binr = vlib.go_build("registry")
    wd = os.path.join(vlib.WORK, PROP)
    os.makedirs(wd, exist_ok=True)

    with concurrent.futures.ThreadPoolExecutor(max_workers=4) as ex:
        # 1. exhaustive model checking of the faithful spec: every sequence, every batching (in the background)
        f_mc = ex.submit(tlc_retry, T["mc"], workers=8, timeout=T["mc_stop"] + 600, stop_after=T["mc_stop"])
        f_att = ex.submit(attack_traces, ATTACKS, PROP)
        f_sim = ex.submit(simulate, T["sim"][0], T["sim"][1], T["sim"][2], seed, "sim")
        f_cov = ex.submit(dump_retry, T["cover"])
        # 2. behaviours: state-graph cover (seeded sample), simulation, attack traces
        rg, nodes, edges, inits = f_cov.result()
        log("[C11] +%.0fs cover graph dumped" % (time.time() - t0))
        if not vlib.expect_tlc_ok(rg, T["cover"]):
            raise vlib.MachineryError("cover config violates %s" % rg.violation)
        behs, gstat = sample_graph(nodes, edges, inits, seed, T["leaves"], T["edges"])
        del nodes, edges
        cov["cover_graph"] = gstat
        states, transitions = rg.distinct, rg.generated
        rs, sbehs = f_sim.result()
        cov["sim_behaviours"] = len(sbehs)
        transitions += rs.generated
        log("[C11] +%.0fs simulation done" % (time.time() - t0))
        attack_behs = f_att.result()
        cov["attack_traces"] = len(attack_behs)
        log("[C11] +%.0fs attack traces done" % (time.time() - t0))
        inp = os.path.join(wd, "behaviours.ndjson")
        vlib.write_ndjson(inp, behs + sbehs + attack_behs)
        outp = os.path.join(wd, "replay_result.json")
        vlib.run_driver(binr, ["-mode", "replay", "-in", inp, "-out", outp, "-workers", "6"], timeout=3000)
        log("[C11] +%.0fs replay done" % (time.time() - t0))
        r = f_mc.result()
        if not vlib.expect_tlc_ok(r, T["mc"]):
            raise vlib.MachineryError("faithful Registry spec violates %s (model error, not a verdict):\n%s" %
                                      (r.violation, json.dumps(vlib.tlaval.plain([s.get("act") for s in r.trace]))))
        cov["configs"].append({"cfg": T["mc"], "distinct": r.distinct, "generated": r.generated, "depth": r.depth,
                               "exhaustive": r.finished, "wall_s": round(r.wall, 1)})
        log("[C11] TLC %s: %d distinct / %d generated, finished=%s, %.1fs" % (T["mc"], r.distinct, r.generated, r.finished, r.wall))
        states += r.distinct
        transitions += r.generated
    res = json.load(open(outp))
    # redelivered (stale) blocks are part of the simulated behaviours; their refusal is C12's monitor
    res["violations"] = [v for v in res["violations"] if not v["signature"].startswith("old-block-accepted")]
    collect(res, verdict, PROP, inp, "replay")
    cov["replayed_behaviours"] = res["behaviours"]
    cov["replayed_steps"] = res["steps"]
    cov["batching_pairs"] = res["counters"].get("batching_pairs", 0)
    cov["stale_blocks"] = res["counters"].get("stale_blocks", 0)
    cov["divergences"] += res["counters"].get("divergences", 0)
    cov["divergence_samples"] = res["divergences"][:5]
    log("[C11] replayed %d behaviours / %d steps on the real event handler: %d violations, %d divergences, %d batching pairs" %
        (res["behaviours"], res["steps"], res["counters"].get("violations", 0), res["counters"].get("divergences", 0), cov["batching_pairs"]))

    # 3. executions recorded from the real handler (driver's own random chains), validated by TLC
    tr = os.path.join(wd, "trace.ndjson")
    outr = os.path.join(wd, "record_result.json")
    vlib.run_driver(binr, ["-mode", "record", "-trace", tr, "-out", outr, "-seed", str(seed), "-runs", str(T["record_runs"]),
                           "-workers", "6"], timeout=3000)
    res2 = json.load(open(outr))
    log("[C11] +%.0fs recorded" % (time.time() - t0))
    collect(res2, verdict, PROP, None, "record")
    accepted, consumed, nlines, rt = vlib.tlc_validate_trace("RegistryTrace", "RegistryTrace.cfg", tr, timeout=2400)
    cov["recorded_chains"] = res2["behaviours"]
    cov["recorded_events"] = nlines
    cov["trace_accepted"] = accepted
    transitions += rt.generated
    if not accepted:
        lines = open(tr).read().split("\n")
        bad = lines[consumed] if consumed < len(lines) else "?"
        log("[C11] recorded trace REJECTED by the spec at line %d: %s" % (consumed + 1, bad[:600]))
        cov["divergences"] += 1
        cov["trace_rejected_at"] = {"line": consumed + 1, "event": bad[:2000]}
    log("[C11] +%.0fs trace validated" % (time.time() - t0))
    cov["binding_selftest"] = _selftest(tr, wd)
    log("[C11] +%.0fs self-test done" % (time.time() - t0))

    rc = verdict.report()
    if cov["divergences"] and rc == 0:
        log("[C11] NOTE: %d conformance divergences without a monitor trip (see evidence)" % cov["divergences"])
    coverage = {
        "states": states, "transitions": transitions,
        "traces_validated_against_impl": res["behaviours"] + (res2["behaviours"] if accepted else 0),
        "samples": res["samples"][:2] + [open(tr).read().split("\n")[0:3]],
        "evaluations": res["steps"] + res2["steps"],
        "distinct_nontrivial": res["nontrivial"] + res2["nontrivial"],
        "rule": "behaviours = seeded sample of BFS-tree leaves / non-tree edges of the dumped state graph + simulation "
                "+ attack traces + recorded chains; non-trivial = the chain holds at least one "
                "ValidatorAdded/Removed/ClusterLiquidated/Reactivated event after the setup block",
        "exhaustive": bool(r.finished),
        "detail": cov,
    }
    if tier == "thorough":
        # extension beyond the listed properties (DESIGN.md 10.7): what the same events make the node RUN (tasks, validator
        # controller, metadata loop, node start). Observations only: it never contributes a verdict to C11.
        try:
            import lifecycle
            coverage["detail"]["lifecycle_extension"] = lifecycle.run_part(tier, seed, log)
        except Exception as e:  # noqa: BLE001 - the extension must not break the property's check
            coverage["detail"]["lifecycle_extension"] = {"error": str(e)[:500]}
            log("[C11] lifecycle extension did not complete: %s" % str(e)[:200])
    vlib.write_evidence(PROP, tier, seed, "model_checking", coverage, time.time() - t0, [
        "the registration rules are the spec's Expected (fold of Rule); the monitor compares the REAL database with it",
        "exhaustive results hold for the stated constants (2 owners, 2 validators, operator ids 1..5, sequences up to MaxEvents after the setup block, all batchings)",
        "ABI-unparseable logs are outside the alphabet (the contract cannot emit them)",
        "badger's transaction atomicity is trusted; kv.NewInMemory stands in for the on-disk database",
        "beacon metadata is supplied by the harness after every block (plays the validator controller)",
    ], len(verdict.violations))
    return rc


def _selftest(tr, wd):
    """Corrupt one recorded block result and expect TLC to reject the trace."""
    lines = [x for x in open(tr).read().split("\n") if x.strip()]
    idx = None
    for i, ln in enumerate(lines):
        e = json.loads(ln)
        if e["event"] == "EndBlock" and i > 5:
            o = e["db"]["rcpt"]["o1"]
            o["on"], o["nonce"], o["fee"] = True, o["nonce"] + 1, o["fee"] or "own"
            lines[i] = json.dumps(e)
            idx = i
            break
    if idx is None:
        return "skipped"
    p = os.path.join(wd, "trace_corrupt.ndjson")
    with open(p, "w") as f:
        f.write("\n".join(lines[:idx + 1]) + "\n")
    accepted, consumed, nlines, _ = vlib.tlc_validate_trace("RegistryTrace", "RegistryTrace.cfg", p)
    if accepted:
        raise vlib.MachineryError("binding self-test failed: a corrupted trace was accepted by RegistryTrace")
    return "corrupted line %d rejected at line %d" % (idx + 1, consumed + 1)


def replay(path):
    binr = vlib.go_build("registry")
    verdict = vlib.Verdict(PROP)
    wd = os.path.join(vlib.WORK, PROP)
    os.makedirs(wd, exist_ok=True)
    outp = os.path.join(wd, "replay_single.json")
    first = open(path).readline()
    if '"steps"' not in first:
        log("recorded trace: re-run `./check C11` with the same VERIF_SEED to regenerate it")
        return 0
    vlib.run_driver(binr, ["-mode", "replay", "-in", path, "-out", outp, "-workers", "2"])
    res = json.load(open(outp))
    res["violations"] = [v for v in res["violations"] if not v["signature"].startswith("old-block-accepted")]
    collect(res, verdict, PROP, path, "replay")
    return verdict.report()
