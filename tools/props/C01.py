"""C01 - consensus agreement: honest operators never decide different values (spec/QBFT.tla)."""
import json
import os
import time

import vlib
from vlib import log
from props import qbft_common as Q

PROP = "C01"
INV = ("Agreement", "CertValid")
PROPS = ("DecidedStable",)


def run(tier, seed):
    t0 = time.time()
    verdict = vlib.Verdict(PROP)
    foreign = {}
    configs = []
    # ---- 1. exhaustive model checking, one config per adversary class (macro grain, N=4, f=1) ----
    classes = [
        dict(name="A0-silent", ByzBudget=0, ByzActs="NoActs", MaxRound=2),
        dict(name="A2-equivocating-leader-1", ByzBudget=1, ByzActs="LeaderActs", MaxRound=2, LeaderOffset=3),
    ]
    if tier == "thorough":
        classes += [
            dict(name="A2-equivocating-leader-2", ByzBudget=2, ByzActs="LeaderActs", MaxRound=2, LeaderOffset=3),
            dict(name="A1-one-arbitrary-reception", ByzBudget=1, ByzActs="AllActs", MaxRound=2),
            dict(name="A1-byz-leader", ByzBudget=1, ByzActs="AllActs", MaxRound=2, LeaderOffset=3),
            dict(name="A3-lying-round-changes", ByzBudget=2, ByzActs="RCActs", MaxRound=2),
            dict(name="A4-certificates", ByzBudget=2, ByzActs="DecidedActs", MaxRound=2),
            dict(name="A0-offset1", ByzBudget=0, ByzActs="NoActs", MaxRound=2, LeaderOffset=1),
            dict(name="A0-offset2", ByzBudget=0, ByzActs="NoActs", MaxRound=2, LeaderOffset=2),
            dict(name="A0-same-start-values", ByzBudget=0, ByzActs="NoActs", MaxRound=2, StartValue="SVsame"),
            dict(name="A0-three-rounds", ByzBudget=0, ByzActs="NoActs", MaxRound=3),
        ]
    states = transitions = 0
    for c in classes:
        name = c.pop("name")
        budget = 1500 if tier == "thorough" else 240
        info = Q.run_exhaustive(PROP, name, invariants=INV, properties=PROPS, timeout=budget + 120, stop_after=budget,
                                workers=vlib.NCPU if tier == "thorough" else 8, **c)
        configs.append(info)
        states += info["distinct"]
        transitions += info["generated"]
    # ---- 2. fine-grain behaviours (one ProcessMsg per step, unrestricted adversary) replayed on real controllers ----
    nsim = 80 if tier == "quick" else 1500
    behs, gen = Q.simulate(PROP, "sim-fine", nsim, 45, seed, Q.params_of(), MaxRound=4, ByzBudget=8, ByzActs="AllActs",
                           Macro="FALSE", invariants=INV, workers=4 if tier == "quick" else 12)
    transitions += gen
    behs2, gen2 = Q.simulate(PROP, "sim-byz-leader", nsim // 2, 40, seed + 1, Q.params_of(LeaderOffset=3), MaxRound=3,
                             LeaderOffset=3, ByzBudget=8, ByzActs="AllActs", Macro="FALSE", invariants=INV,
                             workers=4 if tier == "quick" else 12)
    transitions += gen2
    faulty = Q.faulty_copies(behs, len(behs) // 2)
    behs7, gen7, info7 = Q.committee7(PROP, tier, seed, INV)
    transitions += gen7
    if tier == "thorough":
        # committee 7 with both faulty members silent: a time box, usually not exhaustive (772 k distinct in 300 s)
        info = Q.run_exhaustive(PROP, "A0-N7-two-silent", invariants=INV, properties=PROPS, timeout=1020, stop_after=900,
                                workers=vlib.NCPU, N=7, F=2, Byz="{6, 7}", ByzBudget=0, ByzActs="NoActs", MaxRound=2)
        info["scope_note"] = "time box; not part of the exhaustive claim"
        info7["timebox"] = info
        states += info["distinct"]
        transitions += info["generated"]
    res, inp = Q.replay(PROP, behs + behs2 + faulty + behs7, "sim")
    Q.collect(PROP, res, verdict, inp, foreign)
    # ---- 3. attack traces (weakened specs) replayed on the real code ----
    abehs, stale = Q.attack_behaviours(PROP, tier, PROP)
    ares, ainp = Q.replay(PROP, abehs, "attacks")
    Q.collect(PROP, ares, verdict, ainp, foreign)

    selftest = Q.binding_selftest(PROP, behs)
    rc = verdict.report()
    div = res["counters"].get("divergences", 0)
    if div:
        log("[C01] NOTE: %d conformance divergences (real state != spec state) without a monitor trip" % div)
    cov = {
        "states": states, "transitions": transitions,
        "traces_validated_against_impl": res["behaviours"] + ares["behaviours"],
        "samples": res["samples"][:1],
        "evaluations": res["steps"] + ares["steps"],
        "distinct_nontrivial": res["nontrivial"] + ares["nontrivial"],
        "rule": "behaviours = TLC -simulate runs of the fine-grain spec (one delivery per step, Byzantine operator 4 "
                "with real keys) + attack traces of weakened specs; non-trivial = at least one message reception",
        "exhaustive": all(c["exhaustive"] for c in configs),
        "detail": {"configs": configs, "attack_traces": [b["id"] for b in abehs], "stale_attacks": stale,
                   "divergences": div, "binding_selftest": selftest, "divergence_samples": res["divergences"][:5],
                   "attack_steps_refused": ares["counters"].get("attack_steps_refused", 0),
                   "foreign_signatures_seen": foreign, "committee7": info7,
                   "exhaustive_scope": "per adversary class only (see configs); never for all Byzantine behaviours"},
    }
    vlib.write_evidence(PROP, tier, seed, "model_checking", cov, time.time() - t0, [
        "exhaustive classes: N=4, f=1, Byzantine operator 4, 2 valid values + 1 invalid, rounds <= MaxRound of each config",
        "committee 7 (f=2, Byzantine operators 6 and 7): macro-grain simulations replayed on real controllers only",
        "macro grain (quorum-at-once delivery of prepares/commits) in exhaustive configs; fine grain in replays",
        "BLS signatures are unforgeable (adversary signs only with operator 4's key)",
    ], len(verdict.violations))
    return rc


def replay(path):
    verdict = vlib.Verdict(PROP)
    binq = vlib.go_build("qbft")
    outp = os.path.join(vlib.WORK, PROP, "replay_single.json")
    os.makedirs(os.path.dirname(outp), exist_ok=True)
    vlib.run_driver(binq, ["-in", path, "-out", outp])
    Q.collect(PROP, json.load(open(outp)), verdict, path, {})
    return verdict.report()
