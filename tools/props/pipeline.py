"""Pipeline - the per-validator message pipeline (spec/Pipeline.tla), an extension beyond the fixed property list.

Queue.tla is the priority queue alone, Runner.tla the duty runner alone, Timer.tla the round timer alone.  Pipeline.tla
is what connects them inside protocol/v2/ssv/validator: HandleMessage / controller.ExecuteDuty / onTimeout push into the
per-role queue, the ConsumeQueue goroutine rebuilds the queue state from the runner, chooses the filter, pops and calls
ProcessMessage, which routes to the runner (or to Controller.OnTimeout / OnExecuteDuty).  Facts P1..P10 are checked by
TLC; behaviours (state-graph cover, simulation, counterexamples of the facts that do NOT hold) are stepped through a REAL
validator.Validator with its REAL consumer goroutines (harness/cmd/pipeline), and the driver's own random executions -
consumers running freely, the real round timer firing on its own goroutine - are validated by TLC against
PipelineTrace.tla (high-water mark of the consumed line index; a corrupted field and a dropped line must be rejected).

Nothing here is a verdict: a fact that fails in the model AND on the real code is an OBSERVATION
(docs/observations/PIPE-*.md); a mismatch between the real code and the spec is a divergence (counted).
Stand-alone: `python3 tools/props/pipeline.py quick|thorough` (exit 0 unless the machinery failed: exit 2); the summary
is written to .work/pipeline/summary.json.  Registration: run_part(tier, seed, log) -> coverage dict."""
import concurrent.futures
import hashlib
import json
import os
import re
import sys
import threading
import time

sys.path.insert(0, os.path.dirname(os.path.dirname(os.path.abspath(__file__))))
import vlib  # noqa: E402

NAME = "pipeline"
MODULE = "MCPipeline"
SV = ["inbox", "list", "pc", "snap", "cur", "rn", "started", "stopped", "nextId"]
SPEC_FILES = ("Pipeline.tla", "MCPipeline.tla")
TRACE_FILES = ("Pipeline.tla", "PipelineTrace.tla", "PipelineTrace.cfg")

# exhaustive configs of the faithful spec: every listed fact must hold (a violation = model error = exit 2)
MC = {
    "quick": [("Pipeline_att1_quick.cfg", 2), ("Pipeline_att2_quick.cfg", 2), ("Pipeline_prop2_quick.cfg", 2),
              ("Pipeline_live_quick.cfg", 1), ("Pipeline_stop_quick.cfg", 1)],
    "thorough": [("Pipeline_att1_quick.cfg", 2), ("Pipeline_att2_quick.cfg", 2), ("Pipeline_prop1_quick.cfg", 2),
                 ("Pipeline_prop2_quick.cfg", 2), ("Pipeline_two_quick.cfg", 3), ("Pipeline_live_quick.cfg", 1),
                 ("Pipeline_stop_quick.cfg", 1), ("Pipeline_att1_fine.cfg", 2), ("Pipeline_two_fine.cfg", 3),
                 ("Pipeline_att_thorough.cfg", 3), ("Pipeline_prop_thorough.cfg", 3), ("Pipeline_two_thorough.cfg", 3),
                 ("Pipeline_live_thorough.cfg", 2)],
}
# facts that are NOT facts of the code: the counterexample is replayed on the real validator
OBS = [
    ("Pipeline_obs_P2x.cfg", "P2x_NoConsWithoutInstance",
     "a running duty without a running instance (pre-consensus phase) gets every consensus message: the filter is FilterAny"),
    ("Pipeline_obs_P3x.cfg", "P3x_AllPopped",
     "a message that arrives after the duty finished stays in the queue until the next ExecuteDuty event (no consumer step is enabled)"),
    ("Pipeline_obs_P3s.cfg", "P3_NoSilentLoss",
     "Stop discards what is queued; the statement of controller.ExecuteDuty on the stopped validator dereferences a nil queue"),
    ("Pipeline_obs_P4y.cfg", "P4y_NoEarlyConsumed",
     "a consensus message of the NEXT duty that arrives while the previous duty still runs is handed over and rejected as a future message"),
    ("Pipeline_obs_P6.cfg", "P6_StaleTimeoutNoop",
     "proposer: the timeout of the abandoned previous instance bumps its round during the next duty's pre-consensus phase"),
    ("Pipeline_obs_P7.cfg", "P2_FilterAtHandler",
     "Validator.StartDuty called directly (not through the queue) between snapshot and handler: a message the new state's filter holds back is handed over"),
    ("Pipeline_obs_P7s.cfg", "P7_SnapshotFresh",
     "Validator.StartDuty called directly makes the consumer's snapshot stale"),
    ("Pipeline_obs_P8x.cfg", "P8x_Bounded",
     "the capacity bounds the channel only: messages the filter holds back pile up in the consumer's list"),
    ("Pipeline_obs_P9x.cfg", "P9x_DecidedNotHeld",
     "a decided message for the running instance is held back while no proposal was accepted for the round"),
    ("Pipeline_obs_P10x.cfg", "P10x_DecidedOverCommit",
     "isDecidedMesssage uses len(Signers) > Quorum: a decided message of exactly 2f+1 signers is prioritised as a plain commit"),
]
# P4x (a fast Pop skips the inbox) cannot be forced by a sequential harness: model + recorded executions only
OBS_MODEL_ONLY = [("Pipeline_obs_P4x.cfg", "P4x_ExecFirstAll",
                   "a Pop called within 1 ms of the last inbox read pops from the list while an ExecuteDuty event waits in the channel")]
TIER = {
    # cover: (cfg, BFS-tree leaves replayed, non-tree edges replayed)
    "quick": dict(cover=[("Pipeline_cover_att.cfg", 70, 30), ("Pipeline_cover_prop.cfg", 70, 30), ("Pipeline_cover_two.cfg", 70, 30)],
                  sim=[("Pipeline_sim.cfg", 40, 70)], runs=24, workers=4, budget=300),
    "thorough": dict(cover=[("Pipeline_cover_att1.cfg", 1200, 500), ("Pipeline_cover_att_thorough.cfg", 1200, 500),
                            ("Pipeline_cover_prop_thorough.cfg", 1200, 500), ("Pipeline_cover_two_thorough.cfg", 1200, 500)],
                     sim=[("Pipeline_sim.cfg", 900, 90), ("Pipeline_sim_ext.cfg", 300, 70)], runs=260, workers=6, budget=700),
}


class _Slots:
    """At most `n` TLC worker threads at a time over all concurrent TLC runs of this tool (shared, loaded machine)."""

    def __init__(self, n):
        self.n, self.cv = n, threading.Condition()

    def run(self, w, fn):
        with self.cv:
            while self.n < w:
                self.cv.wait()
            self.n -= w
        try:
            return fn()
        finally:
            with self.cv:
                self.n += w
                self.cv.notify_all()


SLOTS = _Slots(6)


def _cache_dir():
    d = os.path.join(vlib.WORK, NAME, "cache")
    os.makedirs(d, exist_ok=True)
    return d


def _wd(tier, seed):
    alt = "" if vlib.HARNESS == vlib.HARNESS_SRC else "-" + os.path.basename(os.path.dirname(vlib.BINDIR))
    d = os.path.join(vlib.WORK, NAME, "%s-s%s%s" % (tier, seed, alt))
    os.makedirs(d, exist_ok=True)
    return d


def _key(cfg):
    h = hashlib.sha256()
    for fn in SPEC_FILES + (cfg,):
        h.update(open(os.path.join(vlib.SPEC, fn), "rb").read())
    return h.hexdigest()[:24]


def _cached(kind, cfg, compute):
    """TLC results that depend on the specification only are cached under .work by the hash of the spec files."""
    cp = os.path.join(_cache_dir(), "%s-%s-%s.json" % (kind, cfg.replace(".cfg", ""), _key(cfg)))
    if os.path.exists(cp):
        try:
            d = json.load(open(cp))
            d["cached"] = True
            return d
        except ValueError:
            pass
    d = compute()
    tmp = cp + ".tmp%d" % os.getpid()
    with open(tmp, "w") as f:
        json.dump(d, f)
    os.replace(tmp, cp)
    d["cached"] = False
    return d


def _tlc_retry(cfg, need_end, **kw):
    """A TLC run that ends without statistics and without a verdict was killed from outside: run it once more."""
    for attempt in (1, 2, 3):
        r = vlib.tlc(MODULE, cfg, **kw)
        if r.error or r.violation or r.finished or ((r.distinct or r.generated) and not need_end):
            return r
        time.sleep(3)
    raise vlib.MachineryError("TLC produced no statistics for %s:\n%s" % (cfg, r.out[-1500:]))


_TEMPORAL = re.compile(r'Error: Temporal property (\S+) was violated|Error: Temporal properties were violated')


def _lasso(r):
    """TLC reports a violated liveness property as an error followed by the lasso; the last 'state' is 'Stuttering' or
    'Back to state': cut it off and parse the rest."""
    m = _TEMPORAL.search(r.out)
    if not m:
        return None, None
    txt = r.out[m.end():]
    cut = re.search(r'^State \d+: Stuttering|^Back to state', txt, re.M)
    if cut:
        txt = txt[:cut.start()]
    return (m.group(1) or "temporal"), vlib.parse_tlc_trace(txt)


def model_check(cfg, workers, budget):
    def compute():
        r = SLOTS.run(workers, lambda: _tlc_retry(cfg, False, workers=workers, timeout=budget + 300, stop_after=budget))
        prop, _ = _lasso(r)
        if prop:
            r.violation, r.error = prop, None
        if r.error:
            raise vlib.MachineryError("TLC error in %s: %s" % (cfg, r.error))
        return {"cfg": cfg, "distinct": r.distinct, "generated": r.generated, "depth": r.depth, "exhaustive": bool(r.finished),
                "wall_s": round(r.wall, 1), "violation": r.violation,
                "trace": [vlib.tlaval.plain(s.get("act")) for s in r.trace] if r.violation else None}
    d = _cached("mc", cfg, compute)
    if d["violation"]:
        raise vlib.MachineryError("the faithful Pipeline spec violates %s in %s (model error):\n%s" %
                                  (d["violation"], cfg, json.dumps(d["trace"])))
    return d


def observation_trace(cfg, fact):
    def compute():
        r = SLOTS.run(1, lambda: _tlc_retry(cfg, True, workers=1, timeout=900))
        violated, trace = r.violation, r.trace
        prop, lasso = _lasso(r)
        if prop:
            violated, trace, r.error = prop, lasso, None
        if r.error:
            raise vlib.MachineryError("TLC error in %s: %s" % (cfg, r.error))
        steps = vlib.trace_behaviour(trace, "x", "x", state_vars=SV)["steps"] if violated else None
        return {"cfg": cfg, "fact": fact, "violated": violated, "steps": steps, "distinct": r.distinct, "generated": r.generated,
                "wall_s": round(r.wall, 1)}
    return _cached("obs", cfg, compute)


def cover_graph(cfg):
    def compute():
        for attempt in (1, 2, 3):
            rg, nodes, edges, inits = SLOTS.run(2, lambda: vlib.tlc_dump_graph(MODULE, cfg, timeout=1500, workers=2))
            if rg.error or rg.violation or nodes:
                break
            time.sleep(3)
        if rg.error or rg.violation or not nodes:
            raise vlib.MachineryError("cover config %s: %s %s" % (cfg, rg.violation, (rg.error or rg.out[-1500:])))
        keep = ["act"] + SV
        return {"distinct": rg.distinct, "generated": rg.generated, "inits": inits,
                "nodes": {k: {x: vlib.tlaval.plain(v[x]) for x in keep if x in v} for k, v in nodes.items()},
                "edges": [[a, b] for a, b, _ in edges]}
    return _cached("graph", cfg, compute)


def sample_graph(g, seed, n_leaves, n_edges, tag):
    import random
    nodes, edges, inits = g["nodes"], [(a, b, "") for a, b in g["edges"]], g["inits"]
    parent = vlib.bfs_paths(nodes, edges, inits)
    is_parent = set(p for p in parent.values() if p is not None)
    leaves = sorted(n for n in parent if n not in is_parent)
    tree = set((p, n) for n, p in parent.items() if p is not None)
    extra = sorted(set((a, b) for a, b, _ in edges if (a, b) not in tree and a in parent and a != b))
    rng = random.Random(seed)
    rng.shuffle(leaves)
    rng.shuffle(extra)

    def mk(path, ident):
        return {"id": ident, "kind": "cover",
                "steps": [{"act": nodes[n].get("act"), "state": {k: nodes[n][k] for k in SV if k in nodes[n]}} for n in path]}
    behs = [mk(vlib.path_to(parent, n), "%s-leaf-%s" % (tag, n)) for n in leaves[:n_leaves]]
    behs += [mk(vlib.path_to(parent, a) + [b], "%s-edge-%s-%s" % (tag, a, b)) for a, b in extra[:n_edges]]
    return behs, {"nodes": len(nodes), "edges": len(edges), "leaves": len(leaves), "leaves_replayed": min(n_leaves, len(leaves)),
                  "non_tree_edges": len(extra), "non_tree_edges_replayed": min(n_edges, len(extra))}


def simulate(cfg, num, depth, seed):
    for attempt in (1, 2, 3):
        rs, sb = SLOTS.run(1, lambda: vlib.tlc_simulate(MODULE, cfg, num, depth, seed, keep_vars=["act"] + SV, timeout=2400))
        if rs.violation or rs.error or len(sb) >= max(1, num // 2):
            break
        time.sleep(3)
    if rs.violation or rs.error:
        raise vlib.MachineryError("simulation of the faithful spec: %s %s" % (rs.violation, (rs.error or "")[-1500:]))
    tag = cfg.replace("Pipeline_", "").replace(".cfg", "")
    return rs, [vlib.trace_behaviour(b, "%s-%d" % (tag, k), "sim", state_vars=SV) for k, b in enumerate(sb)]


# ----------------------------------------------------------------------------------------
# trace validation with hidden steps: acceptance = high-water mark of the consumed line index

_HWM = re.compile(r'<<"HWM", (\d+), (\d+)>>')


def validate_trace(path, name="PipelineTrace-tv", timeout=2400):
    """Returns (accepted, consumed lines, lines, TLCResult)."""
    content = open(path).read()
    nlines = len([x for x in content.split("\n") if x.strip()])
    r = SLOTS.run(1, lambda: vlib.tlc("PipelineTrace", "PipelineTrace.cfg", name=name, workers=1, timeout=timeout,
                                      files={"trace.ndjson": content}))
    m = _HWM.findall(r.out)
    if r.violation:   # an invariant (a P-fact) failed on a state of a recorded execution: reported, consumed up to there
        at = r.trace[-1].get("l", 1) if r.trace else 1
        return False, max(0, int(vlib.tlaval.plain(at)) - 1), nlines, r
    if not m:
        raise vlib.MachineryError("trace validation produced no high-water mark:\n%s" % (r.error or r.out[-2000:]))
    hwm = int(m[-1][0])
    return hwm == nlines + 1, max(0, hwm - 1), nlines, r


def _selftest(tr, wd):
    """The binding is real: (1) one recorded field corrupted (the round of a probed snapshot / the message a Pop returned),
    (2) one line dropped (a Pop return) - TLC must reject both, at that line."""
    lines = [x for x in open(tr).read().split("\n") if x.strip()]
    out = {}
    for kind in ("field", "pop", "drop"):
        idx = None
        mut = list(lines)
        for i, ln in enumerate(lines):
            e = json.loads(ln)
            if i < 12:
                continue
            if kind == "field" and e["event"] == "PopEnter" and e["snap"]["fk"] == "nopc":
                e["snap"]["round"] += 1
                mut[i], idx, what = json.dumps(e), i, "snap.round of a PopEnter"
                break
            if kind == "pop" and e["event"] == "PopEnter" and e["rn"]["duty"] != 0 and e["done"] != 0:
                e["rn"]["ch"] += 1
                mut[i], idx, what = json.dumps(e), i, "rn.ch (controller height) of a PopEnter"
                break
            if kind == "drop" and e["event"] == "PopReturn":
                del mut[i]
                idx, what = i, "a PopReturn line removed"
                break
        if idx is None:
            out[kind] = {"status": "skipped"}
            continue
        end = min(len(mut), idx + 12)
        for j in range(idx + 1, len(mut)):        # keep the rest of that execution only
            if json.loads(mut[j])["event"] == "Reset":
                end = j
                break
            end = j + 1
        p = os.path.join(wd, "trace_corrupt_%s.ndjson" % kind)
        with open(p, "w") as f:
            f.write("\n".join(mut[:end]) + "\n")
        accepted, consumed, nlines, _ = validate_trace(p, name="PipelineTrace-selftest-" + kind, timeout=900)
        if accepted:
            raise vlib.MachineryError("binding self-test failed: a corrupted trace (%s, line %d) was accepted by PipelineTrace" % (what, idx + 1))
        out[kind] = {"status": "rejected", "corrupted_line": idx + 1, "what": what, "rejected_at_line": consumed + 1}
    return out


def run_part(tier, seed, log=vlib.log):
    """One run of the pipeline extension. Returns the coverage dict (states / transitions, configs, behaviours_replayed,
    steps_replayed, divergences + samples, recorded executions / events, trace_accepted, binding_selftest, observations with
    the model verdict and the real-code verdict, real_code_fact_failures). Raises vlib.MachineryError when the machinery
    itself fails (TLC error, a listed fact violated in the faithful spec, driver crash, corrupted trace accepted)."""
    t0 = time.time()
    T = TIER[tier]
    wd = _wd(tier, seed)
    cov = {"tier": tier, "seed": seed, "configs": [], "observations": [], "divergences": 0}
    binr = vlib.go_build(NAME)
    log("[pipeline] +%.0fs driver built" % (time.time() - t0))

    tr = os.path.join(wd, "trace.ndjson")
    outr = os.path.join(wd, "record_result.json")

    def record_and_validate():
        vlib.run_driver(binr, ["-mode", "record", "-trace", tr, "-out", outr, "-seed", str(seed), "-runs", str(T["runs"])], timeout=3000)
        res2 = json.load(open(outr))
        with concurrent.futures.ThreadPoolExecutor(max_workers=2) as ex2:
            f_st = ex2.submit(_selftest, tr, wd)
            acc = validate_trace(tr)
            st = f_st.result()
        return res2, acc, st

    with concurrent.futures.ThreadPoolExecutor(max_workers=14) as ex:
        f_rec = ex.submit(record_and_validate)
        f_cov = [ex.submit(cover_graph, c[0]) for c in T["cover"]]
        f_sim = [ex.submit(simulate, c, n, d, seed) for c, n, d in T["sim"]]
        f_obs = [ex.submit(observation_trace, cfg, fact) for cfg, fact, _ in OBS + OBS_MODEL_ONLY]
        f_mc = [ex.submit(model_check, cfg, w, T["budget"]) for cfg, w in MC[tier]]

        behs, cov["cover_graphs"], gstates, gtrans = [], [], 0, 0
        for (ccfg, nl, ne), f in zip(T["cover"], f_cov):
            g = f.result()
            b1, gstat = sample_graph(g, seed, nl, ne, ccfg.replace("Pipeline_", "").replace(".cfg", ""))
            behs += b1
            gstates, gtrans = gstates + g["distinct"], gtrans + g["generated"]
            cov["cover_graphs"].append(dict(gstat, cfg=ccfg, cached=g["cached"]))
            log("[pipeline] +%.0fs cover graph %s: %s" % (time.time() - t0, ccfg, gstat))
            del g
        obehs = []
        for (cfg, fact, desc), f in zip(OBS + OBS_MODEL_ONLY, f_obs):
            o = f.result()
            model_only = (cfg, fact, desc) in OBS_MODEL_ONLY
            if not o["steps"]:
                log("[pipeline] %s: the fact holds in the model (no counterexample)" % cfg)
                cov["observations"].append({"fact": fact, "model": "holds", "cfg": cfg})
                continue
            if not model_only:
                obehs.append({"id": "obs-" + cfg.replace("Pipeline_obs_", "").replace(".cfg", ""), "kind": "obs:" + desc, "steps": o["steps"]})
            cov["observations"].append({"fact": fact, "model": "violated", "cfg": cfg, "what": desc, "trace_steps": len(o["steps"]),
                                        "replayable": not model_only, "trace": [s["act"] for s in o["steps"]]})
        log("[pipeline] +%.0fs %d counterexamples of facts that do not hold" % (time.time() - t0, len(obehs)))

        def replay(behaviours, tag, workers):
            inp = os.path.join(wd, "behaviours-%s.ndjson" % tag)
            outp = os.path.join(wd, "replay_result-%s.json" % tag)
            vlib.write_ndjson(inp, behaviours)
            vlib.run_driver(binr, ["-mode", "replay", "-in", inp, "-out", outp, "-workers", str(workers)], timeout=3000)
            return json.load(open(outp))
        f_rc = ex.submit(replay, behs, "cover", T["workers"])
        f_ro = ex.submit(replay, obehs, "observations", 2)
        sbehs, sim_gen = [], 0
        for f in f_sim:
            rs, sb = f.result()
            sbehs += sb
            sim_gen += rs.generated
        cov["sim_behaviours"] = len(sbehs)
        log("[pipeline] +%.0fs simulation: %d behaviours" % (time.time() - t0, len(sbehs)))
        res_s = replay(sbehs, "sim", T["workers"])
        res, reso = f_rc.result(), f_ro.result()
        for k in ("behaviours", "steps", "nontrivial"):
            res[k] = res.get(k, 0) + res_s.get(k, 0) + reso.get(k, 0)
        for k in ("divergences", "samples"):
            res[k] = (res.get(k) or []) + (res_s.get(k) or [])
        for r_ in (res_s, reso):
            for k, v in (r_.get("counters") or {}).items():
                res["counters"][k] = res["counters"].get(k, 0) + v
        log("[pipeline] +%.0fs replayed %d behaviours / %d steps on the real validator: %d divergences" %
            (time.time() - t0, res["behaviours"], res["steps"], res["counters"].get("divergences", 0)))

        # the observation traces on their own: which facts fail on the REAL code
        for o in cov["observations"]:
            if o["model"] != "violated" or not o.get("replayable"):
                continue
            bid = "obs-" + o["cfg"].replace("Pipeline_obs_", "").replace(".cfg", "")
            hit = [s for s in reso["samples"] if isinstance(s, dict) and s.get("fact") == o["fact"] and s.get("behaviour") == bid]
            o["real_code"] = "reproduced" if hit else "not reproduced"
            if hit:
                o["real_state"] = hit[0]["real"]
            extra = [s for s in reso["samples"] if isinstance(s, dict) and s.get("behaviour") == bid and s.get("fact") != o["fact"]]
            if extra:
                o["also_observed"] = sorted(set(s["fact"] for s in extra))
                for s in extra:
                    if s["fact"] == "ExecuteDutyAfterStopPanics":
                        o["execute_duty_after_stop"] = s["real"]
        cov["observation_replay_divergences"] = reso["counters"].get("divergences", 0)
        cov["observation_divergence_samples"] = reso["divergences"][:4]

        res2, (accepted, consumed, nlines, rt), selftest = f_rec.result()
        log("[pipeline] +%.0fs recorded %d executions / %d events, trace %s" %
            (time.time() - t0, res2["behaviours"], nlines, "accepted" if accepted else "REJECTED at line %d" % (consumed + 1)))
        states = transitions = 0
        for f in f_mc:
            d = f.result()
            cov["configs"].append({k: d[k] for k in ("cfg", "distinct", "generated", "depth", "exhaustive", "wall_s", "cached")})
            states += d["distinct"]
            transitions += d["generated"]
            log("[pipeline] TLC %s: %d distinct / %d generated, depth %d, exhaustive=%s, %.1fs%s" %
                (d["cfg"], d["distinct"], d["generated"], d["depth"], d["exhaustive"], d["wall_s"], " (cached)" if d["cached"] else ""))

    cov["states"] = states + gstates
    cov["transitions"] = transitions + gtrans + sim_gen + rt.generated
    cov["behaviours_replayed"] = res["behaviours"]
    cov["steps_replayed"] = res["steps"]
    cov["fact_evaluations_on_real_state"] = res["counters"].get("fact_evaluations", 0)
    cov["divergences"] = res["counters"].get("divergences", 0) - reso["counters"].get("divergences", 0)
    cov["divergence_samples"] = res["divergences"][:6]
    cov["real_code_fact_failures"] = {k[4:]: v for k, v in sorted(res["counters"].items()) if k.startswith("obs:")}
    cov["recorded_executions"] = res2["behaviours"]
    cov["recorded_events"] = nlines
    cov["recorded_counters"] = res2["counters"]
    cov["traces_validated"] = res2["behaviours"] if accepted else 0
    cov["trace_accepted"] = accepted
    cov["trace_states"] = rt.distinct
    if not accepted:
        lines = open(tr).read().split("\n")
        bad = lines[consumed] if consumed < len(lines) else "?"
        log("[pipeline] recorded trace REJECTED by the spec at line %d%s: %s" %
            (consumed + 1, " (invariant %s)" % rt.violation if rt.violation else "", bad[:700]))
        cov["divergences"] += 1
        cov["trace_rejected_at"] = {"line": consumed + 1, "event": bad[:2000], "invariant": rt.violation}
    cov["binding_selftest"] = selftest
    cov["samples"] = res["samples"][:3]
    cov["wall_s"] = round(time.time() - t0, 1)
    cov["workdir"] = wd
    with open(os.path.join(wd, "coverage.json"), "w") as f:
        json.dump(cov, f, indent=1, sort_keys=True)
    sd = os.path.join(vlib.WORK, NAME)
    if vlib.HARNESS == vlib.HARNESS_SRC:
        tmp = os.path.join(sd, "summary.json.tmp%d" % os.getpid())
        with open(tmp, "w") as f:
            json.dump(cov, f, indent=1, sort_keys=True)
        os.replace(tmp, os.path.join(sd, "summary.json"))
    return cov


def summary(cov, log=vlib.log):
    log("")
    log("pipeline %s seed=%s: %.0fs" % (cov["tier"], cov["seed"], cov["wall_s"]))
    log("  TLC: %d distinct states over %d configs (all listed facts hold: %s)" %
        (cov["states"], len(cov["configs"]), ", ".join("%s=%d%s" % (c["cfg"].replace("Pipeline_", "").replace(".cfg", ""), c["distinct"],
                                                                  "" if c["exhaustive"] else "(partial)") for c in cov["configs"])))
    log("  replay: %d behaviours / %d steps on the real validator, %d divergences; trace validation: %d executions / %d events %s; self-test: %s" %
        (cov["behaviours_replayed"], cov["steps_replayed"], cov["divergences"], cov["recorded_executions"], cov["recorded_events"],
         "accepted" if cov["trace_accepted"] else "REJECTED", {k: v.get("status") for k, v in cov["binding_selftest"].items()}))
    for o in cov["observations"]:
        if o["model"] == "violated":
            log("  OBSERVATION %s: violated in the model, %s on the real code - %s" %
                (o["fact"], o.get("real_code", "not replayable (model only)"), o["what"]))
    if cov["real_code_fact_failures"]:
        log("  facts failing on real states during replay (observations, no verdict): %s" % cov["real_code_fact_failures"])
    for d in cov["divergence_samples"][:3]:
        log("  DIVERGENCE %s" % json.dumps(d)[:600])


def main(argv):
    tier = argv[1] if len(argv) > 1 else "quick"
    if tier not in TIER:
        print("usage: pipeline.py quick|thorough")
        return 2
    try:
        cov = run_part(tier, vlib.seed_from_env())
        summary(cov)
        return 0
    except vlib.MachineryError as e:
        vlib.log("MACHINERY FAILURE: %s" % e)
        return 2
    except Exception as e:  # noqa: BLE001
        import traceback
        traceback.print_exc()
        vlib.log("MACHINERY FAILURE: %s" % e)
        return 2


if __name__ == "__main__":
    sys.exit(main(sys.argv))
