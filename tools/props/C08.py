"""C08 - no network input can crash message validation or decoding (spec/MsgValidation.tla, shared run with C09).

Structured half: model checking (every class of the alphabets after every accepted prefix, on the real validator).
Byte half: seeded perturbation of the model-generated messages - exploration, declared as such in the evidence."""
import time

import vlib
from props import msgval_common as mc

PROP = "C08"


def run(tier, seed):
    t0 = time.time()
    res = mc.run_shared(tier, seed)
    return mc.finish(PROP, tier, seed, res, t0)


def replay(path):
    return mc.replay(PROP, path)
