"""C15 - a duty height once started or decided is never run again, even after restart (spec/Controller.tla)."""
import json
import os
import time
from concurrent.futures import ThreadPoolExecutor

import vlib
from vlib import log

PROP = "C15"
STATE_VARS = ["height", "stored", "rs", "db"]
FAITHFUL = ["ContainerOK", "TopIsHeight", "StorageShape", "RestartResumes", "NoRerun", "NoRerunCtl", "HeightMonotone",
            "HighestMonotone", "HistMonotoneExceptRerun", "RestartCoversLearned", "HistBehindHighest"]
# *_rfaults_* configs (failing / empty / undecodable storage READS): the pinned code does not satisfy NoRerun and
# HighestMonotone there (findings below); what is checked exhaustively is that those are the ONLY ways they fail
FAITHFUL_RF = ["ContainerOK", "TopIsHeight", "StorageShape", "RestartResumes", "NoRerunExceptFailedLoad", "NoRerunCtl",
               "HeightMonotone", "HighestMonotoneExceptFailedLoad", "HistMonotoneExceptRerun", "RestartCoversLearned",
               "HistBehindHighest"]


def _tier(tier):
    if tier == "quick":
        # (cfg, stop_after seconds, workers); *_faults_*: failing storage writes (MaxWriteFaults > 0)
        return dict(mc=[("Controller_quick_light.cfg", 45, 4), ("Controller_quick_full.cfg", 45, 4),
                        ("Controller_quick_faults_light.cfg", 45, 2), ("Controller_quick_faults_full.cfg", 45, 2),
                        ("Controller_quick_rfaults_light.cfg", 45, 2), ("Controller_quick_rfaults_full.cfg", 45, 2)],
                    sims=[("Controller_sim_light.cfg", 170, 14), ("Controller_sim_full.cfg", 170, 14),
                          ("Controller_sim_rfaults_light.cfg", 100, 14), ("Controller_sim_rfaults_full.cfg", 100, 14)],
                    covers=[("Controller_cover_rfaults_light.cfg", 300, 150)] if os.environ.get("VERIF_C15_COVER") else [],
                    record_runs=100)   # the graph dump costs minutes on a loaded machine: thorough tier (or VERIF_C15_COVER=1)
    return dict(mc=[("Controller_thorough_light.cfg", 1800, 4), ("Controller_thorough_full.cfg", 1800, 4),
                    ("Controller_thorough_full3.cfg", 1800, 4),
                    ("Controller_thorough_faults_light.cfg", 1800, 3), ("Controller_thorough_faults_full.cfg", 1800, 3),
                    ("Controller_thorough_rfaults_light.cfg", 1800, 3), ("Controller_thorough_rfaults_full.cfg", 1800, 3)],
                sims=[("Controller_sim_light.cfg", 1500, 18), ("Controller_sim_full.cfg", 1500, 18),
                      ("Controller_sim_rfaults_light.cfg", 1000, 18), ("Controller_sim_rfaults_full.cfg", 1000, 18)],
                covers=[("Controller_cover_rfaults_light.cfg", 100000, 4000), ("Controller_cover_rfaults_full.cfg", 100000, 4000)],
                record_runs=1500)


ATTACKS = [  # (cfg, named deviation, property whose counterexample is the attack trace)
    ("Controller_attack_compare.cfg", "UponDecided compares with the certificate's own round only (before 3b0a60d89): HighestMonotone"),
    ("Controller_attack_savealways.cfg", "SaveInstance treats every decided instance as the highest: HighestMonotone"),
    ("Controller_attack_pastguard.cfg", "StartNewInstance without the past-height guard: NoRerunCtl"),
    ("Controller_attack_existing.cfg", "StartNewInstance without the existing-instance guard: NoRerun"),
    ("Controller_attack_gatestrict.cfg", "ShouldProcessDuty with > for >=: NoRerun"),
    ("Controller_attack_nobump.cfg", "UponDecided does not bump the height on a future decided: NoRerun"),
    ("Controller_attack_loadnoheight.cfg", "LoadHighestInstance does not restore the height: RestartResumes"),
    ("Controller_attack_histfirst.cfg", "saveInstance writes the historical record before the highest record, crash between "
                                        "the two writes: RestartCoversLearned"),
    ("Controller_attack_compactmsground.cfg", "compactInstanceIfNeeded trims the commits to the round of the message it is handed: "
                                              "HighestMonotoneCert"),
    # failing storage writes
    ("Controller_attack_saveerr.cfg", "UponDecided returns the error of a failed save before the height bump (light node): NoRerun"),
    ("Controller_attack_saveerrnobump.cfg", "UponDecided bumps the height only when the save succeeded (full node): NoRerun"),
    ("Controller_attack_saveerrundecides.cfg", "UponDecided marks the instance undecided again when the save failed (full node, "
                                               "historical write fails after the highest write): HighestMonotoneCert"),
    ("Controller_attack_savecontinues.cfg", "saveInstance writes the historical record although the highest write failed: "
                                            "RestartCoversLearned"),
]
# counterexamples of the FAITHFUL spec to the literal reading of the property's last sentence (recorded finding):
FINDINGS = [
    ("Controller_finding_hist.cfg", "historical record replaced by fewer signers after a re-run (HistMonotoneNZ)"),
    ("Controller_finding_hist0.cfg", "historical record replaced by fewer signers after a re-run of height 0 (HistMonotone)"),
    # failing storage reads (suspected defects; signatures *-after-failed-highest-read / -after-failed-instance-read)
    ("Controller_finding_readfail.cfg", "Validator.Start logs the error of LoadHighestInstance and starts the validator on a fresh "
                                        "controller: a stored decided height is run again (NoRerunAbove0)"),
    ("Controller_finding_readfail_garbage.cfg", "the same with a highest record that does not decode (RestartRefuses, full node)"),
    ("Controller_finding_readfail_highest.cfg", "... and every decision the blindly started validator sees is saved as the highest: "
                                                "the stored highest instance is replaced by a lower height (HighestMonotone)"),
    ("Controller_finding_readinst.cfg", "InstanceForHeight swallows the error of GetInstance: UponDecided saves the message's smaller "
                                        "certificate over the stored historical record (HistMonotoneStrictReads, full node)"),
]
# the proposed repair in the model (ReadFix = TRUE: Start refuses after a failed load, UponDecided returns the lookup error):
# the STRICT properties must hold; a counterexample here is a model error
REPAIR = [
    ("Controller_fix_readfix_light.cfg", "ReadFix, light node: NoRerun, HighestMonotone, RestartRefuses strict"),
    ("Controller_fix_readfix_full.cfg", "ReadFix, full node: + HistMonotoneStrictReads"),
]
# observations: stronger readings that the code does not implement; replayed, counted, never a verdict
OBSERVE = [
    ("Controller_observe_restartcovers.cfg", "a decided height below c.Height is not covered by the stored highest (RestartCoversKnown)"),
    ("Controller_observe_strict.cfg", "the stored highest certificate is replaced by one with equally many signers (HighestStrict)"),
]


def _small(cfg):
    return cfg, vlib.tlc("Controller", cfg, workers=2, timeout=900)


def _has_read_fault(beh):
    return any(st["act"].get("brd", "ok") not in ("ok", "") or st["act"].get("rd", "ok") not in ("ok", "")
               for st in beh["steps"])


def _cover(cfg, seed, max_leaves, max_extra):
    """Edge cover of a small state graph WITH read faults (act is part of the state: no VIEW): shortest path to every
    BFS-tree leaf plus a seeded sample of the other edges; only behaviours that contain a read fault are kept (the rest
    of the graph is the fault-free spec), capped by a seeded sample in the quick tier."""
    import random
    r, nodes, edges, inits = vlib.tlc_dump_graph("Controller", cfg, timeout=1500, workers=2)
    if r.violation or r.error or not nodes:
        raise vlib.MachineryError("cover config %s: %s %s (%d nodes)" % (cfg, r.violation, r.error, len(nodes)))
    behs, stats = vlib.graph_behaviours(nodes, edges, inits, seed, max_extra=min(100000, max_extra * 8),
                                        state_vars=STATE_VARS, kind="cover")
    tag = cfg.replace("Controller_cover_", "").replace(".cfg", "")
    leaves = [b for b in behs if "-leaf-" in b["id"] and _has_read_fault(b)]
    extra = [b for b in behs if "-edge-" in b["id"] and _has_read_fault(b)]
    stats["read_fault_leaves"], stats["read_fault_edges"] = len(leaves), len(extra)
    rng = random.Random(seed)
    rng.shuffle(leaves)
    leaves, extra = leaves[:max_leaves], extra[:max_extra]   # graph_behaviours already shuffled the extra edges
    out = leaves + extra
    for b in out:
        b["id"] = b["id"].replace("cover-", "cover-%s-" % tag, 1)
    stats["replayed_leaves"], stats["replayed_edges"] = len(leaves), len(extra)
    stats["complete"] = (stats["replayed_leaves"] == stats["read_fault_leaves"] and
                         stats["extra_edges"] == stats["non_tree_edges_total"] and
                         stats["replayed_edges"] == stats["read_fault_edges"])
    return cfg, out, stats, r


def run(tier, seed):
    t0 = time.time()
    T = _tier(tier)
    verdict = vlib.Verdict(PROP)
    cov = {"configs": [], "attack_traces": 0, "finding_traces": 0, "divergences": 0}
    binc = vlib.go_build("controller")
    wd = os.path.join(vlib.WORK, PROP)
    os.makedirs(wd, exist_ok=True)

    # TLC runs are independent: exhaustive configs, simulations and the small attack/finding/observe configs in parallel
    ex = ThreadPoolExecutor(max_workers=12)
    f_rec = [ex.submit(_record_and_validate, binc, wd, full, seed, T["record_runs"]) for full in (False, True)]
    f_mc = [(cfg, ex.submit(vlib.tlc, "Controller", cfg, None, wk, sa + 600, sa)) for cfg, sa, wk in T["mc"]]
    f_sim = [(cfg, ex.submit(vlib.tlc_simulate, "Controller", cfg, num, depth, seed, None, 1800, None,
                             ["act"] + STATE_VARS)) for cfg, num, depth in T["sims"]]
    f_cover = [ex.submit(_cover, cfg, seed, ml, me) for cfg, ml, me in T["covers"]]
    f_small = [ex.submit(_small, cfg) for cfg, _ in ATTACKS + FINDINGS + OBSERVE + REPAIR]

    # 1. exhaustive model checking of the faithful spec
    states = transitions = 0
    exhaustive = True
    for cfg, fut in f_mc:
        r = fut.result()
        if not vlib.expect_tlc_ok(r, cfg):
            raise vlib.MachineryError("faithful Controller spec violates %s in %s (model error, not a verdict):\n%s" %
                                      (r.violation, cfg, json.dumps(vlib.tlaval.plain([s.get("act") for s in r.trace]))))
        cov["configs"].append({"cfg": cfg, "distinct": r.distinct, "generated": r.generated, "depth": r.depth,
                               "exhaustive": r.finished, "wall_s": round(r.wall, 1),
                               "properties": FAITHFUL_RF if "_rfaults_" in cfg else FAITHFUL})
        states += r.distinct
        transitions += r.generated
        exhaustive = exhaustive and r.finished
        log("[C15] TLC %s: %d distinct / %d generated, depth %d, finished=%s, %.1fs" %
            (cfg, r.distinct, r.generated, r.depth, r.finished, r.wall))

    # 2. behaviours for the real code: simulations of the faithful spec ...
    behs = []
    for cfg, fut in f_sim:
        rs, sb = fut.result()
        if rs.violation or rs.error:
            raise vlib.MachineryError("simulation config %s: %s %s" % (cfg, rs.violation, rs.error))
        tag = cfg.replace("Controller_", "").replace(".cfg", "")
        for k, b in enumerate(sb):
            behs.append(vlib.trace_behaviour(b, "%s-%d" % (tag, k), "sim", STATE_VARS))
        transitions += rs.generated
        cov.setdefault("sim_behaviours", {})[cfg] = len(sb)
        # ... the same behaviours on a network whose every broadcast reports an error (what is stored and refused must
        # not depend on the result of a broadcast; added after round-3 seed C15-seed5)
        import copy
        for k, b in enumerate(sb[:max(4, len(sb) // 3)]):
            fb = copy.deepcopy(vlib.trace_behaviour(b, "%s-%d-bfail" % (tag, k), "sim", STATE_VARS))
            behs.append(fb)
            cov["broadcast_fault_copies"] = cov.get("broadcast_fault_copies", 0) + 1
    # ... edge covers of the small state graphs with read faults ...
    for fut in f_cover:
        cfg, cb, stats, rc_ = fut.result()
        behs.extend(cb)
        transitions += rc_.generated
        cov.setdefault("cover_graphs", {})[cfg] = stats
        log("[C15] cover %s: %d nodes / %d edges, %d+%d behaviours with a read fault replayed (complete=%s)" %
            (cfg, stats["nodes"], stats["edges"], stats["replayed_leaves"], stats["replayed_edges"], stats["complete"]))
    # ... attack traces of the weakened specs, finding and observation traces of the faithful spec
    small = dict(f.result() for f in f_small)
    for cfg, desc in REPAIR:
        r = small[cfg]
        if r.error or r.violation or not r.finished:
            raise vlib.MachineryError("repair-model config %s: violation=%s finished=%s %s (the modelled repair no longer "
                                      "restores the strict properties: model error, not a verdict)" %
                                      (cfg, r.violation, r.finished, r.error))
        cov.setdefault("repair_model", []).append({"cfg": cfg, "what": desc, "distinct": r.distinct, "holds": True})
        states += r.distinct
        transitions += r.generated
    special = []
    for group, prefix in ((ATTACKS, "attack"), (FINDINGS, "finding"), (OBSERVE, "observe")):
        for cfg, desc in group:
            r = small[cfg]
            if r.error:
                raise vlib.MachineryError("%s config %s: %s" % (prefix, cfg, r.error))
            if not r.violation:
                if prefix == "attack":
                    raise vlib.MachineryError("attack config %s produced no counterexample: the weakened spec no longer "
                                              "breaks its property" % cfg)
                log("[C15] %s config %s produced no counterexample (not counted)" % (prefix, cfg))
                continue
            special.append(vlib.trace_behaviour(r.trace, "%s-%s" % (prefix, cfg.replace("Controller_%s_" % prefix, "").replace(".cfg", "")),
                                                "%s:%s" % (prefix, desc), STATE_VARS))
            cov["%s_traces" % prefix] = cov.get("%s_traces" % prefix, 0) + 1
    log("[C15] TLC stage done at %.0fs" % (time.time() - t0))
    inp = os.path.join(wd, "behaviours.ndjson")
    vlib.write_ndjson(inp, behs + special)
    outp = os.path.join(wd, "replay_result.json")
    vlib.run_driver(binc, ["-mode", "replay", "-in", inp, "-out", outp], timeout=3000)
    res = json.load(open(outp))
    _collect(res, verdict, behs + special)
    cov["replayed_behaviours"] = res["behaviours"]
    cov["replayed_steps"] = res["steps"]
    cov["divergences"] += res["counters"].get("divergences", 0)
    cov["divergence_samples"] = res["divergences"][:5]
    cov["attack_steps_refused"] = res["counters"].get("attack_steps_refused", 0)
    cov["counters"] = res["counters"]
    cov["notes"] = res["notes"][:10]
    log("[C15] replayed %d behaviours / %d steps on the real runner+controller+storage: %d monitor trips, %d divergences, "
        "%d attack steps refused" % (res["behaviours"], res["steps"], res["counters"].get("violations", 0),
                                     res["counters"].get("divergences", 0), cov["attack_steps_refused"]))
    log("[C15] replay stage done at %.0fs" % (time.time() - t0))
    found = set(v["behaviour"] for v in res["violations"])
    for cfg, desc in FINDINGS:
        bid = "finding-" + cfg.replace("Controller_finding_", "").replace(".cfg", "")
        if any(b["id"] == bid for b in special) and bid not in found:
            log("[C15] NOTE: finding trace %s no longer trips a monitor on the real code (repaired? update the spec)" % bid)
            cov.setdefault("findings_not_reproduced", []).append(bid)

    # 3. executions recorded from the real code (light and full node), validated by TLC against the spec
    rec_behaviours = 0
    rec_steps = 0
    rec_distinct = 0
    sample_trace = []
    for fut in f_rec:
        full, tr, res2, rpath, accepted, consumed, nlines, gen, selftest = fut.result()
        _collect(res2, verdict, None, rpath)
        cov.setdefault("recorded", []).append({"full": full, "runs": res2["behaviours"], "events": nlines,
                                               "accepted": accepted, "counters": res2["counters"]})
        transitions += gen
        if accepted:
            rec_behaviours += res2["behaviours"]
            rec_steps += res2["steps"]
            rec_distinct += _distinct_nontrivial_trace(tr)
            if not sample_trace:
                sample_trace = open(tr).read().split("\n")[1:6]
        else:
            lines = open(tr).read().split("\n")
            bad = lines[consumed] if consumed < len(lines) else "?"
            log("[C15] recorded trace (full=%s) REJECTED by the spec at line %d: %s" % (full, consumed + 1, bad[:400]))
            cov["divergences"] += 1
            cov.setdefault("trace_rejected_at", []).append({"full": full, "line": consumed + 1, "event": bad[:2000]})
        if selftest:
            cov["binding_selftest"] = selftest
    ex.shutdown()

    rc = verdict.report()
    if cov["divergences"] and rc == 0:
        log("[C15] NOTE: %d conformance divergences without a monitor trip (see evidence)" % cov["divergences"])
    coverage = {
        "states": states, "transitions": transitions,
        "traces_validated_against_impl": res["behaviours"] + rec_behaviours,
        "samples": res["samples"][:1] + [sample_trace],
        "evaluations": res["steps"] + rec_steps,
        "distinct_nontrivial": _distinct_nontrivial(behs + special) + rec_distinct,
        "rule": "behaviours = seeded TLC simulations of the faithful spec (light and full node, incl. failing storage "
                "writes and failing / empty / undecodable storage reads) + edge cover (sampled in the quick tier) of the "
                "small state graphs with a read fault + attack traces of the "
                "weakened specs + finding/observation traces + seeded executions generated on the real code and accepted "
                "by ControllerTrace.tla; non-trivial = contains a decided certificate, a local decision or a restart",
        "exhaustive": bool(exhaustive),
        "detail": cov,
    }
    vlib.write_evidence(PROP, tier, seed, "model_checking", coverage, time.time() - t0, [
        "one committee of 4, operator 1 is the node; certificates are the signer sets {1,2,3} and {1,2,3,4} at rounds 1 and 2, one value per height",
        "exhaustive results hold for the stated constants (heights 0..MaxH, restarts <= MaxRestarts, container capacity 2)",
        "a crash happens between two calls of the runner or inside a call right before any of its database writes "
        "(a single database Set is atomic; the two Sets of SaveHighestAndHistoricalInstance are separate crash points)",
        "storage-write failures: any database Set of a save may return an error and write nothing (at most MaxWriteFaults "
        "per behaviour, not combined with a crash inside the same call). What was learned in memory "
        "counts until the next restart, after a restart only what is stored counts: a decision whose write failed may "
        "legitimately be forgotten by a restart",
        "storage-read faults (at most MaxReadFaults per behaviour): the one Get of Validator.Start -> LoadHighestInstance and the one "
        "Get of InstanceForHeight (full node, height not in memory) may return an error (in the shape of the real badger "
        "wrapper: found=true + error), a record that does not decode (torn JSON), or not-found although the record exists. "
        "An error / undecodable record is something the code is TOLD: accepting a duty at or below the durably stored highest "
        "height afterwards is a re-run (refusing to start or retrying would be fine), overwriting a stored record by a lower "
        "height / fewer signers afterwards breaks the last sentence of the property. A database that answers not-found for an "
        "existing record is indistinguishable from a first start: its consequences are counted as observations, never asserted",
        "kv.NewInMemory stands in for the on-disk database; BLS verification is trusted",
        "the height-0 special case of ShouldProcessDuty (c.Height = 0 means 'nothing yet') is excluded explicitly from NoRerun",
    ], len(verdict.violations))
    return rc


NONTRIVIAL = ("Decided", "LocalMsgs", "Restart")


def _distinct_nontrivial(behaviours):
    """number of distinct action sequences that contain a decided certificate, a local decision or a restart"""
    seen = set()
    for b in behaviours:
        acts = [st["act"] for st in b["steps"]]
        if any(a.get("name") in NONTRIVIAL for a in acts):
            seen.add(json.dumps(acts, sort_keys=True))
    return len(seen)


def _distinct_nontrivial_trace(path):
    seen, cur = set(), []
    for ln in open(path):
        if not ln.strip():
            continue
        e = json.loads(ln)
        if e["event"] == "Reset":
            if any(x[0] in NONTRIVIAL for x in cur):
                seen.add(json.dumps(cur))
            cur = []
            continue
        cur.append([e["event"]] + [e.get(k) for k in ("slot", "h", "r", "n", "ok", "fail", "rfail")])
    if any(x[0] in NONTRIVIAL for x in cur):
        seen.add(json.dumps(cur))
    return len(seen)


def _record_and_validate(binc, wd, full, seed, runs):
    """Seeded executions on the real code (one node type), then TLC trace validation (+ binding self-test, light only)."""
    tag = "full" if full else "light"
    sd = seed + (7 if full else 0)
    tr = os.path.join(wd, "trace_%s.ndjson" % tag)
    outr = os.path.join(wd, "record_result_%s.json" % tag)
    vlib.run_driver(binc, ["-mode", "record", "-trace", tr, "-out", outr, "-seed", str(sd), "-runs", str(runs),
                           "-full=%s" % ("true" if full else "false")], timeout=3000)
    res2 = json.load(open(outr))
    cfg = "ControllerTrace_%s.cfg" % tag
    accepted, consumed, nlines, rt = vlib.tlc_validate_trace("ControllerTrace", cfg, tr, name="ControllerTrace-" + tag, timeout=2400)
    selftest = None if full else "; ".join(x for x in (_selftest(tr, cfg, wd), _selftest_read(tr, cfg, wd)) if x)
    rpath = "record:seed=%d:full=%s:runs=%d" % (sd, "true" if full else "false", runs)
    return full, tr, res2, rpath, accepted, consumed, nlines, rt.generated, selftest


def _collect(res, verdict, behaviours, replay_path=None):
    by_id = {b["id"]: b for b in (behaviours or [])}
    for v in res["violations"]:
        path = replay_path
        if path is None:
            b = by_id.get(v["behaviour"])
            path = vlib.save_replay(PROP, "%s-%s.ndjson" % (v["signature"], v["behaviour"]),
                                    json.dumps(b, separators=(",", ":")) + "\n") if b else "?"
        verdict.violation(v["signature"], "%s [%s step %d]" % (v["description"], v["behaviour"], v["step"]), path)


def _selftest(tr, cfg, wd):
    """Self-test of the binding: a recorded outcome is falsified and the trace spec must reject it."""
    lines = [x for x in open(tr).read().split("\n") if x.strip()]
    idx = None
    for i, ln in enumerate(lines):
        e = json.loads(ln)
        if e["event"] == "Decided" and i > 10 and e["obs"]["hi"]["h"] >= 0:
            e["obs"]["hi"]["n"] = 7 - e["obs"]["hi"]["n"]
            lines[i] = json.dumps(e)
            idx = i
            break
    if idx is None:
        return "skipped"
    p = os.path.join(wd, "trace_corrupt.ndjson")
    with open(p, "w") as f:
        f.write("\n".join(lines) + "\n")
    accepted, consumed, nlines, _ = vlib.tlc_validate_trace("ControllerTrace", cfg, p, name="ControllerTrace-selftest")
    if accepted:
        raise vlib.MachineryError("binding self-test failed: a corrupted trace was accepted by ControllerTrace")
    return "corrupted line %d rejected at line %d" % (idx + 1, consumed + 1)


def _selftest_read(tr, cfg, wd):
    """Second self-test: the recorded outcome of a restart's storage read is falsified (a failed load recorded as a clean
    one) - the controller height the real code showed afterwards (0) is then inexplicable and the trace spec must reject."""
    lines = [x for x in open(tr).read().split("\n") if x.strip()]
    idx = None
    for i, ln in enumerate(lines):
        e = json.loads(ln)
        if e["event"] == "Restart" and e.get("rfail") and e["obs"]["hi"]["h"] >= 1 and e["obs"]["height"] == 0:
            e["rfail"] = []
            lines[i] = json.dumps(e)
            idx = i
            break
    if idx is None:
        return "read self-test skipped (no restart with a forced read outcome on a stored height >= 1 in this sample)"
    p = os.path.join(wd, "trace_corrupt_read.ndjson")
    with open(p, "w") as f:
        f.write("\n".join(lines) + "\n")
    accepted, consumed, nlines, _ = vlib.tlc_validate_trace("ControllerTrace", cfg, p, name="ControllerTrace-selftest-read")
    if accepted:
        raise vlib.MachineryError("binding self-test failed: a restart whose failed load was recorded as clean was accepted by ControllerTrace")
    return "forged read outcome at line %d rejected at line %d" % (idx + 1, consumed + 1)


def replay(path):
    binc = vlib.go_build("controller")
    verdict = vlib.Verdict(PROP)
    wd = os.path.join(vlib.WORK, PROP)
    os.makedirs(wd, exist_ok=True)
    outp = os.path.join(wd, "replay_single.json")
    if path.startswith("record:"):
        kv = dict(x.split("=") for x in path.split(":")[1:])
        tr = os.path.join(wd, "trace_replay.ndjson")
        vlib.run_driver(binc, ["-mode", "record", "-trace", tr, "-out", outp, "-seed", kv["seed"], "-runs", kv["runs"],
                               "-full=" + kv["full"]])
        _collect(json.load(open(outp)), verdict, None, path)
    else:
        vlib.run_driver(binc, ["-mode", "replay", "-in", path, "-out", outp])
        _collect(json.load(open(outp)), verdict, None, path)
    return verdict.report()
