"""C04 - an operator never signs a slashable attestation or block, across restarts (spec/Slashing.tla)."""
import concurrent.futures
import hashlib
import json
import os
import re
import shutil
import subprocess
import time

import vlib
from vlib import log

PROP = "C04"
MOD = "Slashing"
STATE_VARS = None
SPE = 2  # slots per epoch of the virtual beacon network, the same in every Slashing_*.cfg


def _tier(tier):
    if tier == "quick":
        return dict(mc="Slashing_quick.cfg", mc_stop=900, cover="Slashing_cover.cfg", max_leaves=1200, extra_edges=500,
                    cover_att=("Slashing_cover_att.cfg", 900, 200),
                    sim=("Slashing_sim.cfg", 200, 40), sim_att=("Slashing_sim_att.cfg", 200, 50),
                    record_runs=150, conc_rounds=20, race=False,
                    apalache=False, per_invariant=False, inert_small=True)
    return dict(mc="Slashing_thorough.cfg", mc_stop=1800, cover="Slashing_cover_thorough.cfg", max_leaves=12000,
                extra_edges=8000, cover_att=("Slashing_cover_att.cfg", 4000, 3000),
                sim=("Slashing_sim.cfg", 4000, 60), sim_att=("Slashing_sim_att.cfg", 4000, 80),
                record_runs=3000, conc_rounds=400, race=True,
                apalache=True, per_invariant=False, inert_small=False)


# Weaken variants: (cfg, what the weakening removes). A counterexample of the weakened spec is the schedule that
# would break C04 if the code lacked that guard; it is replayed on the real key manager.
ATTACKS = [
    ("Slashing_attack_targetLT.cfg", "target compared with < instead of <="),
    ("Slashing_attack_sourceNotChecked.cfg", "source epoch not compared with the record"),
    ("Slashing_attack_noUpdate.cfg", "record not raised when signing"),
    ("Slashing_attack_bumpFromStaleClock.cfg", "add / reactivation bumps from a clock one epoch behind"),
    ("Slashing_attack_bumpFromStaleSlot.cfg", "add / reactivation bumps from a clock one slot behind"),
    ("Slashing_attack_bumpKeepsSource.cfg", "bump raises only the target; source carried over, 0 for a share without record"),
    ("Slashing_attack_signWhenMissing.cfg", "missing record treated as nothing signed yet"),
    ("Slashing_attack_releaseBeforePersist.cfg", "signature handed out before the record is durable"),
    ("Slashing_attack_blockSlotLT.cfg", "block slot compared with < instead of <="),
    ("Slashing_attack_saveErrSwallowed.cfg", "record write retried once, error of the last attempt swallowed "
                                             "(needs a write fault that persists: failall)"),
    ("Slashing_attack_noSignLock.cfg", "check and update of two requests interleave (no per-account lock)"),
]
# Weakenings of guards that the environment assumption (targets / slots not beyond the clock) makes redundant:
# TLC exhausts the weakened spec without a counterexample; reported in the evidence, nothing to replay.
INERT = [
    ("Slashing_attack_bumpOverwritesDown.cfg", "bump overwrites an existing record unconditionally"),
    ("Slashing_attack_readdNoBump.cfg", "re-add of a removed share skips the bump"),
]
# Named deviation of the code as written, under a fault the main configs do not inject: a protection record whose
# stored value is empty. RetrieveHighestProposal's errors.Wrap(nil, ...) is nil, so slot 0 is taken at face value.
DEVIATIONS = [
    ("Slashing_fault_rempty.cfg", "stored record value is empty (code as written)"),
]
CLAUSES = ["NoDoubleVote", "NoSurround", "NoDoubleBlock", "RefuseWhenUnknown"]
BREAKS = {   # which clauses of the property each weakening breaks (measured once with all four clauses)
    "Slashing_attack_targetLT.cfg": ["NoDoubleVote"],
    "Slashing_attack_sourceNotChecked.cfg": ["NoSurround"],
    "Slashing_attack_noUpdate.cfg": ["NoDoubleVote", "NoSurround", "NoDoubleBlock"],
    "Slashing_attack_bumpFromStaleClock.cfg": ["NoDoubleVote", "NoSurround", "NoDoubleBlock"],
    "Slashing_attack_bumpFromStaleSlot.cfg": ["NoDoubleVote", "NoSurround", "NoDoubleBlock"],
    "Slashing_attack_bumpKeepsSource.cfg": ["NoSurround"],
    "Slashing_attack_signWhenMissing.cfg": ["NoDoubleVote", "NoSurround", "NoDoubleBlock", "RefuseWhenUnknown"],
    "Slashing_attack_releaseBeforePersist.cfg": ["NoDoubleVote", "NoSurround", "NoDoubleBlock"],
    "Slashing_attack_blockSlotLT.cfg": ["NoDoubleBlock"],
    "Slashing_attack_saveErrSwallowed.cfg": ["NoDoubleVote", "NoSurround", "NoDoubleBlock"],
    "Slashing_fault_rempty.cfg": ["NoDoubleBlock", "RefuseWhenUnknown"],
}


_T = [0.0]


def _phase(name):
    now = time.time()
    log("[C04] +%.0fs %s" % (now - _T[0], name))


def _acts(trace):
    return json.dumps(vlib.tlaval.plain([s.get("act") for s in trace]))


def _tlc(*a, **kw):
    """vlib.tlc, repeated when the JVM was killed from outside (another check's timeout handler kills every TLC)."""
    for attempt in range(3):
        r = vlib.tlc(*a, **kw)
        killed = getattr(r, "rc", 0) not in (0, 10, 11, 12, 13) and not r.violation and not r.error and \
            "Model checking completed" not in r.out and "stopAfter" not in r.out and r.wall < kw.get("timeout", 600) - 5
        if not killed:
            return r
        log("[C04] TLC run %s was killed from outside (rc=%s), repeating" % (kw.get("name") or a[1], getattr(r, "rc", "?")))
    return r


def _only(cfg_text, clauses):
    return "\n".join(ln for ln in cfg_text.split("\n")
                     if not (ln.startswith("INVARIANT") or ln.startswith("PROPERTY")) or ln.split()[1] in clauses)


def _attack_runs(T):
    """Run every attack / deviation / inert config (in parallel); returns list of (ident, kind, TLCResult)."""
    jobs = []
    for cfg, desc in ATTACKS + DEVIATIONS:
        if cfg not in BREAKS or T["per_invariant"]:   # the others run once per clause below
            jobs.append((cfg.replace(".cfg", ""), "attack:" + desc, cfg, None))
    for cfg, desc in INERT:
        src = open(os.path.join(vlib.SPEC, cfg)).read()
        if T["inert_small"]:
            src = src.replace("MaxSlot = 7", "MaxSlot = 5")
        jobs.append((cfg.replace(".cfg", ""), "inert:" + desc, cfg.replace(".cfg", "_run.cfg"), src))
    # one counterexample per violated clause of the property, not only the first one TLC meets
    # (the clauses each weakening breaks; with per_invariant all four are tried and the others exhausted)
    for cfg, desc in [a for a in ATTACKS if a[0] != "Slashing_attack_noSignLock.cfg"] + DEVIATIONS:
        src = open(os.path.join(vlib.SPEC, cfg)).read()
        for inv in (CLAUSES if T["per_invariant"] else BREAKS[cfg]):
            if cfg.startswith("Slashing_fault") and inv not in BREAKS[cfg]:
                continue   # 666k states each to learn that an empty ATTESTATION record is refused
            name = cfg.replace(".cfg", "") + "_" + inv
            kind = ("attack:deviation:" if cfg.startswith("Slashing_fault") else "attack:") + desc + " / " + inv
            jobs.append((name, kind, name + ".cfg", _only(src, [inv])))

    spec_text = open(os.path.join(vlib.SPEC, MOD + ".tla")).read()
    cdir = os.path.join(vlib.WORK, PROP, "cache")
    os.makedirs(cdir, exist_ok=True)

    def one(job):
        # An attack run is a pure function of (Slashing.tla, cfg text): its counterexample is cached under .work
        # keyed by their hash. Only inputs for the replay come from here, never a count of the evidence.
        ident, kind, cfg, content = job
        text = content if content else open(os.path.join(vlib.SPEC, cfg)).read()
        key = hashlib.sha256((spec_text + "\0" + text).encode()).hexdigest()[:24]
        cpath = os.path.join(cdir, key + ".json")
        if os.path.exists(cpath) and not os.environ.get("VERIF_NOCACHE"):
            try:
                c = json.load(open(cpath))
                ra = vlib.TLCResult()
                ra.violation, ra.trace, ra.distinct, ra.generated, ra.finished = \
                    c["violation"], c["trace"], c["distinct"], c["generated"], c["finished"]
                ra.cached = True
                return ident, kind, ra
            except Exception:  # noqa: BLE001
                pass
        files = {cfg: content} if content else None
        ra = _tlc(MOD, cfg, name=ident, workers=2, timeout=1500, stop_after=1200, files=files)
        ra.cached = False
        if not ra.error and (ra.violation or ra.finished):
            tmp = cpath + ".%d.tmp" % os.getpid()
            with open(tmp, "w") as f:
                json.dump({"violation": ra.violation, "trace": [{"act": vlib.tlaval.plain(st.get("act"))} for st in ra.trace],
                           "distinct": ra.distinct, "generated": ra.generated, "finished": ra.finished}, f)
            os.replace(tmp, cpath)
        return ident, kind, ra

    with concurrent.futures.ThreadPoolExecutor(max_workers=6) as ex:
        return list(ex.map(one, jobs))


def _danger(acts):
    """Is the LAST request of the behaviour slashable against what the behaviour released before it?
    Those are the requests a weakened guard would let through: they are replayed first."""
    a = acts[-1]
    if a.get("name") == "SignAtt":
        out = None
        for x in acts[:-1]:
            if x.get("name") == "SignAtt" and x.get("rel"):
                if x["t"] == a["t"] and (x["s"], x["d"]) != (a["s"], a["d"]):
                    out = out or "double"
                if (x["s"] < a["s"] and a["t"] < x["t"]) or (a["s"] < x["s"] and x["t"] < a["t"]):
                    out = "surround"
        return out
    if a.get("name") == "SignBlk":
        for x in acts[:-1]:
            if x.get("name") == "SignBlk" and x.get("rel") and x["slot"] == a["slot"] and x["d"] != a["d"]:
                return "double"
    return None


def _select(behs, cap, seed):
    """At most `cap` cover behaviours: first those whose last request would be slashable against the behaviour's own
    released signatures and those with a record write that fails under the remainder of a persistent write fault (up
    to 60% of cap, spread over the fault/rebuild kinds), the rest round robin over the kinds of the last call."""
    import random
    if len(behs) <= cap:
        return behs
    groups, hot = {}, {}
    for b in behs:
        acts = [st["act"] for st in b["steps"]]
        a = acts[-1]
        # a signature was released, later a record was rebuilt or removed, and the behaviour ends in a signing request:
        # the histories where a lowered record would show
        rebuilt = False
        if a.get("name") in ("SignAtt", "SignBlk"):
            seen = False
            for x in acts[:-1]:
                if x.get("rel"):
                    seen = True
                elif seen and x.get("name") in ("AddShare", "Reactivate", "RemoveShare") and x.get("res") in ("ok", "crash"):
                    rebuilt = True
        dg = _danger(acts)
        # the last signing request answered under the remainder of a persistent write fault (anywhere in the behaviour)
        carried = None
        for x in acts:
            if x.get("name") in ("SignAtt", "SignBlk") and (x.get("fault") or {}).get("k") == "none" and \
                    (x.get("eff") or {}).get("k") == "failall":
                carried = (x.get("name"), x.get("res"), bool(x.get("hit")))
        # eff = the plan the call ran under: its own, or the remainder of a persistent write fault (fault = none then)
        key = (a.get("name"), a.get("res"), (a.get("fault") or {}).get("k"), (a.get("fault") or {}).get("at"), rebuilt,
               a.get("d") if rebuilt else None, (a.get("eff") or {}).get("k"), (a.get("eff") or {}).get("n"), carried)
        if dg or (carried and carried[2]):
            # ... or a request whose record write was attempted and failed for the SECOND call in a row
            hot.setdefault((dg,) + key, []).append(b)
        else:
            groups.setdefault(key, []).append(b)
    rng = random.Random(seed)

    def rr(gs, n):
        for g in gs.values():
            rng.shuffle(g)
        out, keys = [], sorted(gs, key=str)
        while len(out) < n:
            progressed = False
            for k in keys:
                if gs[k] and len(out) < n:
                    out.append(gs[k].pop())
                    progressed = True
            if not progressed:
                break
        return out
    first = rr(hot, (cap * 6) // 10)
    for k, g in hot.items():      # what did not fit competes with the rest
        groups.setdefault(k, []).extend(g)
    return first + rr(groups, cap - len(first))


def _apalache(wd):
    """Unbounded inductive step with Apalache. Returns dict for the evidence; never fails the check."""
    if not shutil.which("apalache-mc"):
        return {"status": "dropped", "reason": "apalache-mc not installed"}
    obligations = [
        ("init", ["--init=Init", "--inv=IndInv", "--length=0"], "NoError"),
        ("step", ["--init=IndInit", "--inv=IndInv", "--length=1"], "NoError"),
        ("step_weakened_must_fail", ["--init=IndInit", "--next=NextW", "--inv=IndInv", "--length=1"], "Error"),
        ("step_bumpKeepsSource_must_fail", ["--init=IndInit", "--next=NextB", "--inv=IndInv", "--length=1"], "Error"),
        ("step_saveErrSwallowed_must_fail", ["--init=IndInit", "--next=NextS", "--inv=IndInv", "--length=1"], "Error"),
    ]

    def one(ob):
        name, args, want = ob
        d = os.path.join(wd, "apalache-" + name)
        shutil.rmtree(d, ignore_errors=True)
        os.makedirs(d)
        shutil.copy(os.path.join(vlib.SPEC, "SlashInd.tla"), d)
        t0 = time.time()
        try:
            p = subprocess.run(["apalache-mc", "check"] + args + ["SlashInd.tla"], cwd=d, stdout=subprocess.PIPE,
                               stderr=subprocess.STDOUT, text=True, timeout=900)
            m = re.search(r"The outcome is: (\w+)", p.stdout)
            got = m.group(1) if m else "unknown"
        except subprocess.TimeoutExpired:
            got = "timeout"
        shutil.rmtree(d, ignore_errors=True)
        return {"obligation": name, "cmd": "apalache-mc check " + " ".join(args) + " SlashInd.tla", "outcome": got,
                "expected": want, "wall_s": round(time.time() - t0, 1)}

    with concurrent.futures.ThreadPoolExecutor(max_workers=5) as ex:
        obs = list(ex.map(one, obligations))
    ok = all(o["outcome"] == o["expected"] for o in obs)
    stalled = any(o["outcome"] in ("timeout", "unknown") for o in obs)
    return {"status": "discharged" if ok else ("dropped" if stalled else "FAILED"), "obligations": obs}


def run(tier, seed):
    t0 = time.time()
    _T[0] = t0
    T = _tier(tier)
    verdict = vlib.Verdict(PROP)
    cov = {"configs": [], "attack_traces": 0, "divergences": 0}
    binq = vlib.go_build("slashing")
    wd = os.path.join(vlib.WORK, PROP)
    os.makedirs(wd, exist_ok=True)

    # everything that only needs TLC / Apalache runs side by side
    pool = concurrent.futures.ThreadPoolExecutor(max_workers=6)
    fut_attacks = pool.submit(_attack_runs, T)
    fut_apalache = pool.submit(_apalache, wd) if T["apalache"] else None
    fut_cover = pool.submit(vlib.tlc_dump_graph, MOD, T["cover"], None, 1800, None, 4)
    cfg, num, depth = T["sim"]
    fut_sim = pool.submit(vlib.tlc_simulate, MOD, cfg, num, depth, seed, None, 1500, None, ["act"])
    fut_cover2 = pool.submit(vlib.tlc_dump_graph, MOD, T["cover_att"][0], None, 1800, None, 4)
    cfg2, num2, depth2 = T["sim_att"]
    fut_sim2 = pool.submit(vlib.tlc_simulate, MOD, cfg2, num2, depth2, seed + 7919, None, 1500, None, ["act"])

    # 1. exhaustive model checking of the faithful spec
    r = _tlc(MOD, T["mc"], workers=8, timeout=T["mc_stop"] + 600, stop_after=T["mc_stop"])
    if not vlib.expect_tlc_ok(r, T["mc"]):
        raise vlib.MachineryError("faithful Slashing spec violates %s (model error, not a verdict):\n%s" %
                                  (r.violation, _acts(r.trace)))
    cov["configs"].append({"cfg": T["mc"], "distinct": r.distinct, "generated": r.generated, "depth": r.depth,
                           "exhaustive": r.finished, "wall_s": round(r.wall, 1)})
    states, transitions = r.distinct, r.generated
    log("[C04] TLC %s: %d distinct / %d generated, finished=%s, %.1fs" %
        (T["mc"], r.distinct, r.generated, r.finished, r.wall))

    # 2. state-graph cover of a small faithful config
    rg, nodes, edges, inits = fut_cover.result()
    _phase("cover graph dumped")
    if not rg.finished and not rg.violation and not nodes:
        rg, nodes, edges, inits = vlib.tlc_dump_graph(MOD, T["cover"], timeout=1800, workers=4)   # killed from outside
    if not vlib.expect_tlc_ok(rg, T["cover"]):
        raise vlib.MachineryError("cover config violates %s:\n%s" % (rg.violation, _acts(rg.trace)))
    behs, gstat = vlib.graph_behaviours(nodes, edges, inits, seed, max_extra=T["extra_edges"])
    leaves = [b for b in behs if "-leaf-" in b["id"]]
    behs = _select(leaves, T["max_leaves"], seed) + [b for b in behs if "-leaf-" not in b["id"]]
    gstat["leaves_replayed"] = min(len(leaves), T["max_leaves"])
    cov["cover_graph"] = gstat
    log("[C04] cover graph %s: %s" % (T["cover"], gstat))
    # 2b. attestation-only cover reaching epoch 3 with two add/remove cycles (surround histories need 4 epochs)
    cfga, capa, extraa = T["cover_att"]
    rga, nodesa, edgesa, initsa = fut_cover2.result()
    if not rga.finished and not rga.violation and not nodesa:
        rga, nodesa, edgesa, initsa = vlib.tlc_dump_graph(MOD, cfga, timeout=1800, workers=4)
    if not vlib.expect_tlc_ok(rga, cfga):
        raise vlib.MachineryError("cover config violates %s:\n%s" % (rga.violation, _acts(rga.trace)))
    behsa, gstata = vlib.graph_behaviours(nodesa, edgesa, initsa, seed, max_extra=extraa, kind="coveratt")
    leavesa = [b for b in behsa if "-leaf-" in b["id"]]
    behs += _select(leavesa, capa, seed) + [b for b in behsa if "-leaf-" not in b["id"]]
    gstata["leaves_replayed"] = min(len(leavesa), capa)
    cov["cover_graph_att"] = gstata
    log("[C04] cover graph %s: %s" % (cfga, gstata))
    # 3. simulated behaviours of a larger faithful config
    rs, sb = fut_sim.result()
    _phase("simulation done")
    if rs.violation or rs.error:
        raise vlib.MachineryError("simulation config: %s %s\n%s" % (rs.violation, rs.error, _acts(rs.trace)))
    for k, b in enumerate(sb):
        behs.append(vlib.trace_behaviour(b, "sim-%d" % k, "sim"))
    rs2, sb2 = fut_sim2.result()
    if rs2.violation or rs2.error:
        raise vlib.MachineryError("simulation config: %s %s\n%s" % (rs2.violation, rs2.error, _acts(rs2.trace)))
    for k, b in enumerate(sb2):
        behs.append(vlib.trace_behaviour(b, "simatt-%d" % k, "sim"))
    cov["sim_behaviours"] = len(sb) + len(sb2)
    transitions += rs.generated + rs2.generated

    # 4. attack traces
    attack_behs = []
    cov["attacks"] = {}
    attack_results = fut_attacks.result()
    _phase("attack configs done")
    for ident, kind, ra in attack_results:
        if ra.error:
            raise vlib.MachineryError("attack config %s: %s" % (ident, ra.error))
        cov["attacks"][ident] = {"counterexample": ra.violation or None, "steps": len(ra.trace),
                                 "distinct": ra.distinct, "exhausted": ra.finished, "from_cache": ra.cached}
        if not ra.violation:
            if not kind.startswith("inert") and "_No" not in ident and "_Refuse" not in ident:
                log("[C04] attack config %s: no counterexample (%d distinct states, exhausted=%s)" %
                    (ident, ra.distinct, ra.finished))
            continue
        if kind.startswith("inert"):
            log("[C04] NOTE: weakening %s is no longer inert: %s" % (ident, ra.violation))
        attack_behs.append(vlib.trace_behaviour(ra.trace, "attack-" + ident, kind))
        if "saveErrSwallowed" in ident and len(ra.trace) > 2:
            # the same schedule with the node restarted on the same database before the last request (Restart is
            # enabled in every state and changes nothing here: no call is in flight and the wallet is persisted)
            tr2 = list(ra.trace[:-1]) + [{"act": {"name": "Restart"}}, ra.trace[-1]]
            attack_behs.append(vlib.trace_behaviour(tr2, "attack-" + ident + "-restart",
                                                    kind + " / restart before the last request"))
    cov["attack_traces"] = len(attack_behs)

    inp = os.path.join(wd, "behaviours.ndjson")
    vlib.write_ndjson(inp, behs + attack_behs)
    outp = os.path.join(wd, "replay_result.json")
    vlib.run_driver(binq, ["-mode", "replay", "-in", inp, "-out", outp, "-spe", str(SPE)], timeout=3000)
    res = json.load(open(outp))
    _collect(res, verdict, inp, wd)
    cov["replayed_behaviours"] = res["behaviours"]
    cov["replayed_steps"] = res["steps"]
    cov["attack_steps_refused_by_real_code"] = res["counters"].get("attack_steps_refused", 0)
    cov["divergences"] += res["counters"].get("divergences", 0)
    cov["divergence_samples"] = res["divergences"][:5]
    cov["released_in_replay"] = {"attestations": res["counters"].get("released_attestations", 0),
                                 "blocks": res["counters"].get("released_blocks", 0),
                                 "signer_lifetimes": res["counters"].get("signer_lifetimes", 0)}
    log("[C04] replayed %d behaviours / %d steps on the real key manager: %d violations, %d divergences, "
        "%d attack steps refused" % (res["behaviours"], res["steps"], res["counters"].get("violations", 0),
                                     res["counters"].get("divergences", 0), cov["attack_steps_refused_by_real_code"]))

    _phase("replay done")
    # 5. executions recorded from the real key manager, validated by TLC against the spec
    tr = os.path.join(wd, "trace.ndjson")
    outr = os.path.join(wd, "record_result.json")
    vlib.run_driver(binq, ["-mode", "record", "-trace", tr, "-out", outr, "-seed", str(seed), "-runs",
                           str(T["record_runs"]), "-spe", str(SPE), "-maxslot", "17"], timeout=3000)
    res2 = json.load(open(outr))
    _collect(res2, verdict, "record:seed=%d:runs=%d" % (seed, T["record_runs"]), wd)
    accepted, consumed, nlines, rt = vlib.tlc_validate_trace("SlashingTrace", "SlashingTrace.cfg", tr, timeout=2400)
    cov["recorded_traces"] = res2["behaviours"]
    cov["recorded_events"] = nlines
    cov["trace_accepted"] = accepted
    transitions += rt.generated
    if not accepted:
        lines = open(tr).read().split("\n")
        bad = lines[consumed] if consumed < len(lines) else "?"
        log("[C04] recorded trace REJECTED by the spec at line %d: %s" % (consumed + 1, bad))
        cov["divergences"] += 1
        cov["trace_rejected_at"] = {"line": consumed + 1, "event": bad}
    _phase("trace validated")
    cov["binding_selftest"] = _selftest(tr, wd)
    _phase("binding self-test done")

    # 6. concurrent signing requests for one share
    binc = vlib.go_build("slashing", race=True) if T["race"] else binq
    outc = os.path.join(wd, "conc_result.json")
    vlib.run_driver(binc, ["-mode", "concurrent", "-out", outc, "-seed", str(seed), "-runs", str(T["conc_rounds"]),
                           "-spe", str(SPE)], timeout=3000)
    res3 = json.load(open(outc))
    _collect(res3, verdict, "concurrent:seed=%d:runs=%d" % (seed, T["conc_rounds"]), wd)
    cov["concurrent"] = {"rounds": res3["behaviours"], "calls": res3["counters"].get("concurrent_calls", 0),
                         "phases": res3["counters"].get("concurrent_phases", 0),
                         "phases_deadlocked_in_dependency_lock": res3["counters"].get("phases_deadlocked", 0),
                         "released_attestations": res3["counters"].get("released_attestations", 0),
                         "released_blocks": res3["counters"].get("released_blocks", 0), "race_detector": T["race"]}
    cov["divergences"] += res3["counters"].get("divergences", 0)

    _phase("concurrent rounds done")
    # 7. unbounded inductive step (thorough)
    if fut_apalache is not None:
        cov["apalache"] = fut_apalache.result()
        log("[C04] Apalache inductive obligations: %s" % cov["apalache"]["status"])
        if cov["apalache"]["status"] == "FAILED":
            raise vlib.MachineryError("Apalache refutes the inductive invariant of SlashInd.tla (model error): %s" %
                                      json.dumps(cov["apalache"]))
    pool.shutdown()

    rc = verdict.report()
    if cov["divergences"] and rc == 0:
        log("[C04] NOTE: %d conformance divergences without a monitor trip (see evidence)" % cov["divergences"])
    sample_trace = [x for x in open(tr).read().split("\n")[1:10] if x]
    coverage = {
        "states": states, "transitions": transitions,
        "traces_validated_against_impl": res["behaviours"] + (res2["behaviours"] if accepted else 0),
        "samples": res["samples"][:1] + [sample_trace],
        "evaluations": res["steps"] + res2["steps"] + res3["steps"],
        "distinct_nontrivial": res["nontrivial"] + res2["nontrivial"] + res3["nontrivial"],
        "rule": "behaviours = BFS-tree leaves of the dumped state graph + seeded non-tree edges + simulated behaviours + "
                "attack traces + recorded random executions + concurrent rounds; non-trivial = at least two "
                "signatures were released by the real signer in the behaviour (so the pairwise monitor compared "
                "something), or a split signing request was replayed",
        "exhaustive": bool(r.finished),
        "detail": cov,
    }
    vlib.write_evidence(PROP, tier, seed, "model_checking", coverage, time.time() - t0, [
        "exhaustive results hold for the stated constants (one share, SPE=2, slots <= MaxSlot, <= MaxGen account "
        "records, <= MaxFaults faults per behaviour, two data variants)",
        "environment assumption of the property: attestation targets and block slots are not beyond the clock at "
        "signing time; add / remove / reactivate do not overlap signing for the same share (event handler order)",
        "a crash is modelled as a panic out of the database wrapper at a write; badger's own atomicity of a single "
        "Set / Delete is trusted",
        "store faults: one fault plan per call (crash before / after a write, one failing write, read error, not "
        "found) or a PERSISTENT write fault - every Set / Delete of one protection record (highest attestation or "
        "highest proposal) fails for 1..MaxPersist consecutive public calls, over restarts too; one record at a "
        "time, and no second plan while it lasts",
        "the far-future guard of eth2-key-manager reads the wall clock against the real prater genesis and never fires",
        "the Apalache obligations are about SlashInd.tla, an over-approximation of Slashing.tla argued in its header",
    ], len(verdict.violations))
    return rc


def _collect(res, verdict, replay_path, wd):
    for v in res["violations"]:
        path = replay_path
        if os.path.exists(replay_path) and not v["behaviour"].startswith("own-"):
            # a one-behaviour replay file
            for ln in open(replay_path):
                if '"id":"%s"' % v["behaviour"] in ln:
                    path = vlib.save_replay(PROP, v["behaviour"] + ".ndjson", ln)
                    break
        verdict.violation(v["signature"], "%s [%s step %d]" % (v["description"], v["behaviour"], v["step"]), path)


def _selftest(tr, wd):
    """Corrupt one recorded outcome (a refused signature becomes a released one) and expect rejection."""
    lines = [x for x in open(tr).read().split("\n") if x.strip()]
    idx = None
    for i, ln in enumerate(lines):
        e = json.loads(ln)
        if e["event"] in ("SignAtt", "SignBlk") and e["res"] == "refused" and e["fault"]["k"] == "none" and i > 10:
            e["res"] = "signed"
            lines[i] = json.dumps(e)
            idx = i
            break
    if idx is None:
        return "skipped"
    p = os.path.join(wd, "trace_corrupt.ndjson")
    with open(p, "w") as f:
        f.write("\n".join(lines) + "\n")
    accepted, consumed, nlines, _ = vlib.tlc_validate_trace("SlashingTrace", "SlashingTrace.cfg", p)
    if accepted:
        raise vlib.MachineryError("binding self-test failed: a corrupted trace was accepted by SlashingTrace")
    return "corrupted line %d rejected at line %d" % (idx + 1, consumed + 1)


def replay(path):
    binq = vlib.go_build("slashing")
    verdict = vlib.Verdict(PROP)
    wd = os.path.join(vlib.WORK, PROP)
    os.makedirs(wd, exist_ok=True)
    outp = os.path.join(wd, "replay_single.json")
    if path.startswith("concurrent:") or path.startswith("record:"):
        parts = dict(x.split("=") for x in path.split(":")[1:])
        if path.startswith("concurrent:"):
            vlib.run_driver(binq, ["-mode", "concurrent", "-out", outp, "-seed", parts["seed"], "-runs",
                                   parts.get("runs", "40"), "-spe", str(SPE)])
        else:
            vlib.run_driver(binq, ["-mode", "record", "-trace", os.path.join(wd, "replay_trace.ndjson"), "-out", outp,
                                   "-seed", parts["seed"], "-runs", parts.get("runs", "150"), "-spe", str(SPE),
                                   "-maxslot", "17"])
    else:
        vlib.run_driver(binq, ["-mode", "replay", "-in", path, "-out", outp, "-spe", str(SPE)])
    _collect(json.load(open(outp)), verdict, path, wd)
    return verdict.report()
