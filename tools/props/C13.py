"""C13 - every finalized-enough block's registry logs are delivered once, in order (spec/LogStream.tla).

TLC checks the faithful spec exhaustively (every distribution of logs over blocks, batch sizes, follow distances,
<= MaxFaults failures in any position); the dumped state graph, seeded simulations of a larger instance and the
counterexamples of the named deviations (the pre-fix two-cursor algorithm and four single-guard weakenings) are
replayed on the real ExecutionClient / EventSyncer against a gated in-process execution node; a free-running seeded
fault-injection run and a PackLogs run complete the picture.  Verdicts come from the monitor on the real stream only.

Implementation -> specification: `logstream -mode record` lets the real StreamLogs run freely under a seeded random
environment (not derived from TLC behaviours) and records the node's RPC boundary and the consumer; TLC reads the
recorded executions twice with spec/LogStreamTrace.tla: as observations (LogStreamTrace_obs.cfg: the C13 invariants on
what the consumer really received - a violated invariant is a violation of C13, the execution's slice of the trace is the
replay) and as a conformance check (LogStreamTrace.cfg: every event explained by LogStream's actions with the logged
arguments bound - a rejection is a divergence, never a verdict).
"""
import concurrent.futures as cf
import glob
import hashlib
import json
import os
import random
import re
import time

import vlib
from vlib import log

PROP = "C13"
MODULE = "LogStream"
STATE_VARS = ["env", "pc", "from", "delivered"]
KINDS = ["none", "one", "two", "rm", "mix"]

ATTACKS = [  # (cfg, description)
    ("LogStream_attack_code0_gap.cfg", "two-cursor algorithm before c3050e311: NoGapDelivered (failed eth_subscribe skips the start block)"),
    ("LogStream_attack_code0_rewind.cfg", "two-cursor algorithm before c3050e311: NoRewind (failed first eth_getLogs restarts from block 1)"),
    ("LogStream_attack_code0_incr.cfg", "two-cursor algorithm before c3050e311: StrictlyIncreasing"),
    ("LogStream_attack_code0_suberr.cfg", "two-cursor algorithm before c3050e311 after a history sync: NoGapDelivered"),
    ("LogStream_attack_noadvance.cfg", "cursor not advanced per forwarded entry: StrictlyIncreasing"),
    ("LogStream_attack_skipfailed.cfg", "failed batch skipped on resume: NoGapDelivered"),
    ("LogStream_attack_keepremoved.cfg", "removed logs not filtered: PerBlockComplete"),
    ("LogStream_attack_followoff.cfg", "toBlock = head - followDistance + 1: FollowRespected"),
]


def _tier(tier):
    if tier == "quick":
        return dict(mc=[("LogStream_quick.cfg", 110), ("LogStream_quick_kinds.cfg", 90)], cover="LogStream_cover.cfg",
                    extra_edges=300, cover_cap=2500, sim=(150, 40, 24), stress=120, packlogs=2000, workers=12,
                    record=80, record_chunk=80, record_rounds=(3, 2), record_race=0, restart_cfg=None)
    return dict(mc=[("LogStream_thorough.cfg", 1500), ("LogStream_thorough_faults.cfg", 900), ("LogStream_quick.cfg", 600),
                    ("LogStream_quick_kinds.cfg", 600)],
                cover="LogStream_cover_thorough.cfg", extra_edges=6000, cover_cap=None, sim=(3000, 45, 200), stress=3000,
                packlogs=50000, workers=12, record=2000, record_chunk=400, record_rounds=(6, 4), record_race=300,
                restart_cfg=("LogStream_restart.cfg", 600))


def _sim_files(seed, nsample):
    """Module LogStreamSim (EXTENDS LogStream, defines a seeded sample of block-kind distributions over all five
    kinds) and its cfg = LogStream_sim.cfg with KindSample <- SampleKinds (cfg files cannot hold tuples)."""
    base = open(os.path.join(vlib.SPEC, "LogStream_sim.cfg")).read()
    max_head = int([ln.split("=")[1] for ln in base.split("\n") if ln.strip().startswith("MaxHead")][0])
    rng = random.Random(seed * 7919 + 13)
    sample = set()
    while len(sample) < nsample:
        dens = rng.choice([0.2, 0.5, 0.8])
        sample.add(tuple(rng.choice(KINDS[1:]) if rng.random() < dens else "none" for _ in range(max_head)))
    txt = "{" + ",\n  ".join("<<" + ", ".join('"%s"' % k for k in t) + ">>" for t in sorted(sample)) + "}"
    mod = "---- MODULE LogStreamSim ----\nEXTENDS LogStream\nSampleKinds ==\n  %s\n====\n" % txt
    cfg = "\n".join("  KindSample <- SampleKinds" if ln.strip().startswith("KindSample") else ln for ln in base.split("\n"))
    return {"LogStreamSim.tla": mod, "LogStreamSim.cfg": cfg}


def _slim(behs):
    """env is constant along a behaviour: keep it in the first step only."""
    for b in behs:
        for i, st in enumerate(b["steps"]):
            if i > 0 and "state" in st:
                st["state"].pop("env", None)
    return behs


def _attack_trace(cfg):
    """Counterexample of a named deviation; cached by the content of spec + cfg (it is a function of both)."""
    h = hashlib.sha256()
    for fn in (MODULE + ".tla", cfg):
        h.update(open(os.path.join(vlib.SPEC, fn), "rb").read())
    cdir = os.path.join(vlib.WORK, PROP, "attack_cache")
    os.makedirs(cdir, exist_ok=True)
    cpath = os.path.join(cdir, cfg.replace(".cfg", "") + "-" + h.hexdigest()[:16] + ".json")
    if os.path.exists(cpath):
        try:
            return json.load(open(cpath)), True
        except Exception:  # noqa: BLE001
            pass
    ra = vlib.tlc(MODULE, cfg, workers=2, timeout=900)
    if ra.error:
        raise vlib.MachineryError("attack config %s: %s" % (cfg, ra.error))
    if not ra.violation:
        return None, False
    beh = vlib.trace_behaviour(ra.trace, "attack-" + cfg.replace(".cfg", "").replace("LogStream_attack_", ""), "attack",
                               state_vars=STATE_VARS)
    with open(cpath + ".tmp", "w") as f:
        json.dump(beh, f)
    os.replace(cpath + ".tmp", cpath)
    return beh, False



# ----------------------------------------------------------------------------------------
# implementation -> specification: recorded free-running executions, validated by TLC
# ----------------------------------------------------------------------------------------

TRACE_MODULE = "LogStreamTrace"
TRACE_INVARIANTS = {
    "GotIncreasing": "block numbers of the stream handed to the consumer do not strictly increase",
    "GotNoRewind": "an entry for a block before the requested start was handed to the consumer (rewind)",
    "GotBlockComplete": "an entry does not carry exactly the block's non-removed logs in order",
    "GotNoGap": "a block with non-removed registry logs was passed over (gap)",
    "GotFollow": "an entry beyond head - followDistance was handed to the consumer",
    "GotCaughtUp": "at the quiescent point a block in [start, head - followDistance] with logs has not exactly one entry",
}


def _tlc_trace(cfg, lines, name, timeout=1800):
    """One TLC pass over recorded events.  Returns (status, at, TLCResult): status "accepted" | "rejected" (at = index
    of the first line the spec could not explain) | "violated" (at = index of the line whose state violates
    r.violation).  -difftrace keeps the printed counterexample small (it is as long as the trace)."""
    content = "\n".join(lines) + "\n"
    r = vlib.tlc(TRACE_MODULE, cfg, name=name, workers=1, timeout=timeout, depth_first=True,
                 files={"trace.ndjson": content}, extra=("-difftrace",), heap="6g")
    if r.violation and r.violation_kind == "invariant":
        return "violated", max(0, len(r.trace) - 2), r
    post = ("ostcondition" in r.out and ("violated" in r.out or "is false" in r.out)) or \
        ("TraceAccepted" in r.out and ("violated" in r.out or "is false" in r.out))
    if r.error and not post:
        raise vlib.MachineryError("TLC error during trace validation (%s): %s" % (cfg, r.error))
    if r.rc == -9:
        raise vlib.MachineryError("trace validation (%s) did not finish within %ds" % (cfg, timeout))
    consumed = max(0, r.depth - 1)
    if not post and not r.violation and consumed == len(lines):
        return "accepted", consumed, r
    if r.depth == 0:
        raise vlib.MachineryError("trace validation (%s) produced no statistics:\n%s" % (cfg, r.out[-2000:]))
    return "rejected", min(consumed, len(lines) - 1), r


def _executions(lines):
    """[(first, last+1)] of every execution (Reset .. the line before the next Reset)"""
    starts = [i for i, ln in enumerate(lines) if '"event":"Reset"' in ln]
    return [(a, (starts[k + 1] if k + 1 < len(starts) else len(lines))) for k, a in enumerate(starts)]


def _exec_of(execs, idx):
    for a, b in execs:
        if a <= idx < b:
            return a, b
    return execs[-1]


def _validate(lines, cfg, name, rounds, timeout=1800):
    """Validate; on a finding take the offending execution out and go on with the rest (bounded), so that one
    execution does not hide the others.  Returns (findings, generated, events validated)."""
    findings, generated = [], 0
    cur = list(lines)
    for k in range(rounds):
        if not cur:
            break
        status, at, r = _tlc_trace(cfg, cur, "%s-%d" % (name, k), timeout)
        generated += r.generated
        if status == "accepted":
            break
        a, b = _exec_of(_executions(cur), at)
        findings.append({"status": status, "invariant": r.violation if status == "violated" else None,
                         "exec": json.loads(cur[a]).get("x", "?"), "line_in_exec": at - a + 1, "event": cur[at][:300],
                         "slice": cur[a:b]})
        cur = cur[:a] + cur[b:]
    else:
        findings.append({"status": "unfinished", "invariant": None, "exec": "?", "line_in_exec": 0, "event": "", "slice": []})
    return findings, generated, len(cur)


def _corruptions(lines):
    """Binding self-test inputs: (what, expected finding kind per cfg, corrupted prefix of the trace)."""
    execs = _executions(lines)
    out = {}
    for a, b in execs:
        evs = [json.loads(x) for x in lines[a:b]]
        names = [e["event"] for e in evs]
        dl = [i for i, n in enumerate(names) if n == "Deliver"]
        if "deliver" not in out and len(dl) >= 2:
            # a delivered block number is falsified (the second entry claims the block of the first)
            e = dict(evs[dl[1]])
            e["b"] = evs[dl[0]]["b"]
            c = lines[:b]
            c[a + dl[1]] = json.dumps(e, separators=(",", ":"))
            out["deliver"] = ("delivered block number of line %d falsified" % (a + dl[1] + 1), a + dl[1], c)
        if "drop" not in out and len(dl) >= 2 and names[-1] == "End" and evs[-1].get("complete"):
            c = lines[:b]
            del c[a + dl[-1]]
            out["drop"] = ("Deliver event of line %d dropped" % (a + dl[-1] + 1), a + dl[-1], c)
        if "range" not in out:
            for i, e in enumerate(evs):
                if names[i] in ("Cut", "Kill", "Poison"):
                    break
                if names[i] == "GetLogs" and e["res"] == "ok" and e["b"] > e["a"]:
                    e = dict(e)
                    e["b"] = e["b"] - 1
                    c = lines[:b]
                    c[a + i] = json.dumps(e, separators=(",", ":"))
                    out["range"] = ("eth_getLogs range of line %d falsified" % (a + i + 1), a + i, c)
                    break
        if len(out) == 3:
            break
    return out


def _selftest(lines, tag):
    """The binding is real: a falsified delivered block number must be rejected by the conformance reading AND violate
    an invariant of the observation reading; a falsified fetch range and a dropped event must be rejected."""
    cs = _corruptions(lines)
    res = {}
    jobs = []
    with cf.ThreadPoolExecutor(max_workers=4) as ex:
        for what, (desc, at, c) in cs.items():
            jobs.append((what, "bind", desc, at, ex.submit(_tlc_trace, "LogStreamTrace.cfg", c, "%s-self-%s" % (tag, what), 900)))
            if what == "deliver":
                jobs.append((what, "obs", desc, at, ex.submit(_tlc_trace, "LogStreamTrace_obs.cfg", c, "%s-selfobs-%s" % (tag, what), 900)))
        for what, reading, desc, at, fut in jobs:
            status, where, r = fut.result()
            if reading == "bind":
                if status != "rejected":
                    raise vlib.MachineryError("binding self-test failed: %s, but LogStreamTrace %s the trace" % (desc, status))
                res[what] = "%s: rejected at line %d" % (desc, where + 1)
            else:
                if status != "violated":
                    raise vlib.MachineryError("binding self-test failed: %s, but no invariant of the observation reading fired" % desc)
                res[what + "_obs"] = "%s: %s violated at line %d" % (desc, r.violation, where + 1)
    for what in ("deliver", "range", "drop"):
        res.setdefault(what, "skipped (no suitable event)")
    return res


def _race_reports(prefix):
    """GORACE log files -> (reports with both stacks in the driver's own code, reports touching other code, sample)"""
    own, other, sample = 0, 0, None
    for fn in glob.glob(prefix + "*"):
        txt = open(fn, errors="replace").read()
        for rep in txt.split("WARNING: DATA RACE")[1:]:
            frames = re.findall(r"^  (\S+)\(\)$", rep, re.M)
            tops = [f for f in frames if not f.startswith("runtime.")]
            foreign = [f for f in tops if not f.startswith("main.")]
            if foreign:
                other += 1
                sample = sample or foreign[:4]
            else:
                own += 1
        os.remove(fn)
    return own, other, sample


def _trace_direction(drv, wd, seed, runs, chunk, tag, verdict_items, kills=True, race=False, selftest=True, rounds=(3, 2)):
    """Record `runs` free-running executions on the real client and validate them.  Appends (signature, description,
    replay path) to verdict_items for every invariant of the observation reading violated on a real trace and for
    every trip of the driver's own monitor.  Returns the coverage dict."""
    tr = os.path.join(wd, "trace_%s.ndjson" % tag)
    outr = os.path.join(wd, "record_result_%s.json" % tag)
    args = ["-mode", "record", "-trace", tr, "-out", outr, "-seed", str(seed), "-runs", str(runs), "-workers", "12"]
    env = None
    racelog = os.path.join(wd, "race_%s" % tag)
    if race:
        args.append("-kills=false")
        env = {"GORACE": "log_path=%s exitcode=0" % racelog}
    t0 = time.time()
    vlib.run_driver(drv, args, timeout=3000, env=env)
    res = json.load(open(outr))
    _machinery(res, "record")
    lines = [x for x in open(tr).read().split("\n") if x.strip()]
    execs = _executions(lines)
    by_id = {json.loads(lines[a]).get("x"): (a, b) for a, b in execs}
    cov = {"executions": res["behaviours"], "events": len(lines), "with_faults_and_logs": res["nontrivial"],
           "counters": res["counters"], "record_wall_s": round(time.time() - t0, 1)}
    if race:
        own, other, sample = _race_reports(racelog)
        if own:
            raise vlib.MachineryError("the race detector reports %d data races inside the logstream driver" % own)
        cov["race_detector"] = {"reports_outside_driver": other, "sample_frames": sample}
    for v in res["violations"]:
        a, b = by_id.get(v["behaviour"], (0, 0))
        rp = vlib.save_replay(PROP, "trace-%s.ndjson" % v["behaviour"], "\n".join(lines[a:b]) + "\n") if b else tr
        verdict_items.append((v["signature"], "%s [%s event %d, driver monitor]" % (v["description"], v["behaviour"], v["step"]), rp))

    # chunks of whole executions, the two readings of every chunk in parallel
    chunks, cur, n = [], [], 0
    for a, b in execs:
        cur += lines[a:b]
        n += 1
        if n == chunk:
            chunks.append(cur)
            cur, n = [], 0
    if cur:
        chunks.append(cur)
    t1 = time.time()
    generated, validated, divergences, violations = 0, 0, [], []
    with cf.ThreadPoolExecutor(max_workers=4) as ex:
        futs = []
        for k, c in enumerate(chunks):
            futs.append(("obs", ex.submit(_validate, c, "LogStreamTrace_obs.cfg", "%s-obs%d" % (tag, k), rounds[0])))
            futs.append(("bind", ex.submit(_validate, c, "LogStreamTrace.cfg", "%s-bind%d" % (tag, k), rounds[1])))
        f_self = ex.submit(_selftest, chunks[0], tag) if (selftest and chunks) else None
        for reading, fut in futs:
            findings, gen, nval = fut.result()
            generated += gen
            if reading == "bind":
                validated += nval
            for f in findings:
                if f["status"] == "unfinished":
                    cov.setdefault("notes", []).append("%s reading: more findings than rounds, the rest of a chunk was not read" % reading)
                elif f["status"] == "violated" and reading == "obs":
                    violations.append(f)
                else:
                    divergences.append(dict(f, reading=reading))
        cov["binding_selftest"] = f_self.result() if f_self else "not run"
    for f in violations:
        rp = vlib.save_replay(PROP, "trace-%s-%s.ndjson" % (f["invariant"], f["exec"]), "\n".join(f["slice"]) + "\n")
        verdict_items.append(("trace-" + f["invariant"],
                              "%s: invariant %s of LogStreamTrace violated by the recorded execution %s at its event %d: %s" %
                              (TRACE_INVARIANTS.get(f["invariant"], "?"), f["invariant"], f["exec"], f["line_in_exec"], f["event"]), rp))
    for d in divergences[:5]:
        log("[C13] recorded execution %s not explained by the spec (%s reading, %s) at its event %d: %s" %
            (d["exec"], d["reading"], d["invariant"] or d["status"], d["line_in_exec"], d["event"]))
    cov.update({"events_explained": validated, "tlc_states": generated, "invariant_violations": len(violations),
                "rejected_executions": len(divergences), "validate_wall_s": round(time.time() - t1, 1),
                "rejected_samples": [{k: d[k] for k in ("exec", "reading", "status", "invariant", "line_in_exec", "event")}
                                     for d in divergences[:5]]})
    log("[C13] trace direction (%s): %d free-running executions / %d events recorded from the real client in %.1fs; "
        "observation reading: %d invariant violations; conformance reading: %d events explained, %d executions rejected; %.1fs TLC" %
        (tag, res["behaviours"], len(lines), cov["record_wall_s"], len(violations), validated, len(divergences), cov["validate_wall_s"]))
    return cov


def run(tier, seed):
    t0 = time.time()
    T = _tier(tier)
    verdict = vlib.Verdict(PROP)
    cov = {"configs": [], "attack_traces": 0, "divergences": 0}
    wd = os.path.join(vlib.WORK, PROP)
    os.makedirs(wd, exist_ok=True)
    drv = vlib.go_build("logstream")

    # ---- all TLC work in parallel: exhaustive configs, cover graph, simulation, attack traces
    pool = cf.ThreadPoolExecutor(max_workers=7)
    trace_items = []
    f_trace = pool.submit(_trace_direction, drv, wd, seed, T["record"], T["record_chunk"], "rec", trace_items, True, False, True,
                          T["record_rounds"])
    f_restart = pool.submit(vlib.tlc, MODULE, T["restart_cfg"][0], None, 4, T["restart_cfg"][1] + 300, T["restart_cfg"][1]) \
        if T["restart_cfg"] else None
    f_mc = [(cfg, pool.submit(vlib.tlc, MODULE, cfg, None, 6, budget + 300, budget)) for cfg, budget in T["mc"]]
    f_cover = pool.submit(vlib.tlc_dump_graph, MODULE, T["cover"], None, 1500, None, 4)
    num, depth, nsample = T["sim"]
    f_sim = pool.submit(vlib.tlc_simulate, "LogStreamSim", "LogStreamSim.cfg", num, depth, seed, None, 1500,
                        _sim_files(seed, nsample), STATE_VARS + ["act"])
    f_att = [(cfg, desc, pool.submit(_attack_trace, cfg)) for cfg, desc in ATTACKS]

    # meanwhile: PackLogs and the free-running stress run on the real client
    outk = os.path.join(wd, "packlogs_result.json")
    vlib.run_driver(drv, ["-mode", "packlogs", "-out", outk, "-seed", str(seed), "-runs", str(T["packlogs"])])
    resk = json.load(open(outk))
    _collect(resk, verdict, "packlogs:seed=%d:runs=%d" % (seed, T["packlogs"]))
    outs = os.path.join(wd, "stress_result.json")
    vlib.run_driver(drv, ["-mode", "stress", "-out", outs, "-seed", str(seed), "-runs", str(T["stress"]),
                          "-workers", str(T["workers"])], timeout=2400)
    ress = json.load(open(outs))
    _collect(ress, verdict, "stress:seed=%d:runs=%d" % (seed, T["stress"]))
    _machinery(ress, "stress")
    cov["stress_runs"] = ress["behaviours"]
    cov["stress_with_faults_and_logs"] = ress["nontrivial"]
    cov["stress_counters"] = ress["counters"]
    cov["packlogs_runs"] = resk["behaviours"]
    cov["divergences"] += ress["counters"].get("divergences", 0)
    log("[C13] stress: %d free-running executions (%d with faults and logs), %d faults injected, %d violations; packlogs: %d lists" %
        (ress["behaviours"], ress["nontrivial"], ress["counters"].get("faults", 0), ress["counters"].get("violations", 0),
         resk["behaviours"]))

    # ---- 2. (while the exhaustive runs finish) behaviours: state-graph cover + seeded simulation + attack traces
    rg, nodes, edges, inits = f_cover.result()
    if not vlib.expect_tlc_ok(rg, T["cover"]):
        raise vlib.MachineryError("cover config violates %s" % rg.violation)
    behs, gstat = vlib.graph_behaviours(nodes, edges, inits, seed, max_extra=T["extra_edges"], state_vars=STATE_VARS)
    if T["cover_cap"] and len(behs) > T["cover_cap"]:   # quick: a seeded sample of the cover (thorough replays all of it)
        random.Random(seed).shuffle(behs)
        behs = behs[:T["cover_cap"]]
    gstat["replayed"] = len(behs)
    cov["cover_graph"] = gstat
    rs, sb = f_sim.result()
    if rs.violation or rs.error:
        raise vlib.MachineryError("simulation config: %s %s" % (rs.violation, rs.error))
    for k, b in enumerate(sb):
        behs.append(vlib.trace_behaviour(b, "sim-%d-%d" % (seed, k), "sim", state_vars=STATE_VARS))
    cov["sim_behaviours"] = len(sb)
    sim_generated = rs.generated
    attack_behs = []
    for cfg, desc, fut in f_att:
        beh, cached = fut.result()
        if beh is None:
            log("[C13] attack config %s produced no counterexample (not counted)" % cfg)
            continue
        beh = dict(beh, kind="attack:" + desc)
        attack_behs.append(beh)
    cov["attack_traces"] = len(attack_behs)
    allb = _slim(attack_behs + behs)
    inp = os.path.join(wd, "behaviours.ndjson")
    vlib.write_ndjson(inp, allb)
    outp = os.path.join(wd, "replay_result.json")
    vlib.run_driver(drv, ["-mode", "replay", "-in", inp, "-out", outp, "-workers", str(T["workers"])], timeout=3000)
    res = json.load(open(outp))
    _machinery(res, "replay")
    byid = {b["id"]: b for b in allb}
    for v in res["violations"]:
        rp = vlib.save_replay(PROP, v["behaviour"] + ".ndjson", json.dumps(byid[v["behaviour"]]) + "\n") \
            if v["behaviour"] in byid else inp
        verdict.violation(v["signature"], "%s [%s step %d]" % (v["description"], v["behaviour"], v["step"]), rp)
    cov["replayed_behaviours"] = res["behaviours"]
    cov["replayed_steps"] = res["steps"]
    cov["replay_counters"] = res["counters"]
    cov["divergences"] += res["counters"].get("divergences", 0)
    cov["divergence_samples"] = res["divergences"][:5]
    log("[C13] replayed %d behaviours / %d steps on the real client (%d cover, %d sim, %d attack): %d violations, "
        "%d divergences, %d attack steps refused" %
        (res["behaviours"], res["steps"], len(behs) - len(sb), len(sb), len(attack_behs), res["counters"].get("violations", 0),
         res["counters"].get("divergences", 0), res["counters"].get("attack_steps_refused", 0)))

    # ---- 3. exhaustive model checking of the faithful spec
    states, transitions = 0, sim_generated
    exhaustive = True
    for cfg, fut in f_mc:
        r = fut.result()
        if not vlib.expect_tlc_ok(r, cfg):
            raise vlib.MachineryError("faithful LogStream spec violates %s in %s (model error, not a verdict):\n%s" %
                                      (r.violation, cfg, json.dumps(vlib.tlaval.plain([s.get("act") for s in r.trace]))))
        cov["configs"].append({"cfg": cfg, "distinct": r.distinct, "generated": r.generated, "depth": r.depth,
                               "exhaustive": r.finished, "wall_s": round(r.wall, 1)})
        states += r.distinct
        transitions += r.generated
        exhaustive = exhaustive and r.finished
        log("[C13] TLC %s: %d distinct / %d generated, finished=%s, %.1fs" % (cfg, r.distinct, r.generated, r.finished, r.wall))
    if f_restart:
        r = f_restart.result()
        if not vlib.expect_tlc_ok(r, T["restart_cfg"][0]):
            raise vlib.MachineryError("LogStream with Restart / SubErrorPending violates %s (model error, not a verdict)" % r.violation)
        cov["configs"].append({"cfg": T["restart_cfg"][0], "distinct": r.distinct, "generated": r.generated, "depth": r.depth,
                               "exhaustive": r.finished, "wall_s": round(r.wall, 1)})
        states += r.distinct
        transitions += r.generated
        exhaustive = exhaustive and r.finished

    # ---- 4. implementation -> specification: the recorded free-running executions
    cov["trace"] = f_trace.result()
    if T["record_race"]:
        cov["trace_race"] = _trace_direction(vlib.go_build("logstream", race=True), wd, seed + 101, T["record_race"],
                                             T["record_chunk"], "race", trace_items, kills=False, race=True, selftest=False,
                                             rounds=T["record_rounds"])
    pool.shutdown()
    for sig, desc, rp in trace_items:
        verdict.violation(sig, desc, rp)
    cov["divergences"] += cov["trace"]["rejected_executions"] + cov["trace"]["counters"].get("divergences", 0)
    transitions += cov["trace"]["tlc_states"]

    rc = verdict.report()
    if cov["divergences"] and rc == 0:
        log("[C13] NOTE: %d conformance divergences without a monitor trip (see evidence)" % cov["divergences"])
    diverged_behs = len(set(d["behaviour"] for d in res["divergences"])) if res["counters"].get("divergences", 0) else 0
    coverage = {
        "states": states, "transitions": transitions,
        "traces_validated_against_impl": max(0, res["behaviours"] - len(attack_behs) - res["counters"].get("aborted_schedules", 0)
                                             - res["counters"].get("abandoned_client_hang_after_cut", 0)
                                             - max(diverged_behs, min(res["counters"].get("divergences", 0), res["behaviours"])))
        + max(0, cov["trace"]["executions"] - cov["trace"]["rejected_executions"]
              - cov["trace"]["counters"].get("abandoned_client_hang_after_cut", 0)),
        "samples": res["samples"][:2] + ress["samples"][:1],
        "evaluations": res["steps"] + ress["steps"] + resk["behaviours"] + cov["trace"]["events"],
        "distinct_nontrivial": res["nontrivial"] + ress["nontrivial"],
        "rule": "replayed behaviours = BFS-tree leaves of the dumped state graph + seeded non-tree edges + TLC simulations of a "
                "larger instance with seeded block-kind distributions + counterexamples of the named deviations; stress = "
                "free-running seeded fault injection; non-trivial = at least one injected failure and at least one entry "
                "with logs handed to the real handler (behaviour ids are distinct by construction); trace = free-running "
                "executions under a seeded random environment recorded at the node's RPC boundary and at the consumer, read by "
                "TLC as observations (C13 invariants) and as a conformance check against LogStream (LogStreamTrace)",
        "exhaustive": bool(exhaustive),
        "detail": cov,
    }
    vlib.write_evidence(PROP, tier, seed, "model_checking", coverage, time.time() - t0, [
        "the execution node is honest and append-only in these runs: eth_getLogs answers are in canonical (block, log index) "
        "order and there are no reorgs (removed logs appear only as flagged entries of an answer)",
        "exhaustive results hold for the stated constants (chain <= MaxHead blocks, <= MaxFaults failures)",
        "a connection cut and a subscription error are the same event for the client (go-ethereum reports both on sub.Err())",
        "the historical sync restarts, as cli/operator/node.go does after a Fatal, from the block after the last entry "
        "its handler processed",
        "go-ethereum's rpc client/server and Go channel semantics are trusted",
        "recorded executions: events are ordered by a sequence number taken under the one mutex that also guards the fake "
        "node's connection table, live subscription and head; executions in which go-ethereum's rpc client stays blocked "
        "after a cut are recorded up to that point and given up without a completeness verdict",
    ], len(verdict.violations))
    return rc


def _machinery(res, what):
    if res["counters"].get("errors", 0):
        raise vlib.MachineryError("%s driver could not run %d executions: %s" % (what, res["counters"]["errors"], res["notes"][:3]))


def _collect(res, verdict, replay_path):
    for v in res["violations"]:
        verdict.violation(v["signature"], "%s [%s step %d]" % (v["description"], v["behaviour"], v["step"]), replay_path)


def replay(path):
    drv = vlib.go_build("logstream")
    verdict = vlib.Verdict(PROP)
    wd = os.path.join(vlib.WORK, PROP)
    os.makedirs(wd, exist_ok=True)
    outp = os.path.join(wd, "replay_single.json")
    if os.path.exists(path) and '"event"' in open(path).readline():
        # the slice of a recorded execution: the observation reading of LogStreamTrace decides again
        lines = [x for x in open(path).read().split("\n") if x.strip()]
        status, at, r = _tlc_trace("LogStreamTrace_obs.cfg", lines, "replay-obs", 900)
        if status == "violated":
            verdict.violation("trace-" + r.violation, "%s: invariant %s violated at event %d of the recorded execution: %s" %
                              (TRACE_INVARIANTS.get(r.violation, "?"), r.violation, at + 1, lines[at][:300]), path)
        status, at, r = _tlc_trace("LogStreamTrace.cfg", lines, "replay-bind", 900)
        log("conformance reading of the recorded execution: %s%s" % (status, "" if status == "accepted" else " at event %d" % (at + 1)))
        return verdict.report()
    if path.startswith("stress:") or path.startswith("packlogs:"):
        mode, seed, runs = path.split(":")
        vlib.run_driver(drv, ["-mode", mode, "-out", outp, "-seed", seed.split("=")[1], "-runs", runs.split("=")[1]])
    else:
        vlib.run_driver(drv, ["-mode", "replay", "-in", path, "-out", outp, "-workers", "4"])
    res = json.load(open(outp))
    _collect(res, verdict, path)
    for d in res.get("divergences", [])[:5]:
        log("DIVERGENCE %s" % json.dumps(d))
    return verdict.report()
