"""C13 - every finalized-enough block's registry logs are delivered once, in order (spec/LogStream.tla).

TLC checks the faithful spec exhaustively (every distribution of logs over blocks, batch sizes, follow distances,
<= MaxFaults failures in any position); the dumped state graph, seeded simulations of a larger instance and the
counterexamples of the named deviations (the pre-fix two-cursor algorithm and four single-guard weakenings) are
replayed on the real ExecutionClient / EventSyncer against a gated in-process execution node; a free-running seeded
fault-injection run and a PackLogs run complete the picture.  Verdicts come from the monitor on the real stream only.
"""
import concurrent.futures as cf
import hashlib
import json
import os
import random
import time

import vlib
from vlib import log

PROP = "C13"
MODULE = "LogStream"
STATE_VARS = ["env", "pc", "from", "delivered"]
KINDS = ["none", "one", "two", "rm", "mix"]

ATTACKS = [  # (cfg, description)
    ("LogStream_attack_code0_gap.cfg", "two-cursor algorithm before c3050e311: NoGapDelivered (failed eth_subscribe skips the start block)"),
    ("LogStream_attack_code0_rewind.cfg", "two-cursor algorithm before c3050e311: NoRewind (failed first eth_getLogs restarts from block 1)"),
    ("LogStream_attack_code0_incr.cfg", "two-cursor algorithm before c3050e311: StrictlyIncreasing"),
    ("LogStream_attack_code0_suberr.cfg", "two-cursor algorithm before c3050e311 after a history sync: NoGapDelivered"),
    ("LogStream_attack_noadvance.cfg", "cursor not advanced per forwarded entry: StrictlyIncreasing"),
    ("LogStream_attack_skipfailed.cfg", "failed batch skipped on resume: NoGapDelivered"),
    ("LogStream_attack_keepremoved.cfg", "removed logs not filtered: PerBlockComplete"),
    ("LogStream_attack_followoff.cfg", "toBlock = head - followDistance + 1: FollowRespected"),
]


def _tier(tier):
    if tier == "quick":
        return dict(mc=[("LogStream_quick.cfg", 110), ("LogStream_quick_kinds.cfg", 90)], cover="LogStream_cover.cfg",
                    extra_edges=300, cover_cap=2500, sim=(150, 40, 24), stress=120, packlogs=2000, workers=12)
    return dict(mc=[("LogStream_thorough.cfg", 1500), ("LogStream_thorough_faults.cfg", 900), ("LogStream_quick.cfg", 600),
                    ("LogStream_quick_kinds.cfg", 600)],
                cover="LogStream_cover_thorough.cfg", extra_edges=6000, cover_cap=None, sim=(3000, 45, 200), stress=3000,
                packlogs=50000, workers=12)


def _sim_files(seed, nsample):
    """Module LogStreamSim (EXTENDS LogStream, defines a seeded sample of block-kind distributions over all five
    kinds) and its cfg = LogStream_sim.cfg with KindSample <- SampleKinds (cfg files cannot hold tuples)."""
    base = open(os.path.join(vlib.SPEC, "LogStream_sim.cfg")).read()
    max_head = int([ln.split("=")[1] for ln in base.split("\n") if ln.strip().startswith("MaxHead")][0])
    rng = random.Random(seed * 7919 + 13)
    sample = set()
    while len(sample) < nsample:
        dens = rng.choice([0.2, 0.5, 0.8])
        sample.add(tuple(rng.choice(KINDS[1:]) if rng.random() < dens else "none" for _ in range(max_head)))
    txt = "{" + ",\n  ".join("<<" + ", ".join('"%s"' % k for k in t) + ">>" for t in sorted(sample)) + "}"
    mod = "---- MODULE LogStreamSim ----\nEXTENDS LogStream\nSampleKinds ==\n  %s\n====\n" % txt
    cfg = "\n".join("  KindSample <- SampleKinds" if ln.strip().startswith("KindSample") else ln for ln in base.split("\n"))
    return {"LogStreamSim.tla": mod, "LogStreamSim.cfg": cfg}


def _slim(behs):
    """env is constant along a behaviour: keep it in the first step only."""
    for b in behs:
        for i, st in enumerate(b["steps"]):
            if i > 0 and "state" in st:
                st["state"].pop("env", None)
    return behs


def _attack_trace(cfg):
    """Counterexample of a named deviation; cached by the content of spec + cfg (it is a function of both)."""
    h = hashlib.sha256()
    for fn in (MODULE + ".tla", cfg):
        h.update(open(os.path.join(vlib.SPEC, fn), "rb").read())
    cdir = os.path.join(vlib.WORK, PROP, "attack_cache")
    os.makedirs(cdir, exist_ok=True)
    cpath = os.path.join(cdir, cfg.replace(".cfg", "") + "-" + h.hexdigest()[:16] + ".json")
    if os.path.exists(cpath):
        try:
            return json.load(open(cpath)), True
        except Exception:  # noqa: BLE001
            pass
    ra = vlib.tlc(MODULE, cfg, workers=2, timeout=900)
    if ra.error:
        raise vlib.MachineryError("attack config %s: %s" % (cfg, ra.error))
    if not ra.violation:
        return None, False
    beh = vlib.trace_behaviour(ra.trace, "attack-" + cfg.replace(".cfg", "").replace("LogStream_attack_", ""), "attack",
                               state_vars=STATE_VARS)
    with open(cpath + ".tmp", "w") as f:
        json.dump(beh, f)
    os.replace(cpath + ".tmp", cpath)
    return beh, False


def run(tier, seed):
    t0 = time.time()
    T = _tier(tier)
    verdict = vlib.Verdict(PROP)
    cov = {"configs": [], "attack_traces": 0, "divergences": 0}
    wd = os.path.join(vlib.WORK, PROP)
    os.makedirs(wd, exist_ok=True)
    drv = vlib.go_build("logstream")

    # ---- all TLC work in parallel: exhaustive configs, cover graph, simulation, attack traces
    pool = cf.ThreadPoolExecutor(max_workers=5)
    f_mc = [(cfg, pool.submit(vlib.tlc, MODULE, cfg, None, 6, budget + 300, budget)) for cfg, budget in T["mc"]]
    f_cover = pool.submit(vlib.tlc_dump_graph, MODULE, T["cover"], None, 1500, None, 4)
    num, depth, nsample = T["sim"]
    f_sim = pool.submit(vlib.tlc_simulate, "LogStreamSim", "LogStreamSim.cfg", num, depth, seed, None, 1500,
                        _sim_files(seed, nsample), STATE_VARS + ["act"])
    f_att = [(cfg, desc, pool.submit(_attack_trace, cfg)) for cfg, desc in ATTACKS]

    # meanwhile: PackLogs and the free-running stress run on the real client
    outk = os.path.join(wd, "packlogs_result.json")
    vlib.run_driver(drv, ["-mode", "packlogs", "-out", outk, "-seed", str(seed), "-runs", str(T["packlogs"])])
    resk = json.load(open(outk))
    _collect(resk, verdict, "packlogs:seed=%d:runs=%d" % (seed, T["packlogs"]))
    outs = os.path.join(wd, "stress_result.json")
    vlib.run_driver(drv, ["-mode", "stress", "-out", outs, "-seed", str(seed), "-runs", str(T["stress"]),
                          "-workers", str(T["workers"])], timeout=2400)
    ress = json.load(open(outs))
    _collect(ress, verdict, "stress:seed=%d:runs=%d" % (seed, T["stress"]))
    _machinery(ress, "stress")
    cov["stress_runs"] = ress["behaviours"]
    cov["stress_with_faults_and_logs"] = ress["nontrivial"]
    cov["stress_counters"] = ress["counters"]
    cov["packlogs_runs"] = resk["behaviours"]
    cov["divergences"] += ress["counters"].get("divergences", 0)
    log("[C13] stress: %d free-running executions (%d with faults and logs), %d faults injected, %d violations; packlogs: %d lists" %
        (ress["behaviours"], ress["nontrivial"], ress["counters"].get("faults", 0), ress["counters"].get("violations", 0),
         resk["behaviours"]))

    # ---- 2. (while the exhaustive runs finish) behaviours: state-graph cover + seeded simulation + attack traces
    rg, nodes, edges, inits = f_cover.result()
    if not vlib.expect_tlc_ok(rg, T["cover"]):
        raise vlib.MachineryError("cover config violates %s" % rg.violation)
    behs, gstat = vlib.graph_behaviours(nodes, edges, inits, seed, max_extra=T["extra_edges"], state_vars=STATE_VARS)
    if T["cover_cap"] and len(behs) > T["cover_cap"]:   # quick: a seeded sample of the cover (thorough replays all of it)
        random.Random(seed).shuffle(behs)
        behs = behs[:T["cover_cap"]]
    gstat["replayed"] = len(behs)
    cov["cover_graph"] = gstat
    rs, sb = f_sim.result()
    if rs.violation or rs.error:
        raise vlib.MachineryError("simulation config: %s %s" % (rs.violation, rs.error))
    for k, b in enumerate(sb):
        behs.append(vlib.trace_behaviour(b, "sim-%d-%d" % (seed, k), "sim", state_vars=STATE_VARS))
    cov["sim_behaviours"] = len(sb)
    sim_generated = rs.generated
    attack_behs = []
    for cfg, desc, fut in f_att:
        beh, cached = fut.result()
        if beh is None:
            log("[C13] attack config %s produced no counterexample (not counted)" % cfg)
            continue
        beh = dict(beh, kind="attack:" + desc)
        attack_behs.append(beh)
    cov["attack_traces"] = len(attack_behs)
    allb = _slim(attack_behs + behs)
    inp = os.path.join(wd, "behaviours.ndjson")
    vlib.write_ndjson(inp, allb)
    outp = os.path.join(wd, "replay_result.json")
    vlib.run_driver(drv, ["-mode", "replay", "-in", inp, "-out", outp, "-workers", str(T["workers"])], timeout=3000)
    res = json.load(open(outp))
    _machinery(res, "replay")
    byid = {b["id"]: b for b in allb}
    for v in res["violations"]:
        rp = vlib.save_replay(PROP, v["behaviour"] + ".ndjson", json.dumps(byid[v["behaviour"]]) + "\n") \
            if v["behaviour"] in byid else inp
        verdict.violation(v["signature"], "%s [%s step %d]" % (v["description"], v["behaviour"], v["step"]), rp)
    cov["replayed_behaviours"] = res["behaviours"]
    cov["replayed_steps"] = res["steps"]
    cov["replay_counters"] = res["counters"]
    cov["divergences"] += res["counters"].get("divergences", 0)
    cov["divergence_samples"] = res["divergences"][:5]
    log("[C13] replayed %d behaviours / %d steps on the real client (%d cover, %d sim, %d attack): %d violations, "
        "%d divergences, %d attack steps refused" %
        (res["behaviours"], res["steps"], len(behs) - len(sb), len(sb), len(attack_behs), res["counters"].get("violations", 0),
         res["counters"].get("divergences", 0), res["counters"].get("attack_steps_refused", 0)))

    # ---- 3. exhaustive model checking of the faithful spec
    states, transitions = 0, sim_generated
    exhaustive = True
    for cfg, fut in f_mc:
        r = fut.result()
        if not vlib.expect_tlc_ok(r, cfg):
            raise vlib.MachineryError("faithful LogStream spec violates %s in %s (model error, not a verdict):\n%s" %
                                      (r.violation, cfg, json.dumps(vlib.tlaval.plain([s.get("act") for s in r.trace]))))
        cov["configs"].append({"cfg": cfg, "distinct": r.distinct, "generated": r.generated, "depth": r.depth,
                               "exhaustive": r.finished, "wall_s": round(r.wall, 1)})
        states += r.distinct
        transitions += r.generated
        exhaustive = exhaustive and r.finished
        log("[C13] TLC %s: %d distinct / %d generated, finished=%s, %.1fs" % (cfg, r.distinct, r.generated, r.finished, r.wall))
    pool.shutdown()

    rc = verdict.report()
    if cov["divergences"] and rc == 0:
        log("[C13] NOTE: %d conformance divergences without a monitor trip (see evidence)" % cov["divergences"])
    diverged_behs = len(set(d["behaviour"] for d in res["divergences"])) if res["counters"].get("divergences", 0) else 0
    coverage = {
        "states": states, "transitions": transitions,
        "traces_validated_against_impl": max(0, res["behaviours"] - len(attack_behs) - res["counters"].get("aborted_schedules", 0)
                                             - res["counters"].get("abandoned_client_hang_after_cut", 0)
                                             - max(diverged_behs, min(res["counters"].get("divergences", 0), res["behaviours"]))),
        "samples": res["samples"][:2] + ress["samples"][:1],
        "evaluations": res["steps"] + ress["steps"] + resk["behaviours"],
        "distinct_nontrivial": res["nontrivial"] + ress["nontrivial"],
        "rule": "replayed behaviours = BFS-tree leaves of the dumped state graph + seeded non-tree edges + TLC simulations of a "
                "larger instance with seeded block-kind distributions + counterexamples of the named deviations; stress = "
                "free-running seeded fault injection; non-trivial = at least one injected failure and at least one entry "
                "with logs handed to the real handler (behaviour ids are distinct by construction)",
        "exhaustive": bool(exhaustive),
        "detail": cov,
    }
    vlib.write_evidence(PROP, tier, seed, "model_checking", coverage, time.time() - t0, [
        "the execution node is honest and append-only in these runs: eth_getLogs answers are in canonical (block, log index) "
        "order and there are no reorgs (removed logs appear only as flagged entries of an answer)",
        "exhaustive results hold for the stated constants (chain <= MaxHead blocks, <= MaxFaults failures)",
        "a connection cut and a subscription error are the same event for the client (go-ethereum reports both on sub.Err())",
        "the historical sync restarts, as cli/operator/node.go does after a Fatal, from the block after the last entry "
        "its handler processed",
        "go-ethereum's rpc client/server and Go channel semantics are trusted",
    ], len(verdict.violations))
    return rc


def _machinery(res, what):
    if res["counters"].get("errors", 0):
        raise vlib.MachineryError("%s driver could not run %d executions: %s" % (what, res["counters"]["errors"], res["notes"][:3]))


def _collect(res, verdict, replay_path):
    for v in res["violations"]:
        verdict.violation(v["signature"], "%s [%s step %d]" % (v["description"], v["behaviour"], v["step"]), replay_path)


def replay(path):
    drv = vlib.go_build("logstream")
    verdict = vlib.Verdict(PROP)
    wd = os.path.join(vlib.WORK, PROP)
    os.makedirs(wd, exist_ok=True)
    outp = os.path.join(wd, "replay_single.json")
    if path.startswith("stress:") or path.startswith("packlogs:"):
        mode, seed, runs = path.split(":")
        vlib.run_driver(drv, ["-mode", mode, "-out", outp, "-seed", seed.split("=")[1], "-runs", runs.split("=")[1]])
    else:
        vlib.run_driver(drv, ["-mode", "replay", "-in", path, "-out", outp, "-workers", "4"])
    res = json.load(open(outp))
    _collect(res, verdict, path)
    for d in res.get("divergences", [])[:5]:
        log("DIVERGENCE %s" % json.dumps(d))
    return verdict.report()
