"""C05 - only validly threshold-signed duty objects reach the beacon node, once (spec/PartialSig.tla)."""
import json
import os
import random
import re
import shutil
import time
from concurrent.futures import ThreadPoolExecutor

import vlib
from vlib import log

PROP = "C05"
MODULE = "MCPartialSig"
STATE_VARS = ["have", "sub", "finished"]
DRIVER = "partialsig"


def _tier(tier):
    if tier == "quick":
        return dict(
            mc=["PartialSig_n4.cfg", "PartialSig_n7.cfg"],
            mc_r2=None,   # quick: the two-root graph dump below is itself an exhaustive run with the invariants
            cover=("PartialSig_n4_cover.cfg", 1000, 300),          # cfg, leaves replayed (seeded sample), extra edges
            cover_r2=(120, 60),
            sims=[("PartialSig_n10_sim.cfg", 10, 1, 40, 30), ("PartialSig_n13_sim.cfg", 13, 1, 30, 36),
                  ("PartialSig_r3_sim.cfg", 7, 3, 40, 24)],
            record_runs=152, record_shards=4, full_every=40, attacks_n7=False)
    return dict(
        mc=["PartialSig_n4.cfg", "PartialSig_n7.cfg", "PartialSig_n7_thorough.cfg"],
        mc_r2={"perroot": "PartialSig_r2.cfg", "code": "PartialSig_r2_code.cfg"},
        cover=("PartialSig_n4_cover.cfg", None, 8000),
        cover_r2=(None, 3000),
        sims=[("PartialSig_n7_thorough.cfg", 7, 1, 3000, 24), ("PartialSig_n10_sim.cfg", 10, 1, 3000, 30),
              ("PartialSig_n13_sim.cfg", 13, 1, 3000, 36), ("PartialSig_r3_sim.cfg", 7, 3, 2000, 24)],
        record_runs=3000, record_shards=8, full_every=25, attacks_n7=True)


# (cfg, n, r, removed guard / named deviation)
ATTACKS = [
    ("PartialSig_attack_noverify.cfg", 4, 1, "ReconstructSignature without VerifyReconstructedSignature: SubmittedValid"),
    ("PartialSig_attack_noverify_n7.cfg", 7, 1, "ReconstructSignature without VerifyReconstructedSignature (7 operators): SubmittedValid"),
    ("PartialSig_attack_noevict.cfg", 4, 1, "fallback that does not evict invalid shares: NotPrevented"),
    ("PartialSig_attack_noevict_n7.cfg", 7, 1, "fallback that does not evict invalid shares (7 operators): NotPrevented"),
    ("PartialSig_attack_edge.cfg", 4, 1, "quorum reported on every message and Finished ignored: AtMostOnce"),
    ("PartialSig_attack_edge_r2.cfg", 4, 2, "quorum reported on every message, two roots: AtMostOnce"),
]
MULTIROOT = ("PartialSig_attack_code_multiroot.cfg", 4, 2,
             "roots loop of the pinned commit (returns at the first root that does not reconstruct): NotPrevented")


def _tlc(module, cfg, **kw):
    """vlib.tlc, repeated when the JVM was killed from outside (another check's timeout handler kills every TLC)."""
    r = None
    for _ in range(3):
        r = vlib.tlc(module, cfg, **kw)
        if r.finished or r.violation or r.error or (kw.get("stop_after") and r.wall >= kw["stop_after"]):
            return r
        log("[C05] TLC run of %s ended without a result after %.0fs (killed?) - repeating" % (cfg, r.wall))
    return r


def _dump(module, cfg, **kw):
    out = None
    for _ in range(3):
        out = vlib.tlc_dump_graph(module, cfg, **kw)
        if out[0].finished or out[0].violation or out[0].error:
            return out
        log("[C05] graph dump of %s ended without a result (killed?) - repeating" % cfg)
    return out


def _drive(binp, wd, name, behs, n, r, seed, full_every, verdict, extra=()):
    inp = os.path.join(wd, name + ".ndjson")
    outp = os.path.join(wd, name + "_result.json")
    vlib.write_ndjson(inp, behs)
    vlib.run_driver(binp, ["-mode", "replay", "-in", inp, "-out", outp, "-n", str(n), "-r", str(r), "-seed", str(seed),
                           "-fullevery", str(full_every)] + list(extra), timeout=3000)
    res = json.load(open(outp))
    _collect(res, verdict, "%s#n=%d,r=%d,seed=%d" % (inp, n, r, seed))
    return res


def _collect(res, verdict, replay_path):
    for v in res["violations"]:
        verdict.violation(v["signature"], "%s [%s step %d]" % (v["description"], v["behaviour"], v["step"]), replay_path)


def _attack_trace(cfg, desc):
    ra = _tlc(MODULE, cfg, workers=4, timeout=900)
    if ra.error:
        raise vlib.MachineryError("attack config %s: %s" % (cfg, ra.error))
    if not ra.violation:
        log("[C05] attack config %s produced no counterexample (not counted)" % cfg)
        return None
    return vlib.trace_behaviour(ra.trace, "attack-" + cfg.replace(".cfg", ""), "attack:" + desc, state_vars=STATE_VARS)


def _with_algo(cfg, algo):
    txt = open(os.path.join(vlib.SPEC, cfg)).read()
    for a in ("code", "perroot"):
        txt = txt.replace('Algo = "%s"' % a, 'Algo = "%s"' % algo)
    if algo == "code":   # NotPrevented of the pinned roots loop is the recorded finding, not a model error
        txt = txt.replace("INVARIANT NotPrevented\n", "")
    return {cfg: txt}


# ----------------------------------------------------------------------------------------
# implementation -> specification: recorded executions validated by spec/PartialSigTrace.tla
# ----------------------------------------------------------------------------------------
TRACE_MODULE = "PartialSigTrace"
TRACE_CFG = "PartialSigTrace.cfg"
# invariants of PartialSigTrace that state C05 on what the beacon node saw -> signature of the violation
PROPERTY_INVARIANTS = {"TSubmittedValid": "invalid-submission", "TAtMostOnce": "duplicate-submission",
                       "TNotPrevented": "submission-prevented"}
_re_trace_file = re.compile(r'trace_n(\d+)_r(\d+)\.ndjson$')


def _trace_cfg(n, r, algo):
    txt = open(os.path.join(vlib.SPEC, TRACE_CFG)).read()
    txt, c1 = re.subn(r'^(\s*)N = \d+', r'\g<1>N = %d' % n, txt, flags=re.M)
    txt, c2 = re.subn(r'^(\s*)R = \d+', r'\g<1>R = %d' % r, txt, flags=re.M)
    txt, c3 = re.subn(r'Algo = "\w+"', 'Algo = "%s"' % algo, txt)
    if (c1, c2, c3) != (1, 1, 1):
        raise vlib.MachineryError("cannot instantiate %s for N=%d R=%d Algo=%s" % (TRACE_CFG, n, r, algo))
    return txt


def _validate_lines(lines, n, r, algo, name):
    """One TLC run of PartialSigTrace over the given events.
    -> dict(status = accepted | violation | rejected, line = 1-based line of the event that broke it, inv, tlc,
            unexplained = 1-based lines of the events taken by the TUnexplained step)"""
    content = "\n".join(lines) + "\n"
    res = None
    for _ in range(3):
        # short traces: the JVM start dominates - C1 only (the option rides on vlib.tlc's heap argument, which is
        # pasted into JAVA_TOOL_OPTIONS after -Xmx)
        res = vlib.tlc(TRACE_MODULE, TRACE_CFG, name=name, workers=1, timeout=1800, depth_first=True,
                       heap="3g -XX:TieredStopAtLevel=1" if len(lines) < 4000 else "3g",
                       files={"trace.ndjson": content, TRACE_CFG: _trace_cfg(n, r, algo)})
        if res.violation or res.error or res.depth or res.distinct:
            break
        log("[C05] trace validation %s ended without a result after %.0fs (killed?) - repeating" % (name, res.wall))
    out = {"tlc": res, "status": "accepted", "line": None, "inv": None,
           "unexplained": sorted(set(int(x) for x in re.findall(r'<<"UNEXPLAINED", (\d+)>>', res.out)))}
    if res.violation:
        last = res.trace[-1] if res.trace else {}
        nxt = vlib.tlaval.plain(last.get("l")) if "l" in last else None
        if res.violation_kind != "invariant" or not isinstance(nxt, int):
            raise vlib.MachineryError("trace validation %s: unexpected TLC result %s\n%s" % (name, res.violation, res.out[-2000:]))
        out.update(status="violation", inv=res.violation, line=nxt - 1)
        return out
    post = "TraceAccepted" in res.out and ("is false" in res.out or "violated" in res.out)
    if res.error and not post:
        raise vlib.MachineryError("TLC error during trace validation %s: %s" % (name, res.error))
    consumed = max(0, res.depth - 1)
    if not post and consumed == len(lines):
        return out
    if not res.depth:
        raise vlib.MachineryError("trace validation %s produced no statistics:\n%s" % (name, res.out[-2000:]))
    out.update(status="rejected", line=consumed + 1)
    return out


def _execution_bounds(lines, line):
    """[a, b): the execution (Reset ... before the next Reset) that contains the 1-based line."""
    i = min(max(line - 1, 0), len(lines) - 1)
    a = i
    while a > 0 and '"event":"Reset"' not in lines[a]:
        a -= 1
    b = i + 1
    while b < len(lines) and '"event":"Reset"' not in lines[b]:
        b += 1
    return a, b


def _validate_file(path, n, r, algo, max_cuts=6):
    """Validate one recorded file. Events the specification cannot explain are divergences (the execution is followed
    further by its observations only). An execution on which a property invariant fails, or which TLC cannot read,
    is reported and cut out, and the rest is validated again.
    -> dict(events, executions, accepted_executions, wall, generated, findings=[...])"""
    lines = [x for x in open(path).read().split("\n") if x.strip()]
    total = len(lines)
    nexec = sum(1 for x in lines if '"event":"Reset"' in x)
    findings, wall, generated, cuts = [], 0.0, 0, 0
    flagged = set()   # executions with a finding
    tag = "pstrace-n%d-r%d" % (n, r)

    def finding(status, inv, line, upto):
        a, b = _execution_bounds(lines, line)
        ex = json.loads(lines[a]).get("exec")
        if (status, ex) not in flagged:
            flagged.add((status, ex))
            findings.append({"status": status, "inv": inv, "n": n, "r": r, "file": os.path.basename(path),
                             "event": lines[line - 1], "slice": lines[a:(line if upto else b)], "exec": ex})
        return a, b

    while lines:
        v = _validate_lines(lines, n, r, algo, tag)
        wall += v["tlc"].wall
        generated += v["tlc"].generated
        for ln in v["unexplained"]:
            if 1 <= ln <= len(lines):
                finding("unexplained", None, ln, False)
        if v["status"] == "accepted":
            break
        a, b = finding(v["status"], v["inv"], min(v["line"], len(lines)), True)
        lines = lines[:a] + lines[b:]
        cuts += 1
        if cuts >= max_cuts and lines:
            findings.append({"status": "unvalidated", "inv": None, "n": n, "r": r, "file": os.path.basename(path),
                             "event": "%d more events not validated after %d cut executions" % (len(lines), cuts), "slice": [], "exec": None})
            break
    return {"events": total, "executions": nexec, "accepted_executions": nexec - len(set(ex for _, ex in flagged)),
            "wall": wall, "generated": generated, "findings": findings, "n": n, "r": r}


def _judge(findings, verdict, cov):
    """Property invariant broken on a recorded state -> verdict (known-findings filter applies); everything else the
    specification cannot explain -> divergence."""
    for f in findings:
        if f["status"] == "violation" and f["inv"] in PROPERTY_INVARIANTS:
            sig = PROPERTY_INVARIANTS[f["inv"]]
            name = "trace-%s-%s.ndjson" % (sig, re.sub(r'[^A-Za-z0-9]+', "_", str(f["exec"])))
            rp = vlib.save_replay(PROP, name, "\n".join(f["slice"]) + "\n")
            verdict.violation(sig, "recorded execution %s (N=%d, %d roots) breaks invariant %s of PartialSigTrace at event %s" %
                              (f["exec"], f["n"], f["r"], f["inv"], f["event"]), rp)
            cov["trace_property_violations"] += 1
        else:
            why = {"unexplained": "no step of PartialSig explains the event", "rejected": "TLC cannot read the event"}.get(f["status"], f["status"])
            log("[C05] recorded execution %s (%s) NOT explained by PartialSigTrace: %s at event %s" % (f["exec"], f["file"], why, f["event"]))
            cov["trace_divergences"].append({"file": f["file"], "exec": f["exec"], "why": why, "event": f["event"][:400]})


def _run_record(binp, wd, seed, runs, shards, mode_args=None):
    """Run the driver's record mode in `shards` processes and concatenate the per-(N,R) trace files (every execution
    starts with a Reset event). -> (merged result, {(n, r): path})"""
    tdir = os.path.join(wd, "traces")
    shutil.rmtree(tdir, ignore_errors=True)
    os.makedirs(tdir)
    jobs = []
    for k in range(shards):
        nk = runs // shards + (1 if k < runs % shards else 0)
        if nk == 0:
            continue
        sd, so = os.path.join(tdir, "shard%d" % k), os.path.join(wd, "record_result_%d.json" % k)
        args = mode_args or ["-mode", "record", "-seed", str(seed * 1000 + k), "-runs", str(nk)]
        jobs.append((args + ["-tracedir", sd, "-out", so], sd, so))
    with ThreadPoolExecutor(max(1, len(jobs))) as ex:
        list(ex.map(lambda j: vlib.run_driver(binp, j[0], timeout=6000), jobs))
    merged, files = None, {}
    for _, sd, so in jobs:
        r = json.load(open(so))
        if merged is None:
            merged = r
        else:
            for k in ("behaviours", "steps", "nontrivial"):
                merged[k] += r[k]
            for k in ("violations", "divergences", "notes", "samples"):
                merged[k] = (merged.get(k) or []) + (r.get(k) or [])
            for k, v in r["counters"].items():
                merged["counters"][k] = merged["counters"].get(k, 0) + v
        for fn in sorted(os.listdir(sd)):
            m = _re_trace_file.search(fn)
            if not m:
                continue
            key = (int(m.group(1)), int(m.group(2)))
            dst = os.path.join(tdir, fn)
            with open(dst, "a") as out:
                out.write(open(os.path.join(sd, fn)).read())
            files[key] = dst
    return merged, files


def _record_and_validate(binp, wd, seed, runs, shards, algo, verdict, mode_args=None, selftest=True, label=None):
    t0 = time.time()
    res, files = _run_record(binp, wd, seed, runs, shards, mode_args)
    _collect(res, verdict, label or "record:seed=%d,runs=%d,shards=%d" % (seed, runs, shards))
    t1 = time.time()
    cov = {"executions": res["behaviours"], "events": 0, "files": [], "trace_divergences": [], "trace_property_violations": 0,
           "accepted_executions": 0, "driver_wall_s": round(t1 - t0, 1),
           "alphabet": {k[4:]: v for k, v in sorted(res["counters"].items()) if k.startswith("rec_")}}
    keys = sorted(files)
    with ThreadPoolExecutor(6) as ex:
        futs = [ex.submit(_validate_file, files[k], k[0], k[1], algo) for k in keys]
        st = ex.submit(_binding_selftest, files, algo, wd) if selftest else None
        outs = [f.result() for f in futs]
        cov["binding_selftest"] = st.result() if st else "not run"
    transitions = 0
    for o in outs:
        _judge(o["findings"], verdict, cov)
        cov["events"] += o["events"]
        cov["accepted_executions"] += o["accepted_executions"]
        cov["files"].append({"n": o["n"], "roots": o["r"], "events": o["events"], "executions": o["executions"],
                             "accepted_executions": o["accepted_executions"], "tlc_wall_s": round(o["wall"], 1)})
        transitions += o["generated"]
    cov["validation_wall_s"] = round(time.time() - t1, 1)
    log("[C05] recorded %d executions / %d events on the real runners (%.0fs); PartialSigTrace accepted %d executions, "
        "%d divergences, %d property violations on recorded states (%.0fs); self-test: %s" %
        (cov["executions"], cov["events"], cov["driver_wall_s"], cov["accepted_executions"], len(cov["trace_divergences"]),
         cov["trace_property_violations"], cov["validation_wall_s"], cov["binding_selftest"]))
    sample = None
    if keys:
        sample = open(files[keys[0]]).read().split("\n")[:8]
    return {"result": res, "cov": cov, "transitions": transitions, "sample": sample}


def _binding_selftest(files, algo, wd):
    """The binding is real: corrupt one recorded sender class / one submission flag / drop one event of a recorded
    trace and require TLC to reject it (the submission flag: by the property invariant TSubmittedValid)."""
    pick = None
    for key in sorted(files):
        if key[1] == 1:
            pick = key
            break
    if pick is None:
        return "skipped (no single-root trace)"
    n, r = pick
    lines = [x for x in open(files[pick]).read().split("\n") if x.strip()][:200]
    evs = [json.loads(x) for x in lines]
    i_cls = i_sub = i_drop = None
    for i, e in enumerate(evs):
        if e["event"] != "Recv" or i + 1 >= len(evs) or evs[i + 1]["event"] != "Recv":
            continue
        stored = e["cls"] == "ok" and e["err"] == "none" and not e["fin"] and e["kinds"] == ["good"] * r and \
            evs[i - 1]["event"] == "Recv" and sum(e["nsh"]) == sum(evs[i - 1]["nsh"]) + r
        if stored and i_cls is None:
            i_cls = i
        elif stored and i_drop is None:
            i_drop = i
        if e["subs"] and i_sub is None:
            i_sub = i
    if None in (i_cls, i_sub, i_drop):
        return "skipped (no suitable events)"
    out = []

    def variant(name, mut):
        ls = list(lines)
        mut(ls)
        return _validate_lines(ls, n, r, algo, "pstrace-selftest-" + name)

    def m_cls(ls):
        e = dict(evs[i_cls])
        e["kinds"] = ["garbage"] + e["kinds"][1:]
        ls[i_cls] = json.dumps(e, separators=(",", ":"))

    def m_sub(ls):
        e = dict(evs[i_sub])
        e["subs"] = [dict(e["subs"][0], ok=False)] + e["subs"][1:]
        ls[i_sub] = json.dumps(e, separators=(",", ":"))

    def m_drop(ls):
        del ls[i_drop]

    with ThreadPoolExecutor(4) as ex:
        fb, fc, fs, fd = (ex.submit(variant, nm, mu) for nm, mu in
                          (("unchanged", lambda ls: None), ("class", m_cls), ("subflag", m_sub), ("drop", m_drop)))
        base, vc, vs, vd = fb.result(), fc.result(), fs.result(), fd.result()
    if base["status"] != "accepted" or base["unexplained"]:
        return "skipped (the unmodified prefix is not accepted: see the divergences)"
    if (i_cls + 1) not in vc["unexplained"]:
        raise vlib.MachineryError("binding self-test failed: a corrupted sender class (line %d) was explained (%s, unexplained lines %s)" %
                                  (i_cls + 1, vc["status"], vc["unexplained"]))
    out.append("sender class of line %d corrupted: no step explains line %d" % (i_cls + 1, i_cls + 1))
    if vs["status"] != "violation" or vs["inv"] != "TSubmittedValid" or vs["line"] != i_sub + 1:
        raise vlib.MachineryError("binding self-test failed: a corrupted submission flag (line %d) gave %s %s at line %s" %
                                  (i_sub + 1, vs["status"], vs["inv"], vs["line"]))
    out.append("submission flag of line %d corrupted: TSubmittedValid violated at line %d" % (i_sub + 1, vs["line"]))
    if vd["status"] == "accepted" and not vd["unexplained"]:
        raise vlib.MachineryError("binding self-test failed: a trace with event %d dropped was accepted" % (i_drop + 1))
    out.append("event %d dropped: no step explains line %s" % (i_drop + 1, (vd["unexplained"] or [vd["line"]])[0]))
    return "; ".join(out)


def run(tier, seed):
    t0 = time.time()
    T = _tier(tier)
    verdict = vlib.Verdict(PROP)
    cov = {"configs": [], "attack_traces": 0, "divergences": 0, "attack_steps_refused": 0}
    binp = vlib.go_build(DRIVER)
    wd = os.path.join(os.path.dirname(vlib.BINDIR), PROP)   # .work/C05; .work/alt-<tag>/C05 for a VERIF_REPO trial
    os.makedirs(wd, exist_ok=True)
    rng = random.Random(seed)
    states = transitions = 0
    replayed = steps = nontrivial = 0
    samples = []
    exhaustive = True

    def account(res):
        nonlocal replayed, steps, nontrivial
        replayed += res["behaviours"]
        steps += res["steps"]
        nontrivial += res["nontrivial"]
        cov["divergences"] += res["counters"].get("divergences", 0)
        cov["attack_steps_refused"] += res["counters"].get("attack_steps_refused", 0)
        if res["samples"] and len(samples) < 3:
            samples.append(res["samples"][0])

    # 0. which roots loop does this tree implement? (named deviation "code" = pinned commit, see the C05 finding)
    mr_cfg, mr_n, mr_r, mr_desc = MULTIROOT
    mr = _attack_trace(mr_cfg, mr_desc)
    if mr is None:
        raise vlib.MachineryError("the multi-root deviation config produced no counterexample")
    vprobe = vlib.Verdict(PROP)
    rp = _drive(binp, wd, "multiroot_probe", [mr], mr_n, mr_r, seed, 1, vprobe, ["-roles", "contribution"])
    algo = "code" if any(v["signature"] == "submission-prevented-multiroot" for v in rp["violations"]) else "perroot"
    cov["multiroot_algo_of_tree"] = algo
    log("[C05] contribution runner of this tree follows Algo=%s of the spec" % algo)
    _collect(rp, verdict, os.path.join(wd, "multiroot_probe.ndjson") + "#n=%d,r=%d,seed=%d" % (mr_n, mr_r, seed))
    account(rp)
    cov["attack_traces"] += 1

    # 1. exhaustive model checking of the faithful spec (single root: every duty but the contribution; two roots: intended variant)
    mcs = [(c, None) for c in T["mc"]]
    if T["mc_r2"]:
        mcs.append((T["mc_r2"]["perroot"], None))
        if algo == "code":
            mcs.append((T["mc_r2"]["code"], None))   # SubmittedValid / AtMostOnce of the pinned loop (NotPrevented is the finding)
    for cfg, _ in mcs:
        r = _tlc(MODULE, cfg, workers=8, timeout=2400, stop_after=1800 if tier == "thorough" else 300)
        if not vlib.expect_tlc_ok(r, cfg):
            raise vlib.MachineryError("faithful PartialSig spec violates %s in %s (model error, not a verdict):\n%s" %
                                      (r.violation, cfg, json.dumps(vlib.tlaval.plain([s.get("act") for s in r.trace]))))
        cov["configs"].append({"cfg": cfg, "distinct": r.distinct, "generated": r.generated, "depth": r.depth,
                               "exhaustive": r.finished, "wall_s": round(r.wall, 1)})
        states += r.distinct
        transitions += r.generated
        exhaustive = exhaustive and bool(r.finished)
        log("[C05] TLC %s: %d distinct / %d generated, finished=%s, %.1fs" % (cfg, r.distinct, r.generated, r.finished, r.wall))

    # 2. state-graph covers replayed on the real runners (N=4 single root on all roles; two roots on the contribution runner)
    ccfg, nleaves, extra = T["cover"]
    rg, nodes, edges, inits = _dump(MODULE, ccfg, timeout=1800, workers=8)
    if not vlib.expect_tlc_ok(rg, ccfg):
        raise vlib.MachineryError("cover config violates %s" % rg.violation)
    behs, gstat = vlib.graph_behaviours(nodes, edges, inits, seed, max_extra=extra, state_vars=STATE_VARS)
    leaves = [b for b in behs if "-leaf-" in b["id"]]
    others = [b for b in behs if "-leaf-" not in b["id"]]
    if nleaves is not None and len(leaves) > nleaves:
        rng.shuffle(leaves)
        leaves = leaves[:nleaves]
        gstat["leaves_replayed"] = nleaves
    cov["cover_graph_n4"] = gstat
    cov["configs"].append({"cfg": ccfg, "distinct": rg.distinct, "generated": rg.generated, "depth": rg.depth,
                           "exhaustive": rg.finished, "wall_s": round(rg.wall, 1)})
    res = _drive(binp, wd, "cover_n4", leaves + others, 4, 1, seed, T["full_every"], verdict)
    account(res)
    log("[C05] N=4 cover: %d behaviours / %d steps, %d violations, %d divergences" %
        (res["behaviours"], res["steps"], res["counters"].get("violations", 0), res["counters"].get("divergences", 0)))

    r2cfg = "PartialSig_r2_cover.cfg" if algo == "perroot" else "PartialSig_r2_code_cover.cfg"
    nl2, extra2 = T["cover_r2"]
    rg2, nodes2, edges2, inits2 = _dump(MODULE, r2cfg, timeout=1800, workers=8)
    if not vlib.expect_tlc_ok(rg2, r2cfg):
        raise vlib.MachineryError("cover config %s violates %s" % (r2cfg, rg2.violation))
    behs2, gstat2 = vlib.graph_behaviours(nodes2, edges2, inits2, seed, max_extra=extra2, state_vars=STATE_VARS)
    leaves2 = [b for b in behs2 if "-leaf-" in b["id"]]
    others2 = [b for b in behs2 if "-leaf-" not in b["id"]]
    if nl2 is not None and len(leaves2) > nl2:
        rng.shuffle(leaves2)
        leaves2 = leaves2[:nl2]
        gstat2["leaves_replayed"] = nl2
    cov["cover_graph_r2"] = dict(gstat2, cfg=r2cfg)
    cov["configs"].append({"cfg": r2cfg, "distinct": rg2.distinct, "generated": rg2.generated, "depth": rg2.depth,
                           "exhaustive": rg2.finished, "wall_s": round(rg2.wall, 1)})
    states += rg2.distinct
    transitions += rg2.generated
    exhaustive = exhaustive and bool(rg.finished) and bool(rg2.finished)
    res = _drive(binp, wd, "cover_r2", leaves2 + others2, 4, 2, seed, 1, verdict, ["-roles", "contribution"])
    account(res)
    log("[C05] two-root cover (%s): %d behaviours, %d violations, %d divergences" %
        (r2cfg, res["behaviours"], res["counters"].get("violations", 0), res["counters"].get("divergences", 0)))

    # 3. simulated behaviours for 7, 10, 13 operators and three roots
    for cfg, n, r, num, depth in T["sims"]:
        files = _with_algo(cfg, algo) if r > 1 else None
        rs, sb = vlib.tlc_simulate(MODULE, cfg, num, depth, seed, keep_vars=["act"] + STATE_VARS, timeout=1500, files=files)
        if rs.error or rs.violation:
            raise vlib.MachineryError("simulation config %s: %s %s" % (cfg, rs.violation, rs.error))
        bs = [vlib.trace_behaviour(b, "sim-%s-%d" % (cfg.replace(".cfg", ""), k), "sim", state_vars=STATE_VARS) for k, b in enumerate(sb)]
        extra_args = ["-roles", "contribution"] if r > 1 else []
        res = _drive(binp, wd, "sim_" + cfg.replace(".cfg", ""), bs, n, r, seed, 1 if r > 1 else T["full_every"], verdict, extra_args)
        account(res)
        transitions += rs.generated
        cov.setdefault("sim", []).append({"cfg": cfg, "behaviours": len(sb), "n": n, "roots": r})
        log("[C05] sim %s: %d behaviours, %d violations, %d divergences" %
            (cfg, len(sb), res["counters"].get("violations", 0), res["counters"].get("divergences", 0)))

    # 4. attack traces (weakened spec) on every role, whole duty from StartDuty
    for cfg, n, r, desc in ATTACKS:
        if n == 7 and not T["attacks_n7"]:
            continue   # quick: the 7-operator variants of the same removed guards are left to the thorough tier
        b = _attack_trace(cfg, desc)
        if b is None:
            continue
        cov["attack_traces"] += 1
        res = _drive(binp, wd, "attack_" + cfg.replace(".cfg", ""), [b], n, r, seed, 1, verdict,
                     ["-roles", "contribution"] if r > 1 else [])
        account(res)

    # 5. the harness's own seeded random executions on the real runners (all committee sizes, all roles, one to three
    #    roots, <= f Byzantine members): the driver's monitors run on them AND every call is recorded and validated by
    #    TLC against spec/PartialSigTrace.tla, which carries the C05 invariants on the recorded states
    rec = _record_and_validate(binp, wd, seed, T["record_runs"], T["record_shards"], algo, verdict)
    account(rec["result"])
    cov["random_runs"] = rec["result"]["behaviours"]
    cov["recorded"] = rec["cov"]
    cov["divergences"] += len(rec["cov"]["trace_divergences"])
    transitions += rec["transitions"]
    if rec["sample"]:
        samples.append(rec["sample"])

    rc = verdict.report()
    if cov["divergences"] and rc == 0:
        log("[C05] NOTE: %d conformance divergences without a monitor trip (see evidence)" % cov["divergences"])
    coverage = {
        "states": states, "transitions": transitions,
        "traces_validated_against_impl": replayed,
        "samples": samples[:2],
        "evaluations": steps,
        "distinct_nontrivial": nontrivial,
        "rule": "behaviours = BFS-tree leaves of the dumped N=4 state graphs (seeded sample in quick) + seeded non-tree edges + "
                "-simulate runs for 7/10/13 operators and 3 roots + attack traces on every role + seeded random executions "
                "recorded from the real runners and accepted by PartialSigTrace (detail.recorded); "
                "non-trivial = at least one wrong partial signature was handed to the real runner",
        "exhaustive": exhaustive,
        "detail": cov,
    }
    vlib.write_evidence(PROP, tier, seed, "model_checking", coverage, time.time() - t0, [
        "\"arrived\" = handed to the runner after its consensus instance decided (DESIGN C05 scope note); earlier post-consensus messages are refused and are covered by C03's spec",
        "a wrong partial signature is one of: the signer's share over another message, a stranger's key over the right root, 96 bytes that are no curve point",
        "exhaustive results hold for the stated constants (N=4 all faulty sets, N=7 selected faulty sets, <= 2-3 messages per sender)",
        "the beacon node is the spec's testing node; signing roots are recomputed by the harness with its domain",
    ], len(verdict.violations))
    return rc


def replay(path):
    binp = vlib.go_build(DRIVER)
    verdict = vlib.Verdict(PROP)
    wd = os.path.join(os.path.dirname(vlib.BINDIR), PROP)   # .work/C05; .work/alt-<tag>/C05 for a VERIF_REPO trial
    os.makedirs(wd, exist_ok=True)
    outp = os.path.join(wd, "replay_single.json")
    if path.startswith("random:"):
        kv = dict(x.split("=") for x in path[len("random:"):].split(","))
        vlib.run_driver(binp, ["-mode", "random", "-out", outp, "-seed", kv["seed"], "-runs", kv["runs"]])
    elif path.startswith("record:") or (os.path.exists(path) and '"event"' in open(path).readline()):
        # recorded executions: run them again on the real runners (same seed / the saved slice), monitors and TLC
        algo = os.environ.get("VERIF_C05_ALGO", "code")
        if path.startswith("record:"):
            kv = dict(x.split("=") for x in path[len("record:"):].split(","))
            _record_and_validate(binp, wd, int(kv["seed"]), int(kv["runs"]), int(kv.get("shards", "1")), algo, verdict, selftest=False)
        else:
            _record_and_validate(binp, wd, 0, 1, 1, algo, verdict, mode_args=["-mode", "retrace", "-in", path], selftest=False, label=path)
        return verdict.report()
    else:
        f, _, params = path.partition("#")
        kv = dict(x.split("=") for x in params.split(",")) if params else {"n": "4", "r": "1"}
        args = ["-mode", "replay", "-in", f, "-out", outp, "-n", kv["n"], "-r", kv["r"], "-seed", kv.get("seed", "1"), "-fullevery", "1"]
        if kv["r"] != "1":
            args += ["-roles", "contribution"]
        vlib.run_driver(binp, args)
    _collect(json.load(open(outp)), verdict, path)
    return verdict.report()
