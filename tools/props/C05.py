"""C05 - only validly threshold-signed duty objects reach the beacon node, once (spec/PartialSig.tla)."""
import json
import os
import random
import time

import vlib
from vlib import log

PROP = "C05"
MODULE = "MCPartialSig"
STATE_VARS = ["have", "sub", "finished"]
DRIVER = "partialsig"


def _tier(tier):
    if tier == "quick":
        return dict(
            mc=["PartialSig_n4.cfg", "PartialSig_n7.cfg"],
            mc_r2=None,   # quick: the two-root graph dump below is itself an exhaustive run with the invariants
            cover=("PartialSig_n4_cover.cfg", 1000, 300),          # cfg, leaves replayed (seeded sample), extra edges
            cover_r2=(120, 60),
            sims=[("PartialSig_n10_sim.cfg", 10, 1, 40, 30), ("PartialSig_n13_sim.cfg", 13, 1, 30, 36),
                  ("PartialSig_r3_sim.cfg", 7, 3, 40, 24)],
            random_runs=120, full_every=40, attacks_n7=False)
    return dict(
        mc=["PartialSig_n4.cfg", "PartialSig_n7.cfg", "PartialSig_n7_thorough.cfg"],
        mc_r2={"perroot": "PartialSig_r2.cfg", "code": "PartialSig_r2_code.cfg"},
        cover=("PartialSig_n4_cover.cfg", None, 8000),
        cover_r2=(None, 3000),
        sims=[("PartialSig_n7_thorough.cfg", 7, 1, 3000, 24), ("PartialSig_n10_sim.cfg", 10, 1, 3000, 30),
              ("PartialSig_n13_sim.cfg", 13, 1, 3000, 36), ("PartialSig_r3_sim.cfg", 7, 3, 2000, 24)],
        random_runs=4000, full_every=25, attacks_n7=True)


# (cfg, n, r, removed guard / named deviation)
ATTACKS = [
    ("PartialSig_attack_noverify.cfg", 4, 1, "ReconstructSignature without VerifyReconstructedSignature: SubmittedValid"),
    ("PartialSig_attack_noverify_n7.cfg", 7, 1, "ReconstructSignature without VerifyReconstructedSignature (7 operators): SubmittedValid"),
    ("PartialSig_attack_noevict.cfg", 4, 1, "fallback that does not evict invalid shares: NotPrevented"),
    ("PartialSig_attack_noevict_n7.cfg", 7, 1, "fallback that does not evict invalid shares (7 operators): NotPrevented"),
    ("PartialSig_attack_edge.cfg", 4, 1, "quorum reported on every message and Finished ignored: AtMostOnce"),
    ("PartialSig_attack_edge_r2.cfg", 4, 2, "quorum reported on every message, two roots: AtMostOnce"),
]
MULTIROOT = ("PartialSig_attack_code_multiroot.cfg", 4, 2,
             "roots loop of the pinned commit (returns at the first root that does not reconstruct): NotPrevented")


def _tlc(module, cfg, **kw):
    """vlib.tlc, repeated when the JVM was killed from outside (another check's timeout handler kills every TLC)."""
    r = None
    for _ in range(3):
        r = vlib.tlc(module, cfg, **kw)
        if r.finished or r.violation or r.error or (kw.get("stop_after") and r.wall >= kw["stop_after"]):
            return r
        log("[C05] TLC run of %s ended without a result after %.0fs (killed?) - repeating" % (cfg, r.wall))
    return r


def _dump(module, cfg, **kw):
    out = None
    for _ in range(3):
        out = vlib.tlc_dump_graph(module, cfg, **kw)
        if out[0].finished or out[0].violation or out[0].error:
            return out
        log("[C05] graph dump of %s ended without a result (killed?) - repeating" % cfg)
    return out


def _drive(binp, wd, name, behs, n, r, seed, full_every, verdict, extra=()):
    inp = os.path.join(wd, name + ".ndjson")
    outp = os.path.join(wd, name + "_result.json")
    vlib.write_ndjson(inp, behs)
    vlib.run_driver(binp, ["-mode", "replay", "-in", inp, "-out", outp, "-n", str(n), "-r", str(r), "-seed", str(seed),
                           "-fullevery", str(full_every)] + list(extra), timeout=3000)
    res = json.load(open(outp))
    _collect(res, verdict, "%s#n=%d,r=%d,seed=%d" % (inp, n, r, seed))
    return res


def _collect(res, verdict, replay_path):
    for v in res["violations"]:
        verdict.violation(v["signature"], "%s [%s step %d]" % (v["description"], v["behaviour"], v["step"]), replay_path)


def _attack_trace(cfg, desc):
    ra = _tlc(MODULE, cfg, workers=4, timeout=900)
    if ra.error:
        raise vlib.MachineryError("attack config %s: %s" % (cfg, ra.error))
    if not ra.violation:
        log("[C05] attack config %s produced no counterexample (not counted)" % cfg)
        return None
    return vlib.trace_behaviour(ra.trace, "attack-" + cfg.replace(".cfg", ""), "attack:" + desc, state_vars=STATE_VARS)


def _with_algo(cfg, algo):
    txt = open(os.path.join(vlib.SPEC, cfg)).read()
    for a in ("code", "perroot"):
        txt = txt.replace('Algo = "%s"' % a, 'Algo = "%s"' % algo)
    if algo == "code":   # NotPrevented of the pinned roots loop is the recorded finding, not a model error
        txt = txt.replace("INVARIANT NotPrevented\n", "")
    return {cfg: txt}


def run(tier, seed):
    t0 = time.time()
    T = _tier(tier)
    verdict = vlib.Verdict(PROP)
    cov = {"configs": [], "attack_traces": 0, "divergences": 0, "attack_steps_refused": 0}
    binp = vlib.go_build(DRIVER)
    wd = os.path.join(vlib.WORK, PROP)
    os.makedirs(wd, exist_ok=True)
    rng = random.Random(seed)
    states = transitions = 0
    replayed = steps = nontrivial = 0
    samples = []
    exhaustive = True

    def account(res):
        nonlocal replayed, steps, nontrivial
        replayed += res["behaviours"]
        steps += res["steps"]
        nontrivial += res["nontrivial"]
        cov["divergences"] += res["counters"].get("divergences", 0)
        cov["attack_steps_refused"] += res["counters"].get("attack_steps_refused", 0)
        if res["samples"] and len(samples) < 3:
            samples.append(res["samples"][0])

    # 0. which roots loop does this tree implement? (named deviation "code" = pinned commit, see the C05 finding)
    mr_cfg, mr_n, mr_r, mr_desc = MULTIROOT
    mr = _attack_trace(mr_cfg, mr_desc)
    if mr is None:
        raise vlib.MachineryError("the multi-root deviation config produced no counterexample")
    vprobe = vlib.Verdict(PROP)
    rp = _drive(binp, wd, "multiroot_probe", [mr], mr_n, mr_r, seed, 1, vprobe, ["-roles", "contribution"])
    algo = "code" if any(v["signature"] == "submission-prevented-multiroot" for v in rp["violations"]) else "perroot"
    cov["multiroot_algo_of_tree"] = algo
    log("[C05] contribution runner of this tree follows Algo=%s of the spec" % algo)
    _collect(rp, verdict, os.path.join(wd, "multiroot_probe.ndjson") + "#n=%d,r=%d,seed=%d" % (mr_n, mr_r, seed))
    account(rp)
    cov["attack_traces"] += 1

    # 1. exhaustive model checking of the faithful spec (single root: every duty but the contribution; two roots: intended variant)
    mcs = [(c, None) for c in T["mc"]]
    if T["mc_r2"]:
        mcs.append((T["mc_r2"]["perroot"], None))
        if algo == "code":
            mcs.append((T["mc_r2"]["code"], None))   # SubmittedValid / AtMostOnce of the pinned loop (NotPrevented is the finding)
    for cfg, _ in mcs:
        r = _tlc(MODULE, cfg, workers=8, timeout=2400, stop_after=1800 if tier == "thorough" else 300)
        if not vlib.expect_tlc_ok(r, cfg):
            raise vlib.MachineryError("faithful PartialSig spec violates %s in %s (model error, not a verdict):\n%s" %
                                      (r.violation, cfg, json.dumps(vlib.tlaval.plain([s.get("act") for s in r.trace]))))
        cov["configs"].append({"cfg": cfg, "distinct": r.distinct, "generated": r.generated, "depth": r.depth,
                               "exhaustive": r.finished, "wall_s": round(r.wall, 1)})
        states += r.distinct
        transitions += r.generated
        exhaustive = exhaustive and bool(r.finished)
        log("[C05] TLC %s: %d distinct / %d generated, finished=%s, %.1fs" % (cfg, r.distinct, r.generated, r.finished, r.wall))

    # 2. state-graph covers replayed on the real runners (N=4 single root on all roles; two roots on the contribution runner)
    ccfg, nleaves, extra = T["cover"]
    rg, nodes, edges, inits = _dump(MODULE, ccfg, timeout=1800, workers=8)
    if not vlib.expect_tlc_ok(rg, ccfg):
        raise vlib.MachineryError("cover config violates %s" % rg.violation)
    behs, gstat = vlib.graph_behaviours(nodes, edges, inits, seed, max_extra=extra, state_vars=STATE_VARS)
    leaves = [b for b in behs if "-leaf-" in b["id"]]
    others = [b for b in behs if "-leaf-" not in b["id"]]
    if nleaves is not None and len(leaves) > nleaves:
        rng.shuffle(leaves)
        leaves = leaves[:nleaves]
        gstat["leaves_replayed"] = nleaves
    cov["cover_graph_n4"] = gstat
    cov["configs"].append({"cfg": ccfg, "distinct": rg.distinct, "generated": rg.generated, "depth": rg.depth,
                           "exhaustive": rg.finished, "wall_s": round(rg.wall, 1)})
    res = _drive(binp, wd, "cover_n4", leaves + others, 4, 1, seed, T["full_every"], verdict)
    account(res)
    log("[C05] N=4 cover: %d behaviours / %d steps, %d violations, %d divergences" %
        (res["behaviours"], res["steps"], res["counters"].get("violations", 0), res["counters"].get("divergences", 0)))

    r2cfg = "PartialSig_r2_cover.cfg" if algo == "perroot" else "PartialSig_r2_code_cover.cfg"
    nl2, extra2 = T["cover_r2"]
    rg2, nodes2, edges2, inits2 = _dump(MODULE, r2cfg, timeout=1800, workers=8)
    if not vlib.expect_tlc_ok(rg2, r2cfg):
        raise vlib.MachineryError("cover config %s violates %s" % (r2cfg, rg2.violation))
    behs2, gstat2 = vlib.graph_behaviours(nodes2, edges2, inits2, seed, max_extra=extra2, state_vars=STATE_VARS)
    leaves2 = [b for b in behs2 if "-leaf-" in b["id"]]
    others2 = [b for b in behs2 if "-leaf-" not in b["id"]]
    if nl2 is not None and len(leaves2) > nl2:
        rng.shuffle(leaves2)
        leaves2 = leaves2[:nl2]
        gstat2["leaves_replayed"] = nl2
    cov["cover_graph_r2"] = dict(gstat2, cfg=r2cfg)
    cov["configs"].append({"cfg": r2cfg, "distinct": rg2.distinct, "generated": rg2.generated, "depth": rg2.depth,
                           "exhaustive": rg2.finished, "wall_s": round(rg2.wall, 1)})
    states += rg2.distinct
    transitions += rg2.generated
    exhaustive = exhaustive and bool(rg.finished) and bool(rg2.finished)
    res = _drive(binp, wd, "cover_r2", leaves2 + others2, 4, 2, seed, 1, verdict, ["-roles", "contribution"])
    account(res)
    log("[C05] two-root cover (%s): %d behaviours, %d violations, %d divergences" %
        (r2cfg, res["behaviours"], res["counters"].get("violations", 0), res["counters"].get("divergences", 0)))

    # 3. simulated behaviours for 7, 10, 13 operators and three roots
    for cfg, n, r, num, depth in T["sims"]:
        files = _with_algo(cfg, algo) if r > 1 else None
        rs, sb = vlib.tlc_simulate(MODULE, cfg, num, depth, seed, keep_vars=["act"] + STATE_VARS, timeout=1500, files=files)
        if rs.error or rs.violation:
            raise vlib.MachineryError("simulation config %s: %s %s" % (cfg, rs.violation, rs.error))
        bs = [vlib.trace_behaviour(b, "sim-%s-%d" % (cfg.replace(".cfg", ""), k), "sim", state_vars=STATE_VARS) for k, b in enumerate(sb)]
        extra_args = ["-roles", "contribution"] if r > 1 else []
        res = _drive(binp, wd, "sim_" + cfg.replace(".cfg", ""), bs, n, r, seed, 1 if r > 1 else T["full_every"], verdict, extra_args)
        account(res)
        transitions += rs.generated
        cov.setdefault("sim", []).append({"cfg": cfg, "behaviours": len(sb), "n": n, "roots": r})
        log("[C05] sim %s: %d behaviours, %d violations, %d divergences" %
            (cfg, len(sb), res["counters"].get("violations", 0), res["counters"].get("divergences", 0)))

    # 4. attack traces (weakened spec) on every role, whole duty from StartDuty
    for cfg, n, r, desc in ATTACKS:
        if n == 7 and not T["attacks_n7"]:
            continue   # quick: the 7-operator variants of the same removed guards are left to the thorough tier
        b = _attack_trace(cfg, desc)
        if b is None:
            continue
        cov["attack_traces"] += 1
        res = _drive(binp, wd, "attack_" + cfg.replace(".cfg", ""), [b], n, r, seed, 1, verdict,
                     ["-roles", "contribution"] if r > 1 else [])
        account(res)

    # 5. the harness's own random executions (all committee sizes, all roles, one to three roots), monitors only
    outr = os.path.join(wd, "random_result.json")
    vlib.run_driver(binp, ["-mode", "random", "-out", outr, "-seed", str(seed), "-runs", str(T["random_runs"])], timeout=3000)
    res = json.load(open(outr))
    _collect(res, verdict, "random:seed=%d,runs=%d" % (seed, T["random_runs"]))
    account(res)
    cov["random_runs"] = res["behaviours"]

    rc = verdict.report()
    if cov["divergences"] and rc == 0:
        log("[C05] NOTE: %d conformance divergences without a monitor trip (see evidence)" % cov["divergences"])
    coverage = {
        "states": states, "transitions": transitions,
        "traces_validated_against_impl": replayed,
        "samples": samples[:2],
        "evaluations": steps,
        "distinct_nontrivial": nontrivial,
        "rule": "behaviours = BFS-tree leaves of the dumped N=4 state graphs (seeded sample in quick) + seeded non-tree edges + "
                "-simulate runs for 7/10/13 operators and 3 roots + attack traces on every role + seeded random executions; "
                "non-trivial = at least one wrong partial signature was handed to the real runner",
        "exhaustive": exhaustive,
        "detail": cov,
    }
    vlib.write_evidence(PROP, tier, seed, "model_checking", coverage, time.time() - t0, [
        "\"arrived\" = handed to the runner after its consensus instance decided (DESIGN C05 scope note); earlier post-consensus messages are refused and are covered by C03's spec",
        "a wrong partial signature is one of: the signer's share over another message, a stranger's key over the right root, 96 bytes that are no curve point",
        "exhaustive results hold for the stated constants (N=4 all faulty sets, N=7 selected faulty sets, <= 2-3 messages per sender)",
        "the beacon node is the spec's testing node; signing roots are recomputed by the harness with its domain",
    ], len(verdict.violations))
    return rc


def replay(path):
    binp = vlib.go_build(DRIVER)
    verdict = vlib.Verdict(PROP)
    wd = os.path.join(vlib.WORK, PROP)
    os.makedirs(wd, exist_ok=True)
    outp = os.path.join(wd, "replay_single.json")
    if path.startswith("random:"):
        kv = dict(x.split("=") for x in path[len("random:"):].split(","))
        vlib.run_driver(binp, ["-mode", "random", "-out", outp, "-seed", kv["seed"], "-runs", kv["runs"]])
    else:
        f, _, params = path.partition("#")
        kv = dict(x.split("=") for x in params.split(",")) if params else {"n": "4", "r": "1"}
        args = ["-mode", "replay", "-in", f, "-out", outp, "-n", kv["n"], "-r", kv["r"], "-seed", kv.get("seed", "1"), "-fullevery", "1"]
        if kv["r"] != "1":
            args += ["-roles", "contribution"]
        vlib.run_driver(binp, args)
    _collect(json.load(open(outp)), verdict, path)
    return verdict.report()
