"""C10 - messages produced by correct operators are never rejected by correct peers.

spec/QBFTTimely.tla  : consensus messages (QBFT under a global round clock + the gate's reject rules, emitter side)
spec/PartialTimely.tla: partial-signature messages of the duty runners (one duty, all roles) + the gate's rules
driver cmd/c10        : real controllers (qbftkit) / real validators with real duty runners of every role (duty world),
                        every broadcast validated by the real message validator of every other correct peer at virtual
                        times inside the message's window (real round-timer arithmetic, slot window probed on the gate).
"""
import hashlib
import json
import os
import time
from concurrent.futures import ThreadPoolExecutor

import vlib
from vlib import log
from props import qbft_common as Q

PROP = "C10"
INV = ("NoHonestReject", "RoundWindow", "Agreement")
ROLES = ["attester", "aggregator", "proposer", "sync", "contribution"]
ROLES12 = ["attester", "aggregator"]                 # the gate admits rounds 1..12
ROLES6 = ["proposer", "sync", "contribution"]        # rounds 1..6
STRICT = ["  Lossy = FALSE", "  LateRounds = {}"]
ALL_PT_ROLES = '{"attester", "aggregator", "proposer", "sync", "contribution", "registration", "exit"}'
PT_INV = ("NoHonestPartialReject", "FaultFreeAccept", "TypeOK")


def late_rounds(k):
    """LateRounds = 1..k as a TLC configuration value."""
    return "  LateRounds = {%s}" % ", ".join(str(i) for i in range(1, k + 1))


def pool_run(jobs, width):
    """Run callables concurrently (TLC processes; the machine is shared: few workers each); results in job order.
    The first exception is re-raised after every job has finished."""
    with ThreadPoolExecutor(width) as ex:
        futs = [ex.submit(j) for j in jobs]
        out, err = [], None
        for f in futs:
            try:
                out.append(f.result())
            except Exception as e:  # noqa: BLE001
                out.append(None)
                err = err or e
        if err:
            raise err
        return out


# ---------------------------------------------------------------------------------------------------------
# spec/PartialTimely.tla
# ---------------------------------------------------------------------------------------------------------

def pt_cfg(N=4, F=1, roles=ALL_PT_ROLES, silents="{{}}", subnets="SubsDistinct", inorder="TRUE", grain="quorum", maxfail=12,
           late="FALSE", invariants=PT_INV, view=True):
    t = ["SPECIFICATION Spec", "CONSTANTS", "  N = %d" % N, "  F = %d" % F, "  RoleChoices = %s" % roles,
         "  SilentChoices = %s" % silents, "  SubnetChoices <- %s" % subnets, "  InOrder = %s" % inorder,
         '  Grain = "%s"' % grain, "  MaxFail = %d" % maxfail, "  LateDecision = %s" % late]
    t += ["INVARIANT %s" % i for i in invariants]
    if view:
        t.append("VIEW view")
    return "\n".join(t) + "\n"


def pt_exhaustive(name, budget, workers, expect_violation=None, **kw):
    text = pt_cfg(**kw)
    r = vlib.tlc("MCPartialTimely", "pt_%s.cfg" % name, name="%s-pt-%s" % (PROP, name), workers=workers, timeout=budget + 120,
                 stop_after=budget, files={"pt_%s.cfg" % name: text})
    if r.error:
        raise vlib.MachineryError("TLC error in PartialTimely/%s: %s" % (name, r.error))
    if expect_violation:
        if r.violation != expect_violation:
            raise vlib.MachineryError("PartialTimely/%s: expected a counterexample to %s (the recorded finding), got %s" % (
                name, expect_violation, r.violation))
        log("[C10] TLC PartialTimely %s: counterexample of %d states to %s, as recorded (%d distinct, %.0fs)" % (
            name, len(r.trace), expect_violation, r.distinct, r.wall))
        return {"cfg": "PartialTimely/" + name, "distinct": r.distinct, "generated": r.generated, "depth": r.depth, "exhaustive": False,
                "wall_s": round(r.wall, 1), "expected_counterexample": expect_violation, "constants": {k: str(v) for k, v in kw.items() if k != "invariants"}}
    if r.violation:
        raise vlib.MachineryError("faithful PartialTimely spec violates %s in config %s (model error, not a verdict): %s" % (
            r.violation, name, json.dumps(vlib.tlaval.plain([s.get("act") for s in r.trace]))))
    if r.distinct == 0:
        raise vlib.MachineryError("TLC gave no statistics for PartialTimely/%s:\n%s" % (name, r.out[-1500:]))
    log("[C10] TLC PartialTimely %s: %d distinct / %d generated, depth %d, exhaustive=%s, %.0fs" % (
        name, r.distinct, r.generated, r.depth, r.finished, r.wall))
    return {"cfg": "PartialTimely/" + name, "distinct": r.distinct, "generated": r.generated, "depth": r.depth, "exhaustive": r.finished,
            "wall_s": round(r.wall, 1), "constants": {k: str(v) for k, v in kw.items() if k != "invariants"}}


ROLE_OF_SPEC = {"attester": "attester", "aggregator": "aggregator", "proposer": "proposer", "sync": "sync",
                "contribution": "contribution", "registration": "registration", "exit": "exit"}


def pt_simulate(name, num, depth, seed, workers=2, **kw):
    """-simulate runs of PartialTimely; the duty (role, crash set, leader rotation, duty shape) is read from the first
    state of each behaviour and becomes the behaviour's parameters."""
    kw.setdefault("invariants", PT_INV)
    text = pt_cfg(view=False, **kw)
    # TLC picks the duty at random: three times as many runs are generated and a selection balanced over the roles and
    # crash sets is kept
    per = max(1, (3 * num) // workers)
    keep = ["act", "role", "silent", "off", "subnets", "psent", "dr"]
    r, behs = vlib.tlc_simulate("MCPartialTimely", "pt_%s.cfg" % name, per, depth, seed, name="%s-pt-%s" % (PROP, name),
                                keep_vars=keep, timeout=900, workers=workers, files={"pt_%s.cfg" % name: text})
    if r.error:
        raise vlib.MachineryError("TLC simulation error in PartialTimely/%s: %s" % (name, r.error[-1500:]))
    if r.violation:
        raise vlib.MachineryError("faithful PartialTimely spec violates %s in simulation %s (model error)" % (r.violation, name))
    out = []
    for k, b in enumerate(behs):
        if not b:
            continue
        first = vlib.tlaval.plain(b[0])
        bb = vlib.trace_behaviour(b, "duty-%s-%d-%d" % (name, seed, k), "sim", state_vars=["psent"])
        subnets = list(first.get("subnets") or [0])
        silent = sorted(first.get("silent") or [])
        failed = any(s["act"].get("name") == "FailRound" for s in bb["steps"])
        bb["params"] = {"mode": "duty", "N": kw.get("N", 4), "Silent": silent, "role": ROLE_OF_SPEC[first["role"]],
                        "LeaderOffset": int(first.get("off", 0)),
                        # the j-th sync-committee position of the validator lies in subcommittee subnets[j] (128 positions each)
                        "Indices": [128 * int(s) + 3 + 11 * j for j, s in enumerate(subnets)],
                        # fault-free, timely (decided in round 1), validated in emission order: everything must be accepted
                        "sync": (not silent) and not failed}
        if (k + seed) % 5 == 0 and first["role"] == "proposer":
            bb["params"]["role"] = "proposer_blinded"
        out.append(bb)
    groups = {}
    for bb in out:
        groups.setdefault((bb["params"]["role"], tuple(bb["params"]["Silent"])), []).append(bb)
    picked, keys = [], sorted(groups)
    while len(picked) < num and any(groups[g] for g in keys):
        for g in keys:
            if groups[g] and len(picked) < num:
                picked.append(groups[g].pop(0))
    log("[C10] simulated %d duty behaviours (%s), kept %d balanced over %d (role, crash set) classes, %d states, %.0fs" % (
        len(out), name, len(picked), len(keys), r.generated, r.wall))
    return picked, r.generated


# ---------------------------------------------------------------------------------------------------------

def _run_tlc(name, budget, workers, **kw):
    kw.setdefault("extra", STRICT)
    return Q.run_exhaustive(PROP, name, module="MCQBFTTimely", spec="TSpec", view="tview", Macro="TRUE",
                            invariants=INV, timeout=budget + 120, stop_after=budget, workers=workers, **kw)


def _sim(name, num, depth, seed, params, workers, **kw):
    kw.setdefault("extra", STRICT)
    kw.setdefault("invariants", ("NoHonestReject",))
    return Q.simulate(PROP, "sim-" + name, num, depth, seed, params, module="MCQBFTTimely", spec="TSpec",
                      ByzBudget=0, ByzActs="NoActs", Macro="FALSE", state_vars=(), workers=workers, timeout=1200, **kw)


def run(tier, seed):
    t0 = time.time()
    thorough = tier == "thorough"
    verdict = vlib.Verdict(PROP)
    budget = 1500 if thorough else 150
    box7 = 240 if thorough else 40          # committee 7: the larger classes are explored inside a time box
    tw = 4 if thorough else 3               # TLC workers per job; jobs run `width` at a time (the machine is shared)
    width = 3 if thorough else 6
    no = dict(ByzBudget=0, ByzActs="NoActs")
    # ---- exhaustive: the timely class with crash faults, committee 4 (every leader rotation) and committee 7 ----
    ex = [dict(name="silent-leader", MaxRound=3, Byz="{4}", LeaderOffset=3, **no),
          dict(name="silent-member", MaxRound=3, Byz="{4}", LeaderOffset=0, **no),
          dict(name="silent-leader-of-round2", MaxRound=3, Byz="{4}", LeaderOffset=2, **no),
          dict(name="n7-two-silent-members", N=7, F=2, MaxRound=2, Byz="{6, 7}", LeaderOffset=0, **no)]
    if thorough:
        # (the fault-free class has 9.2 M states whether 1 or 2 rounds are explored; 504 s on an idle machine, 16 workers)
        ex += [dict(name="no-fault-2-rounds", MaxRound=2, Byz="{}", LeaderOffset=0, workers=8, box=2100, **no),
               dict(name="timely-byzantine-leader", MaxRound=2, Byz="{4}", LeaderOffset=3, ByzBudget=2, ByzActs="LeaderActs"),
               dict(name="n7-two-silent-leaders", N=7, F=2, MaxRound=3, Byz="{6, 7}", LeaderOffset=5, box=box7, **no),
               dict(name="n7-one-silent-leader", N=7, F=2, MaxRound=2, Byz="{7}", LeaderOffset=6, box=box7, **no),
               dict(name="n7-no-fault-1-round", N=7, F=2, MaxRound=1, Byz="{}", LeaderOffset=0, box=box7, **no),
               dict(name="silent-leader-of-round3", MaxRound=4, Byz="{4}", LeaderOffset=1, **no),
               dict(name="silent-leader-4-rounds", MaxRound=4, Byz="{4}", LeaderOffset=3, **no),
               dict(name="silent-leader-same-values", MaxRound=3, Byz="{4}", LeaderOffset=3, StartValue="SVsame", **no)]
    # every TLC job of the run (exhaustive configs first: they are the long ones) goes through ONE pool
    jobs = []
    for c in ex:
        c = dict(c)
        name, b, wk = c.pop("name"), c.pop("box", budget), c.pop("workers", tw)
        jobs.append(lambda name=name, b=b, wk=wk, c=c: _run_tlc(name, b, wk, **c))
    # ---- exhaustive: partial-signature messages of one duty, all seven roles (spec/PartialTimely.tla) ----
    jobs.append(lambda: pt_exhaustive("n7-all-roles", budget, tw + 1, N=7, F=2, silents="{{}, {7}, {6, 7}}" if thorough else "{{}, {6, 7}}",
                                      grain="quorum", maxfail=12))
    jobs.append(lambda: pt_exhaustive("n4-all-roles", budget, tw, N=4, F=1, silents="{{}, {4}}", grain="quorum", maxfail=12))
    # the recorded finding: two sync-committee positions in one subcommittee -> the same signing root twice
    jobs.append(lambda: pt_exhaustive("finding-dup-subcommittee", 120, 2, expect_violation="NoDuplicateRoots", N=4, F=1,
                                      roles='{"contribution"}', subnets="SubsDup", maxfail=0, invariants=("NoDuplicateRoots",)))
    if thorough:
        jobs.append(lambda: pt_exhaustive("n4-message-grain", budget, tw, N=4, F=1, silents="{{}, {4}}", grain="message", maxfail=3))
        jobs.append(lambda: pt_exhaustive("n4-four-subcommittees", budget, tw, N=4, F=1, roles='{"contribution"}', subnets="SubsFour",
                                          silents="{{}, {1}}", grain="message", maxfail=6))
        jobs.append(lambda: pt_exhaustive("n7-message-grain", box7, tw, N=7, F=2, silents="{{}, {6, 7}}", grain="message", maxfail=1))
    nex = len(jobs)
    states = transitions = 0
    # ---- named finding config: a timely Byzantine member + a decided certificate of an earlier round ----
    # (expected to VIOLATE NoHonestReject in the faithful spec: this is the recorded finding, replayed below)
    text = Q.cfg_text(spec="TSpec", Macro="TRUE", MaxRound=3, Byz="{4}", LeaderOffset=3, ByzBudget=3, ByzActs="AllActs",
                      invariants=("LeaderStamped",), view="tview", extra=STRICT)
    finding_beh = []
    # the counterexample depends only on the spec: cached under spec/attacks, regenerated when the spec changes
    h = hashlib.sha256()
    for f in ("QBFT.tla", "QBFTTimely.tla", "MCQBFTTimely.tla"):
        h.update(open(os.path.join(vlib.SPEC, f), "rb").read())
    h.update(text.encode())
    cache = os.path.join(vlib.SPEC, "attacks", "timely-finding-stale-round-proposal.json")
    rec = json.load(open(cache)) if os.path.exists(cache) else {}
    regen = rec.get("spec_hash") != h.hexdigest()[:16] and (thorough or not rec)

    def gen_finding():
        rf = vlib.tlc("MCQBFTTimely", "gen_finding.cfg", name="C10-finding", workers=8 if thorough else 4, timeout=900,
                      stop_after=780, files={"gen_finding.cfg": text})
        if rf.error:
            raise vlib.MachineryError("C10 finding config: %s" % rf.error)
        out = {"spec_hash": h.hexdigest()[:16], "cfg": text, "behaviour": None,
               "tlc": {"distinct": rf.distinct, "generated": rf.generated, "wall_s": round(rf.wall, 1)}}
        if rf.violation:
            b = vlib.trace_behaviour(rf.trace, "finding-stale-round-proposal", "finding")
            b["params"] = dict(Q.params_of(LeaderOffset=3), role="attester", pos=1)
            out["behaviour"] = b
        os.makedirs(os.path.dirname(cache), exist_ok=True)
        json.dump(out, open(cache, "w"), indent=1)
        log("[C10] finding config: %s (%d distinct, %.0fs)" % ("counterexample of %d states to LeaderStamped" % len(rf.trace)
            if rf.violation else "no counterexample within the budget", rf.distinct, rf.wall))
        return out

    if regen:
        jobs.insert(0, gen_finding)
        nex += 1
    elif rec.get("spec_hash") != h.hexdigest()[:16]:
        log("[C10] NOTE: the cached finding trace is stale w.r.t. the current spec (regenerated by the thorough tier)")
    # ---- behaviours replayed on real controllers with a real gate at every correct peer ----
    n4 = 20 if not thorough else 300        # per family, committee 4
    n7 = 6 if not thorough else 60          # committee 7
    nh = 4 if not thorough else 40          # high rounds (long behaviours)
    nl = 16 if not thorough else 300        # lossy class
    sw = 2 if not thorough else 4
    P7 = dict(N=7, F=2)
    fams = [("silent-leader", n4, 160, dict(Byz="{4}", LeaderOffset=3, MaxRound=6), Q.params_of(LeaderOffset=3), ROLES),
            ("silent-member", n4, 160, dict(Byz="{4}", LeaderOffset=0, MaxRound=3), Q.params_of(LeaderOffset=0), ROLES),
            ("silent-leader-r2", n4, 160, dict(Byz="{4}", LeaderOffset=2, MaxRound=6), Q.params_of(LeaderOffset=2), ROLES),
            ("no-fault", n4, 160, dict(Byz="{}", LeaderOffset=1, MaxRound=2), Q.params_of(Byz=(), LeaderOffset=1), ROLES),
            # committee 7 (f = 2)
            ("n7-two-silent-leaders", n7, 300, dict(Byz="{6, 7}", LeaderOffset=5, MaxRound=4, **P7), Q.params_of(N=7, Byz=(6, 7), LeaderOffset=5), ROLES),
            ("n7-silent-leader-and-member", n7, 300, dict(Byz="{3, 7}", LeaderOffset=6, MaxRound=4, **P7), Q.params_of(N=7, Byz=(3, 7), LeaderOffset=6), ROLES),
            ("n7-no-fault", n7, 300, dict(Byz="{}", LeaderOffset=2, MaxRound=2, **P7), Q.params_of(N=7, Byz=(), LeaderOffset=2), ROLES),
            # rounds up to the role's maximum: the leaders of rounds 1..k-1 are silent or LATE (their proposal misses the
            # round), the instance decides in round k = the highest round the gate admits for the role; one class goes one
            # round beyond it
            ("high-12", nh, 900, dict(Byz="{4}", LeaderOffset=3, MaxRound=12, extra=["  Lossy = FALSE", late_rounds(11)]), Q.params_of(LeaderOffset=3), ROLES12),
            ("high-6", nh, 500, dict(Byz="{}", LeaderOffset=0, MaxRound=6, extra=["  Lossy = FALSE", late_rounds(5)]), Q.params_of(Byz=(), LeaderOffset=0), ROLES6),
            ("high-7-beyond", nh, 600, dict(Byz="{4}", LeaderOffset=1, MaxRound=7, extra=["  Lossy = FALSE", late_rounds(6)]), Q.params_of(LeaderOffset=1), ROLES6),
            ]
    if thorough:
        fams += [("n7-two-silent-members", n7, 300, dict(Byz="{6, 7}", LeaderOffset=0, MaxRound=3, **P7), Q.params_of(N=7, Byz=(6, 7), LeaderOffset=0), ROLES),
                 ("n7-high-12", 12, 1600, dict(Byz="{6, 7}", LeaderOffset=5, MaxRound=12, extra=["  Lossy = FALSE", late_rounds(11)], **P7),
                  Q.params_of(N=7, Byz=(6, 7), LeaderOffset=5), ROLES12),
                 ("n7-high-6", 12, 900, dict(Byz="{7}", LeaderOffset=6, MaxRound=6, extra=["  Lossy = FALSE", late_rounds(5)], **P7),
                  Q.params_of(N=7, Byz=(7,), LeaderOffset=6), ROLES6)]
    for k, (name, num, depth, kw, params, roles) in enumerate(fams):
        jobs.append(lambda k=k, name=name, num=num, depth=depth, kw=kw, params=params: _sim(name, num, depth, seed + k, params, sw, **kw))
    # ---- beyond the strict class: a message may miss its round at some recipients (late / lost), every gate still sees
    # it inside its window.  Behaviours are pruned (CONSTRAINT) where the spec's emitter-side rules say a reject is
    # possible (that is the recorded finding under message loss), so on everything replayed the spec predicts "never
    # rejected": a reject by a real gate there means the gate demands more than the modelled rules.
    lossy = [("lossy-silent-leader", dict(Byz="{4}", LeaderOffset=3), Q.params_of(LeaderOffset=3), 4, "SV"),
             ("lossy-no-fault", dict(Byz="{}", LeaderOffset=0), Q.params_of(Byz=(), LeaderOffset=0), 3, "SV"),
             ("lossy-same-values", dict(Byz="{}", LeaderOffset=1), dict(Q.params_of(Byz=(), LeaderOffset=1), StartValue="same"), 4, "SVsame")]
    for k, (name, kw, params, maxr, sv) in enumerate(lossy):
        jobs.append(lambda k=k, name=name, kw=kw, params=params, maxr=maxr, sv=sv: _sim(
            name, nl, 120, seed + 10 + k, params, sw, MaxRound=maxr, StartValue=sv, invariants=(),
            extra=["  Lossy = TRUE", "  LateRounds = {}", "CONSTRAINT NoHonestReject"], **kw))
    # ---- duties of real runners (spec/PartialTimely.tla): all seven roles, per-message delivery in any order ----
    d4 = 42 if not thorough else 420
    d7 = 14 if not thorough else 105
    dl = 10 if not thorough else 60
    duty = [("n4", d4, dict(N=4, F=1, silents="{{}, {4}, {1}}", inorder="FALSE", grain="message", maxfail=3)),
            ("n7", d7, dict(N=7, F=2, silents="{{}, {7}, {6, 7}}", inorder="FALSE", grain="message", maxfail=3)),
            ("n4-four-subcommittees", max(2, d4 // 7), dict(N=4, F=1, roles='{"contribution"}', subnets="SubsFour", silents="{{}, {2}}",
                                                           inorder="FALSE", grain="message", maxfail=2)),
            # the decision falls into the last rounds the gate admits for the role (12 / 6)
            ("n4-late-decision", dl, dict(N=4, F=1, roles='{"attester", "aggregator", "proposer", "sync", "contribution"}', silents="{{}, {4}}",
                                          inorder="TRUE", grain="quorum", maxfail=12, late="TRUE")),
            ("n7-late-decision", max(2, dl // 3), dict(N=7, F=2, roles='{"attester", "aggregator", "proposer", "sync", "contribution"}',
                                                      silents="{{}, {6, 7}}", inorder="TRUE", grain="quorum", maxfail=12, late="TRUE")),
            # the recorded finding (replayed first by the driver's monitor under its own signature)
            ("finding-dup-subcommittee", 2, dict(N=4, F=1, roles='{"contribution"}', subnets="SubsDup", silents="{{}}", inorder="TRUE",
                                                 grain="quorum", maxfail=0, invariants=()))]
    for k, (name, num, kw) in enumerate(duty):
        jobs.append(lambda k=k, name=name, num=num, kw=kw: pt_simulate(name, num, 140, seed + 20 + k, workers=sw, **kw))
    jobs.append(lambda: vlib.go_build("c10"))     # the driver is built while TLC runs
    done = pool_run(jobs, width)
    configs, sims, binq = done[:nex], done[nex:-1], done[-1]
    if regen:
        rec, configs = configs[0], configs[1:]
        states += rec["tlc"]["distinct"]
        transitions += rec["tlc"]["generated"]
    if rec.get("behaviour"):
        finding_beh.append(rec["behaviour"])
    states += sum(c["distinct"] for c in configs)
    transitions += sum(c["generated"] for c in configs)
    behs = []
    for k, (name, num, depth, kw, params, roles) in enumerate(fams):
        b, gen = sims[k]
        transitions += gen
        for j, x in enumerate(b):
            x["params"] = dict(x["params"], role=roles[(j + k + seed) % len(roles)], pos=(j + seed) % 3, sync=(name.endswith("no-fault")))
        behs += b
    for k, (name, kw, params, maxr, sv) in enumerate(lossy):
        b, gen = sims[len(fams) + k]
        transitions += gen
        for j, x in enumerate(b):
            x["steps"] = x["steps"][:-1]      # the last state of a pruned behaviour may be the one that breaks the constraint
            x["params"] = dict(x["params"], role=ROLES[(j + k) % len(ROLES)], pos=(j + seed) % 3)
        behs += b
    duty_behs = []
    for k, (name, num, kw) in enumerate(duty):
        b, gen = sims[len(fams) + len(lossy) + k]
        transitions += gen
        duty_behs += b
    if not any(x["id"].startswith("duty-finding-dup") for x in duty_behs):
        raise vlib.MachineryError("no behaviour of the duplicate-subcommittee finding class was generated")
    # faithful-spec scenarios synthesised with guides (spec/attacks, family qbft, property C10)
    scen, stale = Q.attack_behaviours(PROP, tier, PROP)
    for x in scen:
        x["params"] = dict(x["params"], role="attester", pos=1)
    behs += scen
    wd = os.path.join(vlib.WORK, PROP)
    os.makedirs(wd, exist_ok=True)
    inp = os.path.join(wd, "behaviours.ndjson")
    outp = os.path.join(wd, "result.json")
    # committee-7 and high-round behaviours are the expensive ones: interleave them so that the shards are balanced
    allb = finding_beh + behs + duty_behs
    allb.sort(key=lambda x: (hashlib.sha256(x["id"].encode()).hexdigest()))
    res, wall = vlib.run_driver_sharded(binq, allb, inp, outp, timeout=6000,
                                        shards=max(1, min(vlib.NCPU, 10 if not thorough else 14, len(allb) // 12)))
    cnt = res["counters"]
    classes = {k: v for k, v in cnt.items() if k.startswith("class:")}
    log("[C10] replayed %d behaviours / %d steps on real controllers and real duty runners (%d duties), %d broadcasts (%d partial-signature "
        "messages) validated %d times (%d partial) by real peer gates in %.0fs: %s; %d monitor trips, %d divergences" %
        (res["behaviours"], res["steps"], cnt.get("duty_behaviours", 0), cnt.get("broadcasts", 0), cnt.get("partial_broadcasts", 0),
         cnt.get("validations", 0), cnt.get("partial_validations", 0), wall, classes, cnt.get("violations", 0), cnt.get("divergences", 0)))
    if cnt.get("partial_validations", 0) == 0 or cnt.get("duty_behaviours", 0) == 0:
        raise vlib.MachineryError("no partial-signature message was validated (the duty world did not run)")
    for v in res["violations"]:
        verdict.violation(v["signature"], "%s [%s step %d]" % (v["description"], v["behaviour"], v["step"]), inp)
    rc = verdict.report()
    # per role and committee size: the highest clock round at which a broadcast was validated
    max_round = {}
    for k in cnt:
        if k.startswith("qbft_max_round:") or k.startswith("duty_max_round:"):
            _, role, n, r = k.split(":")
            key = "%s/%s" % (role, n)
            max_round[key] = max(max_round.get(key, 0), int(r))
    partial = {}
    for k, v in cnt.items():
        if k.startswith("partial:"):
            _, role, typ, n, cls = k.split(":")
            partial.setdefault("%s/%s/%s" % (role, typ, n), {})[cls] = v
    cov = {
        "states": states, "transitions": transitions,
        "traces_validated_against_impl": res["behaviours"],
        "samples": res["samples"][:1],
        "evaluations": cnt.get("validations", 0),
        "distinct_nontrivial": res["nontrivial"],
        "rule": "behaviours = TLC -simulate runs of QBFTTimely (committees 4 and 7: silent leader(s) / silent member(s) / fault-free; "
                "late leaders up to the role's maximum round 12 / 6; lossy class; all five consensus roles, three positions inside "
                "the round) and of PartialTimely (one duty of real runners, all seven roles, committees 4 and 7) + guided scenarios + "
                "the two finding traces; every broadcast of a correct operator is validated by the real gate of every other correct "
                "peer at emission (duty world: also in reverse order by a second set of gates); non-trivial = at least one broadcast",
        "exhaustive": all(c["exhaustive"] for c in configs if "expected_counterexample" not in c),
        "detail": {"configs": configs, "validation_classes": classes,
                   "ignored_rules": {k[8:]: v for k, v in cnt.items() if k.startswith("ignored:")},
                   "committee_sizes": [4, 7],
                   "max_round_validated": max_round,
                   "outside_slot_window_skipped": cnt.get("outside_slot_window", 0),
                   "partial_signature": {"duties_replayed": cnt.get("duty_behaviours", 0), "messages": cnt.get("partial_broadcasts", 0),
                                         "validations": cnt.get("partial_validations", 0), "by_role_type_committee": partial,
                                         "state_comparisons": cnt.get("state_comparisons", 0)},
                   "probed_windows": res.get("notes", []),
                   "finding_trace": bool(finding_beh), "guided_scenarios": [x["id"] for x in scen], "stale_scenarios": stale,
                   "divergences": cnt.get("divergences", 0), "divergence_samples": res["divergences"][:5],
                   "not_covered": "signed-envelope era (post-fork pubsub path); committees 10 and 13; more than one duty per runner "
                                  "(slot advance between duties); 13 or more signatures in one message; committee-7 classes beyond "
                                  "two silent members are explored inside a time box and by simulation, not exhaustively"},
    }
    vlib.write_evidence(PROP, tier, seed, "model_checking", cov, time.time() - t0, [
        "timely class = global round clock, deliveries complete before each deadline, due timers fire in any order "
        "interleaved with deliveries; <= f silent members; rounds timed by the real round-timer arithmetic (quick rounds 2 s, "
        "slow rounds 2 min after round 8, base delay of the role); the slot window is probed on the real gate",
        "high-round classes: a late leader's proposal reaches no controller inside its round but every gate inside its window",
        "the gate is called through ValidateSSVMessage (bare SSV message, pre-fork era); committees 4 and 7",
        "duty world: the beacon node is the spec's testing node with the node's real sync-committee subnet mapping (index / 128)",
    ], len(verdict.violations))
    return rc


def replay(path):
    verdict = vlib.Verdict(PROP)
    binq = vlib.go_build("c10")
    outp = os.path.join(vlib.WORK, PROP, "replay_single.json")
    os.makedirs(os.path.dirname(outp), exist_ok=True)
    vlib.run_driver(binq, ["-in", path, "-out", outp])
    for v in json.load(open(outp))["violations"]:
        verdict.violation(v["signature"], "%s [%s step %d]" % (v["description"], v["behaviour"], v["step"]), path)
    return verdict.report()
