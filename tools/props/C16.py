"""C16 - each assigned beacon duty is dispatched exactly once, at its slot (spec/Scheduler.tla).

Three handlers (attester, proposer, sync committee) = three values of the spec constant Role. Per tier:
1. TLC exhausts the faithful spec for each role (two configs per role: events/fetch failures over three epochs with
   one validator; two validators with a changing active set, clock lags and a mid-epoch start);
2. behaviours (state-graph cover of a small config, -simulate runs with 8-slot epochs, attack traces of the
   weakened specs) are replayed on the REAL handlers by harness/cmd/scheduler with the five monitors on;
3. the driver's own seeded random schedules on the real handlers are validated by TLC against SchedulerTrace.
"""
import concurrent.futures
import hashlib
import json
import os
import random
import time

import vlib
from vlib import log

PROP = "C16"
ROLES = ["att", "prop", "sync"]
STATE_VARS = ["store"]
INVS = ["AtMostOnce", "AtItsSlot", "OnlyIfAssigned", "InWindow", "ExactlyOnceWhenValid"]

ATTACKS = [  # (cfg, guard removed)
    ("Sched_attack_att_noResetOnReorg.cfg", "attester: ResetEpoch(current) on a previous-root reorg"),
    ("Sched_attack_att_noResetNextOnReorg.cfg", "attester: ResetEpoch(next) on a reorg after the fetch-next point"),
    ("Sched_attack_att_noResetOnIndices.cfg", "attester: ResetEpoch(current) before the re-fetch after an indices change"),
    ("Sched_attack_att_noResetNextOnIndices.cfg", "attester: ResetEpoch(next) on an indices change"),
    ("Sched_attack_att_noWindow.cfg", "attester: shouldExecute slot window"),
    ("Sched_attack_att_narrowWindow.cfg", "attester: shouldExecute accepts only the current slot"),
    ("Sched_attack_att_noSlotFilter.cfg", "attester: CommitteeSlotDuties slot filter"),
    ("Sched_attack_att_lossyAdd.cfg", "attester: dutystore.Add keeps every validator of a slot"),
    ("Sched_attack_prop_noResetInFetch.cfg", "proposer: ResetEpoch before Add in fetchAndProcessDuties"),
    ("Sched_attack_prop_noWindow.cfg", "proposer: shouldExecute slot window"),
    ("Sched_attack_prop_noSlotFilter.cfg", "proposer: CommitteeSlotDuties slot filter"),
    ("Sched_attack_prop_lossyAdd.cfg", "proposer: dutystore.Add keeps every validator of a slot"),
    ("Sched_attack_sync_noResetInFetch.cfg", "sync committee: Reset(period) before Add in fetchAndProcessDuties"),
    ("Sched_attack_sync_noWindow.cfg", "sync committee: shouldExecute slot window"),
    ("Sched_attack_sync_lossyAdd.cfg", "sync committee: SyncCommitteeDuties.Add keeps every validator"),
    ("Sched_attack_prop_resetBeforeFetch.cfg", "proposer: the epoch is reset only AFTER a successful fetch (a failed re-fetch keeps the duties)"),
    ("Sched_attack_sync_resetBeforeFetch.cfg", "sync committee: the period is reset only AFTER a successful fetch"),
]

OWN = {  # parameters of the driver's own executions; must match spec/SchedTrace_<role>.cfg
    "att": dict(spe=8, epp=3, epochs=3, nv=3),
    "prop": dict(spe=8, epp=3, epochs=3, nv=3),
    "sync": dict(spe=8, epp=3, epochs=4, nv=3),
}


def _tier(tier):
    if tier == "quick":
        return dict(mc=[c % r for c in ("Sched_%s_quick.cfg", "Sched_%s_quick2.cfg") for r in ROLES]
                    + ["Sched_att_spe6.cfg", "Sched_sync_spe6.cfg"],
                    big={"Sched_att_quick.cfg": 2, "Sched_prop_quick.cfg": 2}, workers=1, par=6,
                    stop_after=150, leaves=200, extra_edges=100, sim=(40, 90), own_runs=40,
                    java="-Xmx2g -XX:ParallelGCThreads=2")
    return dict(mc=[c % r for c in ("Sched_%s_thorough2.cfg", "Sched_%s_thorough.cfg", "Sched_%s_thorough3.cfg") for r in ROLES
                    if c % r != "Sched_sync_thorough2.cfg"] + ["Sched_att_spe6.cfg", "Sched_sync_spe6.cfg"],
                big={}, workers=2, par=4, stop_after=780, leaves=1500, extra_edges=1500, sim=(600, 90), own_runs=600,
                java="-Xmx8g -XX:ParallelGCThreads=2")


def _killed(r):
    """another check's timeout handler may `pkill` every TLC on the machine: no statistics and no verdict"""
    return (not r.violation and not r.error and r.distinct == 0 and r.generated == 0) or getattr(r, "rc", 0) in (-9, -15, 137, 143)


def _tlc(module, cfg, **kw):
    r = None
    for attempt in range(3):
        r = vlib.tlc(module, cfg, name="%s-%s-%d" % (PROP, cfg.replace(".cfg", ""), attempt), **kw)
        if not _killed(r):
            return r
        log("[C16] TLC run of %s was killed from outside (attempt %d), retrying" % (cfg, attempt + 1))
        time.sleep(2 + attempt * 5)
    return r


# Attack counterexamples and the dumped cover graphs are pure functions of (Scheduler.tla, MCScheduler.tla, cfg):
# they are behaviour *generators*, cached under .work/C16/cache by content hash. The exhaustive runs of the faithful
# spec, the simulations, the replays and the trace validations are redone on every run.
def _key(cfg):
    h = hashlib.sha256()
    for f in ("Scheduler.tla", "MCScheduler.tla", cfg):
        h.update(open(os.path.join(vlib.SPEC, f), "rb").read())
    return os.path.join(vlib.WORK, PROP, "cache", cfg.replace(".cfg", "") + "-" + h.hexdigest()[:16] + ".json")


def _cache_get(cfg):
    p = _key(cfg)
    if os.path.exists(p):
        try:
            return json.load(open(p))
        except ValueError:
            return None
    return None


def _cache_put(cfg, obj):
    p = _key(cfg)
    os.makedirs(os.path.dirname(p), exist_ok=True)
    tmp = p + ".tmp%d" % os.getpid()
    with open(tmp, "w") as f:
        json.dump(obj, f)
    os.replace(tmp, p)


def _attack(cfg, desc):
    """-> (behaviour or None, generated states of this run)"""
    c = _cache_get(cfg)
    if c is not None:
        return c["behaviour"], 0
    ra = _tlc("MCScheduler", cfg, workers=1, timeout=900)
    if ra.error:
        raise vlib.MachineryError("attack config %s: %s" % (cfg, ra.error))
    if _killed(ra):
        raise vlib.MachineryError("attack config %s: TLC was killed three times" % cfg)
    beh = None
    if ra.violation:
        beh = vlib.trace_behaviour(ra.trace, "attack-" + cfg.replace("Sched_attack_", "").replace(".cfg", ""),
                                   "attack:%s (spec invariant %s)" % (desc, ra.violation), state_vars=STATE_VARS)
    _cache_put(cfg, {"behaviour": beh})
    return beh, ra.generated


def _sanity():
    cfg = "Sched_sanity.cfg"
    c = _cache_get(cfg)
    if c is None:
        rs = _tlc("MCScheduler", cfg, workers=1, timeout=300)
        c = {"violation": rs.violation, "detail": (rs.error or rs.out[-500:]) if rs.violation != "NeverDispatch" else ""}
        if not _killed(rs):
            _cache_put(cfg, c)
    if c["violation"] != "NeverDispatch":
        raise vlib.MachineryError("sanity: the spec never dispatches a duty (checks would be vacuous): %s" % c["detail"])
    return True


def _cover(role):
    """-> (nodes, edges, inits, generated states of this run); node states reduced to act + STATE_VARS"""
    cfg = "Sched_%s_cover.cfg" % role
    c = _cache_get(cfg)
    if c is not None:
        return c["nodes"], [tuple(e) for e in c["edges"]], c["inits"], 0
    for attempt in range(2):
        rg, nodes, edges, inits = vlib.tlc_dump_graph("MCScheduler", cfg, name="%s-cover-%s%d" % (PROP, role, attempt),
                                                      timeout=1500, workers=2)
        if not _killed(rg) and nodes:
            break
    if not vlib.expect_tlc_ok(rg, cfg):
        raise vlib.MachineryError("cover config of %s violates %s" % (role, rg.violation))
    if not rg.finished or not nodes:
        raise vlib.MachineryError("cover config of %s: state graph not dumped completely" % role)
    small = {n: {k: vlib.tlaval.plain(st[k]) for k in ["act"] + STATE_VARS if k in st} for n, st in nodes.items()}
    _cache_put(cfg, {"nodes": small, "edges": [list(e) for e in edges], "inits": inits})
    return small, edges, inits, rg.generated


def _sim(role, num, depth, seed):
    for attempt in range(2):
        rsim, sb = vlib.tlc_simulate("MCScheduler", "Sched_%s_sim.cfg" % role, num, depth, seed,
                                     name="%s-sim-%s%d" % (PROP, role, attempt), keep_vars=["act"] + STATE_VARS, timeout=1500)
        if sb or rsim.violation or rsim.error:
            break
    if rsim.violation or rsim.error:
        raise vlib.MachineryError("simulation config of %s: %s %s" % (role, rsim.violation, rsim.error))
    return rsim, sb


def _own(drv, wd, role, seed, runs):
    tr = os.path.join(wd, "trace_%s.ndjson" % role)
    outr = os.path.join(wd, "own_%s.json" % role)
    p = OWN[role]
    vlib.run_driver(drv, ["-mode", "own", "-role", role, "-trace", tr, "-out", outr, "-seed", str(seed), "-runs", str(runs),
                          "-spe", str(p["spe"]), "-epp", str(p["epp"]), "-epochs", str(p["epochs"]), "-nv", str(p["nv"])],
                    timeout=3000)
    r2 = json.load(open(outr))
    for attempt in range(2):
        acc = vlib.tlc_validate_trace("SchedulerTrace", "SchedTrace_%s.cfg" % role, tr,
                                      name="%s-tv-%s%d" % (PROP, role, attempt), timeout=2400)
        if not _killed(acc[3]):
            break
    return tr, r2, acc


def run(tier, seed):
    t0 = time.time()
    T = _tier(tier)
    os.environ["_JAVA_OPTIONS"] = T["java"]   # every JVM of this check: small heap, few GC threads (shared machine)
    # all TLC work of the tier goes through one pool (at most par JVMs at a time), longest jobs first
    ex = concurrent.futures.ThreadPoolExecutor(max_workers=T["par"])
    try:
        return _run(tier, seed, T, ex, t0)
    finally:
        ex.shutdown(wait=False, cancel_futures=True)


def _run(tier, seed, T, ex, t0):
    verdict = vlib.Verdict(PROP)
    cov = {"configs": [], "attack_traces": 0, "divergences": 0, "attack_configs_without_counterexample": []}
    drv = vlib.go_build("scheduler")
    wd = os.path.join(vlib.WORK, PROP)
    os.makedirs(wd, exist_ok=True)
    rng = random.Random(seed)
    num, depth = T["sim"]
    cfgs = T["mc"]
    f_mc = [ex.submit(_tlc, "MCScheduler", c, workers=T["big"].get(c, T["workers"]), timeout=T["stop_after"] + 600,
                      stop_after=T["stop_after"]) for c in cfgs]
    f_own = [ex.submit(_own, drv, wd, role, seed, T["own_runs"]) for role in ROLES]
    f_sim = [ex.submit(_sim, role, num, depth, seed) for role in ROLES]
    f_cover = [ex.submit(_cover, role) for role in ROLES]
    f_attack = [ex.submit(_attack, cfg, desc) for cfg, desc in ATTACKS]
    f_sanity = ex.submit(_sanity)

    # 1. behaviours to replay on the real handlers: graph covers, simulations, attack traces
    behs = []
    transitions = 0
    for role, f in zip(ROLES, f_cover):
        nodes, edges, inits, gen = f.result()
        bs, gstat = vlib.graph_behaviours(nodes, edges, inits, seed, max_extra=T["extra_edges"], state_vars=STATE_VARS,
                                          kind="cover-" + role)
        leaves = [b for b in bs if "-leaf-" in b["id"]]
        extra = [b for b in bs if "-leaf-" not in b["id"]]
        rng.shuffle(leaves)
        gstat["leaves_replayed"] = min(len(leaves), T["leaves"])
        gstat["graph_from_cache"] = gen == 0
        cov["cover_graph_" + role] = gstat
        behs += leaves[:T["leaves"]] + extra
        transitions += gen
    nsim = 0
    for role, f in zip(ROLES, f_sim):
        rsim, sb = f.result()
        for k, b in enumerate(sb):
            behs.append(vlib.trace_behaviour(b, "sim-%s-%d" % (role, k), "sim", state_vars=STATE_VARS))
        nsim += len(sb)
        transitions += rsim.generated
    cov["sim_behaviours"] = nsim
    attack_behs = []
    for (cfg, desc), f in zip(ATTACKS, f_attack):
        beh, gen = f.result()
        transitions += gen
        if beh is None:
            cov["attack_configs_without_counterexample"].append(cfg)
            log("[C16] attack config %s produced no counterexample (not counted)" % cfg)
        else:
            attack_behs.append(beh)
    cov["attack_traces"] = len(attack_behs)
    if len(attack_behs) < len(ATTACKS) - 2:
        raise vlib.MachineryError("only %d of %d attack configs produced a counterexample" % (len(attack_behs), len(ATTACKS)))

    inp = os.path.join(wd, "behaviours.ndjson")
    vlib.write_ndjson(inp, behs + attack_behs)
    outp = os.path.join(wd, "replay_result.json")
    vlib.run_driver(drv, ["-mode", "replay", "-in", inp, "-out", outp], timeout=3000)
    res = json.load(open(outp))
    _collect(res, verdict, inp)
    _machinery(res)
    cov["replayed_behaviours"] = res["behaviours"]
    cov["replayed_steps"] = res["steps"]
    cov["divergences"] += res["counters"].get("divergences", 0)
    cov["attack_steps_refused_by_real_code"] = res["counters"].get("attack_steps_refused", 0)
    if res["divergences"]:
        cov["divergence_samples"] = res["divergences"][:5]
    log("[C16] replayed %d behaviours / %d steps on the real handlers: %d violations, %d divergences, %d attack steps refused" %
        (res["behaviours"], res["steps"], res["counters"].get("violations", 0), res["counters"].get("divergences", 0),
         res["counters"].get("attack_steps_refused", 0)))

    # 2. the driver's own schedules on the real handlers, validated by TLC against the spec
    own_behs = own_steps = own_nontrivial = accepted_traces = 0
    samples = []
    for role, f in zip(ROLES, f_own):
        tr, r2, (accepted, consumed, nlines, rt) = f.result()
        p = OWN[role]
        _collect(r2, verdict, "own:role=%s,seed=%d,runs=%d,spe=%d,epp=%d,epochs=%d,nv=%d" %
                 (role, seed, T["own_runs"], p["spe"], p["epp"], p["epochs"], p["nv"]))
        _machinery(r2)
        own_behs += r2["behaviours"]
        own_steps += r2["steps"]
        own_nontrivial += r2["nontrivial"]
        transitions += rt.generated
        cov["recorded_events_" + role] = nlines
        cov["trace_accepted_" + role] = accepted
        if accepted:
            accepted_traces += r2["behaviours"]
        else:
            lines = open(tr).read().split("\n")
            bad = lines[consumed] if consumed < len(lines) else "?"
            log("[C16] recorded %s trace REJECTED by the spec at line %d: %s (TLC: %s)" % (role, consumed + 1, bad, rt.violation or ""))
            cov["divergences"] += 1
            cov["trace_rejected_at_" + role] = {"line": consumed + 1, "event": bad, "tlc": rt.violation}
        samples.append(open(tr).read().split("\n")[0:10])
    cov["own_behaviours"] = own_behs
    cov["binding_selftest"] = _selftest(os.path.join(wd, "trace_att.ndjson"), wd)

    # 3. exhaustive model checking of the faithful spec, every role
    f_sanity.result()
    states = 0
    exhaustive = True
    for c, f in zip(cfgs, f_mc):
        r = f.result()
        if not vlib.expect_tlc_ok(r, c):
            raise vlib.MachineryError("faithful Scheduler spec violates %s in %s (model error, not a verdict):\n%s" %
                                      (r.violation, c, json.dumps(vlib.tlaval.plain([s.get("act") for s in r.trace]))))
        cov["configs"].append({"cfg": c, "distinct": r.distinct, "generated": r.generated, "depth": r.depth,
                               "exhaustive": r.finished, "wall_s": round(r.wall, 1)})
        states += r.distinct
        transitions += r.generated
        exhaustive = exhaustive and r.finished
        log("[C16] TLC %s: %d distinct / %d generated, finished=%s, %.1fs" % (c, r.distinct, r.generated, r.finished, r.wall))

    rc = verdict.report()
    if cov["divergences"] and rc == 0:
        log("[C16] NOTE: %d conformance divergences without a monitor trip (see evidence)" % cov["divergences"])
    coverage = {
        "states": states, "transitions": transitions,
        "traces_validated_against_impl": res["behaviours"] + accepted_traces,
        "samples": res["samples"][:1] + samples[:1],
        "evaluations": res["steps"] + own_steps,
        "distinct_nontrivial": res["nontrivial"] + own_nontrivial,
        "rule": "behaviours = seeded BFS-tree leaves and non-tree edges of the dumped state graph of the cover configs + "
                "-simulate runs (8-slot epochs, 2 validators) + attack traces + the driver's own random schedules; "
                "non-trivial = a duty is dispatched in a tick after at least one reorg / indices-change event "
                "(replays) or at least one duty is dispatched (own schedules); ids are distinct by construction",
        "exhaustive": bool(exhaustive),
        "detail": cov,
    }
    vlib.write_evidence(PROP, tier, seed, "model_checking", coverage, time.time() - t0, [
        "ticks carry consecutive slots (no skipped tick); a reorg notice carries the current slot (scheduler.go drops other head events)",
        "the active validator set is never empty; committee and all-active index sets coincide",
        "beacon-node assignments change only at reorg notices (truth), fetch failures are injected per tick and key",
        "the BeaconNetwork arithmetic (epoch / period of a slot, LastSlotOfSyncPeriod) is re-implemented by the virtual "
        "network with SPE-slot epochs and EPP-epoch periods; syncCommitteePreparationEpochs = 2 is fixed by the code",
        "storeValid reading of 'fetched successfully before that tick' (DESIGN section 5 C16), per role and event: a "
        "dispatch is not demanded only after an event at which the pinned handler itself resets the store before a "
        "re-fetch succeeds (attester: reorg, indices change; proposer: current-root reorg; sync: current-root reorg near "
        "the period end); a failed fetch never excuses anything",
        "exhaustive results hold for the stated constants (4-slot epochs, 3-4 epochs, <= 2 validators, bounded event budgets)",
    ], len(verdict.violations))
    return rc


def _collect(res, verdict, replay_path):
    for v in res["violations"]:
        verdict.violation(v["signature"], "%s [%s step %d]" % (v["description"], v["behaviour"], v["step"]), replay_path)


def _machinery(res):
    if res["counters"].get("stuck", 0):
        raise vlib.MachineryError("the real handler stopped taking events in %d behaviours: %s" %
                                  (res["counters"]["stuck"], "; ".join(res["notes"][:3])))


def _selftest(tr, wd):
    """corrupt one recorded dispatch and expect SchedulerTrace to reject the trace"""
    lines = [x for x in open(tr).read().split("\n") if x.strip()]
    idx = None
    for i, ln in enumerate(lines):
        e = json.loads(ln)
        if e["event"] == "Tick" and e["disp"]:
            e["disp"] = e["disp"][1:]
            lines[i] = json.dumps(e)
            idx = i
            break
    if idx is None:
        return "skipped"
    p = os.path.join(wd, "trace_corrupt.ndjson")
    with open(p, "w") as f:
        f.write("\n".join(lines[:idx + 40]) + "\n")
    accepted, consumed, nlines, r = vlib.tlc_validate_trace("SchedulerTrace", "SchedTrace_att.cfg", p, name=PROP + "-selftest")
    if _killed(r):
        accepted, consumed, nlines, r = vlib.tlc_validate_trace("SchedulerTrace", "SchedTrace_att.cfg", p, name=PROP + "-selftest2")
    if accepted:
        raise vlib.MachineryError("binding self-test failed: a corrupted trace was accepted by SchedulerTrace")
    return "corrupted line %d rejected at line %d" % (idx + 1, consumed + 1)


def replay(path):
    drv = vlib.go_build("scheduler")
    verdict = vlib.Verdict(PROP)
    wd = os.path.join(vlib.WORK, PROP)
    os.makedirs(wd, exist_ok=True)
    outp = os.path.join(wd, "replay_single.json")
    if path.startswith("own:"):
        args = ["-mode", "own", "-out", outp]
        for kv in path[4:].split(","):
            k, v = kv.split("=")
            args += ["-" + k, v]
        vlib.run_driver(drv, args)
    else:
        vlib.run_driver(drv, ["-mode", "replay", "-in", path, "-out", outp])
    res = json.load(open(outp))
    _collect(res, verdict, path)
    _machinery(res)
    return verdict.report()
