"""Implementation -> specification direction of the QBFT family (part of C06).

Executions that the repository's own reference test kit exercises (ssv-spec qbft/spectest scenarios of the
message-processing, timeout and controller kinds) and seeded random executions are recorded from the REAL node
instance / controller by harness/cmd/qbfttrace and validated by TLC against spec/QBFTInstanceTrace.tla (the
single-instance model).  A rejected trace is a C06 violation only if the node and the reference implementation
disagree on a monitored fact of C06 (accept/reject, broadcasts, decision, protocol state) in that trace; a trace the
specification rejects while node and reference agree is a model imprecision (counted as a divergence).  A
disagreement between node and reference is a C06 violation whatever the specification says."""
import json
import os
import time
from concurrent.futures import ThreadPoolExecutor

import vlib

PROP = "C06"
MODULE = "QBFTInstanceTrace"
MAX_REJECTS_PER_CHUNK = 6
# facts of a node/reference disagreement that the statement of C06 talks about
MONITORED = ("accept", "broadcast", "decision", "state-root")


def _cfg(n):
    return "QBFTInstanceTrace_n%d.cfg" % n


def split_traces(lines):
    """NDJSON lines -> list of traces; a trace is the list of lines from a Reset up to the next one."""
    traces, cur = [], None
    for ln in lines:
        if not ln.strip():
            continue
        if ln.startswith('{"crafted"') or '"event":"Reset"' in ln:
            cur = [ln]
            traces.append(cur)
        elif cur is not None:
            cur.append(ln)
    return traces


def _head(tr):
    return json.loads(tr[0])


def _validate_lines(n, lines, name, timeout=900):
    # a trace run is short and linear: JVM start-up dominates, so only the C1 compiler is used (2.5x less CPU measured);
    # vlib.tlc turns `heap` into "-Xmx<heap>", which carries the extra JVM flag
    r = vlib.tlc(MODULE, _cfg(n), name=name, workers=1, timeout=timeout, depth_first=True,
                 heap="2g -XX:TieredStopAtLevel=1", files={"trace.ndjson": "\n".join(lines) + "\n"})
    nlines = len(lines)
    rejected = "TraceAccepted" in r.out and ("is false" in r.out or "violated" in r.out)
    if r.error and not rejected:
        raise vlib.MachineryError("TLC error during trace validation (%s): %s" % (name, r.error[-1500:]))
    if r.violation:
        raise vlib.MachineryError("trace run %s violates %s (machinery)" % (name, r.violation))
    consumed = max(0, r.depth - 1)
    return (not rejected) and consumed == nlines, consumed, r


def validate_chunk(n, traces, name):
    """Validates the concatenation of `traces`; every rejected trace is reported with the length of its longest
    matched prefix, taken out, and the rest is validated again.  Returns (accepted, rejected[], unvalidated, states)."""
    todo = list(traces)
    rejected, accepted, states = [], 0, 0
    k = 0
    while todo:
        lines = [ln for tr in todo for ln in tr]
        ok, consumed, r = _validate_lines(n, lines, "%s-%d" % (name, k))
        states += r.generated
        k += 1
        if ok:
            accepted += len(todo)
            return accepted, rejected, 0, states
        # which trace holds line `consumed` (0-based index of the first line without an enabled action)?
        pos = 0
        for j, tr in enumerate(todo):
            if consumed < pos + len(tr):
                rejected.append({"trace": tr, "matched": consumed - pos})
                accepted += j
                todo = todo[j + 1:]
                break
            pos += len(tr)
        else:
            raise vlib.MachineryError("trace validation %s stopped after the last line without accepting" % name)
        if len(rejected) >= MAX_REJECTS_PER_CHUNK:
            return accepted, rejected, len(todo), states
    return accepted, rejected, 0, states


def _expected(ev):
    """What the specification allows at a rejected event, in words (the enabled alternatives are those of the
    trace action for this event kind; the event itself shows what the real code did)."""
    e = ev.get("event")
    if e == "ProcessMsg":
        m = ev["msg"]
        return ("real code: %s %s round %d signers %s value %s -> %s, decided=%s, broadcasts %s; the specification has no "
                "enabled step with this result, post-state and broadcasts for that message in the state reached by the "
                "matched prefix (accept => the model action Do<Type> with the logged post-state; refuse => the message is "
                "malformed or the model action is disabled; no-op => duplicate of a counted signer)" % (
                    ev.get("via"), m["type"], m["round"], m["signers"], m["value"], ev.get("err"), ev.get("decided"),
                    json.dumps(ev.get("out"))))
    return "real code: %s -> %s, post %s, broadcasts %s" % (e, ev.get("err", "ok"), json.dumps(ev.get("post")), json.dumps(ev.get("out")))


def record(binq, wd, seed, nrandom, kit=True, shards=8, only=None, tag="rec"):
    """Runs the recorder in `shards` processes; returns (trace lines, merged result)."""
    os.makedirs(wd, exist_ok=True)
    parts = []
    for k in range(shards):
        tr = os.path.join(wd, "%s.%d.ndjson" % (tag, k))
        out = os.path.join(wd, "%s.%d.json" % (tag, k))
        args = ["-trace", tr, "-out", out, "-seed", str(seed), "-random", str(nrandom), "-shard", str(k), "-of", str(shards)]
        if not kit:
            args += ["-kit=false"]
        if only:
            args += ["-only", only]
        parts.append((tr, out, args))
    with ThreadPoolExecutor(shards) as ex:
        list(ex.map(lambda p: vlib.run_driver(binq, p[2], timeout=3000), parts))
    lines, res = [], {"counts": {}, "excluded": {}, "refdiffs": []}
    for tr, out, _ in parts:
        with open(tr) as f:
            lines += [ln.rstrip("\n") for ln in f if ln.strip()]
        r = json.load(open(out))
        for k, v in r["counts"].items():
            res["counts"][k] = res["counts"].get(k, 0) + v
        for k, v in (r["excluded"] or {}).items():
            res["excluded"].setdefault(k, [])
            res["excluded"][k] += v
        res["refdiffs"] += r["refdiffs"] or []
        os.remove(tr)
        os.remove(out)
    return lines, res


def validate_all(traces, name, workers=8, chunk_events=None):
    """Groups the traces by committee size, cuts them into chunks and validates the chunks in parallel."""
    by_n = {}
    for tr in traces:
        by_n.setdefault(_head(tr)["n"], []).append(tr)
    if chunk_events is None:
        # one JVM start costs about as much as 300 events: few, equally sized chunks, one wave of workers
        chunk_events = max(600, sum(len(tr) for tr in traces) // max(1, workers - 2))
    jobs = []
    for n, trs in sorted(by_n.items()):
        cur, size = [], 0
        for tr in trs:
            cur.append(tr)
            size += len(tr)
            if size >= chunk_events:
                jobs.append((n, cur))
                cur, size = [], 0
        if cur:
            jobs.append((n, cur))
    with ThreadPoolExecutor(workers) as ex:
        results = list(ex.map(lambda j: validate_chunk(j[1][0], j[1][1], "%s-n%d-%d" % (name, j[1][0], j[0])), enumerate(jobs)))
    accepted = sum(r[0] for r in results)
    rejected = [x for r in results for x in r[1]]
    unvalidated = sum(r[2] for r in results)
    states = sum(r[3] for r in results)
    return accepted, rejected, unvalidated, states, len(jobs)


def corruption_selftest(traces, log, skip=()):
    """Binding self-test: flip one recorded accept into a refusal, and bump one recorded post-state round; TLC must
    reject both corrupted traces at exactly that line.  Returns (report lines, names of the traces used)."""
    out, used = [], set()
    for what in ("accept->refuse", "post.round+1"):
        done = False
        for tr in traces:
            if _head(tr)["n"] != 4 or _head(tr)["scen"] in skip:
                continue
            for k, ln in enumerate(tr):
                ev = json.loads(ln)
                if ev.get("event") != "ProcessMsg" or not ev.get("ok") or ev["msg"]["type"] not in ("proposal", "prepare") or not ev["out"]:
                    continue
                if what == "accept->refuse":
                    ev["ok"], ev["err"] = False, "error: corrupted by the self-test"
                else:
                    ev["post"]["round"] += 1
                bad = tr[:k] + [json.dumps(ev, separators=(",", ":"))] + tr[k + 1:]
                ok, consumed, _ = _validate_lines(4, bad, "qst-selftest")
                if ok or consumed != k:
                    raise vlib.MachineryError("binding self-test failed: trace '%s' with line %d corrupted (%s) was %s (consumed %d)" % (
                        _head(tr)["scen"], k + 1, what, "accepted" if ok else "rejected elsewhere", consumed))
                out.append("%s at line %d of '%s': rejected at that line" % (what, k + 1, _head(tr)["scen"]))
                used.add(_head(tr)["scen"])
                done = True
                break
            if done:
                break
        if not done:
            out.append("%s: skipped (no suitable event)" % what)
    return out, used


def run_part(tier, seed, verdict, log):
    """Records and validates; reports violations through `verdict`; returns the coverage dict."""
    t0 = time.time()
    thorough = tier == "thorough"
    nrandom = 2000 if thorough else 200
    wd = os.path.join(vlib.WORK, PROP, "spectrace")
    binq = vlib.go_build("qbfttrace")
    lines, res = record(binq, wd, seed, nrandom, shards=8)
    t_rec = time.time() - t0
    traces = split_traces(lines)
    all_path = os.path.join(wd, "recorded.ndjson")
    vlib.write_ndjson(all_path, [json.loads(ln) for ln in lines])
    with ThreadPoolExecutor(1) as side:
        st_f = side.submit(corruption_selftest, traces, log)       # concurrently with the validation
        accepted, rejected, unvalidated, states, nchunks = validate_all(traces, "qst", workers=8)
        rejected_names = set(_head(rj["trace"])["scen"] for rj in rejected)
        try:
            selftest, used = st_f.result()
            if used & rejected_names:
                raise vlib.MachineryError("self-test used a rejected trace")
        except vlib.MachineryError:
            if not rejected_names:
                raise
            # the self-test must corrupt a trace that the specification accepts
            selftest, used = corruption_selftest(traces, log, skip=rejected_names)
    log("[C06] trace binding self-test: " + "; ".join(selftest))
    events = sum(len(tr) - 1 for tr in traces)
    counts = res["counts"]
    # node/reference disagreements, per trace
    diffs = {}
    for d in res["refdiffs"]:
        diffs.setdefault(d["trace"], []).append(d)
    rej_names = set()
    imprecisions, rej_samples = [], []
    for rj in rejected:
        tr, matched = rj["trace"], rj["matched"]
        head = _head(tr)
        name = head["scen"]
        rej_names.add(name)
        nxt = json.loads(tr[matched]) if matched < len(tr) else {}
        path = vlib.save_replay(PROP, "spectrace-%s.ndjson" % "".join(c if c.isalnum() else "_" for c in name)[:80], "\n".join(tr) + "\n")
        dd = [d for d in diffs.get(name, []) if d["field"] in MONITORED]
        desc = "matched prefix: %d of %d events; next event (line %d): %s" % (matched - 1, len(tr) - 1, matched + 1, _expected(nxt))
        if dd:
            d = dd[0]
            verdict.violation("C06:spectest-trace-rejected:" + name.split("#")[0],
                              "trace '%s' is rejected by QBFTInstanceTrace and the node disagrees with the reference instance "
                              "(%s at step %d, %s: node %s, reference %s). %s" % (name, d["field"], d["step"], d["what"], d["node"], d["ref"], desc), path)
        else:
            imprecisions.append({"trace": name, "matched": matched - 1, "events": len(tr) - 1, "next": nxt.get("event"),
                                 "replay": path, "description": desc[:600]})
        if len(rej_samples) < 5:
            rej_samples.append({"trace": name, "matched": matched - 1, "next_event": nxt})
    # a disagreement with the reference in a trace the specification ACCEPTED (or could not validate) is a violation
    # of C06 all the same; controller-level facts outside the statement of C06 are only counted
    other = {}
    for name, dd in diffs.items():
        mon = [d for d in dd if d["field"] in MONITORED]
        for d in dd:
            if d["field"] not in MONITORED:
                other[d["field"]] = other.get(d["field"], 0) + 1
        if mon and name not in rej_names:
            d = mon[0]
            tr = next((t for t in traces if _head(t)["scen"] == name), None)
            path = vlib.save_replay(PROP, "spectrace-%s.ndjson" % "".join(c if c.isalnum() else "_" for c in name)[:80],
                                    "\n".join(tr or []) + "\n")
            verdict.violation("C06:spectest-reference-mismatch:" + name.split("#")[0],
                              "node and reference instance disagree in '%s' (%s at step %d, %s: node %s, reference %s)" % (
                                  name, d["field"], d["step"], d["what"], d["node"], d["ref"]), path)
    kit_run = sum(v for k, v in counts.items() if k.startswith("scenarios:"))
    excluded = {k: len(v) for k, v in res["excluded"].items()}
    log("[C06] spectest traces: %d kit scenarios (%d run: %s; excluded %s), %d random executions, %d traces / %d events recorded "
        "in %.0fs; TLC accepted %d traces, rejected %d (%d model imprecisions), %d not validated; %d node/reference "
        "disagreements; %.0fs" % (
            counts.get("kit-scenarios", 0), kit_run,
            ", ".join("%s %d" % (k.split(":")[1], v) for k, v in sorted(counts.items()) if k.startswith("scenarios:")),
            json.dumps(excluded), counts.get("random-executions", 0), len(traces), events, t_rec, accepted, len(rejected),
            len(imprecisions), unvalidated, len(res["refdiffs"]), time.time() - t0))
    for im in imprecisions[:8]:
        log("[C06]   DIVERGENCE (model imprecision, node == reference): %s: %s" % (im["trace"], im["description"][:300]))
    return {
        "kit_scenarios": counts.get("kit-scenarios", 0), "kit_scenarios_run": kit_run,
        "kit_scenarios_by_kind": {k.split(":")[1]: v for k, v in counts.items() if k.startswith("scenarios:")},
        "scenarios_excluded_by_reason": excluded,
        "scenarios_with_crafted_pre_state": counts.get("crafted-pre-state", 0),
        "random_executions": counts.get("random-executions", 0),
        "traces": len(traces), "events": events, "traces_accepted": accepted, "traces_rejected": len(rejected),
        "traces_not_validated": unvalidated, "model_imprecisions": imprecisions[:20], "rejected_samples": rej_samples,
        "node_reference_disagreements": len(res["refdiffs"]), "disagreements_outside_C06": other,
        "tlc_chunks": nchunks, "tlc_states": states, "binding_selftest": selftest,
        "record_wall_s": round(t_rec, 1), "wall_s": round(time.time() - t0, 1), "recorded": all_path,
    }


def replay(path, verdict, log):
    """Replay file = one recorded trace (NDJSON).  The scenario is recorded again from the current tree, validated,
    and compared with the reference; the stored trace is validated as well (what the original run saw)."""
    lines = [ln.rstrip("\n") for ln in open(path) if ln.strip()]
    head = json.loads(lines[0])
    name, n = head["scen"], head["n"]
    ok0, consumed0, _ = _validate_lines(n, lines, "qst-replay-stored")
    log("[C06] stored trace '%s': %s by QBFTInstanceTrace (%d of %d lines matched)" % (name, "accepted" if ok0 else "REJECTED", consumed0, len(lines)))
    binq = vlib.go_build("qbfttrace")
    wd = os.path.join(vlib.WORK, PROP, "spectrace-replay")
    base = name.split("#")[0]
    if head["kind"] == "random":
        idx = int(base.split("-")[2])
        new, res = record(binq, wd, head["seed"], idx + 1, kit=False, shards=1, only=base, tag="replay")
    else:
        new, res = record(binq, wd, 0, 0, kit=True, shards=1, only=base, tag="replay")
    trs = [t for t in split_traces(new) if _head(t)["scen"] == name]
    if not trs:
        log("[C06] scenario '%s' is no longer recorded by the driver" % name)
        return
    ok, consumed, _ = _validate_lines(n, trs[0], "qst-replay-new")
    dd = [d for d in res["refdiffs"] if d["trace"] == name and d["field"] in MONITORED]
    log("[C06] re-recorded trace '%s': %s (%d of %d lines matched), %d node/reference disagreements" % (
        name, "accepted" if ok else "REJECTED", consumed, len(trs[0]), len(dd)))
    if dd:
        d = dd[0]
        sig = "C06:spectest-trace-rejected:" if not ok else "C06:spectest-reference-mismatch:"
        verdict.violation(sig + base, "%s at step %d, %s: node %s, reference %s" % (d["field"], d["step"], d["what"], d["node"], d["ref"]), path)
