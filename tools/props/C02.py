"""C02 - every reported decision is backed by a verifiable quorum certificate (spec/QBFT.tla, CertValid)."""
import json
import os
import time

import vlib
from vlib import log
from props import qbft_common as Q

PROP = "C02"
INV = ("CertValid", "LocalDecisionFromLeader", "CommittedValuesChecked", "Agreement")


def run(tier, seed):
    t0 = time.time()
    verdict = vlib.Verdict(PROP)
    foreign = {}
    configs = []
    classes = [
        # every forged-certificate kind and every valid certificate, in every situation of the receiving operator
        dict(name="A4-certificates", ByzBudget=2, ByzActs="DecidedActs", MaxRound=1),
        dict(name="A2-byz-leader-invalid-values", ByzBudget=2, ByzActs="LeaderActs", MaxRound=1, LeaderOffset=3),
    ]
    if tier == "thorough":
        classes += [
            dict(name="A4-certificates-2rounds", ByzBudget=2, ByzActs="DecidedActs", MaxRound=2),
            dict(name="A2-byz-leader-2rounds", ByzBudget=2, ByzActs="LeaderActs", MaxRound=2, LeaderOffset=3),
            dict(name="A1-any-reception", ByzBudget=1, ByzActs="AllActs", MaxRound=2),
        ]
    states = transitions = 0
    for c in classes:
        name = c.pop("name")
        budget = 1500 if tier == "thorough" else 200
        info = Q.run_exhaustive(PROP, name, invariants=INV, timeout=budget + 120, stop_after=budget,
                                workers=vlib.NCPU if tier == "thorough" else 8, **c)
        configs.append(info)
        states += info["distinct"]
        transitions += info["generated"]
    # fine-grain behaviours with certificates (valid and forged), Byzantine commits and proposals
    nsim = 80 if tier == "quick" else 1500
    behs, gen = Q.simulate(PROP, "sim-certs", nsim, 40, seed, Q.params_of(), MaxRound=3, ByzBudget=10,
                           ByzActs="AllActs", Macro="FALSE", invariants=INV, workers=4 if tier == "quick" else 12)
    behs2, gen2 = Q.simulate(PROP, "sim-byz-leader", nsim // 2, 35, seed + 7, Q.params_of(LeaderOffset=3), MaxRound=2,
                             LeaderOffset=3, ByzBudget=10, ByzActs="AllActs", Macro="FALSE", invariants=INV,
                             workers=4 if tier == "quick" else 12)
    behs7, gen7, info7 = Q.committee7(PROP, tier, seed + 3, INV)
    transitions += gen + gen2 + gen7
    res, inp = Q.replay(PROP, behs + behs2 + behs7, "sim")
    Q.collect(PROP, res, verdict, inp, foreign)
    abehs, stale = Q.attack_behaviours(PROP, tier, PROP)
    ares, ainp = Q.replay(PROP, abehs, "attacks")
    Q.collect(PROP, ares, verdict, ainp, foreign)
    ncert = sum(1 for b in behs + behs2 + behs7 for s in b["steps"] if (s["act"] or {}).get("name") in ("RecvDecided", "RecvForgedDecided"))

    selftest = Q.binding_selftest(PROP, behs)
    rc = verdict.report()
    div = res["counters"].get("divergences", 0)
    if div:
        log("[C02] NOTE: %d conformance divergences without a monitor trip" % div)
    cov = {
        "states": states, "transitions": transitions,
        "traces_validated_against_impl": res["behaviours"] + ares["behaviours"],
        "samples": res["samples"][:1] + [b for b in abehs[:1]],
        "evaluations": res["steps"] + ares["steps"],
        "distinct_nontrivial": res["nontrivial"] + ares["nontrivial"],
        "rule": "behaviours = TLC -simulate runs of the fine-grain spec with valid and forged certificates + attack "
                "traces (one forged kind / removed guard each); non-trivial = at least one reception; every "
                "certificate a real controller reports is re-verified independently (FastAggregateVerify over exactly "
                "the listed members, distinctness, quorum, H(FullData)=Root, leader and value check for local decisions)",
        "exhaustive": all(c["exhaustive"] for c in configs),
        "detail": {"configs": configs, "attack_traces": [b["id"] for b in abehs], "stale_attacks": stale,
                   "certificate_receptions_replayed": ncert, "divergences": div, "binding_selftest": selftest,
                   "divergence_samples": res["divergences"][:5], "foreign_signatures_seen": foreign, "committee7": info7},
    }
    vlib.write_evidence(PROP, tier, seed, "model_checking", cov, time.time() - t0, [
        "exhaustive classes N=4, f=1, Byzantine operator 4; committee 7 (f=2, Byzantine 6 and 7) simulated and replayed; BLS aggregate verification itself is trusted (herumi)",
        "forged kinds enumerated: subQuorum, dupSigner, zeroSigner, foreignSigner, badAggregate, valueNotRoot, "
        "wrongIdentifier, notCommitType",
    ], len(verdict.violations))
    return rc


def replay(path):
    verdict = vlib.Verdict(PROP)
    binq = vlib.go_build("qbft")
    outp = os.path.join(vlib.WORK, PROP, "replay_single.json")
    os.makedirs(os.path.dirname(outp), exist_ok=True)
    vlib.run_driver(binq, ["-in", path, "-out", outp])
    Q.collect(PROP, json.load(open(outp)), verdict, path, {})
    return verdict.report()
