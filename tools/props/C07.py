"""C07 - consensus can always still terminate while at most f operators are faulty (spec/QBFTCont.tla)."""
import json
import os
import time

import vlib
from vlib import log
from props import qbft_common as Q

PROP = "C07"


def _all_decided(st):
    return all(n.get("decided") for n in st.values())


def run(tier, seed):
    t0 = time.time()
    verdict = vlib.Verdict(PROP)
    foreign = {}
    configs = []
    states = transitions = 0
    thorough = tier == "thorough"
    # ---- (1) possibility: two-phase spec, witness continuation, CanDecide as a state invariant ----
    classes = [dict(name="cont-A0-silent-quiescent", ByzBudget=0, ByzActs="NoActs", MaxRound=2, sw="quiescent")]
    if thorough:
        classes += [
            dict(name="cont-A0-silent", ByzBudget=0, ByzActs="NoActs", MaxRound=2, sw="any"),
            dict(name="cont-A0-offset1", ByzBudget=0, ByzActs="NoActs", MaxRound=2, sw="any", LeaderOffset=1),
            dict(name="cont-A0-offset2", ByzBudget=0, ByzActs="NoActs", MaxRound=2, sw="any", LeaderOffset=2),
            dict(name="cont-A0-offset3-byz-leader", ByzBudget=0, ByzActs="NoActs", MaxRound=2, sw="any", LeaderOffset=3),
            dict(name="cont-A3-rc-quiescent", ByzBudget=1, ByzActs="RCActs", MaxRound=2, sw="quiescent"),
            dict(name="cont-A2-leader-quiescent", ByzBudget=2, ByzActs="LeaderActs", MaxRound=2, sw="quiescent", LeaderOffset=3),
        ]
    for c in classes:
        name, sw = c.pop("name"), c.pop("sw")
        budget = 1500 if thorough else 300
        info = Q.run_exhaustive(PROP, name, module="MCQBFTCont", spec="Spec2", view="view2",
                                invariants=("CanDecide", "Agreement"), properties=("TimeoutStep",),
                                extra=['  SwitchWhen = "%s"' % sw], timeout=budget + 120, stop_after=budget,
                                workers=vlib.NCPU if thorough else 8, **c)
        configs.append(info)
        states += info["distinct"]
        transitions += info["generated"]
    # ---- (2) fault-free synchronous case: liveness under weak fairness, every leader rotation ----
    for off in ([0, 1, 2, 3] if thorough else [0, 2]):
        info = Q.run_exhaustive(PROP, "sync-offset%d" % off, module="MCQBFTCont", spec="SyncSpec", view="view2", Byz="{}",
                                LeaderOffset=off, MaxRound=1, ByzBudget=0, ByzActs="NoActs", Macro="TRUE",
                                properties=("FirstRoundDecision",), invariants=("Agreement",),
                                extra=['  SwitchWhen = "any"'], timeout=900)
        configs.append(info)
        states += info["distinct"]
        transitions += info["generated"]
    # ---- replay: prefixes + witness continuation of the spec, stepped through real controllers ----
    nsim = 60 if not thorough else 1200
    behs, gen = Q.simulate(PROP, "sim-cont", nsim, 140, seed, Q.params_of(), module="MCQBFTCont", spec="Spec2",
                           MaxRound=3, ByzBudget=4, ByzActs="AllActs", Macro="FALSE", invariants=("CanDecide",),
                           extra=['  SwitchWhen = "any"'], workers=4 if not thorough else 12, timeout=1500)
    transitions += gen
    # fault-free synchronous runs for heights 0..3 (leader rotation)
    sync = []
    for off in range(4):
        b, g = Q.simulate(PROP, "sim-sync-%d" % off, 4 if not thorough else 40, 40, seed + off,
                          Q.params_of(Byz=(), LeaderOffset=off), module="MCQBFTCont", spec="SyncSpec", Byz="{}",
                          LeaderOffset=off, MaxRound=1, ByzBudget=0, ByzActs="NoActs", Macro="FALSE",
                          extra=['  SwitchWhen = "any"'], workers=1)
        sync += b
        transitions += g
    for b in behs:
        last = b["steps"][-1].get("state", {}).get("st", {})
        switched = any((s["act"] or {}).get("name") == "Switch" for s in b["steps"])
        b["params"] = dict(b["params"], expectDecided=bool(switched and last and _all_decided(last)))
    for b in sync:
        last = b["steps"][-1].get("state", {}).get("st", {})
        b["params"] = dict(b["params"], expectSyncDecided=bool(last and _all_decided(last)))
    faulty = Q.faulty_copies(behs, len(behs) // 2)
    for b in faulty:
        b["params"]["expectDecided"] = False
    res, inp = Q.replay(PROP, behs + sync + faulty, "cont", cont=True)
    Q.collect(PROP, res, verdict, inp, foreign)
    # ---- the driver's own search for a deciding timely continuation from every replayed prefix ----
    abehs, stale = Q.attack_behaviours(PROP, tier, PROP)
    prefixes = [b for b in abehs if b["kind"].startswith("prefix")]
    attacks = [b for b in abehs if not b["kind"].startswith("prefix")]
    sres, sinp = _search(behs + prefixes, seed)
    Q.collect(PROP, sres, verdict, sinp, foreign)
    ares, ainp = Q.replay(PROP, attacks, "attacks")
    Q.collect(PROP, ares, verdict, ainp, foreign)

    selftest = Q.binding_selftest(PROP, behs)
    rc = verdict.report()
    div = res["counters"].get("divergences", 0)
    if div:
        log("[C07] NOTE: %d conformance divergences without a monitor trip" % div)
    cov = {
        "states": states, "transitions": transitions,
        "traces_validated_against_impl": res["behaviours"] + ares["behaviours"] + sres["behaviours"],
        "samples": res["samples"][:1],
        "evaluations": res["steps"] + ares["steps"] + sres["counters"].get("continuation_runs", 0),
        "distinct_nontrivial": res["nontrivial"] + sres["nontrivial"],
        "rule": "behaviours = TLC -simulate runs of the two-phase spec (async prefix, Switch, deterministic witness "
                "continuation) replayed on real controllers + the driver's own bounded family of timely continuations "
                "from every prefix + fault-free synchronous runs for every leader rotation + attack traces of the "
                "timeout step; non-trivial = at least one reception",
        "exhaustive": all(c["exhaustive"] for c in configs),
        "detail": {"configs": configs, "continuations_replayed": res["counters"].get("continuations", 0),
                   "continuations_decided": res["counters"].get("continuations_decided", 0),
                   "search": sres["counters"], "attack_traces": [b["id"] for b in attacks],
                   "prefixes": [b["id"] for b in prefixes], "stale_attacks": stale, "divergences": div, "binding_selftest": selftest,
                   "divergence_samples": res["divergences"][:5], "foreign_signatures_seen": foreign},
    }
    vlib.write_evidence(PROP, tier, seed, "model_checking", cov, time.time() - t0, [
        "N=4, f=1; the existential of the property is discharged by one witness strategy in the spec and a bounded "
        "family of strategies in the driver; a failing witness is evidence, not proof, that no continuation exists",
        "the Byzantine member is silent during continuations",
        "liveness (FirstRoundDecision) is checked under weak fairness without any state constraint",
    ], len(verdict.violations))
    return rc


def _search(behs, seed):
    wd = os.path.join(vlib.WORK, PROP)
    os.makedirs(wd, exist_ok=True)
    binq = vlib.go_build("qbft")
    inp = os.path.join(wd, "prefixes.ndjson")
    outp = os.path.join(wd, "search_result.json")
    res, wall = vlib.run_driver_sharded(binq, behs, inp, outp, extra=["-search", "-seed", str(seed)], timeout=3000)
    log("[C07] continuation search from %d prefixes on real controllers in %.0fs: %s" % (res["behaviours"], wall, res["counters"]))
    return res, inp


def replay(path):
    verdict = vlib.Verdict(PROP)
    binq = vlib.go_build("qbft")
    outp = os.path.join(vlib.WORK, PROP, "replay_single.json")
    os.makedirs(os.path.dirname(outp), exist_ok=True)
    args = ["-in", path, "-out", outp]
    if "prefixes" in os.path.basename(path):
        args.append("-search")
    elif "cont" in os.path.basename(path):
        args.append("-cont")
    vlib.run_driver(binq, args)
    Q.collect(PROP, json.load(open(outp)), verdict, path, {})
    return verdict.report()
