"""C03 - duty signatures are released only over the decided, validated duty data (spec/Runner.tla)."""
import json
import os
import random
import time

import vlib
from vlib import log

PROP = "C03"
MODULE = "MCRunner"
STATE_VARS = ["duty", "runH", "dval", "finished", "ctrlH", "inst", "sigLog"]
DRIVER = "runner"
NOPRE_ROLES = "attester,sync_committee"
PRE_ROLES = "proposer,proposer_blinded,aggregator,contribution"


def _tier(tier):
    if tier == "quick":
        return dict(mc=["Runner_nopre.cfg", "Runner_pre_cover.cfg"],
                    covers=[("Runner_nopre_cover.cfg", NOPRE_ROLES, 3, 260, 120), ("Runner_pre_cover.cfg", PRE_ROLES, 2, 420, 160)],
                    random_runs=150)
    return dict(mc=["Runner_nopre.cfg", "Runner_pre.cfg"],
                covers=[("Runner_nopre_cover.cfg", NOPRE_ROLES, 3, None, 12000), ("Runner_pre_cover.cfg", PRE_ROLES, 2, 5000, 5000)],
                random_runs=4000)


# (cfg, roles, removed guard)
ATTACKS = [
    ("Runner_attack_noheight.cfg", NOPRE_ROLES, "didDecideCorrectly without the height comparison"),
    ("Runner_attack_noheight_pre.cfg", PRE_ROLES, "didDecideCorrectly without the height comparison (roles with a pre-consensus phase)"),
    ("Runner_attack_norevalidate.cfg", NOPRE_ROLES, "decided value not re-validated (validateDecidedConsensusData)"),
    ("Runner_attack_norevalidate_pre.cfg", PRE_ROLES, "decided value not re-validated (roles with a pre-consensus phase)"),
    ("Runner_attack_everydecided.cfg", NOPRE_ROLES, "every decided message of the running height is reported (no prevDecided in controller and runner)"),
    ("Runner_attack_everydecided_pre.cfg", PRE_ROLES, "every decided message of the running height is reported (roles with a pre-consensus phase)"),
    ("Runner_attack_noroute.cfg", NOPRE_ROLES, "Validator.validateMessage does not compare the validator key of the message id"),
    ("Runner_attack_noroute_pre.cfg", PRE_ROLES, "validateMessage without the validator key comparison (roles with a pre-consensus phase)"),
]
# removing the runner-side prevDecided alone yields no counterexample (the controller reports a decision once): checked in thorough only
ATTACKS_THOROUGH = [
    ("Runner_attack_noprev.cfg", NOPRE_ROLES, "runner-side prevDecided only (the controller's own check still holds: no counterexample expected)"),
    ("Runner_attack_noprev_pre.cfg", PRE_ROLES, "runner-side prevDecided only, roles with a pre-consensus phase (no counterexample expected)"),
]


def _tlc(module, cfg, **kw):
    """vlib.tlc, repeated when the JVM was killed from outside (another check's timeout handler kills every TLC)."""
    r = None
    for _ in range(3):
        r = vlib.tlc(module, cfg, **kw)
        if r.finished or r.violation or r.error or (kw.get("stop_after") and r.wall >= kw["stop_after"]):
            return r
        log("[C03] TLC run of %s ended without a result after %.0fs (killed?) - repeating" % (cfg, r.wall))
    return r


def _dump(module, cfg, **kw):
    out = None
    for _ in range(3):
        out = vlib.tlc_dump_graph(module, cfg, **kw)
        if out[0].finished or out[0].violation or out[0].error:
            return out
        log("[C03] graph dump of %s ended without a result (killed?) - repeating" % cfg)
    return out


def _collect(res, verdict, replay_path):
    for v in res["violations"]:
        verdict.violation(v["signature"], "%s [%s step %d]" % (v["description"], v["behaviour"], v["step"]), replay_path)


def _drive(binp, wd, name, behs, roles, maxsig, seed, verdict, allroles=False):
    inp = os.path.join(wd, name + ".ndjson")
    outp = os.path.join(wd, name + "_result.json")
    vlib.write_ndjson(inp, behs)
    args = ["-mode", "replay", "-in", inp, "-out", outp, "-roles", roles, "-maxsig", str(maxsig), "-seed", str(seed)]
    if allroles:
        args.append("-allroles")
    vlib.run_driver(binp, args, timeout=3000)
    res = json.load(open(outp))
    _collect(res, verdict, "%s#roles=%s;maxsig=%d;seed=%d;all=%d" % (inp, roles, maxsig, seed, 1 if allroles else 0))
    return res


def run(tier, seed):
    t0 = time.time()
    T = _tier(tier)
    verdict = vlib.Verdict(PROP)
    cov = {"configs": [], "attack_traces": 0, "divergences": 0, "attack_steps_refused": 0}
    binp = vlib.go_build(DRIVER)
    wd = os.path.join(vlib.WORK, PROP)
    os.makedirs(wd, exist_ok=True)
    rng = random.Random(seed)
    states = transitions = replayed = steps = nontrivial = 0
    samples = []
    exhaustive = True
    done_cfgs = set()

    def account(res):
        nonlocal replayed, steps, nontrivial
        replayed += res["behaviours"]
        steps += res["steps"]
        nontrivial += res["nontrivial"]
        cov["divergences"] += res["counters"].get("divergences", 0)
        cov["attack_steps_refused"] += res["counters"].get("attack_steps_refused", 0)
        if res["samples"] and len(samples) < 2:
            samples.append(res["samples"][0])
        if res["divergences"] and "first_divergences" not in cov:
            cov["first_divergences"] = res["divergences"][:5]

    def record(cfg, r):
        nonlocal states, transitions, exhaustive
        cov["configs"].append({"cfg": cfg, "distinct": r.distinct, "generated": r.generated, "depth": r.depth,
                               "exhaustive": r.finished, "wall_s": round(r.wall, 1)})
        states += r.distinct
        transitions += r.generated
        exhaustive = exhaustive and bool(r.finished)
        done_cfgs.add(cfg)
        log("[C03] TLC %s: %d distinct / %d generated, finished=%s, %.1fs" % (cfg, r.distinct, r.generated, r.finished, r.wall))

    # 1. state-graph covers (each dump is an exhaustive run of its config with the invariants) replayed on the real runners
    for cfg, roles, maxsig, nleaves, extra in T["covers"]:
        rg, nodes, edges, inits = _dump(MODULE, cfg, timeout=2400, workers=8)
        if not vlib.expect_tlc_ok(rg, cfg):
            raise vlib.MachineryError("faithful Runner spec violates %s in %s (model error, not a verdict):\n%s" %
                                      (rg.violation, cfg, json.dumps(vlib.tlaval.plain([s.get("act") for s in rg.trace]))))
        record(cfg, rg)
        behs, gstat = vlib.graph_behaviours(nodes, edges, inits, seed, max_extra=extra, state_vars=STATE_VARS)
        leaves = [b for b in behs if "-leaf-" in b["id"]]
        others = [b for b in behs if "-leaf-" not in b["id"]]
        if nleaves is not None and len(leaves) > nleaves:
            rng.shuffle(leaves)
            leaves = leaves[:nleaves]
            gstat["leaves_replayed"] = nleaves
        cov["cover_" + cfg.replace(".cfg", "")] = gstat
        res = _drive(binp, wd, "cover_" + cfg.replace(".cfg", ""), leaves + others, roles, maxsig, seed, verdict)
        account(res)
        log("[C03] cover %s: %d behaviours / %d steps on the real runners, %d violations, %d divergences" %
            (cfg, res["behaviours"], res["steps"], res["counters"].get("violations", 0), res["counters"].get("divergences", 0)))

    # 2. exhaustive model checking of the larger faithful configs
    for cfg in T["mc"]:
        if cfg in done_cfgs:
            continue
        r = _tlc(MODULE, cfg, workers=8, timeout=2400, stop_after=1800 if tier == "thorough" else 300)
        if not vlib.expect_tlc_ok(r, cfg):
            raise vlib.MachineryError("faithful Runner spec violates %s in %s (model error, not a verdict):\n%s" %
                                      (r.violation, cfg, json.dumps(vlib.tlaval.plain([s.get("act") for s in r.trace]))))
        record(cfg, r)

    # 3. attack traces from the weakened spec, on every role of their family
    for cfg, roles, desc in ATTACKS + (ATTACKS_THOROUGH if tier == "thorough" else []):
        ra = _tlc(MODULE, cfg, workers=4, timeout=900)
        if ra.error:
            raise vlib.MachineryError("attack config %s: %s" % (cfg, ra.error))
        if not ra.violation:
            log("[C03] attack config %s produced no counterexample (not counted)" % cfg)
            continue
        b = vlib.trace_behaviour(ra.trace, "attack-" + cfg.replace(".cfg", ""), "attack:" + desc, state_vars=STATE_VARS)
        cov["attack_traces"] += 1
        res = _drive(binp, wd, "attack_" + cfg.replace(".cfg", ""), [b], roles, 4, seed, verdict, allroles=True)
        account(res)

    # 4. the harness's own random executions at the grain of single messages, monitors only
    outr = os.path.join(wd, "random_result.json")
    vlib.run_driver(binp, ["-mode", "random", "-out", outr, "-seed", str(seed), "-runs", str(T["random_runs"])], timeout=3000)
    res = json.load(open(outr))
    _collect(res, verdict, "random:seed=%d;runs=%d" % (seed, T["random_runs"]))
    account(res)
    cov["random_runs"] = res["behaviours"]

    rc = verdict.report()
    if cov["divergences"] and rc == 0:
        log("[C03] NOTE: %d conformance divergences without a monitor trip (see evidence)" % cov["divergences"])
    coverage = {
        "states": states, "transitions": transitions,
        "traces_validated_against_impl": replayed,
        "samples": samples,
        "evaluations": steps,
        "distinct_nontrivial": nontrivial,
        "rule": "behaviours = BFS-tree leaves of the dumped state graphs (seeded sample in quick) + seeded non-tree edges, rotated over the "
                "roles of the family (no pre-consensus: attester, sync committee; pre-consensus: proposer full/blinded, aggregator, "
                "contribution) + attack traces on every role + seeded random executions at single-message grain; "
                "non-trivial = the real key manager made at least one validator-key signature",
        "exhaustive": exhaustive,
        "detail": cov,
    }
    vlib.write_evidence(PROP, tier, seed, "model_checking", coverage, time.time() - t0, [
        "heights/slots 1..3, values {own proposal, other valid value, value failing the value check}; the height-0 special cases of the controller belong to C15",
        "the deciding sequence of a height and the quorum of partial signatures are macro steps in the spec (split and interleaved in the random executions)",
        "\"validator-key signature\" = KeyManager.SignBeaconObject; SignRoot (QBFT and envelope signatures) is not constrained by C03",
        "operator 1 of a 4-operator committee is observed (7 operators in a quarter of the random executions); it is also the round-1 leader",
    ], len(verdict.violations))
    return rc


def replay(path):
    binp = vlib.go_build(DRIVER)
    verdict = vlib.Verdict(PROP)
    wd = os.path.join(vlib.WORK, PROP)
    os.makedirs(wd, exist_ok=True)
    outp = os.path.join(wd, "replay_single.json")
    if path.startswith("random:"):
        kv = dict(x.split("=") for x in path[len("random:"):].split(";"))
        vlib.run_driver(binp, ["-mode", "random", "-out", outp, "-seed", kv["seed"], "-runs", kv["runs"]])
    else:
        f, _, params = path.partition("#")
        kv = dict(x.split("=") for x in params.split(";")) if params else {}
        args = ["-mode", "replay", "-in", f, "-out", outp, "-maxsig", kv.get("maxsig", "4"), "-seed", kv.get("seed", "1")]
        if kv.get("roles"):
            args += ["-roles", kv["roles"]]
        if kv.get("all") == "1":
            args.append("-allroles")
        vlib.run_driver(binp, args)
    _collect(json.load(open(outp)), verdict, path)
    return verdict.report()
