"""C03 - duty signatures are released only over the decided, validated duty data (spec/Runner.tla)."""
import json
import os
import random
import time

import vlib
from vlib import log

PROP = "C03"
MODULE = "MCRunner"
STATE_VARS = ["duty", "runH", "runIn", "dval", "finished", "ctrlH", "stored", "sigLog"]
DRIVER = "runner"
NOPRE_ROLES = "attester,sync_committee"
PRE_ROLES = "proposer,proposer_blinded,aggregator,contribution"


def _tier(tier):
    # covers: (cfg, roles, MaxSig of the cfg, leaves replayed (None = all), of which eviction histories first, extra edges)
    if tier == "quick":
        return dict(mc=["Runner_nopre.cfg", "Runner_pre.cfg"],
                    covers=[("Runner_evict_cover.cfg", NOPRE_ROLES, 3, 260, 150, 100),
                            ("Runner_evict_pre_cover.cfg", PRE_ROLES, 2, 300, 180, 80)],
                    random_runs=120)
    return dict(mc=["Runner_nopre.cfg", "Runner_pre.cfg"],
                covers=[("Runner_nopre_cover.cfg", NOPRE_ROLES, 3, None, 0, 5000),
                        ("Runner_pre_cover.cfg", PRE_ROLES, 2, 4000, 0, 2000),
                        ("Runner_evict_cover.cfg", NOPRE_ROLES, 3, None, 0, 4000),
                        ("Runner_evict_pre_cover.cfg", PRE_ROLES, 2, 5000, 3000, 2000)],
                random_runs=4000)


# (cfg, roles, removed / changed guard)
ATTACKS = [
    ("Runner_attack_noheight.cfg", NOPRE_ROLES, "didDecideCorrectly without the height comparison"),
    ("Runner_attack_norevalidate.cfg", NOPRE_ROLES, "decided value not re-validated (validateDecidedConsensusData)"),
    ("Runner_attack_everydecided.cfg", NOPRE_ROLES, "every decided message of the running height is reported (no prevDecided in controller and runner)"),
    ("Runner_attack_noroute_pre.cfg", PRE_ROLES, "validateMessage without the validator key comparison (roles with a pre-consensus phase)"),
    ("Runner_attack_prevfromcontainer.cfg", NOPRE_ROLES, "prevDecided read from the controller's 2-slot container instead of State.RunningInstance: "
     "decided, two future decided messages evict the instance, replay of the decided message"),
    ("Runner_attack_prevfromcontainer_pre.cfg", PRE_ROLES, "prevDecided read from the controller's container (roles with a pre-consensus phase)"),
]
# thorough only: the other role family of each removed guard; removing the runner-side prevDecided alone yields no counterexample
# (the controller reports a decision once)
ATTACKS_THOROUGH = [
    ("Runner_attack_noheight_pre.cfg", PRE_ROLES, "didDecideCorrectly without the height comparison (roles with a pre-consensus phase)"),
    ("Runner_attack_norevalidate_pre.cfg", PRE_ROLES, "decided value not re-validated (roles with a pre-consensus phase)"),
    ("Runner_attack_everydecided_pre.cfg", PRE_ROLES, "every decided message of the running height is reported (roles with a pre-consensus phase)"),
    ("Runner_attack_noroute.cfg", NOPRE_ROLES, "Validator.validateMessage does not compare the validator key of the message id"),
    ("Runner_attack_noprev.cfg", NOPRE_ROLES, "runner-side prevDecided only (the controller's own check still holds: no counterexample expected)"),
    ("Runner_attack_noprev_pre.cfg", PRE_ROLES, "runner-side prevDecided only, roles with a pre-consensus phase (no counterexample expected)"),
]
# named deviation of the pinned commit (C03 finding signed-twice-evicted-undecided): its counterexample also tells which variant the tree implements
DETACHED = [("Runner_attack_code_detached.cfg", NOPRE_ROLES), ("Runner_attack_code_detached_pre.cfg", PRE_ROLES)]
DETACHED_DESC = ("prevDecided of the pinned commit: the running instance is pushed out of the controller's 2-slot container before it "
                 "decided, every delivery of its height's decided message signs again")


def _with_prevdec(cfg, variant):
    """cfg text with PrevDec set to the variant the tree implements; the repaired variant also keeps OnceDetached"""
    txt = open(os.path.join(vlib.SPEC, cfg)).read()
    if variant == "fixed":
        txt = txt.replace('PrevDec = "code"', 'PrevDec = "fixed"')
        if "INVARIANT SigWindow" in txt and "OnceDetached" not in txt:
            txt = txt.replace("INVARIANT SigWindow\n", "INVARIANT SigWindow\nINVARIANT OnceDetached\n")
    return {cfg: txt}


def _is_eviction_history(beh):
    """>= 2 decided messages for heights above the running duty, later a decided message for the duty's own height"""
    duty, above, hit = 0, set(), False
    for st in beh["steps"]:
        a = st["act"]
        if a.get("name") == "StartDuty" and a.get("ok"):
            duty, above = a["s"], set()
        elif a.get("name") == "RecvDecided" and duty:
            if a["h"] > duty:
                above.add(a["h"])
            elif a["h"] == duty and len(above) >= 2:
                hit = True
    return hit


def _tlc(module, cfg, **kw):
    """vlib.tlc, repeated when the JVM was killed from outside (another check's timeout handler kills every TLC)."""
    r = None
    for _ in range(3):
        r = vlib.tlc(module, cfg, **kw)
        if r.finished or r.violation or r.error or (kw.get("stop_after") and r.wall >= kw["stop_after"]):
            return r
        log("[C03] TLC run of %s ended without a result after %.0fs (killed?) - repeating" % (cfg, r.wall))
    return r


def _dump(module, cfg, **kw):
    out = None
    for _ in range(3):
        out = vlib.tlc_dump_graph(module, cfg, **kw)
        if out[0].finished or out[0].violation or out[0].error:
            return out
        log("[C03] graph dump of %s ended without a result (killed?) - repeating" % cfg)
    return out


def _collect(res, verdict, replay_path):
    for v in res["violations"]:
        verdict.violation(v["signature"], "%s [%s step %d]" % (v["description"], v["behaviour"], v["step"]), replay_path)


def _drive(binp, wd, name, behs, roles, maxsig, seed, verdict, allroles=False):
    inp = os.path.join(wd, name + ".ndjson")
    outp = os.path.join(wd, name + "_result.json")
    vlib.write_ndjson(inp, behs)
    args = ["-mode", "replay", "-in", inp, "-out", outp, "-roles", roles, "-maxsig", str(maxsig), "-seed", str(seed)]
    if allroles:
        args.append("-allroles")
    vlib.run_driver(binp, args, timeout=3000)
    res = json.load(open(outp))
    _collect(res, verdict, "%s#roles=%s;maxsig=%d;seed=%d;all=%d" % (inp, roles, maxsig, seed, 1 if allroles else 0))
    return res


def run(tier, seed):
    t0 = time.time()
    T = _tier(tier)
    verdict = vlib.Verdict(PROP)
    cov = {"configs": [], "attack_traces": 0, "divergences": 0, "attack_steps_refused": 0}
    binp = vlib.go_build(DRIVER)
    wd = os.path.join(vlib.WORK, PROP)
    os.makedirs(wd, exist_ok=True)
    rng = random.Random(seed)
    states = transitions = replayed = steps = nontrivial = 0
    samples = []
    exhaustive = True
    done_cfgs = set()

    def account(res):
        nonlocal replayed, steps, nontrivial
        replayed += res["behaviours"]
        steps += res["steps"]
        nontrivial += res["nontrivial"]
        cov["divergences"] += res["counters"].get("divergences", 0)
        cov["attack_steps_refused"] += res["counters"].get("attack_steps_refused", 0)
        if res["samples"] and len(samples) < 2:
            samples.append(res["samples"][0])
        if res["divergences"] and "first_divergences" not in cov:
            cov["first_divergences"] = res["divergences"][:5]

    def record(cfg, r):
        nonlocal states, transitions, exhaustive
        cov["configs"].append({"cfg": cfg, "distinct": r.distinct, "generated": r.generated, "depth": r.depth,
                               "exhaustive": r.finished, "wall_s": round(r.wall, 1)})
        states += r.distinct
        transitions += r.generated
        exhaustive = exhaustive and bool(r.finished)
        done_cfgs.add(cfg)
        log("[C03] TLC %s: %d distinct / %d generated, finished=%s, %.1fs" % (cfg, r.distinct, r.generated, r.finished, r.wall))

    # 0. the named deviation of the pinned commit (finding signed-twice-evicted-undecided): replay its counterexample; the
    #    outcome tells which variant of PrevDec the tree implements, the covers below are generated from that variant
    variant = "fixed"
    for cfg, roles in DETACHED:
        ra = _tlc(MODULE, cfg, workers=4, timeout=900)
        if ra.error or not ra.violation:
            raise vlib.MachineryError("deviation config %s produced no counterexample: %s" % (cfg, ra.error))
        b = vlib.trace_behaviour(ra.trace, "attack-" + cfg.replace(".cfg", ""), "attack:" + DETACHED_DESC, state_vars=STATE_VARS)
        cov["attack_traces"] += 1
        res = _drive(binp, wd, "attack_" + cfg.replace(".cfg", ""), [b], roles, 4, seed, verdict, allroles=True)
        account(res)
        if any(v["signature"] == "signed-twice-evicted-undecided" for v in res["violations"]):
            variant = "code"
    cov["prevdec_variant_of_tree"] = variant
    log("[C03] the runners of this tree follow PrevDec=%s of the spec" % variant)

    # 1. state-graph covers (each dump is an exhaustive run of its config with the invariants) replayed on the real runners
    for cfg, roles, maxsig, nleaves, nevict, extra in T["covers"]:
        rg, nodes, edges, inits = _dump(MODULE, cfg, timeout=2400, workers=8, files=_with_prevdec(cfg, variant))
        if not vlib.expect_tlc_ok(rg, cfg):
            raise vlib.MachineryError("faithful Runner spec violates %s in %s (model error, not a verdict):\n%s" %
                                      (rg.violation, cfg, json.dumps(vlib.tlaval.plain([s.get("act") for s in rg.trace]))))
        record(cfg, rg)
        behs, gstat = vlib.graph_behaviours(nodes, edges, inits, seed, max_extra=extra, state_vars=STATE_VARS)
        leaves = [b for b in behs if "-leaf-" in b["id"]]
        others = [b for b in behs if "-leaf-" not in b["id"]]
        ev = [b for b in leaves if _is_eviction_history(b)]
        gstat["eviction_histories"] = len(ev)
        if nleaves is not None and len(leaves) > nleaves:
            rng.shuffle(ev)
            ev = ev[:nevict]
            evids = set(b["id"] for b in ev)
            rest = [b for b in leaves if b["id"] not in evids]
            rng.shuffle(rest)
            leaves = ev + rest[:max(0, nleaves - len(ev))]
            gstat["leaves_replayed"] = len(leaves)
            gstat["eviction_histories_replayed"] = len(ev)
        cov["cover_" + cfg.replace(".cfg", "")] = gstat
        res = _drive(binp, wd, "cover_" + cfg.replace(".cfg", ""), leaves + others, roles, maxsig, seed, verdict)
        account(res)
        log("[C03] cover %s: %d behaviours / %d steps on the real runners, %d violations, %d divergences" %
            (cfg, res["behaviours"], res["steps"], res["counters"].get("violations", 0), res["counters"].get("divergences", 0)))

    # 2. exhaustive model checking of the larger faithful configs
    for cfg in T["mc"]:
        if cfg in done_cfgs:
            continue
        r = _tlc(MODULE, cfg, workers=8, timeout=2400, stop_after=1800 if tier == "thorough" else 300, files=_with_prevdec(cfg, variant))
        if not vlib.expect_tlc_ok(r, cfg):
            raise vlib.MachineryError("faithful Runner spec violates %s in %s (model error, not a verdict):\n%s" %
                                      (r.violation, cfg, json.dumps(vlib.tlaval.plain([s.get("act") for s in r.trace]))))
        record(cfg, r)

    # 3. attack traces from the weakened spec, on every role of their family
    for cfg, roles, desc in ATTACKS + (ATTACKS_THOROUGH if tier == "thorough" else []):
        ra = _tlc(MODULE, cfg, workers=4, timeout=900, files=_with_prevdec(cfg, variant))
        if ra.error:
            raise vlib.MachineryError("attack config %s: %s" % (cfg, ra.error))
        if not ra.violation:
            log("[C03] attack config %s produced no counterexample (not counted)" % cfg)
            continue
        b = vlib.trace_behaviour(ra.trace, "attack-" + cfg.replace(".cfg", ""), "attack:" + desc, state_vars=STATE_VARS)
        cov["attack_traces"] += 1
        res = _drive(binp, wd, "attack_" + cfg.replace(".cfg", ""), [b], roles, 4, seed, verdict, allroles=True)
        account(res)

    # 4. the harness's own random executions at the grain of single messages, monitors only
    outr = os.path.join(wd, "random_result.json")
    vlib.run_driver(binp, ["-mode", "random", "-out", outr, "-seed", str(seed), "-runs", str(T["random_runs"])], timeout=3000)
    res = json.load(open(outr))
    _collect(res, verdict, "random:seed=%d;runs=%d" % (seed, T["random_runs"]))
    account(res)
    cov["random_runs"] = res["behaviours"]

    rc = verdict.report()
    if cov["divergences"] and rc == 0:
        log("[C03] NOTE: %d conformance divergences without a monitor trip (see evidence)" % cov["divergences"])
    coverage = {
        "states": states, "transitions": transitions,
        "traces_validated_against_impl": replayed,
        "samples": samples,
        "evaluations": steps,
        "distinct_nontrivial": nontrivial,
        "rule": "behaviours = BFS-tree leaves of the dumped state graphs (seeded sample in quick) + seeded non-tree edges, rotated over the "
                "roles of the family (no pre-consensus: attester, sync committee; pre-consensus: proposer full/blinded, aggregator, "
                "contribution) + attack traces on every role + seeded random executions at single-message grain; "
                "non-trivial = the real key manager made at least one validator-key signature",
        "exhaustive": exhaustive,
        "detail": cov,
    }
    vlib.write_evidence(PROP, tier, seed, "model_checking", coverage, time.time() - t0, [
        "heights/slots 1..3, values {own proposal, other valid value, value failing the value check}; the height-0 special cases of the controller belong to C15",
        "the deciding sequence of a height and the quorum of partial signatures are macro steps in the spec (split and interleaved in the random executions)",
        "\"validator-key signature\" = KeyManager.SignBeaconObject; SignRoot (QBFT and envelope signatures) is not constrained by C03",
        "operator 1 of a 4-operator committee is observed (7 operators in a quarter of the random executions); it is also the round-1 leader",
    ], len(verdict.violations))
    return rc


def replay(path):
    binp = vlib.go_build(DRIVER)
    verdict = vlib.Verdict(PROP)
    wd = os.path.join(vlib.WORK, PROP)
    os.makedirs(wd, exist_ok=True)
    outp = os.path.join(wd, "replay_single.json")
    if path.startswith("random:"):
        kv = dict(x.split("=") for x in path[len("random:"):].split(";"))
        vlib.run_driver(binp, ["-mode", "random", "-out", outp, "-seed", kv["seed"], "-runs", kv["runs"]])
    else:
        f, _, params = path.partition("#")
        kv = dict(x.split("=") for x in params.split(";")) if params else {}
        args = ["-mode", "replay", "-in", f, "-out", outp, "-maxsig", kv.get("maxsig", "4"), "-seed", kv.get("seed", "1")]
        if kv.get("roles"):
            args += ["-roles", kv["roles"]]
        if kv.get("all") == "1":
            args.append("-allroles")
        vlib.run_driver(binp, args)
    _collect(json.load(open(outp)), verdict, path)
    return verdict.report()
